#!/bin/sh
# usage: tools/mutant.sh <file-under-src/pydrobert/torch> <sed-expr> <check-id> [tier]
# applies a sed expression to a scratch copy of /repo/src and runs the check against it
set -e
f="$1"; expr="$2"; id="$3"; tier="${4:-quick}"
d=$(mktemp -d /tmp/vfmut.XXXXXX)
cp -r /repo/src "$d/src"
sed -i "$expr" "$d/src/pydrobert/torch/$f"
if diff -q /repo/src/pydrobert/torch/$f "$d/src/pydrobert/torch/$f" >/dev/null; then echo "MUTANT DID NOT APPLY"; rm -rf "$d"; exit 3; fi
diff /repo/src/pydrobert/torch/$f "$d/src/pydrobert/torch/$f" | head -6
cd "$(dirname "$0")/.."
set +e
VF_REPO_SRC="$d/src" ./check "$id" "$tier" 2>&1 | grep -v -i "warn" | grep -E "VIOLATION|KNOWN|MACHINERY|^C[0-9]+ |^  \{" | head -8
rm -rf "$d"
