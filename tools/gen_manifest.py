#!/usr/bin/env python3
"""Regenerate /verif/MANIFEST.json from tools/manifest_table.json (one entry per claimed property)."""
import json, os
here = os.path.dirname(os.path.abspath(__file__))
root = os.path.dirname(here)
tab = json.load(open(os.path.join(here, "manifest_table.json")))
checks = []
for e in tab["checks"]:
    pid = e["id"]
    checks.append(dict(
        property_id=pid,
        quick_cmd="./check %s quick" % pid,
        thorough_cmd="./check %s thorough" % pid,
        evidence_file="/verif/evidence/%s.json" % pid,
        replay_cmd_template="./check %s --replay {path}" % pid,
        engine=e.get("engine", "tlc+replay"),
        level_claimed=dict(category=e["category"], text=e["text"], design_ref=e["design_ref"]),
        level_note=e["note"],
        technique=e["technique"],
    ))
man = dict(
    version=1,
    setup_cmd="sh tools/setup.sh",
    hooks=dict(
        guard="PYDROBERT_TORCH_VERIF",
        enable="no source hooks are needed: checks import pydrobert.torch straight from /repo/src (PYTHONPATH) and observe it through test doubles installed by the harness; ./check exports PYDROBERT_TORCH_VERIF=1 for forward compatibility",
        baseline_off_cmd="cd /repo && /venv/bin/python -m pytest -ra -q -p no:cacheprovider --timeout=900 --continue-on-collection-errors",
        source_commits=tab.get("hook_commits", []),
        add_only=True,
    ),
    engines=tab["engines"],
    checks=checks,
    notes=tab["notes"],
    not_applicable=tab["not_applicable"],
)
json.dump(man, open(os.path.join(root, "MANIFEST.json"), "w"), indent=1)
print("wrote MANIFEST.json with %d checks, %d not applicable" % (len(checks), len(tab["not_applicable"])))
