#!/bin/sh
# offline set-up: nothing to build; verify the tools the checks rely on are present
set -e
cd "$(dirname "$0")/.."
test -f /opt/veriftools/tla/tla2tools.jar
java -version >/dev/null 2>&1
/venv/bin/python -c "import torch, numpy" 
mkdir -p evidence replays
chmod +x check
echo "vf setup ok"
