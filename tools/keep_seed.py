#!/usr/bin/env python3
"""usage: tools/keep_seed.py <src dir> <name> <caught_by text> [<strengthened note>]
Copies a confirmed seeded change to /verif/seeded/<name>/ and completes its meta.json."""
import json, os, shutil, sys
src, name, caught = sys.argv[1:4]
note = sys.argv[4] if len(sys.argv) > 4 else ""
dst = os.path.join(os.path.dirname(os.path.dirname(os.path.abspath(__file__))), "seeded", name)
os.makedirs(dst, exist_ok=True)
for f in ("patch.diff", "demo.py"):
    shutil.copy(os.path.join(src, f), os.path.join(dst, f))
meta = json.load(open(os.path.join(src, "meta.json")))
meta["confirmed_by_main_session"] = ("tools/try_seed.sh: patch applied to a scratch copy of /repo (never to /repo); demo.py exits 0 on the "
                                     "unchanged tree and non-zero with the change; the repository tests named in tests_run were run by the "
                                     "seeding agent with the change applied")
meta["caught_by"] = caught
if note:
    meta["check_strengthened"] = note
json.dump(meta, open(os.path.join(dst, "meta.json"), "w"), indent=1)
print("kept", dst)
