#!/usr/bin/env python3
"""usage: tools/seed_table.py  -- rewrites the seeded-changes table of DESIGN.md (between the markers
<!-- seed-table-begin --> and <!-- seed-table-end -->) from seeded/*/meta.json"""
import json, os, re
root = os.path.dirname(os.path.dirname(os.path.abspath(__file__)))
rows = []
names = sorted(os.listdir(os.path.join(root, "seeded")), key=lambda s: (s.split("-")[0], int(s.split("-")[1])))
tally = dict(yes=0, strengthened=0, no=0)
for name in names:
    m = json.load(open(os.path.join(root, "seeded", name, "meta.json")))
    summ = " ".join(m["summary"].split())
    if len(summ) > 200:
        summ = summ[:200] + "..."
    by = " ".join(m.get("caught_by", "").split())
    if by.startswith("NOT CAUGHT"):
        caught = "no (not attempted)" if "not attempted" in by[:60] else "no (out of scope)"
        tally["no"] += 1
    elif m.get("check_strengthened"):
        caught = "after strengthening"
        tally["strengthened"] += 1
    else:
        caught = "yes"
        tally["yes"] += 1
    if len(by) > 220:
        by = by[:220] + "..."
    rows.append("| %s | %s | %s | %s |" % (name, summ.replace("|", "/"), caught, by.replace("|", "/")))
table = "\n".join(["<!-- seed-table-begin -->",
                   "%d seeded changes: %d caught as the checks stood, %d after strengthening, %d recorded as not caught (out of scope or not attempted)." % (
                       len(rows), tally["yes"], tally["strengthened"], tally["no"]),
                   "", "| seed | change | caught | by |", "|---|---|---|---|"] + rows + ["<!-- seed-table-end -->"])
p = os.path.join(root, "DESIGN.md")
s = open(p).read()
if "<!-- seed-table-begin -->" in s:
    s = re.sub(r"<!-- seed-table-begin -->.*?<!-- seed-table-end -->", lambda _: table, s, flags=re.S)
else:
    s = re.sub(r"\| seed \| change \| caught \| by \|\n\|---\|---\|---\|---\|\n(?:\|.*\n)+", lambda _: table + "\n", s)
open(p, "w").write(s)
print(len(rows), tally)
