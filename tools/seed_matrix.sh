#!/bin/sh
# Runs every kept seeded change against the quick check of its property (scratch copies only) and prints
# one line per seed: <seed> <caught|MISSED> <first violation kind>.  Usage: sh tools/seed_matrix.sh [ids...]
cd "$(dirname "$0")/.."
for d in seeded/*/; do
  name=$(basename "$d"); id=${name%%-*}
  if [ $# -gt 0 ]; then case " $* " in *" $id "*) ;; *) continue;; esac; fi
  out=$(tools/try_seed.sh "$d" "$id" quick 2>&1)
  if echo "$out" | grep -q "^VIOLATION"; then
    echo "$name caught $(echo "$out" | grep -m1 '^VIOLATION' | sed 's/.*replays\///')"
  elif echo "$out" | grep -q "MACHINERY"; then
    echo "$name MACHINERY $(echo "$out" | grep -m1 MACHINERY | cut -c1-160)"
  else
    echo "$name MISSED"
  fi
done
