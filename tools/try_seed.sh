#!/bin/sh
# usage: tools/try_seed.sh <dir with patch.diff demo.py meta.json> <check-id> [tier] [more check ids...]
# Applies the seeded change to a scratch copy of /repo (never to /repo itself), confirms the demonstration
# fails with it and passes without it, and runs the named check(s) against the changed copy.
set -u
dir="$(cd "$1" && pwd)"; id="$2"; tier="${3:-quick}"
here="$(cd "$(dirname "$0")/.." && pwd)"
d=$(mktemp -d /tmp/vfseed.XXXXXX)
# a seed whose meta.json names a "base_commit" only manifests on that (earlier) commit of /repo - e.g. because a later
# fix: commit made the change behaviour-preserving; it is applied to, and compared with, that commit's tree
base=$(/venv/bin/python -c "import json,sys; print(json.load(open(sys.argv[1])).get('base_commit',''))" "$dir/meta.json" 2>/dev/null)
mkdir -p "$d/repo" "$d/clean"
if [ -n "$base" ]; then
  git -C /repo archive "$base" src tests | tar -x -C "$d/repo" && git -C /repo archive "$base" src | tar -x -C "$d/clean"
  clean="$d/clean/src"; echo "(base commit $base)"
else
  cp -r /repo/src /repo/tests "$d/repo/" 2>/dev/null; clean=/repo/src
fi
cd "$d/repo"
if ! patch -p1 -s < "$dir/patch.diff"; then echo "SEED: PATCH DOES NOT APPLY"; rm -rf "$d"; exit 3; fi
echo "SEED $dir"
PYTHONPATH="$clean" /venv/bin/python "$dir/demo.py" >/dev/null 2>&1; echo "  demo on clean /repo: exit $?  (want 0)"
PYTHONPATH="$d/repo/src" /venv/bin/python "$dir/demo.py" >/dev/null 2>&1; echo "  demo with change:    exit $?  (want non-zero)"
cd "$here"
VF_REPO_SRC="$d/repo/src" ./check "$id" "$tier" 2>&1 | grep -E "^VIOLATION|^KNOWN|MACHINERY|^C[0-9]+ " | cut -c1-220 | head -6
rm -rf "$d"
