\* histories: epochs 0..1, construction at any epoch, re-construction, get_samples_for_epoch; one live iterator at a time; all permutations (lazily) for N <= 3
INIT Init
NEXT Next
CONSTANTS
  MaxN = 3
  MaxW = 2
  ModeSet <- AllModes
  KindSet <- BothKinds
  RandomMaxN = 3
  Seeds = {1}
  MaxEpoch = 1
  MaxOps = 1000
  Schedule = "serial"
  Features <- PathFeatures
VIEW View
INVARIANT TypeOK
INVARIANT RefusesExactly
INVARIANT CoordinatesAgree
INVARIANT LenIsYielded
INVARIANT PathIndependent
INVARIANT LivePrefixes
INVARIANT WellFormedLists
INVARIANT Disjoint
INVARIANT Cover
INVARIANT IgnoreGivesAll
INVARIANT SliceOfFull
INVARIANT SequentialIsIdentity
CHECK_DEADLOCK FALSE

