\* maximal ties: uniform next-token weights, V = 2; every tie resolution is a behaviour
INIT Init
NEXT Next
CONSTANTS
  Vs = {2}
  TVs = {3}
  Widths = {1, 2, 3, 30}
  MaxItersS = {0, 1, 2, 3}
  NoEos = NoEos
INVARIANT ScoreIsChain
INVARIANT StopsAtFirstEos
INVARIANT Shape
INVARIANT FullSetWhenWide
INVARIANT Export
INVARIANT ExportStep
CHECK_DEADLOCK FALSE
