--------------------------- MODULE TrainLoopTrace ---------------------------
(***************************************************************************)
(* code -> spec for X04: validates recorded runs of whole training jobs    *)
(* (REAL TrainingStateController + REAL SpectDataLoader on real files,      *)
(* killed and restarted where a behaviour of TrainLoop says) against        *)
(* TrainLoop.tla.  Every event is consumed through the ORIGINAL action of   *)
(* TrainLoop conjoined with what was logged; the design invariants of       *)
(* TrainLoop are evaluated after every event.                               *)
(*                                                                         *)
(* Never logged, inferred:                                                  *)
(*  - Perm(S, k), the batches of loader epoch k: bound the first time       *)
(*    position j of epoch k is observed; every later observation of (k, j)  *)
(*    - in another process image, after any number of restarts - must show  *)
(*    the same utterances in the same order;                                *)
(*  - w0, the initial weight (a function of params.seed): bound at the      *)
(*    first start at epoch 0, must be reproduced by every later one.        *)
(* The implementation's weight is an integer: w := (31 w + u) mod P for     *)
(* every utterance number u of a batch, in batch order.  The abstract       *)
(* weight of TrainLoop (sequence of <<k, j>>) is interpreted through the    *)
(* inferred Perm and must give exactly the logged integer - in memory after *)
(* every batch and every start, and in every checkpoint written.            *)
(*                                                                         *)
(* Trace file (env TRACE_FILE): [{tid, p, keep, M, nb, n, events}], events  *)
(* {op, e, a, w, x, l, k, v, c, ids}:                                       *)
(*  start(e = get_last_epoch(), a = loader.epoch, w = weight loaded, x =    *)
(*  weight tag of the optimizer loaded, l = rate index) | start_failed |     *)
(*  begin(e = get_last_epoch(), a = loader.epoch) | finish | batch(ids, w)  *)
(*  | update(e, v) | makedirs | mktemp | write(k, w, l) | replace(k, e) |    *)
(*  append(e, v, l, a = es_patience_cd) | remove(k, e) | updated(c) | crash  *)
(*  | best(e = get_best_epoch(), w = weight load_model_for_epoch gives).     *)
(***************************************************************************)
EXTENDS TrainLoopMC, IOUtils, TLCExt

Traces == JsonDeserialize(IOEnv.TRACE_FILE)

VARIABLES ti, tpos,
          perm,   \* k -> (j -> sequence of utterance numbers), lazily bound
          w0      \* initial weight, -1 = not seen yet
tvars == <<vars, ti, tpos, perm, w0>>

T == Traces[ti]
Events == T.events

Modulus == 1000003
RECURSIVE HashIds(_, _)
HashIds(w, ids) == IF ids = <<>> THEN w ELSE HashIds((w * 31 + ids[1]) % Modulus, Tail(ids))
RECURSIVE HashProv(_, _, _)
HashProv(w, pv, prm) == IF pv = <<>> THEN w
                        ELSE HashProv(HashIds(w, prm[pv[1][1]][pv[1][2]]), Tail(pv), prm)
Weight(pv, prm) == HashProv(w0, pv, prm)          \* the integer the abstract weight pv stands for

IsBound(k, j) == k \in DOMAIN perm /\ j \in DOMAIN perm[k]
BindOK(k, j, ids) == IsBound(k, j) => perm[k][j] = ids
Bind(k, j, ids) == IF k \in DOMAIN perm THEN [perm EXCEPT ![k] = Put(@, j, ids)] ELSE Put(perm, k, (j :> ids))

\* every inferred epoch order is a piece of a permutation of the n utterances, a whole one when complete
SeqSet(s) == {s[i] : i \in 1..Len(s)}
PermOK ==
  \A k \in DOMAIN perm :
     /\ \A j \in DOMAIN perm[k] : /\ SeqSet(perm[k][j]) \subseteq 1..T.n
                                  /\ Cardinality(SeqSet(perm[k][j])) = Len(perm[k][j])
                                  /\ Len(perm[k][j]) >= 1
     /\ \A i, j \in DOMAIN perm[k] : i # j => SeqSet(perm[k][i]) \cap SeqSet(perm[k][j]) = {}
     /\ DOMAIN perm[k] = 1..nb => UNION {SeqSet(perm[k][j]) : j \in 1..nb} = 1..T.n

AllInv ==
  /\ TypeOK /\ NeverBroken /\ ResumeIsTransparent /\ MemoryIsReference /\ NoEpochTwiceNoEpochSkipped
  /\ LoaderEpochMatchesController /\ SameStopDecision /\ MemoryIsDisk /\ PermOK
FailedInvs ==
  (IF TypeOK THEN {} ELSE {"TypeOK"})
  \cup (IF NeverBroken THEN {} ELSE {"NeverBroken"})
  \cup (IF ResumeIsTransparent THEN {} ELSE {"ResumeIsTransparent"})
  \cup (IF MemoryIsReference THEN {} ELSE {"MemoryIsReference"})
  \cup (IF NoEpochTwiceNoEpochSkipped THEN {} ELSE {"NoEpochTwiceNoEpochSkipped"})
  \cup (IF LoaderEpochMatchesController THEN {} ELSE {"LoaderEpochMatchesController"})
  \cup (IF SameStopDecision THEN {} ELSE {"SameStopDecision"})
  \cup (IF MemoryIsDisk THEN {} ELSE {"MemoryIsDisk"})
  \cup (IF PermOK THEN {} ELSE {"PermOK"})
Diag == IOEnv.PROGRESS = "1"

TInit ==
  \E i \in 1..Len(Traces) :
    /\ ti = i /\ tpos = 0
    /\ p = Traces[i].p /\ keep = Traces[i].keep /\ M = Traces[i].M /\ nb = Traces[i].nb
    /\ rows = <<>> /\ fs = <<>> /\ proc = Dead /\ plan = NoPlan /\ log = <<>> /\ sched = <<>>
    /\ ref = RefRun
    /\ perm = <<>> /\ w0 = -1

Same == UNCHANGED <<perm, w0>>
Kind(call) == IF call \in {"mkdM", "tmpM", "wrM", "replM"} THEN "m" ELSE "o"

TNext ==
  /\ tpos < Len(Events) /\ FailedInvs = {}
  /\ tpos' = tpos + 1 /\ ti' = ti
  /\ LET ev == Events[tpos + 1]
     IN CASE ev.op = "start" ->
               /\ Start /\ proc'.phase = "check"
               /\ ev.e = LastE(proc'.mem) /\ ev.a = proc'.lep /\ ev.l = proc'.lrk
               /\ IF ev.e = 0
                  THEN (w0 = -1 \/ w0 = ev.w) /\ w0' = ev.w /\ ev.w >= 0
                  ELSE /\ w0 >= 0 /\ w0' = w0
                       /\ ev.w = Weight(proc'.w, perm)
                       /\ ev.x = Weight(fs[Nm("o", ev.e)].w, perm)
               /\ UNCHANGED perm
          [] ev.op = "start_failed" -> Start /\ proc'.phase = "broken" /\ Same
          [] ev.op = "begin" -> BeginEpoch /\ ev.e = LastE(proc.mem) /\ ev.a = proc.lep /\ Same
          [] ev.op = "finish" -> Finish /\ Same
          [] ev.op = "batch" ->
               /\ Batch
               /\ BindOK(proc.itk, proc.pos + 1, ev.ids)
               /\ perm' = Bind(proc.itk, proc.pos + 1, ev.ids)
               /\ w0 >= 0 /\ w0' = w0
               /\ ev.w = HashProv(w0, proc'.w, perm')
          [] ev.op = "update" -> BeginUpdate /\ ev.e = plan'.e /\ ev.v = M[plan'.e] /\ Same
          [] ev.op = "makedirs" -> FsQuiet /\ NextCall \in {"mkdM", "mkdO"} /\ Same
          [] ev.op = "mktemp" -> FsQuiet /\ NextCall \in {"tmpM", "tmpO"} /\ Same
          [] ev.op = "write" ->
               /\ FsQuiet /\ NextCall \in {"wrM", "wrO"} /\ ev.k = Kind(NextCall)
               /\ ev.w = Weight(plan.w, perm)
               /\ (ev.k = "o" => ev.l = plan.row.lrk)
               /\ Same
          [] ev.op = "replace" -> Replace /\ ev.k = Kind(NextCall) /\ ev.e = plan.e /\ Same
          [] ev.op = "append" ->
               /\ AppendRow
               /\ ev.e = plan.row.epoch /\ ev.v = plan.row.val /\ ev.l = plan.row.lrk /\ ev.a = plan.row.espat
               /\ Same
          [] ev.op = "remove" -> Remove /\ DOMAIN fs' = DOMAIN fs \ {Nm(ev.k, ev.e)} /\ Same
          [] ev.op = "updated" -> Return /\ (ev.c <=> TC(rows)!ContOf(plan.row)) /\ Same
          [] ev.op = "crash" -> Crash /\ Same
          [] ev.op = "best" ->
               /\ proc.phase = "done"
               /\ ev.e = TC(rows)!BestOf(rows)
               /\ Nm("m", ev.e) \in DOMAIN fs /\ ev.w = Weight(fs[Nm("m", ev.e)].w, perm)
               /\ UNCHANGED vars /\ Same
          [] OTHER -> FALSE
  /\ (Diag \/ AllInv')

\* acceptance: the whole trace was consumed and the job is over
CompleteKeys == {k \in DOMAIN perm : DOMAIN perm[k] = 1..nb}
Accept ==
  (tpos = Len(Events) /\ proc.phase = "done") =>
     /\ TLCSet(1, TLCGet(1) + 1)
     /\ Emit([what |-> "accepted", tid |-> T.tid, nkeys |-> Cardinality(CompleteKeys),
              allsame |-> \A a, b \in CompleteKeys : perm[a] = perm[b]])
\* diagnosis run (PROGRESS = 1 in the environment): longest matched prefix per trace
TraceProgress ==
  Diag => Emit([what |-> "progress", tid |-> T.tid, pos |-> tpos, failed |-> FailedInvs])
ASSUME TLCSet(1, 0)
Post == TLCGet(1) = Len(Traces)
=============================================================================
