\* exhaustive: V = 2, length 1..4
INIT Init
NEXT Next
CONSTANTS
  V = 2
  T = 4
  D = 4
  Rows <- Rows2Quick
  EosSet <- Eos2
INVARIANT TypeOK
INVARIANT ScoreIsDefinition
INVARIANT PackedIsPrefixDefinition
INVARIANT PaddedPackedAgree
INVARIANT Export
CHECK_DEADLOCK FALSE
