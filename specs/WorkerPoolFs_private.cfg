\* W = 3 workers execute the recorded per-item file-system operations one at a time, every interleaving
INIT Init
NEXT Next
CONSTANTS
  W = 3
  Source = "private"
INVARIANT Deterministic
CHECK_DEADLOCK FALSE
