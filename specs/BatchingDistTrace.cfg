\* batched validation of recorded jobs of the real loaders against C14's clauses (run with -workers 1)
INIT CInit
NEXT CNext
CONSTANTS
  MaxN = 64
  MaxW = 8
  ModeSet <- AllModes
  KindSet <- BothKinds
  RandomMaxN = 64
  Seeds = {1}
  MaxEpoch = 2
  MaxOps = 100000
  Schedule = "free"
  Features <- AllFeatures
  MaxSize = 64
  MaxB = 8
  MaxLen = 64
  ClsSet = {"spect", "window"}
  DropSet = {TRUE, FALSE}
  DynSet = {TRUE, FALSE}
INVARIANT Accept
INVARIANT CProgress
POSTCONDITION Post
CHECK_DEADLOCK FALSE
