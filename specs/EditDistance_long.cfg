\* LONG strings chosen by the harness (generated module EditDistanceLong*.tla defines GivenCases and EXTENDS
\* EditDistanceMC): the code-shaped row machine - checked against ALL alignments on the exhaustive short universe -
\* is the oracle; no alignment enumeration here (exponential), so no RowIsLevenshtein / MistakesInRange
INIT Init
NEXT Next
CONSTANTS
  MaxR = 0
  MaxH = 0
  Tokens = {1, 2, 3}
  CostSet <- CostsLong
  Modes <- AllModes
  CheckDecl = FALSE
  Given <- GivenCases
  WithRange = FALSE
INVARIANT TypeOK
INVARIANT MistakeCostsAgree
INVARIANT Frozen
INVARIANT Export
CHECK_DEADLOCK FALSE
