------------------------------ MODULE SlicerMC ------------------------------
(* Model-checking instances of Slicer: constants that a .cfg cannot hold. *)
EXTENDS Slicer
AllWTypes == {"symmetric", "causal", "future"}
AllPadModes == {"none", "constant", "reflect", "replicate"}
NoKinds == {}
KFixed == {"fixed"}
KAli == {"ali"}
KRef == {"ref"}
KTok == {"tok"}
KDir == {"dir"}
\* ref policy boundaries (-1 = missing)
RefValsQuick == {-1, 0, 1, 3}
RefValsThorough == {-1, 0, 1, 2, 4}
RefVals3 == {-1, 0, 2}                 \* lists of up to 3 segments
\* token segments: start <= end (empty ones included) or missing boundaries
TokSegsQuick == {<<0, 0>>, <<0, 1>>, <<0, 3>>, <<1, 1>>, <<1, 3>>, <<3, 3>>, <<-1, -1>>, <<-1, 1>>, <<1, -1>>}
TokSegsThorough == TokSegsQuick \cup {<<2, 4>>, <<0, 4>>, <<3, 4>>, <<4, 4>>, <<2, 2>>}
TokStartsQuick == {-1, 0, 1, 3}
TokEndsQuick == {0, 1, 3, 4}
TokStartsThorough == {-2, -1, 0, 1, 3, 4}
TokEndsThorough == {-1, 0, 1, 2, 4, 5}
TokSegs3 == {<<0, 1>>, <<0, 3>>, <<1, 1>>, <<1, 3>>, <<3, 3>>, <<-1, -1>>}   \* lists of up to 3 tokens
LongLen == 19
LongRef == [i \in 1..LongLen |->
              IF i = 7 THEN <<10 + i, -1, -1>>
              ELSE IF i = LongLen THEN <<10 + i, 6, 8>>
              ELSE LET st == (i * 3) % 7 IN <<10 + i, st, st + 1 + (i % 2)>>]
\* utterances of the directory universe: T frames, per-frame labels, tokens <<id, start, end>>
ThePool == <<
  [T |-> 0, ali |-> <<>>, ref |-> <<>>],
  [T |-> 1, ali |-> <<1>>, ref |-> <<<<11, 0, 1>>>>],
  [T |-> 3, ali |-> <<1, 2, 2>>, ref |-> <<<<11, 0, 1>>, <<12, 1, 3>>>>],
  [T |-> 4, ali |-> <<1, 1, 2, 1>>, ref |-> <<<<11, -1, -1>>, <<12, 1, 2>>, <<13, 2, 2>>, <<14, 2, 4>>>>],
  [T |-> 5, ali |-> <<2, 2, 2, 2, 2>>, ref |-> <<<<11, 0, 5>>>>],
  [T |-> 5, ali |-> <<1, 2, 1, 2, 1>>, ref |-> <<<<11, 3, 5>>, <<12, 0, 2>>, <<13, 1, 4>>>>],
  [T |-> 4, ali |-> <<1, 1, 2, 2>>, ref |-> <<>>],
  [T |-> 6, ali |-> <<1, 1, 2, 2, 2, 1>>, ref |-> <<<<11, 0, 2>>, <<12, -1, -1>>, <<13, 2, 5>>, <<14, 5, 6>>>>],
  \* 9: a hierarchical transcript (a word, then its phones; the second word has a single phone): the
  \*    segments are not monotone in time and one is repeated
  [T |-> 6, ali |-> <<1, 1, 2, 2, 1, 1>>,
   ref |-> <<<<20, 0, 4>>, <<11, 0, 2>>, <<12, 2, 4>>, <<21, 4, 6>>, <<13, 4, 6>>>>],
  \* 10: segments out of order with repetitions
  [T |-> 5, ali |-> <<1, 2, 2, 1, 1>>,
   ref |-> <<<<11, 3, 5>>, <<12, 0, 2>>, <<13, 3, 5>>, <<14, 1, 4>>, <<15, 0, 2>>, <<16, 3, 5>>>>],
  \* 11: a transcript of many tokens (LongLen of them) over 8 frames, one boundary pair missing
  [T |-> 8, ali |-> <<1, 1, 2, 2, 2, 1, 1, 2>>, ref |-> LongRef] >>
D(us, a, r) == [utts |-> us, hasAli |-> a, hasRef |-> r]
DirsQuick == {D({1}, TRUE, TRUE), D({2}, TRUE, TRUE), D({3}, TRUE, TRUE), D({4}, TRUE, TRUE), D({5}, TRUE, TRUE),
              D({6}, TRUE, TRUE), D({7}, TRUE, TRUE), D({2, 3}, TRUE, TRUE), D({4, 6}, FALSE, TRUE),
              D({3, 5}, TRUE, FALSE), D({6}, FALSE, FALSE),
              D({9, 10}, TRUE, TRUE), D({11}, FALSE, TRUE)}
DirsThorough == DirsQuick \cup {D({8}, TRUE, TRUE), D({1, 4, 8}, TRUE, TRUE), D({5, 6, 7}, TRUE, TRUE),
                                D({8}, FALSE, TRUE), D({4}, TRUE, FALSE), D({2, 8}, FALSE, FALSE),
                                D({9}, FALSE, TRUE), D({10}, TRUE, TRUE), D({11}, TRUE, TRUE), D({9, 11}, TRUE, TRUE)}
NoPool == <<>>
=============================================================================
