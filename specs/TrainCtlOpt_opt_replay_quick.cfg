\* the optimizer's life, replayed into the real controller (quick): 5 optimizer set-ups x 16 parameter settings x
\* every metric history of length <= 4 over 2 levels x restarts after every subset of epochs
INIT OInit
NEXT ONext
CONSTANTS
  ParamSpace <- ParamsOptReplay
  Levels <- L2
  MaxLen = 4
INVARIANT TypeOK
INVARIANT StopRule
INVARIANT ReduceRule
INVARIANT ReduceOnlyOnFire
INVARIANT OptimizerHasRate
INVARIANT ReductionWritten
INVARIANT RestartTransparent
INVARIANT StartsAsPromised
INVARIANT FollowsReductions
INVARIANT LogIsCurrent
INVARIANT OExport
CHECK_DEADLOCK FALSE
