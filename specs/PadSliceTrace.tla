---------------------------- MODULE PadSliceTrace ----------------------------
(***************************************************************************)
(* code -> spec: validates recorded runs of modules.RandomShift against    *)
(* the shift part of PadSlice.  One trace per sequence of a call:          *)
(*   [tid, len, mode, pl = <<num, den>>, pr, training,                     *)
(*    out_len  -- the length the layer reported for this sequence,         *)
(*    out      -- the valid part of the output row projected to abstract   *)
(*                cells (source position 1..len, 0 = the constant pad      *)
(*                value, -1 = anything else),                              *)
(*    identity -- evaluation mode only: output tensor and lengths are the  *)
(*                input, bit for bit]                                      *)
(* A trace is consumed through the ORIGINAL actions: Draw (some whole      *)
(* amounts within the proportions whose total explains the reported        *)
(* length) and then WriteCell for every logged cell.  All invariants of    *)
(* PadSlice are evaluated at every step.  A trace nobody can finish is     *)
(* rejected (POSTCONDITION).                                               *)
(***************************************************************************)
EXTENDS PadSliceMC, IOUtils, TLCExt

Traces == JsonDeserialize(IOEnv.TRACE_FILE)

VARIABLE ti
tvars == <<c, l, r, k, out, pc, ti>>

Ev == Traces[ti]

TInit ==
  \E i \in 1..Len(Traces) :
     /\ ti = i
     /\ Start(Case("shift", Traces[i].len, 0, 0, Traces[i].mode, <<>>,
                   <<Traces[i].pl[1], Traces[i].pl[2]>>, <<Traces[i].pr[1], Traces[i].pr[2]>>,
                   Traces[i].training))

TDraw ==
  /\ Draw
  /\ l' + c.len + r' = Ev.out_len
  /\ Ev.out_len = Len(Ev.out)
  /\ (~c.training => Ev.identity)
  /\ UNCHANGED ti

TWrite ==
  /\ WriteCell
  /\ out'[k + 1] = Ev.out[k + 1]
  /\ UNCHANGED ti

TNext == TDraw \/ TWrite

Accepted == pc = "done" /\ Len(out) = Len(Ev.out)
Accept == Accepted => (TLCSet(2, TLCGet(2) \cup {ti}) /\ Emit([tid |-> Ev.tid]))
ASSUME TLCSet(2, {})
Post == /\ PrintT(<<"accepted", Cardinality(TLCGet(2)), "of", Len(Traces)>>)
        /\ Cardinality(TLCGet(2)) = Len(Traces)
=============================================================================
