\* C01 only: cost triples with a ZERO cost (free deletions / insertions / substitutions, and all three zero), every padded
\* ref/hyp row of length 1..3 over {eos,1,2}, 3 eos modes; the row machine must still equal the minimum over all alignments
INIT Init
NEXT Next
CONSTANTS
  MaxR = 3
  MaxH = 3
  Tokens = {1, 2}
  CostSet <- CostsZero
  Modes <- AllModes
  CheckDecl = FALSE
  Given <- NoGiven
  WithRange = FALSE
INVARIANT TypeOK
INVARIANT RowIsLevenshtein
INVARIANT Frozen
INVARIANT Export
CHECK_DEADLOCK FALSE
