\* exhaustive: 1..5 frames over 2 frame values x every ordered partition (541 for 5 frames)
INIT Init
NEXT Next
CONSTANTS
  FrameVals <- Frames2
  MaxN = 5
  C = 2
INVARIANT AccIsPooled
INVARIANT StoreIsPooled
INVARIANT Normalised
INVARIANT ChunksPartition
INVARIANT Export
CHECK_DEADLOCK FALSE
