---------------------------- MODULE EditDistance ----------------------------
(***************************************************************************)
(* String matching of pydrobert.torch (_string.py: _string_matching and    *)
(* its wrappers edit_distance / error_rate / prefix_* / optimal_completion) *)
(*                                                                         *)
(* Two descriptions of the same thing live here:                           *)
(*   - a *code-shaped* row machine: one action per iteration of the loop   *)
(*     over hypothesis tokens; insertion/substitution from the previous    *)
(*     row, then the deletion sweep (min over the lower-triangular         *)
(*     del_mat + row, or the sequential sweep with its tie rule on the     *)
(*     "mistakes" path), freezing once the hypothesis has ended;           *)
(*   - a *declarative* one: the set of ALL edit scripts of two strings     *)
(*     (no table), their costs and their numbers of edits.                 *)
(* TLC checks that they agree in every reachable state (C01, C02) and that *)
(* the optimal-completion targets read off the row minima are exactly the  *)
(* distance-preserving next tokens (C03).                                  *)
(*                                                                         *)
(* Costs are integers here; the harness scales them by a dyadic factor.    *)
(***************************************************************************)
EXTENDS Naturals, Integers, Sequences, FiniteSets, TLC, Json

CONSTANTS MaxR,       \* padded reference length(s): rows of length 1..MaxR
          MaxH,       \* padded hypothesis length(s)
          Tokens,     \* non-eos tokens (small naturals > 0)
          CostSet,    \* set of <<ins, del, sub>> positive integers
          Modes,      \* subset of {"none", "excl", "incl"} (eos unset / eos not counted / counted)
          CheckDecl,  \* TRUE: also evaluate the (expensive) declarative completion sets
          Given,      \* <<>>: every pair of rows (exhaustive); else a sequence of <<ref row, hyp row>> chosen by the
                      \* harness (LONG strings: the row machine alone is the oracle there, see EditDistance_long.cfg)
          WithRange   \* TRUE: the export carries the edit-count interval over ALL optimal alignments (exponential)

Eos == 0
Symbols == Tokens \cup {Eos}
Rows(n) == UNION {[1..m -> Symbols] : m \in 1..n}

MinOf(S) == CHOOSE x \in S : \A y \in S : x <= y
MaxOf(S) == CHOOSE x \in S : \A y \in S : x >= y

(***************************************************************************)
(* Wrappers: effective length of a padded row.                             *)
(*  "none": eos unset, the whole row counts (Eos is then an ordinary token)*)
(*  "excl": up to, not including, the first eos; whole row if none         *)
(*  "incl": up to and including the first eos; whole row if there is none  *)
(*          ("include_eos with a missing eos counts no extra token")       *)
(***************************************************************************)
FirstEos(rw) == IF \E i \in 1..Len(rw) : rw[i] = Eos
                THEN MinOf({i \in 1..Len(rw) : rw[i] = Eos}) ELSE Len(rw) + 1
EffLen(rw, mode) ==
  IF mode = "none" THEN Len(rw)
  ELSE IF FirstEos(rw) > Len(rw) THEN Len(rw)
  ELSE IF mode = "incl" THEN FirstEos(rw) ELSE FirstEos(rw) - 1
Eff(rw, mode) == SubSeq(rw, 1, EffLen(rw, mode))

(***************************************************************************)
(* Declarative side: all alignments (edit scripts) of a[i..] with b[j..].  *)
(* Each is summarised by <<cost, edits>>.  No dynamic programming table.   *)
(***************************************************************************)
RECURSIVE AlignSet(_, _, _, _, _)
AlignSet(a, b, i, j, c) ==
  IF i > Len(a) /\ j > Len(b) THEN {<<0, 0>>}
  ELSE
    LET del == IF i <= Len(a)
               THEN {<<p[1] + c[2], p[2] + 1>> : p \in AlignSet(a, b, i + 1, j, c)} ELSE {}
        ins == IF j <= Len(b)
               THEN {<<p[1] + c[1], p[2] + 1>> : p \in AlignSet(a, b, i, j + 1, c)} ELSE {}
        sub == IF i <= Len(a) /\ j <= Len(b)
               THEN LET ne == IF a[i] = b[j] THEN 0 ELSE 1
                    IN {<<p[1] + c[3] * ne, p[2] + ne>> : p \in AlignSet(a, b, i + 1, j + 1, c)}
               ELSE {}
    IN del \cup ins \cup sub

MinCost(a, b, c) == MinOf({p[1] : p \in AlignSet(a, b, 1, 1, c)})
\* fewest / most edits among the minimum-cost alignments
EditRange(a, b, c) ==
  LET S == AlignSet(a, b, 1, 1, c)
      m == MinOf({p[1] : p \in S})
      E == {p[2] : p \in {q \in S : q[1] = m}}
  IN <<MinOf(E), MaxOf(E)>>

(***************************************************************************)
(* State                                                                   *)
(***************************************************************************)
VARIABLES ref, hyp,   \* padded rows (may hold eos anywhere, garbage after it)
          mode, c,    \* eos mode, cost triple
          k,          \* hypothesis tokens consumed by the loop (0..Len(hyp))
          row,        \* 0..Len(ref) -> cost         (code: row, on the distance path)
          crow, mrow, \* 0..Len(ref) -> cost / edits (code: row / mistakes, mistakes path)
          out         \* per-prefix observations, Len(out) = k + 1
vars == <<ref, hyp, mode, c, k, row, crow, mrow, out>>

R == Len(ref)
H == Len(hyp)
RefLen == EffLen(ref, mode)
HypLen == EffLen(hyp, mode)
Uniform == c[1] = c[2] /\ c[2] = c[3]
\* the code's shortcut: uniform costs are computed with unit costs and multiplied back
EC == IF Uniform THEN <<1, 1, 1>> ELSE c
Mult == IF Uniform THEN c[1] ELSE 1

\* optimal-completion targets read off a row (code: masked_fill beyond ref_lens, row == min)
NextFromRow(rw) ==
  LET m == MinOf({rw[r] : r \in 0..RefLen})
  IN {ref[r + 1] : r \in {q \in 0..(RefLen - 1) : rw[q] = m}}

\* what the loop body computes on the distance path (return_mistakes = False)
StepRow(rw, tok) ==
  LET v == [r \in 0..R |->
              IF r = 0 THEN rw[0] + EC[1]
              ELSE MinOf({rw[r] + EC[1], rw[r - 1] + (IF ref[r] = tok THEN 0 ELSE EC[3])})]
  IN [r \in 0..R |-> MinOf({v[q] + (r - q) * EC[2] : q \in 0..r})]

\* ... and on the mistakes path: substitution over insertion over deletion on ties
RECURSIVE Sweep(_, _, _)
Sweep(v, m, r) ==    \* sequential deletion sweep r = 1..R; returns <<v, m>>
  IF r > R THEN <<v, m>>
  ELSE LET d == v[r - 1] + EC[2]
       IN IF d >= v[r] THEN Sweep(v, m, r + 1)
          ELSE Sweep([v EXCEPT ![r] = d], [m EXCEPT ![r] = m[r - 1] + 1], r + 1)
StepMistakes(cw, mw, tok) ==
  LET ne(r) == IF ref[r] = tok THEN 0 ELSE 1
      pick(r) == r > 0 /\ cw[r] + EC[1] >= cw[r - 1] + EC[3] * ne(r)
      v == [r \in 0..R |-> IF pick(r) THEN cw[r - 1] + EC[3] * ne(r) ELSE cw[r] + EC[1]]
      m == [r \in 0..R |-> IF pick(r) THEN mw[r - 1] + ne(r) ELSE mw[r] + 1]
  IN Sweep(v, m, 1)

Obs(kk, rw, cw, mw) ==
  [cost  |-> rw[RefLen] * Mult,                 \* edit distance of prefix kk (unnormalised)
   ecost |-> cw[RefLen],                        \* cost along the mistakes path (unit-scaled)
   edits |-> IF Uniform THEN rw[RefLen] ELSE mw[RefLen],   \* what error_rate reports
   next  |-> NextFromRow(rw),
   valid |-> kk <= HypLen]

Init ==
  /\ mode \in Modes
  /\ c \in CostSet
  /\ IF Given = <<>>
     THEN ref \in Rows(MaxR) /\ hyp \in Rows(MaxH)
     ELSE \E g \in 1..Len(Given) : ref = Given[g][1] /\ hyp = Given[g][2]
  /\ k = 0
  /\ row = [r \in 0..Len(ref) |-> r * (IF c[1] = c[2] /\ c[2] = c[3] THEN 1 ELSE c[2])]
  /\ crow = row
  /\ mrow = [r \in 0..Len(ref) |-> r]
  /\ out = <<Obs(0, row, crow, mrow)>>

ConsumeHypToken ==
  /\ k < H
  /\ k' = k + 1
  /\ LET tok == hyp[k + 1]
         live == k + 1 <= HypLen            \* not_done / ins_mask of the code
         nr == IF live THEN StepRow(row, tok) ELSE row
         sm == StepMistakes(crow, mrow, tok)
         nc == IF live THEN sm[1] ELSE crow
         nm == IF live THEN sm[2] ELSE mrow
     IN /\ row' = nr
        /\ crow' = nc
        /\ mrow' = nm
        /\ out' = Append(out, Obs(k + 1, nr, nc, nm))
  /\ UNCHANGED <<ref, hyp, mode, c>>

Next == ConsumeHypToken
Spec == Init /\ [][Next]_vars

(***************************************************************************)
(* Design invariants                                                       *)
(***************************************************************************)
KEff == IF k <= HypLen THEN k ELSE HypLen      \* prefix the frozen rows belong to
RefEff == Eff(ref, mode)
HypPre == SubSeq(hyp, 1, KEff)

\* C01: every cell of the row is the weighted Levenshtein distance
RowIsLevenshtein ==
  \A r \in 0..RefLen : row[r] * Mult = MinCost(SubSeq(ref, 1, r), HypPre, c)

\* the mistakes path carries the same costs ...
MistakeCostsAgree == \A r \in 0..RefLen : crow[r] = row[r]
\* C02: ... and its count is the edit count of SOME minimum-cost alignment
MistakesInRange ==
  \A r \in 0..RefLen :
     LET er == EditRange(SubSeq(ref, 1, r), HypPre, c)
     IN IF Uniform THEN er[1] = er[2] /\ row[r] = er[1]
        ELSE er[1] <= mrow[r] /\ mrow[r] <= er[2]

\* C03: row minima give exactly the tokens that keep the best reachable distance
Completions(n) == UNION {[1..m -> Symbols] : m \in 0..n}
BestReach(p) == MinOf({MinCost(RefEff, p \o s, c) : s \in Completions(RefLen)})
NextDecl(p) == {t \in Symbols : BestReach(Append(p, t)) = BestReach(p)}
OptimalNextIsDecl ==
  (CheckDecl /\ k <= HypLen) => NextFromRow(row) = NextDecl(HypPre)

\* frozen rows: nothing after the hypothesis's end changes anything
Frozen == k > HypLen => out[k + 1].cost = out[HypLen + 1].cost /\ out[k + 1].edits = out[HypLen + 1].edits

TypeOK == /\ Len(out) = k + 1
          /\ DOMAIN row = 0..R

(***************************************************************************)
(* Export: one record per finished behaviour                               *)
(***************************************************************************)
SetToSeq(S) == LET RECURSIVE F(_) F(T) == IF T = {} THEN <<>> ELSE LET x == MinOf(T) IN <<x>> \o F(T \ {x})
               IN F(S)
Emit(rec) == PrintT(<<"VFJ", ToJson(rec)>>)
Export ==
  k = H =>
    Emit([ref |-> ref, hyp |-> hyp, mode |-> mode, c |-> c, reflen |-> RefLen, hyplen |-> HypLen,
          out |-> [i \in 1..Len(out) |->
                     LET er == IF WithRange
                               THEN EditRange(RefEff, SubSeq(hyp, 1, IF i - 1 <= HypLen THEN i - 1 ELSE HypLen), c)
                               ELSE IF Uniform THEN <<out[i].edits, out[i].edits>>   \* equal costs: the count is unique
                               ELSE <<0, Len(ref) + Len(hyp)>>                       \* not computed: trivial bounds
                     IN [cost |-> out[i].cost, edits |-> out[i].edits, lo |-> er[1], hi |-> er[2],
                         next |-> SetToSeq(out[i].next), valid |-> out[i].valid]]])
=============================================================================
