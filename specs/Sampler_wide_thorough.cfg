\* every (N <= 12, W <= 5, mode, kind): one epoch, ranks in order, no interleaving; all permutations (lazily) for the random kind up to N = 5
INIT Init
NEXT Next
CONSTANTS
  MaxN = 12
  MaxW = 5
  ModeSet <- AllModes
  KindSet <- BothKinds
  RandomMaxN = 5
  Seeds = {1}
  MaxEpoch = 0
  MaxOps = 1000
  Schedule = "ordered"
  Features <- NoFeatures
VIEW View
INVARIANT TypeOK
INVARIANT RefusesExactly
INVARIANT CoordinatesAgree
INVARIANT LenIsYielded
INVARIANT PathIndependent
INVARIANT LivePrefixes
INVARIANT WellFormedLists
INVARIANT Disjoint
INVARIANT Cover
INVARIANT IgnoreGivesAll
INVARIANT SliceOfFull
INVARIANT SequentialIsIdentity
CHECK_DEADLOCK FALSE
INVARIANT ExportCases
