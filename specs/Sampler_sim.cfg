\* driver skeletons: random behaviours of the full machine, up to three iterators of one sampler object alive at once (run with -simulate, -depth MaxOps + 1)
INIT Init
NEXT Next
CONSTANTS
  MaxN = 8
  MaxW = 4
  ModeSet <- AllModes
  KindSet <- BothKinds
  RandomMaxN = 8
  Seeds = {1, 2}
  MaxEpoch = 2
  MaxOps = 40
  Schedule = "free"
  Features <- AllLiveFeatures
INVARIANT TypeOK
INVARIANT PathIndependent
INVARIANT LivePrefixes
INVARIANT Disjoint
INVARIANT Cover
INVARIANT ExportOps
CHECK_DEADLOCK FALSE
