------------------------------ MODULE DataDir ------------------------------
(***************************************************************************)
(* Feature / alignment / reference data directories of pydrobert.torch     *)
(* (_datasets.py: _info_and_validate, validate_spect_data_set;             *)
(* command_line.py: get_torch_spect_data_dir_info).                        *)
(*                                                                         *)
(* A directory is the sequence (sorted utterance ids) of records           *)
(*   [T, fdt, fnd, F]            feature: frames, dtype tag, ndim, width   *)
(*   ali = [dt, nd, vals]        per-frame class ids (if ali/ is present)  *)
(*   ref = [dt, nd, cols, rows]  rows <<tok, start, end>> (if ref/ present;*)
(*                               1-D references carry start = end = -1)    *)
(*                                                                         *)
(* Declarative part: WellFormed (the documented conditions of              *)
(* validate_spect_data_set, verbatim), Repair(d, k) (the documented fixes, *)
(* applied pointwise) and the recount InfoDecl.                            *)
(* Code-shaped part: the single pass - one action per (utterance, tensor)  *)
(* in the order feature -> alignment -> reference, carrying feat_dtype /   *)
(* num_filts / ref_is_2d, repairing and continuing or raising at the first *)
(* failed check; a tensor's repairs reach the directory only if ALL checks *)
(* of that tensor pass (write-back is per tensor), repairs of earlier      *)
(* tensors stay; InfoCode accumulates like the loop does.                  *)
(* TLC checks after every pass: strict accepts <=> WellFormed; fix k       *)
(* accepts <=> WellFormed(Repair(d, k)); an accepted fix leaves exactly    *)
(* Repair(d, k), which is WellFormed (so a second, strict pass accepts);   *)
(* Repair is idempotent; InfoCode = InfoDecl on well-formed directories.   *)
(* The directory after a REJECTED fix pass is modelled (for the sake of    *)
(* the histories) but nothing is claimed about it.                         *)
(*                                                                         *)
(* The VIEW.  The validator does not read the files itself: it is handed a *)
(* data set, and the data set may be configured to present a stored        *)
(* reference differently from what is on disk (start / end symbols around  *)
(* it, tokens_only = boundaries dropped): ViewRef.  The code-shaped pass   *)
(* therefore checks ViewRef(stored reference); what it may write back is   *)
(* the repaired STORED tensor (RepairCommutesWithView: the repairs of the  *)
(* presented tensor are the presentation of the repairs of the stored one),*)
(* and only if that tensor was repaired (UndamagedUntouched: a tensor      *)
(* without a defect keeps its stored content, whatever the view).  All the *)
(* invariants above are checked for every view: the verdict and the        *)
(* directory left behind do not depend on it.  Defects that a tokens_only  *)
(* view hides from the validator (boundaries, dimensionality, width of a   *)
(* 2-D reference) are not injected under such a view.                      *)
(***************************************************************************)
EXTENDS Naturals, Integers, Sequences, FiniteSets, TLC, Json

CONSTANTS Bases,       \* set of well-formed base directories [dir, hasali, hasref]
          DefectSet,   \* set of defects [id, k, j] that Inject may apply to any utterance
          MaxDefects,  \* number of injected defects 0..MaxDefects
          Plans,       \* set of sequences of fix values (None = -1): the histories explored
          Views,       \* set of [sos, eos, tokens_only]: how the data set presents a stored reference
          ViewPlans    \* the histories explored under a view other than the plain one

None == 0 - 1
HasFix(fx) == fx >= 0

VARIABLES dir, hasali, hasref, view,
          phase,                      \* "inject", "pass", "idle"
          defects,                    \* sequence of [u, k, j] injected so far
          dirinit,                    \* directory when the first pass started
          fix, cur, part, fdt0, nfilt, r2d, dir0,     \* the running pass (code: feat_dtype, num_filts, ref_is_2d)
          hist                        \* completed passes: [fix, ok, before, after]
vars == <<dir, hasali, hasref, view, phase, defects, dirinit, fix, cur, part, fdt0, nfilt, r2d, dir0, hist>>

NU == Len(dir)

(***************************************************************************)
(* Declarative: the documented conditions                                  *)
(***************************************************************************)
RowOK(row, T) == \/ row[2] < 0 /\ row[3] < 0
                 \/ 0 <= row[2] /\ row[2] <= row[3] /\ row[3] <= T
WellFormed(d, ha, hr) ==
  /\ \A a, b \in 1..Len(d) : d[a].fdt = d[b].fdt                       \* 2. one feature dtype
  /\ \A a \in 1..Len(d) : d[a].fnd = 2                                 \* 3. two dimensions
  /\ \A a, b \in 1..Len(d) : d[a].F = d[b].F                           \* 4. one width
  /\ ha => \A a \in 1..Len(d) : /\ d[a].ali.dt = "i64"                 \* 5.1 long
                                /\ d[a].ali.nd = 1                     \* 5.2 one dimension
                                /\ Len(d[a].ali.vals) = d[a].T         \* 5.3 as long as the features
  /\ hr => /\ \A a \in 1..Len(d) : d[a].ref.dt = "i64"                 \* 6.1 long
           /\ \A a, b \in 1..Len(d) : d[a].ref.nd = d[b].ref.nd        \* 6.2 one dimensionality ...
           /\ \A a \in 1..Len(d) : d[a].ref.nd \in {1, 2}              \*     ... 1 or 2
           /\ \A a \in 1..Len(d) : d[a].ref.nd = 2 =>
                /\ d[a].ref.cols = 3                                   \* 6.3.1
                /\ \A j \in 1..Len(d[a].ref.rows) : RowOK(d[a].ref.rows[j], d[a].T)   \* 6.3.2

(***************************************************************************)
(* Declarative: the documented fixes, pointwise                            *)
(***************************************************************************)
Upcastable == {"u8", "i8", "i16", "i32"}     \* "bytes or 32-bit integers" (the code also takes 16-bit)
RepairRow(row, T, k) ==
  IF row[2] < 0 /\ row[3] < 0 THEN row
  ELSE IF row[2] < 0 \/ row[3] < 0 THEN <<row[1], None, None>>          \* 3. unpaired boundary removed
  ELSE IF row[3] > T /\ row[3] - k <= T /\ row[2] <= T /\ row[2] <= row[3]
       THEN <<row[1], row[2], T>>                                       \* 4. end reduced to T
  ELSE row
RepairUtt(u, k, ha, hr) ==
  LET a1 == IF ha /\ u.ali.dt \in Upcastable THEN [u.ali EXCEPT !.dt = "i64"] ELSE u.ali      \* 2.
      a2 == IF ha /\ a1.nd = 1 /\ Len(a1.vals) > u.T /\ Len(a1.vals) <= u.T + k
            THEN [a1 EXCEPT !.vals = SubSeq(a1.vals, 1, u.T)] ELSE a1                         \* 5. crop
      r1 == IF hr /\ u.ref.dt \in Upcastable THEN [u.ref EXCEPT !.dt = "i64"] ELSE u.ref
      r2 == IF hr /\ r1.nd = 2 /\ r1.cols = 3
            THEN [r1 EXCEPT !.rows = [j \in 1..Len(r1.rows) |-> RepairRow(r1.rows[j], u.T, k)]] ELSE r1
  IN [u EXCEPT !.ali = a2, !.ref = r2]
Repair(d, k, ha, hr) == [a \in 1..Len(d) |-> RepairUtt(d[a], k, ha, hr)]

(***************************************************************************)
(* Code-shaped: the checks of one tensor ([ok, val]: raise, or the tensor  *)
(* to write back)                                                          *)
(***************************************************************************)
CheckAli(a, T, fx) ==
  LET up == a.dt # "i64" /\ HasFix(fx) /\ a.dt \in Upcastable
      a1 == IF up THEN [a EXCEPT !.dt = "i64"] ELSE a
      L == Len(a1.vals)
  IN IF a1.dt # "i64" THEN [ok |-> FALSE, val |-> a]               \* not a long tensor
     ELSE IF a1.nd # 1 THEN [ok |-> FALSE, val |-> a]
     ELSE IF L = T THEN [ok |-> TRUE, val |-> a1]
     ELSE IF HasFix(fx) /\ T + fx >= L /\ L > T
          THEN [ok |-> TRUE, val |-> [a1 EXCEPT !.vals = SubSeq(a1.vals, 1, T)]]
          ELSE [ok |-> FALSE, val |-> a]

RECURSIVE CheckRows(_, _, _, _)
CheckRows(rows, j, T, fx) ==      \* the loop over reference tokens, repairing in place
  IF j > Len(rows) THEN [ok |-> TRUE, val |-> rows]
  ELSE LET r == rows[j]
       IN IF r[2] < 0 /\ r[3] < 0 THEN CheckRows(rows, j + 1, T, fx)
          ELSE IF r[2] < 0 \/ r[3] < 0
               THEN IF HasFix(fx) THEN CheckRows([rows EXCEPT ![j] = <<r[1], None, None>>], j + 1, T, fx)
                    ELSE [ok |-> FALSE, val |-> rows]
          ELSE IF r[3] < r[2] THEN [ok |-> FALSE, val |-> rows]
          ELSE IF r[3] > T
               THEN IF HasFix(fx) /\ r[2] <= T /\ T >= r[3] - fx
                    THEN CheckRows([rows EXCEPT ![j] = <<r[1], r[2], T>>], j + 1, T, fx)
                    ELSE [ok |-> FALSE, val |-> rows]
          ELSE CheckRows(rows, j + 1, T, fx)

\* [ok, val, r2d]
CheckRef(r, T, fx, seen2d) ==
  LET up == r.dt # "i64" /\ HasFix(fx) /\ r.dt \in Upcastable
      r1 == IF up THEN [r EXCEPT !.dt = "i64"] ELSE r
  IN IF r1.dt # "i64" THEN [ok |-> FALSE, val |-> r, r2d |-> seen2d]
     ELSE IF r1.nd = 2
          THEN IF seen2d = "1d" THEN [ok |-> FALSE, val |-> r, r2d |-> seen2d]
               ELSE IF r1.cols # 3 THEN [ok |-> FALSE, val |-> r, r2d |-> "2d"]
               ELSE LET c == CheckRows(r1.rows, 1, T, fx)
                    IN IF c.ok THEN [ok |-> TRUE, val |-> [r1 EXCEPT !.rows = c.val], r2d |-> "2d"]
                       ELSE [ok |-> FALSE, val |-> r, r2d |-> "2d"]
     ELSE IF r1.nd = 1
          THEN IF seen2d = "2d" THEN [ok |-> FALSE, val |-> r, r2d |-> seen2d]
               ELSE [ok |-> TRUE, val |-> r1, r2d |-> "1d"]
     ELSE [ok |-> FALSE, val |-> r, r2d |-> seen2d]

(***************************************************************************)
(* The view: what the data set hands to the validator for a stored         *)
(* reference (_load_ref: tokens_only drops the boundaries of a 2-D         *)
(* reference, then the start symbol goes in front and the end symbol       *)
(* behind; in a 2-D reference as a row without boundaries).  The dtype is  *)
(* that of the stored tensor.                                              *)
(***************************************************************************)
PlainView == [sos |-> None, eos |-> None, tokens_only |-> FALSE]
SymRow(s) == <<s, None, None>>
ViewRef(r, v) ==
  LET r0 == IF v.tokens_only /\ r.nd = 2
            THEN [r EXCEPT !.nd = 1, !.cols = 3, !.rows = [j \in 1..Len(r.rows) |-> SymRow(r.rows[j][1])]]
            ELSE r
      r1 == IF v.sos # None THEN [r0 EXCEPT !.rows = <<SymRow(v.sos)>> \o r0.rows] ELSE r0
  IN IF v.eos # None THEN [r1 EXCEPT !.rows = r1.rows \o <<SymRow(v.eos)>>] ELSE r1
\* the view presents every stored reference as it is
IdentityView(v, d) == /\ v.sos = None /\ v.eos = None
                      /\ (v.tokens_only => \A a \in 1..Len(d) : d[a].ref.nd # 2)
\* defects of a stored reference that a tokens_only data set does not present to the validator
HiddenByTokensOnly == {"half_s", "half_e", "s_gt_e", "e_over", "s_gt_T", "short_over", "mixed", "cols"}

(***************************************************************************)
(* Defect injection                                                        *)
(***************************************************************************)
SetRow1(u, row) == [u EXCEPT !.ref.rows = [@ EXCEPT ![1] = row]]
Row1(u) == u.ref.rows[1]
Applicable(u, d) ==
  CASE d.k \in {"half_s", "half_e", "s_gt_e", "e_over", "s_gt_T", "short_over"} ->
         hasref /\ u.ref.nd = 2 /\ Len(u.ref.rows) >= 1 /\ Row1(u)[2] >= 0 /\ Row1(u)[3] >= 0
    [] d.k \in {"refdt", "mixed", "cols"} -> hasref
    [] d.k \in {"alilen", "alishort", "alidt", "alind"} -> hasali
    [] OTHER -> TRUE
Apply(u, d) ==
  CASE d.k = "fdt"      -> [u EXCEPT !.fdt = "f64"]
    [] d.k = "fnd"      -> [u EXCEPT !.fnd = 3]
    [] d.k = "width"    -> [u EXCEPT !.F = @ + 1]
    [] d.k = "alilen"   -> [u EXCEPT !.ali.vals = @ \o [q \in 1..d.j |-> 0]]
    [] d.k = "alishort" -> [u EXCEPT !.ali.vals = SubSeq(@, 1, Len(@) - 1)]
    [] d.k = "alidt"    -> [u EXCEPT !.ali.dt = d.j]
    [] d.k = "alind"    -> [u EXCEPT !.ali.nd = 2]
    [] d.k = "refdt"    -> [u EXCEPT !.ref.dt = d.j]
    [] d.k = "half_s"   -> SetRow1(u, <<Row1(u)[1], None, Row1(u)[3]>>)
    [] d.k = "half_e"   -> SetRow1(u, <<Row1(u)[1], Row1(u)[2], None>>)
    [] d.k = "s_gt_e"   -> SetRow1(u, <<Row1(u)[1], Row1(u)[3] + 1, Row1(u)[3]>>)
    [] d.k = "e_over"   -> SetRow1(u, <<Row1(u)[1], Row1(u)[2], u.T + d.j>>)
    [] d.k = "s_gt_T"   -> SetRow1(u, <<Row1(u)[1], u.T + 1, u.T + d.j>>)
    \* a token SHORTER than the tolerance that sticks out: starts at the last frame boundary, ends j beyond
    [] d.k = "short_over" -> SetRow1(u, <<Row1(u)[1], u.T, u.T + d.j>>)
    [] d.k = "mixed"    -> [u EXCEPT !.ref.nd = IF @ = 2 THEN 1 ELSE 2,
                                     !.ref.rows = [q \in 1..Len(@) |-> <<@[q][1], None, None>>]]
    [] d.k = "cols"     -> [u EXCEPT !.ref.cols = 2]

Inject(a, d) ==
  /\ phase = "inject" /\ Len(defects) < MaxDefects
  /\ Applicable(dir[a], d)
  /\ Apply(dir[a], d) # dir[a]
  /\ ~(view.tokens_only /\ d.k \in HiddenByTokensOnly)
  \* an unordered set of defects: injected in increasing (utterance, defect id) order, one per kind
  /\ \A q \in 1..Len(defects) : /\ defects[q].u * 100 + defects[q].id < a * 100 + d.id
                                 /\ <<defects[q].u, defects[q].k>> # <<a, d.k>>
  /\ dir' = [dir EXCEPT ![a] = Apply(dir[a], d)]
  /\ defects' = Append(defects, [u |-> a, id |-> d.id, k |-> d.k, j |-> d.j])
  /\ UNCHANGED <<hasali, hasref, view, phase, dirinit, fix, cur, part, fdt0, nfilt, r2d, dir0, hist>>

(***************************************************************************)
(* The pass                                                                *)
(***************************************************************************)
FixesSoFar == [q \in 1..Len(hist) |-> hist[q].fix]
IsPrefix(s, t) == Len(s) <= Len(t) /\ \A q \in 1..Len(s) : s[q] = t[q]

PlansOf(v) == IF v = [sos |-> None, eos |-> None, tokens_only |-> FALSE] THEN Plans ELSE ViewPlans
StartPass(fx) ==
  /\ phase \in {"inject", "idle"}
  /\ \E p \in PlansOf(view) : IsPrefix(Append(FixesSoFar, fx), p)
  /\ phase' = "pass" /\ fix' = fx /\ cur' = 1 /\ part' = "feat"
  /\ fdt0' = "none" /\ nfilt' = 0 /\ r2d' = "none" /\ dir0' = dir
  /\ dirinit' = IF phase = "inject" THEN dir ELSE dirinit
  /\ UNCHANGED <<dir, hasali, hasref, view, defects, hist>>

Raise ==
  /\ hist' = Append(hist, [fix |-> fix, ok |-> FALSE, before |-> dir0, after |-> dir])
  /\ phase' = "idle"
  /\ UNCHANGED <<dir, hasali, hasref, view, defects, dirinit, fix, cur, part, fdt0, nfilt, r2d, dir0>>

StepFeat ==
  /\ phase = "pass" /\ part = "feat"
  /\ LET u == dir[cur]
     IN IF fdt0 \notin {"none", u.fdt} \/ u.fnd # 2 \/ (nfilt # 0 /\ u.F # nfilt)
        THEN Raise
        ELSE /\ fdt0' = u.fdt /\ nfilt' = (IF nfilt = 0 THEN u.F ELSE nfilt) /\ part' = "ali"
             /\ UNCHANGED <<dir, hasali, hasref, view, phase, defects, dirinit, fix, cur, r2d, dir0, hist>>

StepAli ==
  /\ phase = "pass" /\ part = "ali"
  /\ IF ~hasali
     THEN /\ part' = "ref"
          /\ UNCHANGED <<dir, hasali, hasref, view, phase, defects, dirinit, fix, cur, fdt0, nfilt, r2d, dir0, hist>>
     ELSE LET c == CheckAli(dir[cur].ali, dir[cur].T, fix)
          IN IF ~c.ok THEN Raise
             ELSE /\ dir' = [dir EXCEPT ![cur].ali = c.val]          \* write-back of this tensor
                  /\ part' = "ref"
                  /\ UNCHANGED <<hasali, hasref, view, phase, defects, dirinit, fix, cur, fdt0, nfilt, r2d, dir0, hist>>

\* The code sees the reference through the view (loaded); the verdict and ref_is_2d come from that.
\* What reaches the directory is the repaired STORED tensor, and only when the tensor was repaired.
RefStep(stored, T, fx, seen2d, v) ==
  LET loaded == ViewRef(stored, v)
      cv == CheckRef(loaded, T, fx, seen2d)
      cs == CheckRef(stored, T, fx, "none")
  IN [ok |-> cv.ok, r2d |-> cv.r2d, loaded |-> loaded, seen |-> cv.val,
      val |-> IF cv.ok /\ cv.val # loaded THEN cs.val ELSE stored]

StepRef ==
  /\ phase = "pass" /\ part = "ref"
  /\ LET c == IF hasref THEN RefStep(dir[cur].ref, dir[cur].T, fix, r2d, view)
              ELSE [ok |-> TRUE, val |-> dir[cur].ref, r2d |-> r2d]
         nd == [dir EXCEPT ![cur].ref = c.val]
     IN IF ~c.ok THEN Raise
        ELSE IF cur < NU
        THEN /\ dir' = nd /\ r2d' = c.r2d /\ cur' = cur + 1 /\ part' = "feat"
             /\ UNCHANGED <<hasali, hasref, view, phase, defects, dirinit, fix, fdt0, nfilt, dir0, hist>>
        ELSE /\ dir' = nd /\ r2d' = c.r2d
             /\ hist' = Append(hist, [fix |-> fix, ok |-> TRUE, before |-> dir0, after |-> nd])
             /\ phase' = "idle"
             /\ UNCHANGED <<hasali, hasref, view, defects, dirinit, fix, cur, part, fdt0, nfilt, dir0>>

Init ==
  /\ \E b \in Bases : dir = b.dir /\ hasali = b.hasali /\ hasref = b.hasref
  \* a view that presents this base as it is stored is the plain view
  /\ view \in Views /\ (view = PlainView \/ (hasref /\ ~IdentityView(view, dir)))
  /\ phase = "inject" /\ defects = <<>> /\ dirinit = <<>>
  /\ fix = None /\ cur = 1 /\ part = "feat" /\ fdt0 = "none" /\ nfilt = 0 /\ r2d = "none" /\ dir0 = <<>>
  /\ hist = <<>>

DoInject == \E a \in 1..NU, d \in DefectSet : Inject(a, d)
DoStartPass == \E fx \in {None, 0, 1, 2, 3} : StartPass(fx)
Next == DoInject \/ DoStartPass \/ StepFeat \/ StepAli \/ StepRef
Spec == Init /\ [][Next]_vars

(***************************************************************************)
(* Directory statistics (get-torch-spect-data-dir-info)                    *)
(***************************************************************************)
MaxOf(S) == CHOOSE x \in S : \A y \in S : x >= y
RECURSIVE SumSeq(_)
SumSeq(s) == IF s = <<>> THEN 0 ELSE Head(s) + SumSeq(Tail(s))

\* declarative recount
AliCells(d) == UNION {{<<a, t>> : t \in 1..Len(d[a].ali.vals)} : a \in 1..Len(d)}
AliClassesOf(d) == {d[c[1]].ali.vals[c[2]] : c \in AliCells(d)}
CountDecl(d, i) == Cardinality({c \in AliCells(d) : d[c[1]].ali.vals[c[2]] = i})
SegsDecl(d, i) == Cardinality({c \in AliCells(d) : /\ d[c[1]].ali.vals[c[2]] = i
                                                   /\ (c[2] = 1 \/ d[c[1]].ali.vals[c[2] - 1] # i)})
RefCells(d) == UNION {{<<a, j>> : j \in 1..Len(d[a].ref.rows)} : a \in 1..Len(d)}
RowAt(d, c) == d[c[1]].ref.rows[c[2]]
Bounded(d, c) == d[c[1]].ref.nd = 2 /\ RowAt(d, c)[2] >= 0 /\ RowAt(d, c)[3] >= 0
RefClassesOf(d) == {RowAt(d, c)[1] : c \in RefCells(d)}
RSegsDecl(d, i) == Cardinality({c \in RefCells(d) : RowAt(d, c)[1] = i})
RECURSIVE SumSpans(_, _)
SumSpans(d, S) == IF S = {} THEN 0
                  ELSE LET c == CHOOSE x \in S : TRUE IN (RowAt(d, c)[3] - RowAt(d, c)[2]) + SumSpans(d, S \ {c})
\* "the total number of frames reference tokens with type index i occupy according to the segment
\*  boundaries ... If any token sequence containing i does not provide segment boundaries (or i never
\*  occurs), -1"
RCountDoc(d, i) ==
  LET mine == {c \in RefCells(d) : RowAt(d, c)[1] = i}
  IN IF mine = {} \/ \E c \in mine : ~Bounded(d, c) THEN None ELSE SumSpans(d, mine)
\* the stricter reading the implementation follows: an EMPTY segment (start = end) counts as "no boundaries"
RCountStrict(d, i) ==
  LET mine == {c \in RefCells(d) : RowAt(d, c)[1] = i}
  IN IF mine = {} \/ \E c \in mine : ~Bounded(d, c) \/ RowAt(d, c)[3] <= RowAt(d, c)[2] THEN None
     ELSE SumSpans(d, mine)

InfoDecl(d, ha, hr) ==
  LET mac == IF ha /\ AliClassesOf(d) # {} THEN MaxOf(AliClassesOf(d)) ELSE None
      mrc == IF hr /\ RefClassesOf(d) # {} THEN MaxOf(RefClassesOf(d)) ELSE None
  IN [num_utterances |-> Len(d),
      num_filts |-> d[Len(d)].F,
      total_frames |-> SumSeq([a \in 1..Len(d) |-> d[a].T]),
      total_tokens |-> IF hr /\ RefCells(d) # {} THEN Cardinality(RefCells(d)) ELSE None,
      max_ali_class |-> mac, max_ref_class |-> mrc,
      count |-> [i \in 0..mac |-> CountDecl(d, i)], segs |-> [i \in 0..mac |-> SegsDecl(d, i)],
      rcount |-> [i \in 0..mrc |-> RCountDoc(d, i)], rcount_strict |-> [i \in 0..mrc |-> RCountStrict(d, i)],
      rsegs |-> [i \in 0..mrc |-> RSegsDecl(d, i)]]

\* code-shaped accumulation: per utterance, runs of the alignment (unique_consecutive), then tokens
RECURSIVE AccAli(_, _, _, _)
AccAli(vals, t, cnt, sg) ==     \* cnt, sg: functions class -> number (partial, as dicts)
  IF t > Len(vals) THEN <<cnt, sg>>
  ELSE LET i == vals[t]
           c2 == IF i \in DOMAIN cnt THEN [cnt EXCEPT ![i] = @ + 1] ELSE (i :> 1) @@ cnt
           newrun == t = 1 \/ vals[t - 1] # i
           s2 == IF ~newrun THEN sg ELSE IF i \in DOMAIN sg THEN [sg EXCEPT ![i] = @ + 1] ELSE (i :> 1) @@ sg
       IN AccAli(vals, t + 1, c2, s2)
RECURSIVE AccRef(_, _, _, _, _)
AccRef(rows, is2d, j, rc, rs) ==
  IF j > Len(rows) THEN <<rc, rs>>
  ELSE LET tok == rows[j][1]
           st == IF is2d THEN rows[j][2] ELSE None
           en == IF is2d THEN rows[j][3] ELSE None
           old == IF tok \in DOMAIN rc THEN rc[tok] ELSE 0
           new == IF old >= 0 /\ en > st /\ st >= 0 THEN old + en - st ELSE None
           rc2 == IF tok \in DOMAIN rc THEN [rc EXCEPT ![tok] = new] ELSE (tok :> new) @@ rc
           rs2 == IF tok \in DOMAIN rs THEN [rs EXCEPT ![tok] = @ + 1] ELSE (tok :> 1) @@ rs
       IN AccRef(rows, is2d, j + 1, rc2, rs2)
RECURSIVE AccDir(_, _, _, _, _)
AccDir(d, a, ha, hr, acc) ==
  IF a > Len(d) THEN acc
  ELSE LET u == d[a]
           al == IF ha THEN AccAli(u.ali.vals, 1, acc.cnt, acc.sg) ELSE <<acc.cnt, acc.sg>>
           rf == IF hr THEN AccRef(u.ref.rows, u.ref.nd = 2, 1, acc.rc, acc.rs) ELSE <<acc.rc, acc.rs>>
       IN AccDir(d, a + 1, ha, hr,
                 [frames |-> acc.frames + u.T, filts |-> u.F,
                  tokens |-> IF hr THEN acc.tokens + Len(u.ref.rows) ELSE acc.tokens,
                  cnt |-> al[1], sg |-> al[2], rc |-> rf[1], rs |-> rf[2]])
Get(f, i, dflt) == IF i \in DOMAIN f THEN f[i] ELSE dflt
InfoCode(d, ha, hr) ==
  LET acc == AccDir(d, 1, ha, hr, [frames |-> 0, filts |-> 0, tokens |-> 0, cnt |-> <<>>, sg |-> <<>>,
                                   rc |-> <<>>, rs |-> <<>>])
      mac == IF DOMAIN acc.cnt = {} THEN None ELSE MaxOf(DOMAIN acc.cnt)
      mrc == IF DOMAIN acc.rs = {} THEN None ELSE MaxOf(DOMAIN acc.rs)
  IN [num_utterances |-> Len(d), num_filts |-> acc.filts, total_frames |-> acc.frames,
      total_tokens |-> IF acc.tokens = 0 THEN None ELSE acc.tokens,
      max_ali_class |-> mac, max_ref_class |-> mrc,
      count |-> [i \in 0..mac |-> Get(acc.cnt, i, 0)], segs |-> [i \in 0..mac |-> Get(acc.sg, i, 0)],
      rcount_strict |-> [i \in 0..mrc |-> Get(acc.rc, i, None)],
      rsegs |-> [i \in 0..mrc |-> Get(acc.rs, i, 0)]]

(***************************************************************************)
(* Design invariants                                                       *)
(***************************************************************************)
LastPass == hist[Len(hist)]
Fresh == phase = "idle" /\ Len(hist) > 0

BasesAreWellFormed == (phase = "inject" /\ defects = <<>>) => WellFormed(dir, hasali, hasref)
\* "passes validation if and only if it meets the documented conditions"; nothing is touched
StrictIffWellFormed ==
  (Fresh /\ LastPass.fix = None) =>
     /\ LastPass.ok <=> WellFormed(LastPass.before, hasali, hasref)
     /\ LastPass.after = LastPass.before
\* "with a fix tolerance, exactly the documented small defects are repaired on disk ...,
\*  while any other defect still raises"
FixIffRepairable ==
  (Fresh /\ HasFix(LastPass.fix)) =>
     LET rep == Repair(LastPass.before, LastPass.fix, hasali, hasref)
     IN /\ LastPass.ok <=> WellFormed(rep, hasali, hasref)
        /\ LastPass.ok => LastPass.after = rep
\* "... and a second, strict validation then passes"
AcceptedIsWellFormed == (Fresh /\ LastPass.ok) => WellFormed(LastPass.after, hasali, hasref)
RepairIdempotent ==
  (Fresh /\ HasFix(LastPass.fix)) =>
     LET rep == Repair(LastPass.before, LastPass.fix, hasali, hasref)
     IN Repair(rep, LastPass.fix, hasali, hasref) = rep
\* "the directory statistics report is the recount of the stored tensors"
InfoIsRecount ==
  (Fresh /\ LastPass.ok) =>
     LET c == InfoCode(dir, hasali, hasref)
         e == InfoDecl(dir, hasali, hasref)
     IN /\ \A f \in DOMAIN c : c[f] = e[f]
        /\ \A i \in DOMAIN e.rcount : e.rcount[i] = e.rcount_strict[i] \/ e.rcount_strict[i] = None

\* The view.  (1) the repairs of the presented reference are the presentation of the repairs of the
\* stored one, and the presented reference is repaired exactly when the stored one is: writing back
\* the repaired stored tensor is what "repaired on disk" means under every view
RepairCommutesWithView ==
  (phase = "pass" /\ part = "ref" /\ hasref) =>
     LET c == RefStep(dir[cur].ref, dir[cur].T, fix, r2d, view)
         cs == CheckRef(dir[cur].ref, dir[cur].T, fix, "none")
     IN c.ok => /\ cs.ok
                /\ c.seen = ViewRef(cs.val, view)
                /\ (c.seen # c.loaded) <=> (cs.val # dir[cur].ref)
\* (2) a tensor without a defect keeps its stored content (rejected passes included); features are
\* never rewritten (no CUDA tensors in this universe)
AliClean(u) == u.ali.dt = "i64" /\ u.ali.nd = 1 /\ Len(u.ali.vals) = u.T
RefClean(u) == /\ u.ref.dt = "i64" /\ u.ref.nd \in {1, 2}
               /\ u.ref.nd = 2 => /\ u.ref.cols = 3
                                   /\ \A j \in 1..Len(u.ref.rows) : RowOK(u.ref.rows[j], u.T)
UndamagedUntouched ==
  Fresh => \A a \in 1..Len(LastPass.before) :
             LET b == LastPass.before[a]
                 e == LastPass.after[a]
             IN /\ [e EXCEPT !.ali = b.ali, !.ref = b.ref] = b
                /\ (~hasali \/ AliClean(b)) => e.ali = b.ali
                /\ (~hasref \/ RefClean(b)) => e.ref = b.ref
(***************************************************************************)
(* Export: one record per completed history                                *)
(***************************************************************************)
Emit(rec) == PrintT(<<"VFJ", ToJson(rec)>>)
Complete == phase = "idle" /\ FixesSoFar \in PlansOf(view)
InfoRec(d) == IF WellFormed(d, hasali, hasref) THEN <<InfoDecl(d, hasali, hasref)>> ELSE <<>>
Export ==
  Complete =>
    Emit([hasali |-> hasali, hasref |-> hasref, defects |-> defects, dir |-> dirinit, view |-> view,
          wellformed |-> WellFormed(dirinit, hasali, hasref),
          info0 |-> InfoRec(dirinit),
          passes |-> [q \in 1..Len(hist) |->
                        [fix |-> hist[q].fix, ok |-> hist[q].ok, after |-> hist[q].after,
                         \* what the data set presents of the references left behind (classification only)
                         viewed |-> IF view = PlainView \/ ~hasref THEN <<>>
                                    ELSE [a \in 1..Len(hist[q].after) |-> ViewRef(hist[q].after[a].ref, view)],
                         info |-> IF hist[q].ok THEN InfoRec(hist[q].after) ELSE <<>>]]])
=============================================================================
