\* fixed_quick: exhaustive model of the Slicer kinds KFixed
INIT Init
NEXT Next
CONSTANTS
  Kinds <- KFixed
  WTypes <- AllWTypes
  Lobes = {0,1,2,3}
  FixedMaxLen = 8
  AliMaxLen = 0
  Labels = {1,2}
  RefMaxSegs = 0
  RefVals <- RefValsQuick
  RefOthers = {0}
  TokMaxSegs = 0
  TokSegs <- TokSegsQuick
  TokStarts <- TokStartsQuick
  TokEnds <- TokEndsQuick
  Pool <- ThePool
  Dirs <- DirsQuick
  DirLobes = {0}
  PadModes <- AllPadModes
INVARIANT TypeOK
INVARIANT ScanAgrees
INVARIANT FixedOK
INVARIANT AliOK
INVARIANT RefOK
INVARIANT TokOK
INVARIANT DirOK
INVARIANT TokConcat
INVARIANT FilesOK
INVARIANT Export
CHECK_DEADLOCK FALSE
