--------------------------- MODULE FeatStatsDelta ---------------------------
(***************************************************************************)
(* functional.feat_deltas / FeatureDeltas (_feats.py): values.             *)
(*                                                                         *)
(* Code-shaped machine: _feat_delta_filters builds order+1 FIR filters of  *)
(* length 1 + 2*width*order: an impulse, then repeatedly the previous      *)
(* filter cross-correlated (zero padded) with the kernel                   *)
(* (width, ..., -width)/Z  -- one action BuildFilter per order; then the   *)
(* input is padded ONCE by width*order on both sides in the chosen mode    *)
(* and all filters are applied by one cross-correlation -- action Apply.   *)
(* Declarative side: the recursion of the documentation                    *)
(*    d_0[t] = x[t],  d_u[t] = sum_{w=-W..W} w * d_{u-1}[t + w] / Z,       *)
(*    Z = sum w^2, on the input extended by the edge padding.              *)
(* Numerators are integers; order u carries the denominator Z^u.           *)
(***************************************************************************)
EXTENDS FeatStats

CONSTANTS MaxLen, Vals, Orders, Widths, PadModes, CVals

VARIABLES x, order, width, pad, cval,   \* the case; x: 1..n -> integer
          filts,                        \* filters built so far: filts[u + 1] : 0..2P -> numerator / Z^u
          out                           \* <<>> before Apply; then out[u + 1][t + 1], t = 0..n-1
vars == <<x, order, width, pad, cval, filts, out>>

NT == Len(x)
P == width * order                      \* one-sided padding / filter half length
Z == SumRange(-width, width, LAMBDA w : w * w)

\* torch.nn.functional.pad semantics for index t in -P .. n-1+P (0-based)
Ext(t) ==
  IF t >= 0 /\ t < NT THEN x[t + 1]
  ELSE CASE pad = "replicate" -> IF t < 0 THEN x[1] ELSE x[NT]
         [] pad = "constant"  -> cval
         [] pad = "reflect"   -> IF t < 0 THEN x[-t + 1] ELSE x[2 * (NT - 1) - t + 1]
         [] pad = "circular"  -> x[(t % NT) + 1]
\* what torch accepts: reflect needs P < n, circular P <= n
Legal(n, o, w, pm) == CASE pm = "reflect" -> w * o < n
                        [] pm = "circular" -> w * o <= n
                        [] OTHER -> TRUE

Init ==
  /\ \E n \in 1..MaxLen : x \in [1..n -> Vals]
  /\ order \in Orders /\ width \in Widths /\ pad \in PadModes
  /\ cval \in (IF pad = "constant" THEN CVals ELSE {0})
  /\ Legal(Len(x), order, width, pad)
  /\ filts = << [j \in 0..(2 * width * order) |-> IF j = width * order THEN 1 ELSE 0] >>
  /\ out = <<>>

\* conv1d(last_filt, kernel, padding=width) with kernel[k] = width - k, k = 0..2*width:
\* new[j] = sum_k padded[j + k] * kernel[k], padded[j + k] = last[j + k - width] (0 outside)
BuildFilter ==
  /\ Len(filts) <= order
  /\ LET last == filts[Len(filts)]
         at(j) == IF j >= 0 /\ j <= 2 * P THEN last[j] ELSE 0
         new == [j \in 0..(2 * P) |-> SumRange(0, 2 * width, LAMBDA k : at(j + k - width) * (width - k))]
     IN filts' = Append(filts, new)
  /\ UNCHANGED <<x, order, width, pad, cval, out>>

\* pad by P, then conv1d with every filter: y_u[t] = sum_j padded[t + j] * f_u[j], padded[t + j] = Ext(t + j - P)
Apply ==
  /\ Len(filts) = order + 1 /\ out = <<>>
  /\ out' = [u1 \in 1..(order + 1) |->
               [t1 \in 1..NT |-> SumRange(0, 2 * P, LAMBDA j : Ext(t1 - 1 + j - P) * filts[u1][j])]]
  /\ UNCHANGED <<x, order, width, pad, cval, filts>>

Next == BuildFilter \/ Apply
Spec == Init /\ [][Next]_vars

(***************************************************************************)
(* Declarative recursion and the design invariants                         *)
(***************************************************************************)
RECURSIVE Delta(_, _)
Delta(u, t) == IF u = 0 THEN Ext(t)
               ELSE SumRange(-width, width, LAMBDA w : w * Delta(u - 1, t + w))

DeltasAreRecursion ==
  out # <<>> => \A u \in 0..order : \A t \in 0..(NT - 1) : out[u + 1][t + 1] = Delta(u, t)
\* filter u is the u-fold regression kernel: antisymmetric for odd u, symmetric for even u, zero-sum for u >= 1
FilterShape ==
  \A u1 \in 1..Len(filts) :
     /\ \A j \in 0..(2 * P) : filts[u1][j] = (IF (u1 - 1) % 2 = 1 THEN -1 ELSE 1) * filts[u1][2 * P - j]
     /\ (u1 > 1 => SumRange(0, 2 * P, LAMBDA j : filts[u1][j]) = 0)

Export ==
  out # <<>> => Emit([x |-> x, order |-> order, width |-> width, pad |-> pad, cval |-> cval, z |-> Z, out |-> out])
=============================================================================
