------------------------------- MODULE KatzMC -------------------------------
(* Exhaustive table universes for Katz (orders 1 and 2): every presence pattern. *)
EXTENDS Katz
\* every subset of all 1..N-grams listed with a finite value, none with an explicit -inf
AllPresence == {[fin |-> S, inf |-> {}] : S \in SUBSET AllGrams}
\* every split of all 1..N-grams into finite / explicit -inf / absent
AllSplits == {[fin |-> S, inf |-> I] : S \in SUBSET AllGrams, I \in SUBSET AllGrams} 
AllDisjointSplits == {t \in AllSplits : t.fin \cap t.inf = {}}
=============================================================================
