------------------------ MODULE BatchingCollateTrace ------------------------
(***************************************************************************)
(* code -> spec: one-step traces of the real collation functions           *)
(* (spect_seq_to_batch, lang_seq_to_batch, context_window_seq_to_batch,    *)
(* called directly or through the loaders' collate_fn).  The harness       *)
(* projects the returned tensors to the abstract record (provenance values,*)
(* padding constants -> 0) and the original Collate action of              *)
(* BatchingCollate must produce exactly that record for SOME legal row     *)
(* order.  All design invariants are evaluated on the accepted state.      *)
(*                                                                         *)
(* Trace file: [{tid, kind, items: [{id, T, R, A}], sort, left, right,     *)
(* rev, out: {...}}].                                                      *)
(***************************************************************************)
EXTENDS BatchingCollateMC, IOUtils, TLCExt

Traces == JsonDeserialize(IOEnv.TRACE_FILE)

VARIABLES ti, pos
tvars == <<vars, ti, pos>>

\* the design invariants are part of the step relation (see SamplerTrace)
AllInv ==
  /\ IdsStay
  /\ OneEntryPerUtterance
  /\ EmptyUtterancesStay
  /\ CutIsLossless
  /\ PaddingIsPad
  /\ OptionalParts
  /\ SortedWhenAsked
  /\ OrderKeptOtherwise
  /\ WindowsSplitBack
FailedInvs ==
  (IF IdsStay THEN {} ELSE {"IdsStay"})
  \cup (IF OneEntryPerUtterance THEN {} ELSE {"OneEntryPerUtterance"})
  \cup (IF EmptyUtterancesStay THEN {} ELSE {"EmptyUtterancesStay"})
  \cup (IF CutIsLossless THEN {} ELSE {"CutIsLossless"})
  \cup (IF PaddingIsPad THEN {} ELSE {"PaddingIsPad"})
  \cup (IF OptionalParts THEN {} ELSE {"OptionalParts"})
  \cup (IF SortedWhenAsked THEN {} ELSE {"SortedWhenAsked"})
  \cup (IF OrderKeptOtherwise THEN {} ELSE {"OrderKeptOtherwise"})
  \cup (IF WindowsSplitBack THEN {} ELSE {"WindowsSplitBack"})
Diag == IOEnv.PROGRESS = "1"

TInit ==
  \E i \in 1..Len(Traces) :
    LET h == Traces[i]
    IN /\ ti = i /\ pos = 0
       /\ kind = h.kind /\ items = h.items /\ sort = h.sort
       /\ left = h.left /\ right = h.right /\ rev = h.rev
       /\ out = <<>> /\ done = FALSE

TNext ==
  /\ pos = 0 /\ pos' = 1 /\ ti' = ti
  /\ Collate
  /\ out' = Traces[ti].out
  /\ (Diag \/ AllInv')

Accept ==
  (pos = 1) =>
     /\ TLCSet(1, TLCGet(1) + 1)
     /\ Emit([what |-> "accepted", tid |-> Traces[ti].tid])
\* diagnosis run: what the specification would have accepted
Progress ==
  Diag =>
     /\ Emit([what |-> "progress", tid |-> Traces[ti].tid, pos |-> pos, failed |-> FailedInvs])
     /\ (pos = 0 => Emit([what |-> "expected", tid |-> Traces[ti].tid,
                          outs |-> {Out(ord) : ord \in {o \in Perms(N) : Legal(o)}}]))
ASSUME TLCSet(1, 0)
Post == TLCGet(1) = Len(Traces)
=============================================================================
