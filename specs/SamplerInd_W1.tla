---- MODULE SamplerInd_W1 ----
EXTENDS Integers
VARIABLES
  \* @type: Int;
  i,
  \* @type: Int -> Int;
  cnt
INSTANCE SamplerInd WITH W <- 1
====
