\* epoch in file names, keep everything, single crash; parameter setting P1 (patience 2, burn-in, cool-down, epsilon guard)
INIT Init
NEXT Next
CONSTANTS
  EpochFmt = TRUE
  KeepLB = FALSE
  BestTrain = FALSE
  ModelKind = "wrapper"
  Params <- FsP1
  MaxE = 4
  MaxCrash = 1
  Levels = {1, 2, 3}
INVARIANT TypeOK
INVARIANT HistoryIsPrefix
INVARIANT LastLoadable
INVARIANT BestLoadable
INVARIANT ExactlyTwo
INVARIANT AllLoadable
INVARIANT Convergent
INVARIANT LiveRate
INVARIANT Export
CHECK_DEADLOCK FALSE
