------------------------------- MODULE Slicer -------------------------------
(***************************************************************************)
(* C10 -- slicing policies, token chunking and directory chunking of       *)
(* pydrobert.torch (_feats.py: slice_spect_data, chunk_token_sequences_by_ *)
(* slices; command_line.py: chunk-torch-spect-data-dir).                   *)
(*                                                                         *)
(* The window definitions are written from the class documentation of      *)
(* SliceSpectData / ChunkTokenSequencesBySlices, per sequence, as          *)
(* declarative operators (set comprehensions + sorting).  A small machine  *)
(* produces the same results by a left-to-right scan (one action per       *)
(* window / frame / segment / token / utterance).  TLC checks that scan,   *)
(* declarative form and -- where there is one -- a closed form or a        *)
(* set-of-frames form agree, that valid-only windows lie inside their      *)
(* sequence, that chunking a well-formed directory gives a well-formed     *)
(* directory whose chunks are the source restricted to the window, and     *)
(* the docstring's worked examples (ASSUME).  Every finished behaviour is  *)
(* exported and replayed into the real code.                               *)
(*                                                                         *)
(* The output DIRECTORY of the command is a map from file names to chunks:  *)
(* the machine writes one file per window (WriteFile), a later file of the  *)
(* same name replacing an earlier one; declaratively a name holds ANY ONE   *)
(* of the chunks that format to it.  TLC checks that a name which carries   *)
(* the window determines the chunk (FilesOK), so with the default format    *)
(* the file named after window [s, e) holds the source restricted to        *)
(* [s, e) whatever the order and multiplicity of the windows.  Token        *)
(* chunking distributes over concatenation of token lists and commutes     *)
(* with renaming the tokens (TokConcat): the harness builds long            *)
(* transcripts from the exported small cases on that ground.               *)
(*                                                                         *)
(* Frames are 0-based, windows/segments half-open <<start, end>>.          *)
(***************************************************************************)
EXTENDS PadSliceOps, TLC, Json

CONSTANTS Kinds,        \* subset of {"fixed", "ali", "ref", "tok", "dir"}
          WTypes,       \* subset of {"symmetric", "causal", "future"}
          Lobes,        \* lobe sizes
          FixedMaxLen,  \* fixed policy: sequence lengths 0..FixedMaxLen
          AliMaxLen,    \* ali policy: every label sequence of length 0..AliMaxLen ...
          Labels,       \* ... over these labels
          RefMaxSegs,   \* ref policy: lists of 0..RefMaxSegs segments ...
          RefVals,      \* ... with starts / ends from this set (-1 = missing)
          RefOthers,    \* other_lens values (feature lengths); Om = omitted is always tried too
          TokMaxSegs,   \* token chunking: lists of 0..TokMaxSegs tokens ...
          TokSegs,      \* ... with <<start, end>> from this set (start <= end, or missing = -1)
          TokStarts, TokEnds,   \* slice bounds
          Pool,         \* directory chunking: sequence of utterances [T, ali, ref]
          Dirs,         \* set of directories [utts (set of Pool indices), hasAli, hasRef]
          DirLobes,
          PadModes      \* subset of {"none", "constant", "reflect", "replicate"}

Om == -9                \* "argument omitted"
Left(wt) == wt \in {"symmetric", "causal"}
Right(wt) == wt \in {"symmetric", "future"}

RECURSIVE SortSet(_)
SortSet(S) == IF S = {} THEN <<>>
              ELSE LET m == CHOOSE x \in S : \A y \in S : x <= y IN <<m>> \o SortSet(S \ {m})
SeqsUpTo(S, n) == UNION {[1..m -> S] : m \in 0..n}

(***************************************************************************)
(* policy "fixed": windows at stride lobe + 1.  symmetric: size 2*lobe+1,  *)
(* otherwise lobe+1.  valid_only: start at 0, as many as fit fully.        *)
(* Otherwise first offsets (lobe+1) div 2 - size div 2 / -lobe / 0 and a   *)
(* window is kept iff its "middle" index (start + size div 2 / last index  *)
(* / first index) lies before the end of the sequence.                     *)
(***************************************************************************)
WinSize(wt, b) == IF wt = "symmetric" THEN 2 * b + 1 ELSE b + 1
FirstStart(wt, valid, b) ==
  IF valid THEN 0
  ELSE CASE wt = "symmetric" -> ((b + 1) \div 2) - (WinSize(wt, b) \div 2)
         [] wt = "causal"    -> 0 - b
         [] wt = "future"    -> 0
MidOf(wt, b, s) ==
  CASE wt = "symmetric" -> s + (WinSize(wt, b) \div 2)
    [] wt = "causal"    -> s + WinSize(wt, b) - 1
    [] wt = "future"    -> s
FixedWin(wt, valid, b, k) ==
  LET s == FirstStart(wt, valid, b) + k * (b + 1) IN <<s, s + WinSize(wt, b)>>
FixedKeep(wt, valid, b, L, k) ==
  LET w == FixedWin(wt, valid, b, k)
  IN IF valid THEN w[2] <= L ELSE MidOf(wt, b, w[1]) < L
FixedKept(wt, valid, b, L) == {k \in 0..L : FixedKeep(wt, valid, b, L, k)}
FixedWindows(wt, valid, b, L) ==
  LET ks == SortSet(FixedKept(wt, valid, b, L))
  IN [i \in 1..Len(ks) |-> FixedWin(wt, valid, b, ks[i])]
\* closed form for the number of windows (independent arithmetic)
FixedCount(wt, valid, b, L) ==
  IF valid THEN (IF L >= WinSize(wt, b) THEN ((L - WinSize(wt, b)) \div (b + 1)) + 1 ELSE 0)
  ELSE LET m0 == MidOf(wt, b, FirstStart(wt, valid, b))
       IN IF L > m0 THEN ((L - 1 - m0) \div (b + 1)) + 1 ELSE 0

(***************************************************************************)
(* policy "ali": "a segment starts at index t whenever t == 0 or           *)
(* alis[t - 1] != alis[t]".  Slice m starts at the start of segment        *)
(* m - lobe (symmetric, causal) and ends at the end of segment m + lobe    *)
(* (symmetric, future); a missing segment drops the slice when valid_only, *)
(* otherwise the furthest existing segment in that direction is used.      *)
(***************************************************************************)
SegStarts(seq) == {t \in 0..(Len(seq) - 1) : t = 0 \/ seq[t] # seq[t + 1]}
Runs(seq) ==
  LET st == SortSet(SegStarts(seq))
  IN [m \in 1..Len(st) |-> <<st[m], IF m < Len(st) THEN st[m + 1] ELSE Len(seq)>>]
\* independent formulation: the maximal intervals on which the label is constant
MaximalRuns(seq) ==
  LET L == Len(seq)
  IN {w \in (0..L) \X (0..L) :
        /\ w[1] < w[2]
        /\ \A t \in (w[1] + 1)..w[2] : seq[t] = seq[w[1] + 1]
        /\ (w[1] = 0 \/ seq[w[1]] # seq[w[1] + 1])
        /\ (w[2] = L \/ seq[w[2] + 1] # seq[w[2]])}
WindowsFromRuns(rs, wt, valid, b) ==
  LET M == Len(rs)
      lo(m) == IF Left(wt) THEN Greater(m - b, 1) ELSE m
      hi(m) == IF Right(wt) THEN Lesser(m + b, M) ELSE m
      ok(m) == ~valid \/ ((Left(wt) => m - b >= 1) /\ (Right(wt) => m + b <= M))
      ms == SortSet({m \in 1..M : ok(m)})
  IN [i \in 1..Len(ms) |-> <<rs[lo(ms[i])][1], rs[hi(ms[i])][2]>>]
AliWindows(seq, wt, valid, b) == WindowsFromRuns(Runs(seq), wt, valid, b)

(***************************************************************************)
(* policy "ref": segments <<start, end>> of a transcription.  The lobe is  *)
(* subtracted from starts (symmetric, causal) / added to ends (symmetric,  *)
(* future).  Discarded: a missing (negative) boundary; indexed at or past  *)
(* in_lens; padded start >= padded end; valid_only: padded start < 0 or    *)
(* padded end > other_lens; not valid_only: padded end <= 0 or the padded  *)
(* start "begins after other_lens".  The last phrase is read as            *)
(* start >= other_lens (the slice lies wholly beyond the last frame,       *)
(* mirroring "ends at or before 0"); keepAtEq = TRUE is the other reading  *)
(* (start > other_lens), exported as an equally acceptable alternative.    *)
(* other_lens omitted: the end of the last listed segment (0 if none).     *)
(***************************************************************************)
RefShift(seg, wt, b) ==
  <<IF Left(wt) THEN seg[1] - b ELSE seg[1], IF Right(wt) THEN seg[2] + b ELSE seg[2]>>
RefKeep(seg, wt, valid, b, other, keepAtEq) ==
  LET w == RefShift(seg, wt, b)
  IN /\ seg[1] >= 0 /\ seg[2] >= 0
     /\ w[1] < w[2]
     /\ IF valid THEN w[1] >= 0 /\ w[2] <= other
        ELSE w[2] > 0 /\ (w[1] < other \/ (keepAtEq /\ w[1] = other))
DefaultOther(segs, inlen) == IF inlen = 0 THEN 0 ELSE segs[inlen][2]
RefWindows(segs, inlen, other, wt, valid, b, keepAtEq) ==
  LET idx == SortSet({i \in 1..inlen : RefKeep(segs[i], wt, valid, b, other, keepAtEq)})
  IN [j \in 1..Len(idx) |-> RefShift(segs[idx[j]], wt, b)]

(***************************************************************************)
(* ChunkTokenSequencesBySlices: tokens <<tok, start, end>>; a negative     *)
(* boundary excludes the token; kept iff contained in the slice (or, with  *)
(* partial, overlapping it); boundaries relative to the slice start unless *)
(* retain.                                                                 *)
(***************************************************************************)
Contained(s, e, a, b) == a <= s /\ e <= b
Overlaps(s, e, a, b) == a < e /\ b > s
Frames(s, e) == s..(e - 1)
TokKeep(tk, a, b, partial) ==
  /\ tk[2] >= 0 /\ tk[3] >= 0
  /\ IF partial THEN Overlaps(tk[2], tk[3], a, b) ELSE Contained(tk[2], tk[3], a, b)
TokOut(tk, a, retain) == IF retain THEN tk ELSE <<tk[1], tk[2] - a, tk[3] - a>>
ChunkTokens(refs, reflen, a, b, partial, retain) ==
  LET idx == SortSet({i \in 1..reflen : TokKeep(refs[i], a, b, partial)})
  IN [j \in 1..Len(idx) |-> TokOut(refs[idx[j]], a, retain)]
\* independent formulation: left-to-right compaction (PadSliceOps.Compact) of the kept tokens
ChunkTokensCompact(refs, reflen, a, b, partial, retain) ==
  LET head == SubSeq(refs, 1, reflen)
      kept == Compact(head, [i \in 1..reflen |-> TokKeep(refs[i], a, b, partial)])
  IN [j \in 1..Len(kept) |-> TokOut(kept[j], a, retain)]
Relabel(toks, d) == [i \in 1..Len(toks) |-> <<toks[i][1] + d, toks[i][2], toks[i][3]>>]
\* the statement fixes "overlap" only for non-empty segments and slices
TokDetermined(refs, reflen, a, b, partial) ==
  ~partial \/ (a < b /\ \A i \in 1..reflen : (refs[i][2] >= 0 /\ refs[i][3] >= 0) => refs[i][2] < refs[i][3])

(***************************************************************************)
(* chunk-torch-spect-data-dir: every utterance is sliced by the policy     *)
(* (in_lens / other_lens not passed; valid_only iff no --pad-mode) and     *)
(* each window yields one new utterance: features and alignments by        *)
(* ChunkBySlices (PadSliceOps.SliceOne), tokens by ChunkTokens.            *)
(***************************************************************************)
SegsOf(ref) == [i \in 1..Len(ref) |-> <<ref[i][2], ref[i][3]>>]
DirWindows(u, o) ==
  LET valid == o.padmode = "none"
  IN CASE o.policy = "fixed" -> FixedWindows(o.wt, valid, o.lobe, u.T)
       [] o.policy = "ali"   -> AliWindows(u.ali, o.wt, valid, o.lobe)
       [] o.policy = "ref"   -> RefWindows(SegsOf(u.ref), Len(u.ref), DefaultOther(SegsOf(u.ref), Len(u.ref)),
                                           o.wt, valid, o.lobe, FALSE)
ModeOf(o) == IF o.padmode = "none" THEN "constant" ELSE o.padmode
ChunkOf(u, uid, m, w, o, d) ==
  [utt |-> uid, idx |-> m - 1, s |-> w[1], e |-> w[2],
   feat |-> SliceOne(Id(u.T), w[1], w[2], ModeOf(o)),
   ali  |-> IF d.hasAli THEN SliceOne(u.ali, w[1], w[2], ModeOf(o)) ELSE <<>>,
   ref  |-> IF d.hasRef THEN ChunkTokens(u.ref, Len(u.ref), w[1], w[2], o.partial, o.retain) ELSE <<>>]
ChunksOfUtt(uid, o, d) ==
  LET u == Pool[uid]
      ws == DirWindows(u, o)
  IN [m \in 1..Len(ws) |-> ChunkOf(u, uid, m, ws[m], o, d)]
UttLegal(uid, o) ==
  LET u == Pool[uid]
      ws == DirWindows(u, o)
  IN \A m \in 1..Len(ws) : LegalSlice(u.T, ws[m][1], ws[m][2], ModeOf(o))
\* --format-utt: the name of a chunk is a function of the keys the format string mentions
\* (utt_id always; idx, start, end).  A name is <<utt, idx, start, end>> with Om for a key
\* that the format does not mention.
Fmts == {"se", "ise", "i", "s"}
NameOf(ch, f) ==
  CASE f = "se"  -> <<ch.utt, Om, ch.s, ch.e>>          \* the default '{utt_id}.{start:05d}.{end:05d}'
    [] f = "ise" -> <<ch.utt, ch.idx, ch.s, ch.e>>
    [] f = "i"   -> <<ch.utt, ch.idx, Om, Om>>
    [] f = "s"   -> <<ch.utt, Om, ch.s, Om>>             \* not injective: windows with one start clash
Content(ch) == <<ch.feat, ch.ali, ch.ref>>
\* the documented directory: one file per name, holding any one of the chunks formatted to it
OutNames(chs, f) == {NameOf(chs[j], f) : j \in 1..Len(chs)}
Holders(chs, f, nm) == {j \in 1..Len(chs) : NameOf(chs[j], f) = nm}
\* validate_spect_data_set's conditions, as far as the abstraction carries them
WellFormedUtt(T, hasAli, ali, hasRef, ref) ==
  /\ hasAli => Len(ali) = T
  /\ hasRef => \A i \in 1..Len(ref) :
                  \/ ref[i][2] < 0 /\ ref[i][3] < 0
                  \/ 0 <= ref[i][2] /\ ref[i][2] <= ref[i][3] /\ ref[i][3] <= T
\* inputs on which the documentation does not pin the outcome down
RefDirOK(uid, o) ==
  LET u == Pool[uid]
      segs == SegsOf(u.ref)
      other == DefaultOther(segs, Len(segs))
  IN o.policy = "ref" =>
       /\ other >= 0
       /\ o.padmode # "none" => \A i \in 1..Len(segs) : RefShift(segs[i], o.wt, o.lobe)[1] # other

(***************************************************************************)
(* Cases                                                                   *)
(***************************************************************************)
Blank == [kind |-> "", wt |-> "symmetric", valid |-> TRUE, lobe |-> 0, omit |-> FALSE, seq |-> <<>>,
          len |-> 0, inlen |-> 0, other |-> 0, a |-> 0, b |-> 0, partial |-> FALSE, retain |-> FALSE,
          dir |-> 0, opt |-> 0]
Grid == {[wt |-> w, valid |-> v, lobe |-> lb] : w \in WTypes, v \in BOOLEAN, lb \in Lobes}

\* effective arguments
InLen(cs) == IF cs.inlen = Om THEN cs.len ELSE cs.inlen
Other(cs) == IF cs.other = Om THEN DefaultOther(cs.seq, InLen(cs)) ELSE cs.other

\* Each universe is a predicate over a candidate case (enumerated by Init's quantifiers).
FixedCase(g, n, om) ==
  [Blank EXCEPT !.kind = "fixed", !.wt = g.wt, !.valid = g.valid, !.lobe = g.lobe, !.len = n, !.omit = om]
AliCase(g, sq, om) ==
  [Blank EXCEPT !.kind = "ali", !.wt = g.wt, !.valid = g.valid, !.lobe = g.lobe, !.seq = sq, !.len = Len(sq),
                !.omit = om]
RefLists == SeqsUpTo(RefVals \X RefVals, RefMaxSegs)
RefCase(g, sq, il, ot) ==
  [Blank EXCEPT !.kind = "ref", !.wt = g.wt, !.valid = g.valid, !.lobe = g.lobe, !.seq = sq,
                !.len = Len(sq), !.inlen = il, !.other = ot]
RefCaseOK(cs) ==
  /\ cs.inlen = Om \/ cs.inlen <= cs.len
  \* other_lens omitted: only judged when the last listed segment has a known end
  /\ cs.other = Om => (InLen(cs) = 0 \/ cs.seq[InLen(cs)][2] >= 0)
TokLists == SeqsUpTo(TokSegs, TokMaxSegs)
TokCase(sq, il, a, b, p, rt) ==
  [Blank EXCEPT !.kind = "tok", !.seq = [i \in 1..Len(sq) |-> <<10 + i, sq[i][1], sq[i][2]>>],
                !.len = Len(sq), !.inlen = il, !.a = a, !.b = b, !.partial = p, !.retain = rt]
TokCaseOK(cs) == cs.inlen = Om \/ cs.inlen <= cs.len
DirOpts ==
  {[policy |-> po, wt |-> w, lobe |-> lb, padmode |-> pm, partial |-> p, retain |-> rt] :
     po \in {"fixed", "ali", "ref"}, w \in WTypes, lb \in DirLobes, pm \in PadModes,
     p \in BOOLEAN, rt \in BOOLEAN}
DirCase(d, o) == [Blank EXCEPT !.kind = "dir", !.dir = d, !.opt = o]
DirCaseOK(cs) ==
  /\ cs.opt.policy = "ali" => cs.dir.hasAli
  /\ cs.opt.policy = "ref" => cs.dir.hasRef
  /\ ~cs.dir.hasRef => ~cs.opt.partial /\ ~cs.opt.retain      \* options without effect
  /\ \A uid \in cs.dir.utts : RefDirOK(uid, cs.opt)

\* the declarative result of a case
Decl(cs, keepAtEq) ==
  CASE cs.kind = "fixed" -> FixedWindows(cs.wt, cs.valid, cs.lobe, cs.len)
    [] cs.kind = "ali"   -> AliWindows(cs.seq, cs.wt, cs.valid, cs.lobe)
    [] cs.kind = "ref"   -> RefWindows(cs.seq, InLen(cs), Other(cs), cs.wt, cs.valid, cs.lobe, keepAtEq)
    [] cs.kind = "tok"   -> ChunkTokens(cs.seq, InLen(cs), cs.a, cs.b, cs.partial, cs.retain)
    [] cs.kind = "dir"   ->
         LET us == SortSet(cs.dir.utts)
             RECURSIVE Cat(_)
             Cat(i) == IF i > Len(us) THEN <<>> ELSE ChunksOfUtt(us[i], cs.opt, cs.dir) \o Cat(i + 1)
         IN Cat(1)

(***************************************************************************)
(* The scanning machine                                                    *)
(***************************************************************************)
VARIABLES c,     \* the case
          pos,   \* windows tried / frames / segments / tokens / utterances scanned
          acc,   \* fixed, ref: windows; ali: runs (the last one still open); tok: tokens; dir: chunks
          pc,    \* "scan", "write" (dir only), "done", "raised" (dir only)
          written,  \* dir: number of chunks of acc whose files have been written
          files     \* dir: per format, file name -> index (in acc) of the chunk the file holds
vars == <<c, pos, acc, pc, written, files>>

ScanEnd(cs) ==
  CASE cs.kind = "fixed" -> cs.len + 1            \* never reached: the scan stops at the first rejected window
    [] cs.kind = "ali"   -> cs.len
    [] cs.kind = "ref"   -> InLen(cs)
    [] cs.kind = "tok"   -> InLen(cs)
    [] cs.kind = "dir"   -> Cardinality(cs.dir.utts)

Start(cs) ==
  /\ c = cs /\ pos = 0 /\ acc = <<>>
  /\ written = 0 /\ files = [f \in Fmts |-> <<>>]
  /\ pc = IF ScanEnd(cs) = 0 THEN "done" ELSE "scan"

\* (the filters are written `... = TRUE` so that TLC evaluates them as plain Boolean values: while
\* enumerating initial states it explores BOTH sides of a disjunction)
Init ==
  \/ /\ "fixed" \in Kinds
     /\ \E g \in Grid, n \in 0..FixedMaxLen, om \in BOOLEAN : Start(FixedCase(g, n, om))
  \/ /\ "ali" \in Kinds
     /\ \E g \in Grid, sq \in SeqsUpTo(Labels, AliMaxLen), om \in BOOLEAN : Start(AliCase(g, sq, om))
  \/ /\ "ref" \in Kinds
     /\ \E g \in Grid, sq \in RefLists, il \in (0..RefMaxSegs) \cup {Om}, ot \in RefOthers \cup {Om} :
          (RefCaseOK(RefCase(g, sq, il, ot)) = TRUE) /\ Start(RefCase(g, sq, il, ot))
  \/ /\ "tok" \in Kinds
     /\ \E sq \in TokLists, il \in (0..TokMaxSegs) \cup {Om}, a \in TokStarts, b \in TokEnds,
          p \in BOOLEAN, rt \in BOOLEAN :
          (TokCaseOK(TokCase(sq, il, a, b, p, rt)) = TRUE) /\ Start(TokCase(sq, il, a, b, p, rt))
  \/ /\ "dir" \in Kinds
     /\ \E d \in Dirs, o \in DirOpts : (DirCaseOK(DirCase(d, o)) = TRUE) /\ Start(DirCase(d, o))

Finish(p) == IF p >= ScanEnd(c) THEN "done" ELSE "scan"

Slide ==          \* fixed: try window number pos
  /\ pc = "scan" /\ c.kind = "fixed"
  /\ IF FixedKeep(c.wt, c.valid, c.lobe, c.len, pos)
     THEN /\ acc' = Append(acc, FixedWin(c.wt, c.valid, c.lobe, pos))
          /\ pos' = pos + 1 /\ pc' = "scan"
     ELSE /\ pc' = "done" /\ UNCHANGED <<acc, pos>>
  /\ UNCHANGED <<c, written, files>>

Frame ==          \* ali: frame pos either opens a new run or extends the open one
  /\ pc = "scan" /\ c.kind = "ali"
  /\ acc' = IF pos = 0 \/ c.seq[pos] # c.seq[pos + 1]
            THEN Append(acc, <<pos, pos + 1>>)
            ELSE [acc EXCEPT ![Len(acc)] = <<acc[Len(acc)][1], pos + 1>>]
  /\ pos' = pos + 1 /\ pc' = Finish(pos + 1)
  /\ UNCHANGED <<c, written, files>>

Segment ==        \* ref: listed segment pos + 1
  /\ pc = "scan" /\ c.kind = "ref"
  /\ acc' = IF RefKeep(c.seq[pos + 1], c.wt, c.valid, c.lobe, Other(c), FALSE)
            THEN Append(acc, RefShift(c.seq[pos + 1], c.wt, c.lobe)) ELSE acc
  /\ pos' = pos + 1 /\ pc' = Finish(pos + 1)
  /\ UNCHANGED <<c, written, files>>

Token ==          \* tok: listed token pos + 1
  /\ pc = "scan" /\ c.kind = "tok"
  /\ acc' = IF TokKeep(c.seq[pos + 1], c.a, c.b, c.partial)
            THEN Append(acc, TokOut(c.seq[pos + 1], c.a, c.retain)) ELSE acc
  /\ pos' = pos + 1 /\ pc' = Finish(pos + 1)
  /\ UNCHANGED <<c, written, files>>

ChunkUtt ==       \* dir: the next utterance in sorted order; a window whose padding is not legal for
                  \* the mode makes the command raise (documented NotImplementedError / RuntimeError)
  /\ pc = "scan" /\ c.kind = "dir"
  /\ IF UttLegal(SortSet(c.dir.utts)[pos + 1], c.opt)
     THEN \E new \in {ChunksOfUtt(SortSet(c.dir.utts)[pos + 1], c.opt, c.dir)} :
            /\ acc' = acc \o new
            /\ pos' = pos + 1
            /\ pc' = IF Len(new) > 0 THEN "write" ELSE Finish(pos + 1)
     ELSE /\ pc' = "raised" /\ UNCHANGED <<acc, pos>>
  /\ UNCHANGED <<c, written, files>>

WriteFile ==      \* dir: the next chunk of the utterance is saved under its name (for every format at
                  \* once); a file of that name written before is replaced
  /\ pc = "write"
  /\ written' = written + 1
  /\ files' = [f \in Fmts |-> (NameOf(acc[written + 1], f) :> (written + 1)) @@ files[f]]
  /\ pc' = IF written + 1 < Len(acc) THEN "write" ELSE Finish(pos)
  /\ UNCHANGED <<c, pos, acc>>

Next == Slide \/ Frame \/ Segment \/ Token \/ ChunkUtt \/ WriteFile
Spec == Init /\ [][Next]_vars

\* what the machine has computed
Result == IF c.kind = "ali" THEN WindowsFromRuns(acc, c.wt, c.valid, c.lobe) ELSE acc

(***************************************************************************)
(* Design invariants                                                       *)
(***************************************************************************)
TypeOK ==
  /\ pc \in {"scan", "write", "done", "raised"} /\ pos \in Nat
  /\ (pc \in {"raised", "write"} => c.kind = "dir")
  /\ written \in 0..Len(acc) /\ (c.kind # "dir" => written = 0)
  /\ DOMAIN files = Fmts

ScanAgrees == pc = "done" => Result = Decl(c, FALSE)

FixedOK ==
  c.kind = "fixed" =>
    LET ws == FixedWindows(c.wt, c.valid, c.lobe, c.len)
        K == FixedKept(c.wt, c.valid, c.lobe, c.len)
    IN /\ K = 0..(Cardinality(K) - 1)                              \* the kept windows are the first ones
       /\ Len(ws) = FixedCount(c.wt, c.valid, c.lobe, c.len)        \* closed form
       /\ \A i \in 1..Len(ws) : ws[i][2] - ws[i][1] = WinSize(c.wt, c.lobe)
       /\ \A i \in 1..(Len(ws) - 1) : ws[i + 1][1] - ws[i][1] = c.lobe + 1
       /\ c.valid => \A i \in 1..Len(ws) : 0 <= ws[i][1] /\ ws[i][2] <= c.len      \* inside the sequence
       /\ c.valid => (c.len - (IF Len(ws) = 0 THEN 0 ELSE ws[Len(ws)][1] + c.lobe + 1) < WinSize(c.wt, c.lobe))
                                                                   \* ... and no further one would fit
       /\ ~c.valid => \A i \in 1..Len(ws) : 0 <= MidOf(c.wt, c.lobe, ws[i][1]) /\ MidOf(c.wt, c.lobe, ws[i][1]) < c.len
       /\ (c.lobe = 0) => ws = [i \in 1..c.len |-> <<i - 1, i>>]    \* no lobes: one window per frame

AliOK ==
  c.kind = "ali" =>
    LET rs == Runs(c.seq)
        ws == AliWindows(c.seq, c.wt, c.valid, c.lobe)
    IN /\ SortSet({w[1] : w \in MaximalRuns(c.seq)}) = [m \in 1..Len(rs) |-> rs[m][1]]   \* two formulations
       /\ {rs[m] : m \in 1..Len(rs)} = MaximalRuns(c.seq)
       /\ (pc = "done" => acc = rs)                                                      \* and the scan
       /\ (Len(rs) > 0 => rs[1][1] = 0 /\ rs[Len(rs)][2] = c.len)                        \* a partition of [0, len)
       /\ \A m \in 1..(Len(rs) - 1) : rs[m][2] = rs[m + 1][1]
       /\ \A i \in 1..Len(ws) : 0 <= ws[i][1] /\ ws[i][1] < ws[i][2] /\ ws[i][2] <= c.len
       /\ (~c.valid \/ c.lobe = 0) => Len(ws) = Len(rs)
       /\ c.valid => Len(ws) = Max0(Len(rs) - c.lobe * ((IF Left(c.wt) THEN 1 ELSE 0) + (IF Right(c.wt) THEN 1 ELSE 0)))
       /\ c.lobe = 0 => ws = rs

RefOK ==
  c.kind = "ref" =>
    LET ws == RefWindows(c.seq, InLen(c), Other(c), c.wt, c.valid, c.lobe, FALSE)
        wa == RefWindows(c.seq, InLen(c), Other(c), c.wt, c.valid, c.lobe, TRUE)
    IN /\ \A i \in 1..Len(ws) : ws[i][1] < ws[i][2]
       /\ c.valid => \A i \in 1..Len(ws) : 0 <= ws[i][1] /\ ws[i][2] <= Other(c)     \* inside the sequence
       /\ (~c.valid /\ Other(c) > 0) =>                            \* not valid-only: still touches the sequence
             \A i \in 1..Len(ws) : Frames(ws[i][1], ws[i][2]) \cap Frames(0, Other(c)) # {}
       /\ Len(ws) <= InLen(c)
       /\ c.valid => wa = ws                                       \* the ambiguity only exists without valid_only
       /\ Len(wa) >= Len(ws)
       \* valid-only windows are among the not-valid-only ones
       /\ c.valid => \A i \in 1..Len(ws) :
             \E j \in 1..Len(RefWindows(c.seq, InLen(c), Other(c), c.wt, FALSE, c.lobe, FALSE)) :
                RefWindows(c.seq, InLen(c), Other(c), c.wt, FALSE, c.lobe, FALSE)[j] = ws[i]

TokOK ==
  c.kind = "tok" =>
    LET out == ChunkTokens(c.seq, InLen(c), c.a, c.b, c.partial, c.retain)
    IN \* interval tests = statements about sets of frames, for non-empty segments and slices
       /\ \A i \in 1..InLen(c) :
            LET s == c.seq[i][2]  e == c.seq[i][3]
            IN (s >= 0 /\ e > s) =>
                 /\ Contained(s, e, c.a, c.b) <=> Frames(s, e) \subseteq Frames(c.a, c.b)
                 /\ (c.a < c.b => (Overlaps(s, e, c.a, c.b) <=> Frames(s, e) \cap Frames(c.a, c.b) # {}))
                 /\ (c.a < c.b /\ Contained(s, e, c.a, c.b)) => Overlaps(s, e, c.a, c.b)
       /\ Len(out) <= InLen(c)
       /\ \A j \in 1..(Len(out) - 1) : out[j][1] < out[j + 1][1]          \* order kept (ids increase)
       /\ (~c.partial /\ ~c.retain) => \A j \in 1..Len(out) :             \* slice-relative, inside the chunk
             0 <= out[j][2] /\ out[j][2] <= out[j][3] /\ out[j][3] <= c.b - c.a
       /\ c.retain => \A j \in 1..Len(out) : \E i \in 1..InLen(c) : out[j] = c.seq[i]

DirOK ==
  (c.kind = "dir" /\ pc = "done") =>
    LET o == c.opt
        legal == TRUE        \* pc = "done": no utterance raised
    IN \A j \in 1..Len(acc) :
         LET ch == acc[j]
             u == Pool[ch.utt]
         IN /\ WellFormedUtt(u.T, c.dir.hasAli, u.ali, c.dir.hasRef, u.ref)        \* the source is well-formed
            /\ ch.s < ch.e
            /\ Len(ch.feat) = ch.e - ch.s
            /\ (o.padmode = "none" => 0 <= ch.s /\ ch.e <= u.T)                    \* valid-only: inside
            /\ legal =>
                 \* every chunk equals the source restricted to its window (virtual-index form)
                 /\ \A i \in 1..Len(ch.feat) : ch.feat[i] = At(Id(u.T), ch.s + i - 1, ModeOf(o))
                 /\ c.dir.hasAli => /\ Len(ch.ali) = Len(ch.feat)
                                    /\ \A i \in 1..Len(ch.ali) : ch.ali[i] = At(u.ali, ch.s + i - 1, ModeOf(o))
                 /\ c.dir.hasRef =>
                      /\ {ch.ref[i][1] : i \in 1..Len(ch.ref)} =
                           {tk[1] : tk \in {u.ref[i] : i \in {q \in 1..Len(u.ref) : TokKeep(u.ref[q], ch.s, ch.e, o.partial)}}}
                      \* ... in the order of the source (left-to-right compaction)
                      /\ ch.ref = ChunkTokensCompact(u.ref, Len(u.ref), ch.s, ch.e, o.partial, o.retain)
                 \* ... and the new directory is well-formed
                 /\ (~o.partial /\ ~o.retain) =>
                      WellFormedUtt(Len(ch.feat), c.dir.hasAli, ch.ali, c.dir.hasRef, ch.ref)

(***************************************************************************)
(* Token chunking distributes over concatenation and commutes with         *)
(* renaming: for every way of cutting the list in two, chunking the parts  *)
(* and concatenating gives the chunk of the whole (so, by induction, the   *)
(* chunk of r1 \o ... \o rk is the concatenation of the chunks of the ri,  *)
(* in order), and the token ids are carried along untouched.  The harness  *)
(* builds transcripts of many tokens from exported cases on this ground.   *)
(***************************************************************************)
TokConcat ==
  c.kind = "tok" =>
    LET n == InLen(c)
        whole == ChunkTokens(c.seq, n, c.a, c.b, c.partial, c.retain)
        part(i, j) == ChunkTokens(SubSeq(c.seq, i, j), j - i + 1, c.a, c.b, c.partial, c.retain)
    IN /\ \A k \in 0..n : part(1, k) \o part(k + 1, n) = whole
       /\ ChunkTokens(Relabel(c.seq, 100), n, c.a, c.b, c.partial, c.retain) = Relabel(whole, 100)
       /\ whole = ChunkTokensCompact(c.seq, n, c.a, c.b, c.partial, c.retain)
       /\ \A k \in 0..n :
            TokDetermined(c.seq, n, c.a, c.b, c.partial) <=>
              /\ TokDetermined(SubSeq(c.seq, 1, k), k, c.a, c.b, c.partial)
              /\ TokDetermined(SubSeq(c.seq, k + 1, n), n - k, c.a, c.b, c.partial)

(***************************************************************************)
(* The written directory.  The machine's files (later replaces earlier)    *)
(* are one of the documented outcomes (any one of the chunks of that       *)
(* name); a name that carries the window determines the chunk, so for the  *)
(* default format the outcome is unique and the file named after [s, e)    *)
(* holds the source restricted to [s, e) (virtual-index form); a name      *)
(* that carries the index is unique.                                       *)
(***************************************************************************)
FilesOK ==
  (c.kind = "dir" /\ pc = "done") =>
    LET o == c.opt IN
    /\ written = Len(acc)
    /\ \A f \in Fmts :
         /\ DOMAIN files[f] = OutNames(acc, f)
         /\ \A nm \in DOMAIN files[f] : files[f][nm] \in Holders(acc, f, nm)
    /\ \A f \in {"se", "ise"} : \A i, j \in 1..Len(acc) :
         NameOf(acc[i], f) = NameOf(acc[j], f) => Content(acc[i]) = Content(acc[j])
    /\ \A f \in {"i", "ise"} : Cardinality(OutNames(acc, f)) = Len(acc)
    /\ \A nm \in DOMAIN files["se"] :
         LET ch == acc[files["se"][nm]]
             u == Pool[nm[1]]
         IN /\ ch.feat = SliceIdx(Id(u.T), nm[3], nm[4], ModeOf(o))
            /\ c.dir.hasAli => ch.ali = SliceIdx(u.ali, nm[3], nm[4], ModeOf(o))
            /\ c.dir.hasRef => ch.ref = ChunkTokensCompact(u.ref, Len(u.ref), nm[3], nm[4], o.partial, o.retain)

\* export form of the directory: per format, the names in order of first use, with the chunk the
\* machine left in the file and every chunk the documentation allows there (1-based indices into chunks)
FirstOf(S) == CHOOSE x \in S : \A y \in S : x <= y
FileGroups(f) ==
  LET firsts == SortSet({FirstOf(Holders(acc, f, nm)) : nm \in OutNames(acc, f)})
  IN [g \in 1..Len(firsts) |->
        LET nm == NameOf(acc[firsts[g]], f)
        IN [name |-> nm, wrote |-> files[f][nm], any |-> SortSet(Holders(acc, f, nm)),
            same |-> \A i, j \in Holders(acc, f, nm) : Content(acc[i]) = Content(acc[j])]]

(***************************************************************************)
(* Worked examples of the SliceSpectData docstring                         *)
(***************************************************************************)
\* fixed, length 8, lobe 2.  (The docstring prints the third list as [[-1,4],[2,6],[5,9]], which
\* contradicts its own window size 1 + 2*lobe_size = 5; the sizes stated in the text are used.)
ASSUME FixedWindows("symmetric", TRUE, 2, 8) = <<<<0, 5>>, <<3, 8>>>>
ASSUME FixedWindows("causal", TRUE, 2, 8) = <<<<0, 3>>, <<3, 6>>>>
ASSUME FixedWindows("future", TRUE, 2, 8) = <<<<0, 3>>, <<3, 6>>>>
ASSUME FixedWindows("symmetric", FALSE, 2, 8) = <<<<-1, 4>>, <<2, 7>>, <<5, 10>>>>
ASSUME FixedWindows("causal", FALSE, 2, 8) = <<<<-2, 1>>, <<1, 4>>, <<4, 7>>>>
ASSUME FixedWindows("future", FALSE, 2, 8) = <<<<0, 3>>, <<3, 6>>, <<6, 9>>>>
\* ali, [1]*4 + [2]*3 + [1] + [5]*2, lobe 1
ExAli == <<1, 1, 1, 1, 2, 2, 2, 1, 5, 5>>
ASSUME AliWindows(ExAli, "symmetric", TRUE, 1) = <<<<0, 8>>, <<4, 10>>>>
ASSUME AliWindows(ExAli, "causal", TRUE, 1) = <<<<0, 7>>, <<4, 8>>, <<7, 10>>>>
ASSUME AliWindows(ExAli, "future", TRUE, 1) = <<<<0, 7>>, <<4, 8>>, <<7, 10>>>>
ASSUME AliWindows(ExAli, "symmetric", FALSE, 1) = <<<<0, 7>>, <<0, 8>>, <<4, 10>>, <<7, 10>>>>
ASSUME AliWindows(ExAli, "causal", FALSE, 1) = <<<<0, 4>>, <<0, 7>>, <<4, 8>>, <<7, 10>>>>
ASSUME AliWindows(ExAli, "future", FALSE, 1) = <<<<0, 7>>, <<4, 8>>, <<7, 10>>, <<8, 10>>>>
\* ref, in_lens = 5, other_lens = 6, lobe 2
ExRef == <<<<0, 0>>, <<2, 3>>, <<-1, 1>>, <<0, -1>>, <<3, 5>>, <<4, 4>>>>
ASSUME RefWindows(ExRef, 5, 6, "symmetric", TRUE, 2, FALSE) = <<<<0, 5>>>>
ASSUME RefWindows(ExRef, 5, 6, "causal", TRUE, 2, FALSE) = <<<<0, 3>>, <<1, 5>>>>
ASSUME RefWindows(ExRef, 5, 6, "future", TRUE, 2, FALSE) = <<<<0, 2>>, <<2, 5>>>>
ASSUME RefWindows(ExRef, 5, 6, "symmetric", FALSE, 2, FALSE) = <<<<-2, 2>>, <<0, 5>>, <<1, 7>>>>
ASSUME RefWindows(ExRef, 5, 6, "causal", FALSE, 2, FALSE) = <<<<0, 3>>, <<1, 5>>>>
ASSUME RefWindows(ExRef, 5, 6, "future", FALSE, 2, FALSE) = <<<<0, 2>>, <<2, 5>>, <<3, 7>>>>

(***************************************************************************)
(* Export: one record per finished behaviour (spec -> code replay)         *)
(***************************************************************************)
Emit(rec) == PrintT(<<"VFJ", ToJson(rec)>>)
Export ==
  pc \in {"done", "raised"} =>
    CASE c.kind \in {"fixed", "ali"} ->
           Emit([kind |-> c.kind, wt |-> c.wt, valid |-> c.valid, lobe |-> c.lobe, omit |-> c.omit,
                 seq |-> c.seq, len |-> c.len, windows |-> Result,
                 runs |-> IF c.kind = "ali" THEN Len(acc) ELSE 0])
      [] c.kind = "ref" ->
           Emit([kind |-> c.kind, wt |-> c.wt, valid |-> c.valid, lobe |-> c.lobe, seq |-> c.seq,
                 inlen |-> c.inlen, other |-> c.other, windows |-> Result, alt |-> Decl(c, TRUE)])
      [] c.kind = "tok" ->
           Emit([kind |-> c.kind, seq |-> c.seq, inlen |-> c.inlen, a |-> c.a, b |-> c.b,
                 partial |-> c.partial, retain |-> c.retain, tokens |-> Result,
                 determined |-> TokDetermined(c.seq, InLen(c), c.a, c.b, c.partial)])
      [] c.kind = "dir" ->
           Emit([kind |-> c.kind, utts |-> SortSet(c.dir.utts), hasAli |-> c.dir.hasAli, hasRef |-> c.dir.hasRef,
                 src |-> [i \in 1..Cardinality(c.dir.utts) |-> Pool[SortSet(c.dir.utts)[i]]],
                 opt |-> c.opt, legal |-> pc = "done", chunks |-> IF pc = "done" THEN Result ELSE <<>>,
                 files |-> IF pc = "done" THEN [f \in Fmts |-> FileGroups(f)] ELSE [f \in Fmts |-> <<>>]])
=============================================================================
