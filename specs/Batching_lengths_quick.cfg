\* length-bucketed loaders: every length vector over <= 5 utterances with lengths 1..3, 1..3 requested
\* buckets, batch size 1..3, dynamic on/off, drop on/off; all flush orders
INIT Init
NEXT Next
CONSTANTS
  MaxN = 5
  MaxB = 3
  MaxSize = 3
  MaxLen = 3
  Sources <- Lengths
INVARIANT TypeOK
INVARIANT Conservation
INVARIANT ExactlyOnceOrDropped
INVARIANT SingleBucketInOrder
INVARIANT SizesAndTrailing
INVARIANT PredictedIsActual
INVARIANT LengthClasses
INVARIANT DynamicSizes
INVARIANT BatchesArePure
CHECK_DEADLOCK FALSE
INVARIANT ExportCases
INVARIANT ExportDone
