\* behaviours replayed into the real controller (quick)
INIT Init
NEXT Next
CONSTANTS
  ParamSpace <- ParamsReplayQuick
  Levels <- L3
  MaxLen = 4
INVARIANT TypeOK
INVARIANT StopRule
INVARIANT ReduceRule
INVARIANT ReduceOnlyOnFire
INVARIANT OptimizerHasRate
INVARIANT RestartTransparent
INVARIANT Export
CHECK_DEADLOCK FALSE
