\* behaviours replayed into the real controller (thorough)
INIT Init
NEXT Next
CONSTANTS
  ParamSpace <- ParamsReplayThorough
  Levels <- L3
  MaxLen = 4
INVARIANT TypeOK
INVARIANT StopRule
INVARIANT ReduceRule
INVARIANT ReduceOnlyOnFire
INVARIANT OptimizerHasRate
INVARIANT RestartTransparent
INVARIANT Export
CHECK_DEADLOCK FALSE
