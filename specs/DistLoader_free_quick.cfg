\* FREE interleaving of the ranks' actions (ranks share nothing but the epoch order), shuffled and sequential
\* loaders, two epochs: N <= 3, W <= 3, every permutation (lazily bound)
INIT DInit
NEXT DNext
CONSTANTS
  MaxN = 3
  MaxW = 3
  ModeSet <- AllModes
  KindSet <- BothKinds
  RandomMaxN = 3
  Seeds = {1}
  MaxEpoch = 1
  MaxOps = 100000
  Schedule = "free"
  Features <- NoFeatures
  MaxSize = 2
  MaxB = 2
  MaxLen = 2
  ClsSet = {"spect", "window"}
  DropSet = {TRUE, FALSE}
  DynSet = {FALSE}
VIEW DView
INVARIANT DTypeOK
INVARIANT TypeOK
INVARIANT RefusesExactly
INVARIANT CoordinatesAgree
INVARIANT LenIsYielded
INVARIANT Disjoint
INVARIANT Cover
INVARIANT IgnoreGivesAll
INVARIANT JobCover
INVARIANT SharesAsDocumented
INVARIANT RankDisjoint
INVARIANT LenAgrees
INVARIANT SameStepsWhenPromised
INVARIANT SameSamplesWhenPromised
INVARIANT UnevenByOne
INVARIANT EpochPermutationShared
INVARIANT FedIsSharedOrder
INVARIANT IgnoreSameBatches
INVARIANT BatchesWellFormed
INVARIANT LenIsBatchingLen
CHECK_DEADLOCK FALSE
INVARIANT ExportInfo
