---------------------------- MODULE BatchingDist ----------------------------
(***************************************************************************)
(* C14 under an INITIALISED PROCESS GROUP.                                 *)
(*                                                                         *)
(* The clauses of C14 about a loader - "the loaders report as their length *)
(* the number of batches they actually yield", "every index the underlying *)
(* sampler produced appears in exactly one batch - or in none only when    *)
(* its incomplete batch was dropped", batches of a single bucket in        *)
(* sampler order with the bucket's size - quantify over every loader, also *)
(* over the W loaders of a torch.distributed job, each of which is fed by  *)
(* ITS RANK'S SHARE of the epoch.  Batching.tla has one bucket machine fed *)
(* with all n indices; the job (one machine per rank on top of the epoch   *)
(* sampler of Sampler.tla, the loader-level rules, len(loader) computed at *)
(* the first call and cached) is DistLoader.tla, written for the extra     *)
(* check X03 and REUSED here unchanged (EXTENDS).  This module adds C14's  *)
(* clauses in C14's terms, as invariants over the finished epochs `done`   *)
(* of every rank, and the lemma that makes the length clause bite: the     *)
(* number of batches of a rank is that of ITS OWN share, and the shares of *)
(* a job need not be equal (on_uneven_distributed = "uneven", W does not   *)
(* divide N): there the ranks' lengths differ (UnevenLensDiffer is NOT an  *)
(* invariant - the driver requires exported jobs that refute it).          *)
(*                                                                         *)
(* What stays unjudged (documented in DistLoader.tla): a CACHED length     *)
(* that went stale - shuffled order + several length buckets + a real      *)
(* split; only a fresh value, or one that cannot change from epoch to      *)
(* epoch (LenStablePromised), is compared.                                 *)
(***************************************************************************)
EXTENDS DistLoader

ShareSize(r) == Cardinality(PositionsOf(r))
Ceil(a, b) == (a + b - 1) \div b

\* "the loaders ... report as their length the number of batches they actually yield"
LenIsBatchesYielded ==
  \A d \in done : (d.fresh \/ LenStablePromised) => d.len = Len(d.batches)

\* Lemma: with a single bucket (torch's BatchSampler: len(loader) is derived from len(sampler)) the
\* length of a rank's loader is its OWN share cut into batches - not N / W cut into batches
LenIsOwnShareBatched ==
  OneBucket =>
    \A d \in done : (d.fresh \/ LenStablePromised) =>
       d.len = IF dropLast THEN ShareSize(d.rank) \div bsz ELSE Ceil(ShareSize(d.rank), bsz)
\* ... and a rank's share is what its sampler produced in the epoch
FedIsOwnShare == \A d \in done : Len(d.fed) = ShareSize(d.rank)

\* "every index the underlying sampler produced appears in exactly one batch - or in none only when
\* its incomplete batch was dropped" - per rank: of what the rank's sampler fed (d.fed), nothing twice,
\* nothing foreign; nothing missing when incomplete batches are kept, otherwise exactly the indices
\* of each bucket that do not fill a batch
NothingLostPerRank ==
  \A d \in done :
     /\ Yielded(d) \subseteq SeqItems(d.fed)
     /\ BatchCount(d.batches) = Cardinality(Yielded(d))
     /\ (~dropLast => Yielded(d) = SeqItems(d.fed))
     /\ (dropLast =>
           Len(d.fed) - Cardinality(Yielded(d)) =
              SumBuckets(LAMBDA b : Cardinality({j \in 1..Len(d.fed) : i2b[d.fed[j]] = b}) % size[b]))
\* "each batch ... contains indices of a single bucket in sampler order and has that bucket's size (only
\* trailing batches may be short, and only if incomplete batches are kept)"
PosIn(s, x) == CHOOSE j \in 1..Len(s) : s[j] = x
BatchesOfOneBucketInOrder ==
  \A d \in done : \A j \in 1..Len(d.batches) :
     LET bt == d.batches[j]
     IN /\ bt # <<>>
        /\ \A a \in 1..Len(bt) : i2b[bt[a]] = i2b[bt[1]]
        /\ \A a, c \in 1..Len(bt) : a < c => PosIn(d.fed, bt[a]) < PosIn(d.fed, bt[c])
        /\ Len(bt) <= size[i2b[bt[1]]]
        /\ (Len(bt) < size[i2b[bt[1]]] =>
              /\ ~dropLast
              /\ \A q \in (j + 1)..Len(d.batches) :
                    /\ Len(d.batches[q]) < size[i2b[d.batches[q][1]]]
                    /\ i2b[d.batches[q][1]] # i2b[bt[1]])

\* NOT an invariant (cfg BatchingDist_*: reported in the info records; the driver requires a job refuting it):
\* the ranks of a job report the same length
RanksReportSameLen == \A a, b \in done : a.epoch = b.epoch => a.len = b.len

ExportDistInfo ==
  AllDone =>
     Emit([what |-> "distinfo", mode |-> mode, W |-> W, N |-> N, kind |-> kind, bsz |-> bsz, nbreq |-> nbreq,
           sameLen |-> RanksReportSameLen, refuses |-> Refuses])
=============================================================================
