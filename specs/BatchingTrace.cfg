\* batched validation of implementation traces (run with -workers 1)
INIT TInit
NEXT TNext
CONSTANTS
  MaxN = 64
  MaxB = 8
  MaxSize = 64
  MaxLen = 64
  Sources <- Both
INVARIANT Accept
INVARIANT Progress
POSTCONDITION Post
CHECK_DEADLOCK FALSE
