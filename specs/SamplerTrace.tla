---------------------------- MODULE SamplerTrace ----------------------------
(***************************************************************************)
(* code -> spec: validates recorded runs of the real EpochRandomSampler /   *)
(* EpochSequentialSampler objects (one per simulated rank, under FakeDist) *)
(* against Sampler.tla.  Every recorded event is consumed through the      *)
(* ORIGINAL action of Sampler conjoined with the logged arguments; the     *)
(* design invariants of Sampler are evaluated after every event.           *)
(*                                                                         *)
(* Perm[seed, epoch] is never logged: the first event that reveals a       *)
(* position binds it (Yield's CanBind/Bind), every later event must be     *)
(* consistent with ONE permutation per (seed, epoch) - across ranks, across*)
(* sampler objects constructed at different epochs, across slices and full *)
(* orders.                                                                 *)
(*                                                                         *)
(* One sampler object may have several iterators in flight: every iterator *)
(* event names the slot `h` the harness holds the iterator in (a new       *)
(* iterator takes the lowest free slot, as in the specification), and the  *)
(* events of the live iterators of one object are interleaved in the order *)
(* the harness called next() on them.  An iterator's yields must follow    *)
(* the order of the (seed, epoch) IT was created for.                      *)
(*                                                                         *)
(* Trace file (env TRACE_FILE): [{tid, N, W, mode, kind, events: [{op,     *)
(* rank, h, a, b, raised}]}], op in construct(a = seed id, b = init_epoch, *)
(* raised) | iter(a = epoch the object reported) | get(a = epoch) |        *)
(* full(a = epoch) | yield(a = index) | abandon | end(a = len(sampler)).   *)
(***************************************************************************)
EXTENDS SamplerMC, IOUtils, TLCExt

Traces == JsonDeserialize(IOEnv.TRACE_FILE)

VARIABLES ti, pos
tvars == <<vars, ti, pos>>

Events == Traces[ti].events

\* the design invariants of Sampler are part of the step relation: a step into a state that violates
\* one does not exist (the trace is rejected there); the diagnosis run keeps such states and names
\* the violated invariants instead
AllInv ==
  /\ TypeOK
  /\ RefusesExactly
  /\ CoordinatesAgree
  /\ LenIsYielded
  /\ PathIndependent
  /\ LivePrefixes
  /\ WellFormedLists
  /\ Disjoint
  /\ Cover
  /\ IgnoreGivesAll
  /\ SliceOfFull
  /\ SequentialIsIdentity
FailedInvs ==
  (IF TypeOK THEN {} ELSE {"TypeOK"})
  \cup (IF RefusesExactly THEN {} ELSE {"RefusesExactly"})
  \cup (IF CoordinatesAgree THEN {} ELSE {"CoordinatesAgree"})
  \cup (IF LenIsYielded THEN {} ELSE {"LenIsYielded"})
  \cup (IF PathIndependent THEN {} ELSE {"PathIndependent"})
  \cup (IF LivePrefixes THEN {} ELSE {"LivePrefixes"})
  \cup (IF WellFormedLists THEN {} ELSE {"WellFormedLists"})
  \cup (IF Disjoint THEN {} ELSE {"Disjoint"})
  \cup (IF Cover THEN {} ELSE {"Cover"})
  \cup (IF IgnoreGivesAll THEN {} ELSE {"IgnoreGivesAll"})
  \cup (IF SliceOfFull THEN {} ELSE {"SliceOfFull"})
  \cup (IF SequentialIsIdentity THEN {} ELSE {"SequentialIsIdentity"})
Diag == IOEnv.PROGRESS = "1"

TInit ==
  \E i \in 1..Len(Traces) :
    /\ ti = i /\ pos = 0
    /\ N = Traces[i].N /\ W = Traces[i].W /\ mode = Traces[i].mode /\ kind = Traces[i].kind
    /\ perm = [k \in Keys |-> IF kind = "seq" THEN [p \in 0..(N - 1) |-> p] ELSE <<>>]
    /\ smp = [r \in Ranks |-> NoSmp]
    /\ it = [r \in Ranks |-> NoIt]
    /\ refused = {}
    /\ log = {}
    /\ ops = <<>>
    /\ (Diag \/ AllInv)

TNext ==
  /\ pos < Len(Events) /\ FailedInvs = {}
  /\ pos' = pos + 1 /\ ti' = ti
  /\ LET e == Events[pos + 1]
     IN CASE e.op = "construct" -> /\ Construct(e.rank, e.a, e.b)
                                   /\ (e.raised <=> smp'[e.rank].alive = FALSE)
          [] e.op = "iter"      -> /\ BeginIterAt(e.rank, e.h)
                                   /\ smp[e.rank].epoch = e.a
          [] e.op = "get"       -> BeginGetAt(e.rank, e.h, e.a)
          [] e.op = "full"      -> BeginFullAt(e.rank, e.h, e.a)
          [] e.op = "yield"     -> YieldAt(e.rank, e.h, e.a)
          [] e.op = "abandon"   -> AbandonAt(e.rank, e.h)
          [] e.op = "end"       -> /\ EndAt(e.rank, e.h)
                                   /\ (it[e.rank][e.h].full \/ e.a = LenCode(e.rank))
  /\ (Diag \/ AllInv')

\* acceptance: count fully consumed traces, name them
Accept ==
  (pos = Len(Events)) =>
     /\ TLCSet(1, TLCGet(1) + 1)
     /\ Emit([what |-> "accepted", tid |-> Traces[ti].tid])
\* diagnosis run (PROGRESS = 1 in the environment): longest matched prefix per trace
Progress ==
  Diag => Emit([what |-> "progress", tid |-> Traces[ti].tid, pos |-> pos, failed |-> FailedInvs])
ASSUME TLCSet(1, 0)
Post == TLCGet(1) = Len(Traces)
=============================================================================
