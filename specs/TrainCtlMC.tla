----------------------------- MODULE TrainCtlMC -----------------------------
(* Model-checking instances of TrainCtl: parameter spaces (a .cfg cannot hold record sets). *)
EXTENDS TrainCtl
PS(Ps, Bs, THs, RPs, RBs, RCs, RTHs, NEs, EKs) ==
  [P : Ps, B : Bs, TH : THs, RP : RPs, RB : RBs, RC : RCs, RTH : RTHs, ne : NEs, EK : EKs]
\* design: every patience / burn-in / cool-down / threshold combination, unlimited epochs
ParamsDesign == PS(1..3, 0..2, 0..2, 1..3, 0..2, 0..2, 0..2, {0}, {9})
\* design: epoch budgets and the epsilon guard (EK = number of non-negligible reductions)
ParamsBudget == PS(1..2, 0..1, {0, 1}, 1..2, 0..1, 0..1, {0, 1}, {0, 2, 3, 4}, {1, 2, 9})
\* replayed into the real controller
ParamsReplayQuick == PS({1, 3}, {0, 2}, {0, 1}, {1, 2}, {0, 2}, {0, 1}, {0, 1}, {0, 3}, {1, 9})   \* burn-ins of 2: the last burn-in epoch differs from the first
ParamsReplayThorough == PS(1..3, {0, 1, 2}, {0, 1}, {1, 2}, {0, 2}, {0, 1}, {0, 1}, {0, 4}, {1, 9})
\* roll-back (TrainCtlRb): design and replay
ParamsRbDesign == PS({1, 2}, {0, 1}, {0, 1}, {1, 2}, {0}, {0}, {1}, {0, 3}, {9})
ParamsRbDesignThorough == PS(1..3, {0, 1, 2}, {0, 1}, {1, 2}, {0, 1}, {0, 1}, {1}, {0, 3}, {9})
ParamsRbReplay == PS({1, 2}, {0, 1}, {0, 1}, {1, 2}, {0}, {0}, {1}, {0, 3}, {9})
L3 == {1, 2, 3}
L4 == {1, 2, 3, 4}
=============================================================================
