----------------------------- MODULE TrainCtlMC -----------------------------
(* Model-checking instances of TrainCtl: parameter spaces (a .cfg cannot hold record sets). *)
EXTENDS TrainCtl
\* optimizer set-ups <<LG, OG, SD>> (see TrainCtl): the standard one - configured initial rate, state directory -
\* and the others: history file alone; optimizer's own default rate; group 2 constructed with a rate of its own
StdMode == {<<1, 0, 1>>}
OptModes == {<<1, 0, 0>>, <<0, 0, 1>>, <<0, 0, 0>>, <<0, 1, 1>>, <<0, 1, 0>>}
PSX(Ps, Bs, THs, RPs, RBs, RCs, RTHs, NEs, EKs, Modes) ==
  {r \in [P : Ps, B : Bs, TH : THs, RP : RPs, RB : RBs, RC : RCs, RTH : RTHs, ne : NEs, EK : EKs,
          LG : {0, 1}, OG : {0, 1}, SD : {0, 1}] : <<r.LG, r.OG, r.SD>> \in Modes}
PS(Ps, Bs, THs, RPs, RBs, RCs, RTHs, NEs, EKs) == PSX(Ps, Bs, THs, RPs, RBs, RCs, RTHs, NEs, EKs, StdMode)
\* design: every patience / burn-in / cool-down / threshold combination, unlimited epochs
ParamsDesign == PS(1..3, 0..2, 0..2, 1..3, 0..2, 0..2, 0..2, {0}, {9})
\* design: epoch budgets and the epsilon guard (EK = number of non-negligible reductions)
ParamsBudget == PS(1..2, 0..1, {0, 1}, 1..2, 0..1, 0..1, {0, 1}, {0, 2, 3, 4}, {1, 2, 9})
\* replayed into the real controller
ParamsReplayQuick == PS({1, 3}, {0, 2}, {0, 1}, {1, 2}, {0, 2}, {0, 1}, {0, 1}, {0, 3}, {1, 9})   \* burn-ins of 2: the last burn-in epoch differs from the first
ParamsReplayThorough == PS(1..3, {0, 1, 2}, {0, 1}, {1, 2}, {0, 2}, {0, 1}, {0, 1}, {0, 4}, {1, 9})
\* roll-back (TrainCtlRb): design and replay
ParamsRbDesign == PS({1, 2}, {0, 1}, {0, 1}, {1, 2}, {0}, {0}, {1}, {0, 3}, {9})
ParamsRbDesignThorough == PS(1..3, {0, 1, 2}, {0, 1}, {1, 2}, {0, 1}, {0, 1}, {1}, {0, 3}, {9})
ParamsRbReplay == PS({1, 2}, {0, 1}, {0, 1}, {1, 2}, {0}, {0}, {1}, {0, 3}, {9})
\* parameter groups / restarts from the history file alone: design (TrainCtl_groups*.cfg) and replay (TrainCtlOpt)
ParamsGroups == PSX({2}, {0}, {0, 1}, {1, 2}, {0, 1}, {0, 1}, {1}, {0}, {1, 9}, OptModes \cup StdMode)
ParamsGroupsThorough == PSX({1, 2}, {0, 1}, {0, 1}, {1, 2}, {0, 1}, {0, 1}, {1}, {0, 3}, {1, 9}, OptModes \cup StdMode)
ParamsOptReplay == PSX({2}, {0}, {0}, {1, 2}, {0, 1}, {0, 1}, {1}, {0}, {1, 9}, OptModes)
ParamsOptReplayThorough == PSX({2}, {0}, {0, 1}, {1, 2}, {0, 1}, {0, 1}, {1}, {0}, {1, 9}, OptModes)
L2 == {1, 2}
L3 == {1, 2, 3}
L4 == {1, 2, 3, 4}
=============================================================================
