\* the same model WITHOUT the barriers around the read: expected to violate NoTornRead (non-vacuity)
SPECIFICATION Spec
CONSTANTS
  W = 2
  E = 2
  Fenced = FALSE
INVARIANT NoTornRead
CHECK_DEADLOCK FALSE
