------------------------------ MODULE ArgCheckMC ------------------------------
(* constants of ArgCheck that a cfg file cannot hold (records, negative numbers, tuples in sets) *)
EXTENDS ArgCheck

Specials == {"nan", "inf", "ninf"}
\* the grid around the boundaries the checks use: -1, -1/2, 0, 1/2, 1, 3/2, 2
GridHalves == {-2, -1, 0, 1, 2, 3, 4}
Ints == {-1, 0, 1, 2}

Strings == {"-1", "0", "1", "2", "3", "0.5", "-0.5", "1.0", "2.5", "nan", "inf", "-inf",
            "abc", "", "a b", "True", "False"}
StringsQuick == {"-1", "0", "3", "0.5", "2.5", "nan", "-inf", "abc", "", "a b", "True"}

Tensors == {TensorV("i", 0, <<<<-1, 1>>>>), TensorV("i", 0, <<<<0, 1>>>>), TensorV("i", 0, <<<<1, 1>>>>),
            TensorV("i", 0, <<<<2, 1>>>>), TensorV("f", 0, <<<<1, 2>>>>),
            TensorV("i", 1, <<<<1, 1>>, <<2, 1>>>>), TensorV("i", 1, <<<<-1, 1>>, <<1, 1>>>>),
            TensorV("i", 1, <<<<0, 1>>, <<1, 1>>>>), TensorV("f", 1, <<<<1, 2>>, <<1, 2>>>>),
            TensorV("f", 1, <<>>), TensorV("i", 1, <<<<1, 1>>>>),
            TensorV("i", 2, <<<<1, 1>>, <<2, 1>>>>), TensorV("f", 2, <<<<-1, 2>>, <<-1, 1>>>>)}
TensorsQuick == {TensorV("i", 0, <<<<0, 1>>>>), TensorV("i", 0, <<<<1, 1>>>>), TensorV("f", 0, <<<<1, 2>>>>),
                 TensorV("i", 1, <<<<1, 1>>, <<2, 1>>>>), TensorV("i", 1, <<<<-1, 1>>, <<1, 1>>>>),
                 TensorV("f", 1, <<>>), TensorV("i", 2, <<<<1, 1>>, <<2, 1>>>>)}

ValsThorough ==
  {IntV(n) : n \in Ints} \cup {NpIntV(n) : n \in Ints} \cup {BoolV(b) : b \in BOOLEAN}
  \cup {FloatV(h, 2) : h \in GridHalves} \cup {FloatS(s) : s \in Specials}
  \cup {NpFloatV(h, 2) : h \in GridHalves} \cup {NpFloatS(s) : s \in Specials}
  \cup {StrV(s) : s \in Strings} \cup {NoneV} \cup Tensors
ValsQuick ==
  {IntV(n) : n \in Ints} \cup {NpIntV(n) : n \in {0, 2}} \cup {BoolV(b) : b \in BOOLEAN}
  \cup {FloatV(h, 2) : h \in GridHalves} \cup {FloatS(s) : s \in Specials}
  \cup {NpFloatV(h, 2) : h \in {-1, 2, 3}} \cup {NpFloatS("nan")}
  \cup {StrV(s) : s \in StringsQuick} \cup {NoneV} \cup TensorsQuick

OthersThorough == {IntV(0), IntV(1), FloatV(1, 2), FloatV(1, 1), NpIntV(1), NpFloatV(3, 2),
                   TensorV("i", 0, <<<<1, 1>>>>), FloatS("inf")}
OthersQuick == {IntV(1), FloatV(1, 2), TensorV("i", 0, <<<<1, 1>>>>)}

BoundsThorough == {<<IntV(0), IntV(1)>>, <<IntV(0), IntV(2)>>, <<IntV(-1), FloatV(1, 2)>>,
                   <<FloatV(1, 2), FloatV(3, 2)>>, <<IntV(1), IntV(1)>>, <<IntV(1), IntV(0)>>,
                   <<FloatS("ninf"), NpIntV(1)>>, <<TensorV("i", 0, <<<<0, 1>>>>), FloatS("inf")>>}
BoundsQuick == {<<IntV(0), IntV(1)>>, <<FloatV(1, 2), IntV(2)>>, <<IntV(1), IntV(1)>>}

CollsAll == {<<IntV(1), IntV(2)>>, <<StrV("abc"), StrV("3")>>, <<>>, <<NoneV>>, <<FloatV(1, 2), FloatV(2, 1)>>}
CollsQuick == {<<IntV(1), IntV(2)>>, <<StrV("abc"), StrV("3")>>, <<>>}

FaultsMain == {"none", "aswritten"}
FaultsClosed01 == {"closed01"}
FaultsBtwNone == {"btwnone"}
=============================================================================
