\* The same rejected design with ONE live iterator at a time (every epoch consumed or abandoned before the next order is
\* requested - ordinary use, and all the library's own tests): every invariant holds, the designs cannot be told apart.
\* That is why the interleaved histories are needed.
INIT Init
NEXT Next
CONSTANTS
  MaxN = 3
  MaxW = 1
  ModeSet <- OneMode
  KindSet <- RandomOnly
  RandomMaxN = 3
  Seeds = {1}
  MaxEpoch = 1
  MaxOps = 1000
  Schedule = "serial"
  Features <- SharedBufSerial
VIEW View
INVARIANT TypeOK
INVARIANT RefusesExactly
INVARIANT CoordinatesAgree
INVARIANT LenIsYielded
INVARIANT PathIndependent
INVARIANT LivePrefixes
INVARIANT WellFormedLists
INVARIANT Disjoint
INVARIANT Cover
INVARIANT IgnoreGivesAll
INVARIANT SliceOfFull
INVARIANT SequentialIsIdentity
CHECK_DEADLOCK FALSE
