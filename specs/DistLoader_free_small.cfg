\* quick tier: FREE interleaving of the ranks' actions on a small universe - SHUFFLED loaders (every permutation, lazily
\* bound), N <= 3, W <= 2, two epochs (sequential loaders: DistLoader_wide_quick; the full N <= 3, W <= 3, both kinds:
\* DistLoader_free_quick, thorough tier)
INIT DInit
NEXT DNext
CONSTANTS
  MaxN = 3
  MaxW = 2
  ModeSet <- AllModes
  KindSet = {"random"}
  RandomMaxN = 3
  Seeds = {1}
  MaxEpoch = 1
  MaxOps = 100000
  Schedule = "free"
  Features <- NoFeatures
  MaxSize = 2
  MaxB = 2
  MaxLen = 2
  ClsSet = {"spect", "window"}
  DropSet = {TRUE, FALSE}
  DynSet = {FALSE}
VIEW DView
INVARIANT DTypeOK
INVARIANT TypeOK
INVARIANT RefusesExactly
INVARIANT CoordinatesAgree
INVARIANT LenIsYielded
INVARIANT Disjoint
INVARIANT Cover
INVARIANT IgnoreGivesAll
INVARIANT JobCover
INVARIANT SharesAsDocumented
INVARIANT RankDisjoint
INVARIANT LenAgrees
INVARIANT SameStepsWhenPromised
INVARIANT SameSamplesWhenPromised
INVARIANT UnevenByOne
INVARIANT EpochPermutationShared
INVARIANT FedIsSharedOrder
INVARIANT IgnoreSameBatches
INVARIANT BatchesWellFormed
INVARIANT LenIsBatchingLen
CHECK_DEADLOCK FALSE
INVARIANT ExportInfo
