----------------------------- MODULE CTCPrefixMC -----------------------------
(* Model-checking instances of CTCPrefix: frame-distribution universes. *)
EXTENDS CTCPrefix
Sum(d) == FoldFunction(LAMBDA a, b : a + b, 0, d)
\* every distribution of D units over V labels + blank, blank getting at least one unit
AllDists == {d \in [1..Blank -> 0..D] : Sum(d) = D /\ d[Blank] > 0}
\* blank may also be impossible (weight 0): prefixes then cannot repeat a label without merging
AllDistsZ == {d \in [1..Blank -> 0..D] : Sum(d) = D}
\* strictly positive weights (no zero-mass candidates)
PosDists == {d \in [1..Blank -> 1..D] : Sum(d) = D}
=============================================================================
