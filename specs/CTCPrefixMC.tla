----------------------------- MODULE CTCPrefixMC -----------------------------
(* Model-checking instances of CTCPrefix: frame-distribution universes. *)
EXTENDS CTCPrefix
Sum(d) == FoldFunction(LAMBDA a, b : a + b, 0, d)
\* every distribution of D units over V labels + blank, blank getting at least one unit
AllDists == {d \in [1..Blank -> 0..D] : Sum(d) = D /\ d[Blank] > 0}
\* blank may also be impossible (weight 0): prefixes then cannot repeat a label without merging
AllDistsZ == {d \in [1..Blank -> 0..D] : Sum(d) = D}
\* strictly positive weights (no zero-mass candidates)
PosDists == {d \in [1..Blank -> 1..D] : Sum(d) = D}
\* peaky distributions over 20 units (V = 2): long searches in which a prefix is pruned while its parent and a
\* longer relative survive, is re-created later and must again merge with that relative ("gap" histories)
PeakyDists == {<<17, 2, 1>>, <<10, 9, 1>>, <<18, 1, 1>>, <<1, 7, 12>>, <<12, 1, 7>>}
=============================================================================
