\* thorough universe; faults "none" (judged) and "aswritten" (exported for classification only)
INIT Init
NEXT Next
CONSTANTS
  Vals <- ValsThorough
  Others <- OthersThorough
  Bounds <- BoundsThorough
  Colls <- CollsAll
  Faults <- FaultsMain
  JudgeFaulty = FALSE
INVARIANT ShapeOK
INVARIANT ComposedIsTable
INVARIANT AllowNoneOnlyAddsNone
INVARIANT IntervalDuality
INVARIANT ClosedIsNotOpenAtEnds
INVARIANT Idempotent
INVARIANT Aliases
INVARIANT AsIsCastThenCheck
INVARIANT Export
CHECK_DEADLOCK FALSE
