---- MODULE SamplerInd_W3 ----
EXTENDS Integers
VARIABLES
  \* @type: Int;
  i,
  \* @type: Int -> Int;
  cnt
INSTANCE SamplerInd WITH W <- 3
====
