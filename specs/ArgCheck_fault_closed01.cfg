\* the composition as written in argcheck.py (closed01) must NOT equal the table (expected invariant violation)
INIT Init
NEXT Next
CONSTANTS
  Vals <- ValsQuick
  Others <- OthersQuick
  Bounds <- BoundsQuick
  Colls <- CollsQuick
  Faults <- FaultsClosed01
  JudgeFaulty = TRUE
INVARIANT ComposedIsTable
CHECK_DEADLOCK FALSE
