---------------------------- MODULE SeqProbCTC ----------------------------
(***************************************************************************)
(* Code-shaped machine for functional.ctc_greedy_search (_decoding.py).    *)
(*                                                                         *)
(* The code takes the frame-wise maximum and argmax, then keeps frame k    *)
(* iff its label is not the blank, differs from the label of frame k - 1   *)
(* (frame 1 has no predecessor) and k lies inside the valid length; kept   *)
(* labels are compacted to the front; the score multiplies (sums, in the   *)
(* log domain) the maxima of the valid frames.  One action per frame.      *)
(* Declarative side: Collapse (merge repeats, then delete blanks) of the   *)
(* argmax labels of the valid frames; score = product of their maxima.     *)
(* Rows have no ties, so the argmax is unique.                             *)
(***************************************************************************)
EXTENDS SeqProb

ASSUME \A r \in Rows : \A a, b \in 1..V : a # b => r[a] # r[b]

VARIABLES w,        \* frames: 1..n -> row (frames beyond the valid length are garbage but present)
          blank,    \* blank label
          L,        \* valid length, 0..n
          k,        \* frames processed
          out,      \* compacted labels
          num       \* numerator of the score over D^L
vars == <<w, blank, L, k, out, num>>

NF == Len(w)
MaxW(r) == MaxOf({r[i] : i \in 1..V})
ArgMax(r) == (CHOOSE i \in 1..V : r[i] = MaxW(r)) - 1

Init ==
  /\ \E n \in 1..T : w \in [1..n -> Rows] /\ L \in 0..n
  /\ blank \in Tok
  /\ k = 0 /\ out = <<>> /\ num = 1

Frame ==
  /\ k < NF
  /\ k' = k + 1
  /\ LET lab == ArgMax(w[k + 1])
         keep == /\ lab # blank
                 /\ (k = 0 \/ lab # ArgMax(w[k]))
                 /\ k + 1 <= L
     IN /\ out' = IF keep THEN Append(out, lab) ELSE out
        /\ num' = IF k + 1 <= L THEN num * MaxW(w[k + 1]) ELSE num
  /\ UNCHANGED <<w, blank, L>>

Next == Frame
Spec == Init /\ [][Next]_vars

(***************************************************************************)
(* Design invariants                                                       *)
(***************************************************************************)
Labels(m) == [s \in 1..m |-> ArgMax(w[s])]
RECURSIVE MaxProd(_)
MaxProd(m) == IF m = 0 THEN 1 ELSE MaxW(w[m]) * MaxProd(m - 1)
KV == IF k <= L THEN k ELSE L          \* valid frames among those processed

GreedyIsCollapse == out = Collapse(Labels(KV), blank) /\ num = MaxProd(KV)
NoBlankInOutput == \A j \in 1..Len(out) : out[j] # blank
\* equal neighbours in the output are always separated by a blank frame in the input, so the output
\* is itself a fixed point of "delete blanks" but NOT necessarily of "merge repeats" (a, blank, a -> a a)
OutputNoLongerThanValid == Len(out) <= KV

Export ==
  k = NF => Emit([w |-> w, blank |-> blank, L |-> L, out |-> out, num |-> num])
=============================================================================
