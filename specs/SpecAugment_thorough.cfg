\* exhaustive: lengths 1..6, F 1..4, limits {0,1,2,5}, proportions {0,1/4,1/2,3/4,1}, counts {0,1,2,3},
\* max warps {0, 0.5, 1, 1.5, 2.5, 10} frames; applications on T <= 4, F <= 3 with <= 2 masks per axis;
\* resampler reads of a 2 x 2 plane with cells in {-3, -2, 0, 5} at every position in fifths of a cell from -1 to 2
INIT Init
NEXT Next
CONSTANTS
  MaxT = 6
  MaxF = 4
  MaskWs = {0, 1, 2, 5}
  Props4 = {0, 1, 2, 3, 4}
  Nums = {0, 1, 2, 3}
  Warps2 = {0, 1, 2, 3, 5, 20}
  ApplyT = 4
  ApplyF = 3
  ApplyMasks = 2
  HullVals = {0, 1, 3, 8}
  HullOff = 3
  HullDen = 5
INVARIANT TimeDrawInBounds
INVARIANT FreqDrawInBounds
INVARIANT WarpDrawInBounds
INVARIANT Tight
INVARIANT ApplyIsMasked
INVARIANT GridAbstraction
INVARIANT HullAbstraction
INVARIANT Export
CHECK_DEADLOCK FALSE
