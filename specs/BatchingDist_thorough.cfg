\* C14 under an initialised process group: sequential loaders, ranks one after the other, two epochs - every
\* (N <= 5, W <= 3, class, on_uneven_distributed, drop_last, batch size <= 3, 1..2 requested length buckets with
\* every length vector over {1, 2}); exports the jobs for spec -> code
INIT DInit
NEXT DNext
CONSTANTS
  MaxN = 5
  MaxW = 3
  ModeSet <- AllModes
  KindSet = {"seq"}
  RandomMaxN = 0
  Seeds = {1}
  MaxEpoch = 1
  MaxOps = 100000
  Schedule = "ordered"
  Features <- NoFeatures
  MaxSize = 3
  MaxB = 2
  MaxLen = 2
  ClsSet = {"spect", "window"}
  DropSet = {TRUE, FALSE}
  DynSet = {FALSE}
VIEW DView
INVARIANT DTypeOK
INVARIANT TypeOK
INVARIANT RefusesExactly
INVARIANT LenIsBatchesYielded
INVARIANT LenIsOwnShareBatched
INVARIANT FedIsOwnShare
INVARIANT NothingLostPerRank
INVARIANT BatchesOfOneBucketInOrder
INVARIANT LenAgrees
INVARIANT BatchesWellFormed
INVARIANT LenIsBatchingLen
CHECK_DEADLOCK FALSE
INVARIANT ExportJob
INVARIANT ExportDistInfo
