\* exhaustive quick universe: every case x every interleaving of a 2-worker pool with chunk size 1
INIT Init
NEXT Next
CONSTANTS
  Fams <- AllFams
  Namings <- NamingsAll
  GlobNamings <- GlobNamingsAll
  IdNamings <- IdNamingsAll
  Cs = {1}
  Ws = {2}
  PModes <- UnorderedOnly
  KeepHist = FALSE
  AliSeqs <- AliSeqsQuick
  AliSeqs2 <- AliSeqs2Quick
  AliUtts = 2
  TrnSet <- TrnSetQuick
  TrnUtts = 2
  Sizings <- SizingsAll
  CtmSet <- CtmSetQuick
  CtmUtts = 2
  CtmShifts = {10, 25}
  TgSet <- TgSetQuick
  TgUtts = 2
  TgShifts = {10, 125}
  ErPairs <- ErPairsAll
  ErPairsSmall <- ErPairsFew
  ErPairsTiny <- ErPairsTinySet
  ErCostsAll <- ErCostsQuick
  ErMissUtts = 3
  ErBatches = {1, 100}
  SubLens = {1, 2}
  SubUtts = 3
  SubRunData <- SubRunData3
  SubRunCrits <- SubRunCritsQuick
  SubRunStyles = {"copy", "symlink", "link"}
  SubRunMax = 2
  SubRunFault = FALSE
  MomAli <- AliSeqsQuick
  MomRef <- MomRefQuick
  MomUtts = 2
  BigUtts = 3
  AliTiny <- AliTinySet
  TrnTiny <- TrnTinySet
  CtmTiny <- CtmTinySet
  TgTiny <- TgTinySet
  MomRefTiny <- MomRefTinySet
INVARIANT TypeOK
INVARIANT ScheduleFree
INVARIANT NoClobber
INVARIANT Naming
INVARIANT IdUniverse
INVARIANT AliInverse
INVARIANT TrnInverse
INVARIANT CtmInverse
INVARIANT CtmOrderFree
INVARIANT TgInverse
INVARIANT ErMergeOK
INVARIANT ErBatchFree
INVARIANT ErIdFree
INVARIANT ErUniformExact
INVARIANT SubOK
INVARIANT SubRunIdentical
INVARIANT SubRunExact
INVARIANT SubRunRaises
INVARIANT SubRunMustRaise
INVARIANT SubRunLogFree
INVARIANT Export
CHECK_DEADLOCK FALSE
