\* the classic user mistake: after a restart the loader is constructed with init_epoch = 0 instead of
\* get_last_epoch().  EXPECTED to violate ResumeIsTransparent (non-vacuity of the invariant): the epoch after the
\* restart is trained on Perm(S, 0) again, so its checkpoint does not hold the uninterrupted job's weight
INIT Init
NEXT Next
CONSTANTS
  ParamSpace <- ParamsQuick
  KeepModes <- Both
  Levels <- L2
  MaxE = 3
  NBs = {2}
  MaxCrash = 1
  MaxFsCrash = 1
  InitEpochFromDisk = FALSE
INVARIANT ResumeIsTransparent
CHECK_DEADLOCK FALSE
