---------------------------- MODULE SeqProbTrace ----------------------------
(***************************************************************************)
(* Trace specification (code -> spec) for the random parts of C07.         *)
(*                                                                         *)
(* The harness runs modules.RandomWalk and                                 *)
(* distributions.SequentialLanguageModelDistribution.sample under many     *)
(* seeds with table language models and writes ONE json file               *)
(*   {"tables": [[{"h": [..], "row": [..]}, ..], ..],                      *)
(*    "traces": [{"tid", "eos", "tabs": [table index per element],         *)
(*                "y": [[token per element] per buffer row],               *)
(*                "lens": [reported length per element] (or [] if the call *)
(*                         does not report lengths),                       *)
(*                "nums": [[integer numerators reported for the path of    *)
(*                          element n by the different code paths]]}]}     *)
(* A trace is replayed through the ORIGINAL action StepWith of SeqProbWalk *)
(* with the logged row as the draw, so every invariant of the walk machine *)
(* is evaluated after every step; rows that remain once the machine is     *)
(* terminal must be eos padding (sample() stacks walks of different        *)
(* lengths).  A trace is accepted iff it can be consumed completely, ends  *)
(* in a terminal state, and all reported lengths and numerators equal the  *)
(* machine's.  Acceptance is counted with TLCSet/TLCGet (run with one      *)
(* worker) and announced as [acc |-> tid]; the POSTCONDITION demands that  *)
(* every trace was accepted.  Report emits the progress of every trace     *)
(* (how many rows were consumed, which reported numbers match) so that the *)
(* harness can say WHY the specification rejected a trace; the verdict     *)
(* itself is Accept / Post.                                                *)
(***************************************************************************)
EXTENDS SeqProbWalk, IOUtils, TLCExt

Doc == JsonDeserialize(IOEnv.TRACE_FILE)
Traces == Doc.traces
Tables == Doc.tables

VARIABLES i, pos
tvars == <<vars, i, pos>>

Elts(s) == {s[j] : j \in 1..Len(s)}
TabOf(j) == [h \in Hist |-> (CHOOSE e \in Elts(Tables[j]) : e.h = h).row]
TableOK(j) == /\ \A h \in Hist : \E e \in Elts(Tables[j]) : e.h = h
              /\ \A e \in Elts(Tables[j]) : RowOK(e.row)
ASSUME \A j \in 1..Len(Tables) : TableOK(j)
ASSUME TLCSet(1, 0)

Tr == Traces[i]
RowFn(r) == [n \in 1..Len(r) |-> r[n]]

TraceInit ==
  \E q \in 1..Len(Traces) :
     /\ i = q /\ pos = 0
     /\ InitWith([n \in 1..Len(Traces[q].tabs) |-> TabOf(Traces[q].tabs[n])], Traces[q].eos)

Consume ==
  /\ pos < Len(Tr.y)
  /\ StepWith(RowFn(Tr.y[pos + 1]))
  /\ pos' = pos + 1 /\ i' = i

\* stacked samples: rows after the end of this walk hold eos for every element
PadRow ==
  /\ pos < Len(Tr.y)
  /\ Terminal /\ eos # NoEos /\ \A n \in Elems : fin[n]
  /\ \A n \in Elems : Tr.y[pos + 1][n] = eos
  /\ pos' = pos + 1 /\ i' = i
  /\ UNCHANGED vars

TraceNext == Consume \/ PadRow

Matches ==
  /\ pos = Len(Tr.y)
  /\ Terminal
  /\ (Len(Tr.lens) > 0 => \A n \in Elems : Tr.lens[n] = lens[n])
  /\ \A n \in Elems : \A j \in 1..Len(Tr.nums[n]) : Tr.nums[n][j] = nums[n]

\* progress / diagnosis record of every reached state (the harness keeps the furthest one per trace)
NumsOk == [j \in 1..Len(Tr.nums[1]) |-> \A n \in Elems : Tr.nums[n][j] = nums[n]]
Report == Emit([tid |-> Tr.tid, pos |-> pos, done |-> pos = Len(Tr.y), terminal |-> Terminal,
                lens_ok |-> (Len(Tr.lens) > 0 => \A n \in Elems : Tr.lens[n] = lens[n]),
                nums_ok |-> NumsOk])

Accept == Matches => (TLCSet(1, TLCGet(1) + 1) /\ Emit([acc |-> Tr.tid]))

Post == /\ Emit([accepted |-> TLCGet(1), total |-> Len(Traces)])
        /\ TLCGet(1) = Len(Traces)
=============================================================================
