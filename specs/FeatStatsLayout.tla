--------------------------- MODULE FeatStatsLayout ---------------------------
(***************************************************************************)
(* functional.feat_deltas (_feats.py): where the delta orders end up.      *)
(*                                                                         *)
(* Code-shaped machine over the list of AXES of the tensor (labels 0, 1, 2 *)
(* for the dimensions of a 3-D input, "u" for the order axis, a pair       *)
(* <<a, b>> for two axes flattened into one with a major): one action per  *)
(* tensor operation of the code                                            *)
(*   transpose(time_dim, -1); view(.. + (order+1,) + (T,)) after the       *)
(*   convolution; transpose(-2, -1); transpose(time_dim, -2);              *)
(*   movedim(-1, dim); flatten(dim, dim + 1) when concatenating.           *)
(* Declarative side (documentation): "a new dimension is inserted at       *)
(* position dim" / "the dim-th dimension is order+1 times as long", i.e.   *)
(* the deltas of all orders concatenated, order-major.                     *)
(***************************************************************************)
EXTENDS FeatStats

ND == 3                                   \* dimensions of the input

VARIABLES tdim, dim, concat,              \* arguments as given (possibly negative)
          pc, axes
vars == <<tdim, dim, concat, pc, axes>>

Norm(d, n) == IF d < 0 THEN d + n ELSE d
TD == Norm(tdim, ND)
DD == Norm(dim, IF concat THEN ND ELSE ND + 1)

Swap(s, a, b) == [j \in 1..Len(s) |-> IF j = a THEN s[b] ELSE IF j = b THEN s[a] ELSE s[j]]   \* 1-based
InsertAt(s, pos, e) == SubSeq(s, 1, pos - 1) \o <<e>> \o SubSeq(s, pos, Len(s))               \* before 1-based pos

Init ==
  /\ tdim \in (-ND)..(ND - 1)
  /\ concat \in BOOLEAN
  /\ dim \in (IF concat THEN (-ND)..(ND - 1) ELSE (-(ND + 1))..ND)
  /\ pc = "start"
  /\ axes = <<0, 1, 2>>

TimeLast ==     \* x.transpose(time_dim, -1)
  /\ pc = "start" /\ pc' = "time_last"
  /\ axes' = Swap(axes, TD + 1, ND)
  /\ UNCHANGED <<tdim, dim, concat>>
Convolve ==     \* flatten, pad, conv1d, view(shape[:-1] + (order + 1,) + shape[-1:])
  /\ pc = "time_last" /\ pc' = "convolved"
  /\ axes' = InsertAt(axes, ND, "u")
  /\ UNCHANGED <<tdim, dim, concat>>
Restore ==      \* x.transpose(-2, -1).transpose(time_dim, -2)
  /\ pc = "convolved" /\ pc' = "restored"
  /\ axes' = Swap(Swap(axes, ND, ND + 1), TD + 1, ND)
  /\ UNCHANGED <<tdim, dim, concat>>
MoveOrder ==    \* movedim(x, -1, dim)
  /\ pc = "restored" /\ pc' = "moved"
  /\ axes' = InsertAt(SubSeq(axes, 1, ND), DD + 1, axes[ND + 1])
  /\ UNCHANGED <<tdim, dim, concat>>
Flatten ==      \* x.flatten(dim, dim + 1) when concatenating
  /\ pc = "moved" /\ pc' = "done"
  /\ axes' = IF concat
             THEN SubSeq(axes, 1, DD) \o << <<axes[DD + 1], axes[DD + 2]>> >> \o SubSeq(axes, DD + 3, Len(axes))
             ELSE axes
  /\ UNCHANGED <<tdim, dim, concat>>

Next == TimeLast \/ Convolve \/ Restore \/ MoveOrder \/ Flatten
Spec == Init /\ [][Next]_vars

Orig == <<0, 1, 2>>
Documented ==
  IF concat THEN [j \in 1..ND |-> IF j = DD + 1 THEN <<"u", Orig[j]>> ELSE Orig[j]]
  ELSE InsertAt(Orig, DD + 1, "u")

LayoutIsDocumented == pc = "done" => axes = Documented
\* after the two restoring transposes the input axes are back in place with the order axis last
RestoredInPlace == pc = "restored" => axes = <<0, 1, 2, "u">>

Export ==
  pc = "done" => Emit([time_dim |-> tdim, dim |-> dim, concatenate |-> concat, axes |-> axes])
=============================================================================
