\* exhaustive: padded ref rows of length 1..4, hyp rows 1..3 over {eos,1,2}, 10 cost triples, 3 eos modes
INIT Init
NEXT Next
CONSTANTS
  MaxR = 4
  MaxH = 3
  Tokens = {1, 2}
  CostSet <- CostsThorough
  Modes <- AllModes
  CheckDecl = FALSE
  Given <- NoGiven
  WithRange = TRUE
INVARIANT TypeOK
INVARIANT RowIsLevenshtein
INVARIANT MistakeCostsAgree
INVARIANT MistakesInRange
INVARIANT Frozen
INVARIANT Export
CHECK_DEADLOCK FALSE
