----------------------------- MODULE TrainCtlFs -----------------------------
(***************************************************************************)
(* Crash consistency of TrainingStateController.update_for_epoch (C16).    *)
(*                                                                         *)
(* The epoch update is refined into the file-system micro-steps the code   *)
(* performs, in the code's order, with a program counter:                  *)
(*   keep-last-and-best, previous epoch still best:  save, append          *)
(*   keep-last-and-best, otherwise: [append first iff the new paths        *)
(*        collide with last/best paths] save [append] clean-up (any order) *)
(*   keep-everything: [append first iff a target file exists] save [append]*)
(*   save = create tmp, write tmp (model), create tmp, write tmp (optim),  *)
(*          replace model, replace optimizer                               *)
(* `Crash` is enabled at every program point: memory is lost, files stay,  *)
(* a new controller is started on the same files and the interrupted epoch *)
(* is run again with the same metrics.                                     *)
(*                                                                         *)
(* File contents are abstracted to the epoch whose parameters they hold     *)
(* and, for the optimizer state, the learning rate it carries (as the       *)
(* number of reductions applied, TrainCtl's lrk).  The decisions of the     *)
(* update (new rate, best epoch) are TrainCtl's, INSTANTIATED: the rate     *)
(* recorded for epoch e is the one TrainCtl!Update puts into row e; with    *)
(* BestTrain the best epoch is taken by the training metric                 *)
(* (update_for_epoch(..., best_is_train=True)).                             *)
(* A model file also holds a SET OF ENTRIES: the parameters that were       *)
(* written.  The model handed to the controller may be a wrapper            *)
(* (TrainCtlModel); a checkpoint gives back "exactly the parameters that    *)
(* were saved" only if its entries are the parameters of the live model -   *)
(* the process started after the crash constructs the same kind of model    *)
(* and loads into it.                                                       *)
(***************************************************************************)
EXTENDS Naturals, Integers, Sequences, FiniteSets, TLC, SequencesExt, Json, TrainCtlModel

CONSTANTS EpochFmt,   \* TRUE: file names contain the epoch; FALSE: one fixed name per kind
          KeepLB,     \* keep_last_and_best_only
          BestTrain,  \* best_is_train: "best" = lowest TRAINING metric
          Params,     \* TrainCtl parameter record (learning-rate reductions)
          ModelKind,  \* what is handed to the controller as the model (TrainCtlModel!ModelKinds)
          MaxE,       \* epochs per run
          MaxCrash,   \* crashes per behaviour
          Levels      \* validation metric values

INF == 1000

VARIABLES M,        \* 1..MaxE -> validation metric of each epoch (fixed per behaviour)
          R,        \* the rows TrainCtl records for M (fixed per behaviour): R[e].lrk, R[e].trn
          hist,     \* history file: sequence of recorded validation metrics
          fs,       \* checkpoint files: name -> [e |-> epoch whose state the file holds, k |-> rate it carries,
                    \*                             keys |-> entries of the model's state dict in it]
          tmps,     \* temporary files: id -> content (Nothing = nothing written yet)
          pc,       \* program point inside the update ("idle" between updates)
          plan,     \* the in-flight update (lost on crash)
          optk,     \* process memory: the rate the live optimizer holds (restored from the last checkpoint on restart)
          crashes,
          refused   \* the update raised ("would overwrite best checkpoint")
vars == <<M, R, hist, fs, tmps, pc, plan, optk, crashes, refused>>

\* parameter settings of the fault enumeration (vf/props/c16.py P0, P1): reductions happen, no early stop
FsP0 == [P |-> 2, B |-> 0, TH |-> 0, RP |-> 1, RB |-> 0, RC |-> 0, RTH |-> 1, ne |-> 0, EK |-> 9]
FsP1 == [P |-> 1, B |-> 1, TH |-> 0, RP |-> 2, RB |-> 1, RC |-> 1, RTH |-> 1, ne |-> 0, EK |-> 1]

\* TrainCtl with its history bound to h; only its state-level operators are used
TC(h) == INSTANCE TrainCtl WITH p <- Params, ParamSpace <- {Params}, MaxLen <- MaxE, hist <- h,
                                cache <- <<>>, conts <- <<>>, optlr <- 0, ckpt <- <<>>, decl <- <<>>, fresh <- FALSE
RowsFor(m) == LET f[n \in 0..MaxE] == IF n = 0 THEN <<>>
                                      ELSE Append(f[n - 1], TC(f[n - 1])!Update(TC(f[n - 1])!FromHist(f[n - 1]), m[n]))
              IN f[MaxE]
TrnOf(e, v) == TC(<<>>)!TrainOf(e, v)          \* the training metric fed alongside validation metric v at epoch e
LrkOf(e) == IF e = 0 THEN 0 ELSE R[e].lrk      \* the rate recorded for (and to be found in the optimizer state of) epoch e

Name(kind, e) == IF EpochFmt THEN <<kind, e>> ELSE <<kind, 0>>
Names(e) == {Name("m", e), Name("o", e)}
\* the metric "best" goes by
KeyAt(h, e) == IF e = 0 THEN INF ELSE IF BestTrain THEN TrnOf(e, h[e]) ELSE h[e]
ValAt(h, e) == KeyAt(h, e)
\* lowest metric, ties to the earlier epoch (get_best_epoch)
Best(h) == CHOOSE b \in 0..Len(h) : /\ \A e \in 0..Len(h) : ValAt(h, b) <= ValAt(h, e)
                                    /\ \A e \in 0..Len(h) : ValAt(h, e) = ValAt(h, b) => b <= e
LastE(h) == Len(h)
Full == [e \in 1..MaxE |-> M[e]]
Put(f, n, c) == [x \in DOMAIN f \cup {n} |-> IF x = n THEN c ELSE f[x]]
Drop(f, n) == [x \in DOMAIN f \ {n} |-> f[x]]
NoPlan == [e |-> 0]
Nothing == [e |-> 0, k |-> 0, keys |-> {}]
\* what a state dict saved for epoch e should hold: e's parameters - every parameter of the live model, a wrapper's
\* own included - or e's optimizer state carrying the rate recorded for e
Content(kind, e) == [e |-> e, k |-> IF kind = "o" THEN LrkOf(e) ELSE 0,
                     keys |-> IF kind = "m" THEN LiveKeys(ModelKind) ELSE {}]

Init == /\ M \in [1..MaxE -> Levels]
        /\ R = RowsFor(M)
        /\ hist = <<>> /\ fs = <<>> /\ tmps = <<>> /\ pc = "idle" /\ plan = NoPlan
        /\ optk = 0 /\ crashes = 0 /\ refused = FALSE

(***************************************************************************)
(* the update, step by step                                                *)
(***************************************************************************)
Begin ==
  /\ pc = "idle" /\ ~refused /\ Len(hist) < MaxE
  /\ LET e == Len(hist) + 1
         v == M[e]
         lastbest == Best(hist)
         curbest == Best(Append(hist, v))
         new == Names(e)
         last == Names(e - 1)
         lb == Names(lastbest)
         raises == KeepLB /\ curbest # e /\ Name("m", e) = Name("m", curbest)
         branchA == KeepLB /\ curbest = e - 1
         first == IF KeepLB THEN ~branchA /\ (new \cap (last \cup lb)) # {}
                  ELSE (new \cap DOMAIN fs) # {}
         clean == IF ~KeepLB \/ branchA THEN {}
                  ELSE (last \cup (IF lastbest # curbest THEN lb ELSE {})) \ new
     IN IF raises
        THEN /\ refused' = TRUE
             /\ UNCHANGED <<M, R, optk, hist, fs, tmps, pc, plan, crashes>>
        \* the new rate is computed from the history (row e - 1) and, only if it was reduced, written into
        \* the live optimizer -- when the decision is taken, BEFORE anything is saved
        ELSE /\ plan' = [e |-> e, v |-> v, first |-> first, clean |-> clean]
             /\ optk' = IF LrkOf(e) # LrkOf(e - 1) THEN LrkOf(e) ELSE optk
             /\ pc' = IF first THEN "append1" ELSE "tmpM"
             /\ UNCHANGED <<M, R, hist, fs, tmps, crashes, refused>>

AppendFirst == /\ pc = "append1"
               /\ hist' = Append(hist, plan.v)
               /\ pc' = "tmpM"
               /\ UNCHANGED <<M, R, optk, fs, tmps, plan, crashes, refused>>
MkTmp(here, id, there) == /\ pc = here
                          /\ tmps' = Put(tmps, id, Nothing)
                          /\ pc' = there
                          /\ UNCHANGED <<M, R, optk, hist, fs, plan, crashes, refused>>
\* torch.save(state_dict): the model's parameters / the optimizer's state WITH the rate it holds now
WrTmp(here, id, there) == /\ pc = here
                          /\ tmps' = Put(tmps, id, [e |-> plan.e, k |-> IF id[1] = "o" THEN optk ELSE 0,
                                                    \* model.state_dict() of the model that was handed in
                                                    keys |-> IF id[1] = "m" THEN LiveKeys(ModelKind) ELSE {}])
                          /\ pc' = there
                          /\ UNCHANGED <<M, R, optk, hist, fs, plan, crashes, refused>>
\* fresh tmp ids: (epoch, kind, attempt) -- an earlier crashed attempt may have left one behind
TmpId(kind) == <<kind, plan.e, crashes>>
Repl(here, kind, there) == /\ pc = here
                           /\ fs' = Put(fs, Name(kind, plan.e), tmps[TmpId(kind)])
                           /\ tmps' = Drop(tmps, TmpId(kind))
                           /\ pc' = there
                           /\ UNCHANGED <<M, R, optk, hist, plan, crashes, refused>>
AppendLast == /\ pc = "append2"
              /\ hist' = Append(hist, plan.v)
              /\ pc' = "clean"
              /\ UNCHANGED <<M, R, optk, fs, tmps, plan, crashes, refused>>
Clean == /\ pc = "clean"
         /\ IF plan.clean \cap DOMAIN fs = {}
            THEN pc' = "idle" /\ plan' = NoPlan /\ UNCHANGED fs
            ELSE \E n \in plan.clean \cap DOMAIN fs :        \* deletions in any order
                   fs' = Drop(fs, n) /\ UNCHANGED <<pc, plan>>
         /\ UNCHANGED <<M, R, optk, hist, tmps, crashes, refused>>

Save == \/ MkTmp("tmpM", TmpId("m"), "wrM") \/ WrTmp("wrM", TmpId("m"), "tmpO")
        \/ MkTmp("tmpO", TmpId("o"), "wrO") \/ WrTmp("wrO", TmpId("o"), "replM")
        \/ Repl("replM", "m", "replO")
        \/ Repl("replO", "o", IF plan.first THEN "clean" ELSE "append2")

\* the process dies; a new controller starts on the same files
\* (load_model_and_optimizer_for_epoch: the optimizer gets the rate its last checkpoint carries)
Crash == /\ pc # "idle" /\ crashes < MaxCrash
         /\ pc' = "idle" /\ plan' = NoPlan /\ crashes' = crashes + 1
         /\ optk' = IF LastE(hist) > 0 /\ Name("o", LastE(hist)) \in DOMAIN fs THEN fs[Name("o", LastE(hist))].k ELSE 0
         /\ UNCHANGED <<M, R, hist, fs, tmps, refused>>

Next == Begin \/ AppendFirst \/ Save \/ AppendLast \/ Clean \/ Crash
Spec == Init /\ [][Next]_vars

(***************************************************************************)
(* C16                                                                     *)
(***************************************************************************)
\* both files of epoch e exist and hold exactly what was to be saved for e: e's parameters, and an
\* optimizer state carrying the rate recorded for e
Loadable(e) == /\ Name("m", e) \in DOMAIN fs /\ fs[Name("m", e)] = Content("m", e)
               /\ Name("o", e) \in DOMAIN fs /\ fs[Name("o", e)] = Content("o", e)
\* evaluated in EVERY state in which the process may die (or has finished an update), hence at
\* every crash point; a state inside an update that no further crash can expose is not observable
Observable == pc = "idle" \/ crashes < MaxCrash
HistoryIsPrefix == IsPrefix(hist, Full)
LastLoadable == (Observable /\ LastE(hist) > 0) => Loadable(LastE(hist))
BestLoadable == (Observable /\ Best(hist) > 0) => Loadable(Best(hist))
Recoverable == HistoryIsPrefix /\ LastLoadable /\ BestLoadable
\* crash-free, keep-last-and-best: exactly the files of the last and best epoch after each update
ExactlyTwo == (KeepLB /\ crashes = 0 /\ pc = "idle" /\ Len(hist) > 0) =>
                 /\ DOMAIN fs = Names(LastE(hist)) \cup Names(Best(hist))
                 /\ DOMAIN tmps = {}
\* keep-everything: every recorded epoch stays loadable
AllLoadable == (~KeepLB /\ EpochFmt /\ Observable) => \A e \in 1..Len(hist) : Loadable(e)
\* whatever happened, training can be carried on to the end and ends with the same history
Convergent == (pc = "idle" /\ ~refused /\ Len(hist) = MaxE) => hist = Full
\* oracle for the fault enumeration on the real code: rate and best epoch per prefix of the history
Emit(rec) == PrintT(<<"VFJ", ToJson(rec)>>)
Export == (pc = "idle" /\ hist = <<>> /\ crashes = 0) =>
             Emit([p |-> Params, best_is_train |-> BestTrain, M |-> Full, lrk |-> [e \in 1..MaxE |-> R[e].lrk], trn |-> [e \in 1..MaxE |-> R[e].trn],
                   best |-> [e \in 1..MaxE |-> Best(SubSeq(Full, 1, e))]])
\* the live optimizer holds the rate recorded for the last epoch whenever training may go on from here
LiveRate == (pc = "idle" /\ (LastE(hist) = 0 \/ Loadable(LastE(hist)))) => optk = LrkOf(LastE(hist))
TypeOK == ModelKind \in ModelKinds /\ pc \in {"idle", "append1", "tmpM", "wrM", "tmpO", "wrO", "replM", "replO", "append2", "clean"}
=============================================================================
