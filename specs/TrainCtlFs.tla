----------------------------- MODULE TrainCtlFs -----------------------------
(***************************************************************************)
(* Crash consistency of TrainingStateController.update_for_epoch (C16).    *)
(*                                                                         *)
(* The epoch update is refined into the file-system micro-steps the code   *)
(* performs, in the code's order, with a program counter:                  *)
(*   keep-last-and-best, previous epoch still best:  save, append          *)
(*   keep-last-and-best, otherwise: [append first iff the new paths        *)
(*        collide with last/best paths] save [append] clean-up (any order) *)
(*   keep-everything: [append first iff a target file exists] save [append]*)
(*   save = create tmp, write tmp (model), create tmp, write tmp (optim),  *)
(*          replace model, replace optimizer                               *)
(* `Crash` is enabled at every program point: memory is lost, files stay,  *)
(* a new controller is started on the same files and the interrupted epoch *)
(* is run again with the same metrics.                                     *)
(*                                                                         *)
(* File contents are abstracted to the epoch whose parameters they hold.   *)
(***************************************************************************)
EXTENDS Naturals, Integers, Sequences, FiniteSets, TLC, SequencesExt

CONSTANTS EpochFmt,   \* TRUE: file names contain the epoch; FALSE: one fixed name per kind
          KeepLB,     \* keep_last_and_best_only
          MaxE,       \* epochs per run
          MaxCrash,   \* crashes per behaviour
          Levels      \* validation metric values

INF == 1000

VARIABLES M,        \* 1..MaxE -> metric of each epoch (fixed per behaviour)
          hist,     \* history file: sequence of recorded validation metrics
          fs,       \* checkpoint files: name -> epoch whose parameters the file holds
          tmps,     \* temporary files: id -> content (0 = nothing written yet)
          pc,       \* program point inside the update ("idle" between updates)
          plan,     \* the in-flight update (lost on crash)
          crashes,
          refused   \* the update raised ("would overwrite best checkpoint")
vars == <<M, hist, fs, tmps, pc, plan, crashes, refused>>

Name(kind, e) == IF EpochFmt THEN <<kind, e>> ELSE <<kind, 0>>
Names(e) == {Name("m", e), Name("o", e)}
ValAt(h, e) == IF e = 0 THEN INF ELSE h[e]
\* lowest metric, ties to the earlier epoch (get_best_epoch)
Best(h) == CHOOSE b \in 0..Len(h) : /\ \A e \in 0..Len(h) : ValAt(h, b) <= ValAt(h, e)
                                    /\ \A e \in 0..Len(h) : ValAt(h, e) = ValAt(h, b) => b <= e
LastE(h) == Len(h)
Full == [e \in 1..MaxE |-> M[e]]
Put(f, n, c) == [x \in DOMAIN f \cup {n} |-> IF x = n THEN c ELSE f[x]]
Drop(f, n) == [x \in DOMAIN f \ {n} |-> f[x]]
NoPlan == [e |-> 0]

Init == /\ M \in [1..MaxE -> Levels]
        /\ hist = <<>> /\ fs = <<>> /\ tmps = <<>> /\ pc = "idle" /\ plan = NoPlan
        /\ crashes = 0 /\ refused = FALSE

(***************************************************************************)
(* the update, step by step                                                *)
(***************************************************************************)
Begin ==
  /\ pc = "idle" /\ ~refused /\ Len(hist) < MaxE
  /\ LET e == Len(hist) + 1
         v == M[e]
         lastbest == Best(hist)
         curbest == Best(Append(hist, v))
         new == Names(e)
         last == Names(e - 1)
         lb == Names(lastbest)
         raises == KeepLB /\ curbest # e /\ Name("m", e) = Name("m", curbest)
         branchA == KeepLB /\ curbest = e - 1
         first == IF KeepLB THEN ~branchA /\ (new \cap (last \cup lb)) # {}
                  ELSE (new \cap DOMAIN fs) # {}
         clean == IF ~KeepLB \/ branchA THEN {}
                  ELSE (last \cup (IF lastbest # curbest THEN lb ELSE {})) \ new
     IN IF raises
        THEN /\ refused' = TRUE
             /\ UNCHANGED <<M, hist, fs, tmps, pc, plan, crashes>>
        ELSE /\ plan' = [e |-> e, v |-> v, first |-> first, clean |-> clean]
             /\ pc' = IF first THEN "append1" ELSE "tmpM"
             /\ UNCHANGED <<M, hist, fs, tmps, crashes, refused>>

AppendFirst == /\ pc = "append1"
               /\ hist' = Append(hist, plan.v)
               /\ pc' = "tmpM"
               /\ UNCHANGED <<M, fs, tmps, plan, crashes, refused>>
MkTmp(here, id, there) == /\ pc = here
                          /\ tmps' = Put(tmps, id, 0)
                          /\ pc' = there
                          /\ UNCHANGED <<M, hist, fs, plan, crashes, refused>>
WrTmp(here, id, there) == /\ pc = here
                          /\ tmps' = Put(tmps, id, plan.e)
                          /\ pc' = there
                          /\ UNCHANGED <<M, hist, fs, plan, crashes, refused>>
\* fresh tmp ids: (epoch, kind, attempt) -- an earlier crashed attempt may have left one behind
TmpId(kind) == <<kind, plan.e, crashes>>
Repl(here, kind, there) == /\ pc = here
                           /\ fs' = Put(fs, Name(kind, plan.e), tmps[TmpId(kind)])
                           /\ tmps' = Drop(tmps, TmpId(kind))
                           /\ pc' = there
                           /\ UNCHANGED <<M, hist, plan, crashes, refused>>
AppendLast == /\ pc = "append2"
              /\ hist' = Append(hist, plan.v)
              /\ pc' = "clean"
              /\ UNCHANGED <<M, fs, tmps, plan, crashes, refused>>
Clean == /\ pc = "clean"
         /\ IF plan.clean \cap DOMAIN fs = {}
            THEN pc' = "idle" /\ plan' = NoPlan /\ UNCHANGED fs
            ELSE \E n \in plan.clean \cap DOMAIN fs :        \* deletions in any order
                   fs' = Drop(fs, n) /\ UNCHANGED <<pc, plan>>
         /\ UNCHANGED <<M, hist, tmps, crashes, refused>>

Save == \/ MkTmp("tmpM", TmpId("m"), "wrM") \/ WrTmp("wrM", TmpId("m"), "tmpO")
        \/ MkTmp("tmpO", TmpId("o"), "wrO") \/ WrTmp("wrO", TmpId("o"), "replM")
        \/ Repl("replM", "m", "replO")
        \/ Repl("replO", "o", IF plan.first THEN "clean" ELSE "append2")

\* the process dies; a new controller starts on the same files
Crash == /\ pc # "idle" /\ crashes < MaxCrash
         /\ pc' = "idle" /\ plan' = NoPlan /\ crashes' = crashes + 1
         /\ UNCHANGED <<M, hist, fs, tmps, refused>>

Next == Begin \/ AppendFirst \/ Save \/ AppendLast \/ Clean \/ Crash
Spec == Init /\ [][Next]_vars

(***************************************************************************)
(* C16                                                                     *)
(***************************************************************************)
Loadable(e) == /\ Name("m", e) \in DOMAIN fs /\ fs[Name("m", e)] = e
               /\ Name("o", e) \in DOMAIN fs /\ fs[Name("o", e)] = e
\* evaluated in EVERY state in which the process may die (or has finished an update), hence at
\* every crash point; a state inside an update that no further crash can expose is not observable
Observable == pc = "idle" \/ crashes < MaxCrash
HistoryIsPrefix == IsPrefix(hist, Full)
LastLoadable == (Observable /\ LastE(hist) > 0) => Loadable(LastE(hist))
BestLoadable == (Observable /\ Best(hist) > 0) => Loadable(Best(hist))
Recoverable == HistoryIsPrefix /\ LastLoadable /\ BestLoadable
\* crash-free, keep-last-and-best: exactly the files of the last and best epoch after each update
ExactlyTwo == (KeepLB /\ crashes = 0 /\ pc = "idle" /\ Len(hist) > 0) =>
                 /\ DOMAIN fs = Names(LastE(hist)) \cup Names(Best(hist))
                 /\ DOMAIN tmps = {}
\* keep-everything: every recorded epoch stays loadable
AllLoadable == (~KeepLB /\ EpochFmt /\ Observable) => \A e \in 1..Len(hist) : Loadable(e)
\* whatever happened, training can be carried on to the end and ends with the same history
Convergent == (pc = "idle" /\ ~refused /\ Len(hist) = MaxE) => hist = Full
TypeOK == pc \in {"idle", "append1", "tmpM", "wrM", "tmpO", "wrO", "replM", "replO", "append2", "clean"}
=============================================================================
