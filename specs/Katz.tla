-------------------------------- MODULE Katz --------------------------------
(***************************************************************************)
(* Back-off n-gram lookup (pydrobert.torch LookupLanguageModel, C06).      *)
(*                                                                         *)
(* A table lists, for each order k = 1..N, some k-grams with a             *)
(* log-probability (possibly the -inf placeholder) and, below the highest   *)
(* order, a back-off weight.  Presence is arbitrary: lower-order suffixes   *)
(* or contexts may be missing.                                              *)
(*                                                                         *)
(*  - declarative: LogProb is the textbook back-off recursion evaluated     *)
(*    directly on the listed entries;                                       *)
(*  - code-shaped: Iter is the loop of _lookup_calc_idx_log_probs: a         *)
(*    reverse-trie descent along two paths (the full n-gram and its         *)
(*    context), where missing suffixes exist as (-inf, 0) placeholder nodes, *)
(*    a finite value found deeper overwrites ("clobbers") what was          *)
(*    accumulated, and back-off weights are added as soon as the deeper     *)
(*    node is known to be unusable.                                         *)
(* TLC checks Iter = LogProb for every table of the universe, every         *)
(* history and every next token.                                                    *)
(*                                                                         *)
(* Log-values are integers (the harness stores them as floats); NegInf      *)
(* stands for -infinity and absorbs addition.                               *)
(***************************************************************************)
EXTENDS Naturals, Integers, Sequences, FiniteSets, TLC, Json, SequencesExt

CONSTANTS V,          \* vocabulary 0..V-1
          N,          \* highest order
          SosIn,      \* TRUE: the start symbol is token 0; FALSE: it is the extra symbol V
          T,          \* histories of length T are evaluated at every position 0..T
          Tables      \* set of tables: records [fin |-> set of n-grams listed with a finite value,
                      \*                         inf |-> set of n-grams listed with -inf]

NegInf == -100000
Plus(a, b) == IF a = NegInf \/ b = NegInf THEN NegInf ELSE a + b
Sos == IF SosIn THEN 0 ELSE V
Sym == 0..V-1 \cup {Sos}
Grams(k) == [1..k -> Sym]
AllGrams == UNION {Grams(k) : k \in 1..N}

VARIABLES tab
vars == <<tab>>

\* deterministic integer values attached to an n-gram (presence is what varies between tables)
RECURSIVE Code(_)
Code(g) == IF g = <<>> THEN 0 ELSE Code(SubSeq(g, 1, Len(g) - 1)) * (V + 2) + g[Len(g)] + 1
Val(g) == -(1 + ((Code(g) * 7 + Len(g)) % 11))
Bo(g) == -(1 + ((Code(g) * 5 + 3) % 3))

Listed(g) == g \in tab.fin \cup tab.inf
\* the value a listed entry carries
LP(g) == IF g \in tab.fin THEN Val(g) ELSE NegInf

(***************************************************************************)
(* declarative: back-off recursion on the table                            *)
(***************************************************************************)
RECURSIVE LogProb(_, _)
LogProb(ctx, w) ==
  LET g == Append(ctx, w)
  IN IF g \in tab.fin THEN Val(g)                                   \* present and finite
     ELSE IF ctx = <<>> THEN NegInf                                 \* unigram floor
     ELSE Plus(IF Listed(ctx) THEN Bo(ctx) ELSE 0, LogProb(Tail(ctx), w))

\* the context the model conditions on: the last N-1 tokens, left-padded with the start symbol
Pad(h, n) == [i \in 1..n |-> IF i <= n - Len(h) THEN Sos ELSE h[i - (n - Len(h))]]
Ctx(h) == IF N = 1 THEN <<>>
          ELSE IF Len(h) >= N - 1 THEN SubSeq(h, Len(h) - N + 2, Len(h)) ELSE Pad(h, N - 1)
NextLogProbs(h) == [w \in 0..V-1 |-> LogProb(Ctx(h), w)]

(***************************************************************************)
(* code-shaped: reverse-trie descent with placeholder nodes                *)
(***************************************************************************)
\* a trie node exists for g iff g is listed or is a suffix of a listed n-gram (placeholders are
\* added for missing suffixes with value (-inf, 0)); unigram nodes always exist
RECURSIVE IsSuffixOf(_, _)
IsSuffixOf(s, g) == Len(s) <= Len(g) /\ SubSeq(g, Len(g) - Len(s) + 1, Len(g)) = s
Node(g) == Len(g) = 1 \/ \E x \in tab.fin \cup tab.inf : IsSuffixOf(g, x)
NodeLP(g) == IF Listed(g) THEN LP(g) ELSE NegInf
NodeBo(g) == IF Listed(g) THEN Bo(g) ELSE 0

\* c = context of length N-1 (c[N-1] most recent); loop n = 1..N-1 as in the code
RECURSIVE Iter(_, _, _, _, _, _, _)
Iter(c, w, n, lastlp, lastbo, fp, fb) ==
  IF n > N - 1 THEN lastlp
  ELSE
    LET pg == Append(SubSeq(c, N - n, N - 1), w)                         \* p path: (n+1)-gram ending in w
        bl == IF n + 1 < N - 1 THEN n + 1 ELSE N - 1
        bg == SubSeq(c, N - bl, N - 1)                                   \* b path: context of length min(n+1, N-1)
        fp2 == fp /\ Node(pg)
        fb2 == fb /\ Node(bg)
        lpd == IF fp2 THEN NodeLP(pg) ELSE NegInf
        curbo == IF n = N - 1 THEN 0 ELSE IF fb2 THEN NodeBo(bg) ELSE 0
        clobber == fp2 /\ lpd # NegInf
        curlp == IF clobber THEN lpd ELSE Plus(lastlp, curbo + lastbo)
    IN Iter(c, w, n + 1, curlp, IF clobber THEN curbo ELSE 0, fp2, fb2)
IterLogProb(c, w) ==
  IF N = 1 THEN NodeLP(<<w>>)
  ELSE Iter(c, w, 1, NodeLP(<<w>>), NodeBo(<<c[N - 1]>>), TRUE, TRUE)

(***************************************************************************)
(* behaviour: one state per table                                          *)
(***************************************************************************)
Init == tab \in Tables
Next == UNCHANGED vars
Hists(n) == UNION {[1..m -> 0..V-1] : m \in 0..n}

\* C06 design invariants
IterIsRecursion == \A h \in Hists(T) : \A w \in 0..V-1 : IterLogProb(Ctx(h), w) = LogProb(Ctx(h), w)
WellFormed == /\ tab.fin \cap tab.inf = {}
              /\ tab.fin \cup tab.inf \subseteq AllGrams

(***************************************************************************)
(* export: per table, for every history of length T, the next-token vector  *)
(* at every position 0..T                                                  *)
(***************************************************************************)
Emit(rec) == PrintT(<<"VFJ", ToJson(rec)>>)
HS == SetToSeq([1..T -> 0..V-1])
Export ==
  Emit([fin |-> SetToSeq(tab.fin), inf |-> SetToSeq(tab.inf),
        vals |-> LET L == SetToSeq(tab.fin \cup tab.inf)
                 IN [i \in 1..Len(L) |-> [g |-> L[i], lp |-> LP(L[i]), bo |-> IF Len(L[i]) < N THEN Bo(L[i]) ELSE 0]],
        hists |-> [i \in 1..Len(HS) |->
                     [h |-> HS[i],
                      lp |-> [t \in 1..T+1 |-> [w \in 1..V |-> LogProb(Ctx(SubSeq(HS[i], 1, t - 1)), w - 1)]]]]])
=============================================================================
