----------------------------- MODULE SpecAugment -----------------------------
(***************************************************************************)
(* SpecAugment of pydrobert.torch (_img.py: spec_augment_draw_parameters,  *)
(* spec_augment_apply_parameters, SpecAugment.forward; warp_1d_grid for    *)
(* the default linear warp), one batch element at a time.                  *)
(*                                                                         *)
(*  - declarative side: the documented bounds on drawn parameters          *)
(*    (TimeMaskOK, FreqMaskOK, WarpOK, when a step is enabled), the set of *)
(*    cells an application zeroes (Masked), and the half-frame abstraction *)
(*    of the linear warp's sampling grid (GridOK);                         *)
(*  - code-shaped side: the floor/clamp arithmetic of the draw (caps by    *)
(*    floor(len * proportion) and the absolute limit, only the first       *)
(*    "count cap" masks may be non-empty, start drawn in 0..len - width),  *)
(*    interval masks OR-ed over masks and broadcast over the other axis,   *)
(*    and the three-knot piecewise-linear grid in exact rationals.         *)
(* TLC checks that every code-shaped draw satisfies the documented bounds, *)
(* that every bound is attained by some draw (tightness), that warp        *)
(* destinations stay inside the valid frames, that the code-shaped mask    *)
(* equals the declarative one and lies inside the valid frames, and that   *)
(* the quantised grid of a warp whose destination lies strictly inside the *)
(* valid frames is non-decreasing and pinned, and that a read of the       *)
(* border-padded bilinear sampler stays inside the hull of the plane it    *)
(* reads (HullOK, the abstraction that decides "no warp of any order       *)
(* yields a non-finite value or one outside the range of its input").      *)
(*                                                                         *)
(* Units: proportions are multiples of 1/4 (p4 = 4p); warp quantities are  *)
(* in HALF frames (mw2 = 2 * max_warp; a real value x is represented by    *)
(* the integers floor(2x) and ceil(2x), see WarpOK).                       *)
(***************************************************************************)
EXTENDS Integers, Sequences, FiniteSets, TLC, Json, RatArith

CONSTANTS MaxT, MaxF,   \* draw universe: length 1..MaxT, F in 1..MaxF
          MaskWs,       \* values of max_time_mask / max_freq_mask
          Props4,       \* values of 4 * proportion
          Nums,         \* values of num_time_mask / num_freq_mask
          Warps2,       \* values of 2 * max_*_warp
          ApplyT, ApplyF, ApplyMasks,  \* apply universe: T <= ApplyT, F <= ApplyF, <= ApplyMasks masks per axis
          HullVals, HullOff, HullDen   \* hull universe: cell values v - HullOff, v \in HullVals; read positions
                                       \* in units of 1 / HullDen of a cell

MinOf2(x, y) == IF x <= y THEN x ELSE y
MaxOf2(x, y) == IF x >= y THEN x ELSE y

(***************************************************************************)
(* Declarative: documented bounds                                          *)
(***************************************************************************)
\* int(proportion * length)
FloorProp(L, p4) == (L * p4) \div 4
TimeWidthCap(c, L) == MinOf2(c.mtm, FloorProp(L, c.p4))
TimeCountCap(c, L) == MinOf2(c.ntm, FloorProp(L, c.q4))
TimeMaskEnabled(c) == c.mtm > 0 /\ c.p4 > 0 /\ c.ntm > 0 /\ c.q4 > 0
TimeMaskOK(c, L, t0, t) ==
  /\ Len(t) = c.ntm /\ Len(t0) = c.ntm                        \* shape (N, num_time_mask)
  /\ \A k \in 1..c.ntm :
       /\ 0 <= t[k] /\ t[k] <= TimeWidthCap(c, L)             \* absolute and proportional width caps
       /\ 0 <= t0[k] /\ t0[k] + t[k] <= L                     \* inside the valid frames
  /\ Cardinality({k \in 1..c.ntm : t[k] > 0}) <= TimeCountCap(c, L)

FreqMaskEnabled(c) == c.mfm > 0 /\ c.nfm > 0
FreqMaskOK(c, F, f0, f) ==
  /\ Len(f) = c.nfm /\ Len(f0) = c.nfm
  /\ \A k \in 1..c.nfm :
       /\ 0 <= f[k] /\ f[k] <= MinOf2(c.mfm, F)
       /\ 0 <= f0[k] /\ f0[k] + f[k] <= F

\* W = min(max_warp, length / 2); in half frames 2W = min(mw2, L)
WarpEnabled(mw2) == mw2 > 0
TwoW(mw2, L) == MinOf2(mw2, L)
\* a real centre x with floor(2x) = clo, ceil(2x) = chi is inside [W, L - W] only if the integer
\* interval clo..chi meets [2W, 2L - 2W]; likewise the shift and [-2W, 2W].  (Sound: a real value
\* inside the window never fails this test; a value outside by a full half frame always does.)
WarpOK(mw2, L, clo, chi, slo, shi) ==
  /\ clo <= chi /\ chi <= clo + 1 /\ slo <= shi /\ shi <= slo + 1
  /\ \E cc \in clo..chi : TwoW(mw2, L) <= cc /\ cc <= 2 * L - TwoW(mw2, L)
  /\ \E ss \in slo..shi : -TwoW(mw2, L) <= ss /\ ss <= TwoW(mw2, L)

\* cells zeroed by an application: inside a drawn time band or a drawn frequency band
Band(s0, s, i) == \E k \in 1..Len(s) : s0[k] <= i /\ i < s0[k] + s[k]
Masked(T, F, t0, t, f0, f) ==
  {cell \in (0..(T - 1)) \X (0..(F - 1)) : Band(t0, t, cell[1]) \/ Band(f0, f, cell[2])}

\* half-frame abstraction of the linear warp's sampling grid over the valid frames:
\* q[i] = floor(2 * source position read by frame i - 1), i = 1..L
\* (the three clauses separately, so that a rejected grid can be classified by the specification)
GridOrderOK(q, L) == Len(q) = L /\ \A i \in 1..(L - 1) : q[i] <= q[i + 1]      \* reads the frames in non-decreasing order
GridFirstOK(q, L) == Len(q) = L /\ -1 <= q[1] /\ q[1] <= 1                     \* begins within half a frame of frame 0
GridLastOK(q, L) ==                                                           \* ends within half a frame of frame L-1
  Len(q) = L /\ 2 * (L - 1) - 1 <= q[L] /\ q[L] <= 2 * (L - 1) + 1
GridOK(q, L) == GridOrderOK(q, L) /\ GridFirstOK(q, L) /\ GridLastOK(q, L)
\* the same three clauses at a finer quantisation: q[i] = floor(u * source position), u units per frame (u even).
\* floor is monotone, so a non-decreasing read order stays non-decreasing at EVERY u; a position within half a
\* frame of frame k has floor(u * x) in u*k - u/2 .. u*k + u/2.  (u = 2 is GridOK.)  Used for read positions that
\* are OBSERVED to float precision (ramp features), where a drop of less than half a frame must not go unnoticed.
GridFineOK(q, L, u) ==
  /\ Len(q) = L /\ u >= 2 /\ u % 2 = 0
  /\ \A i \in 1..(L - 1) : q[i] <= q[i + 1]
  /\ 0 - (u \div 2) <= q[1] /\ q[1] <= u \div 2
  /\ u * (L - 1) - (u \div 2) <= q[L] /\ q[L] <= u * (L - 1) + (u \div 2)

(***************************************************************************)
(* "No warp of any order yields a non-finite value or one outside the      *)
(* range of its input", at the abstraction level.                          *)
(*                                                                         *)
(* Rationale.  Whatever the interpolation order (it only shapes the        *)
(* sampling grid, through the polyharmonic spline of warp_1d_grid), the    *)
(* warp itself RESAMPLES each batch element's (T, F) plane: every output   *)
(* cell is the bilinear interpolation of the plane at one grid position,   *)
(* and a position outside the plane is clipped to its border ("border"     *)
(* padding).  Hence every output cell is a convex combination of cells OF  *)
(* THE SAME ELEMENT'S input plane - the whole padded plane, not only the   *)
(* valid frames: a read beyond the valid length lands in the padding of    *)
(* the same element, never in another element - and is therefore finite    *)
(* and inside [min, max] of that plane.  The masks then overwrite cells    *)
(* with zeros; those cells are excluded (they are decided by Masked).      *)
(*                                                                         *)
(* Units: 1 / 1024 of a feature unit.  inlo, inhi = 1024 * min / max of    *)
(* the element's input plane (exact: the features are integer-valued);     *)
(* outlo = floor(1024 * min), outhi = ceil(1024 * max) over the NON-masked *)
(* output cells of the element (= inlo, inhi when every cell is masked);   *)
(* finite = 1 iff every output cell of the element is finite.  In exact    *)
(* arithmetic outlo >= inlo and outhi <= inhi (design invariant            *)
(* HullAbstraction below); ONE unit of slack is granted to the floating    *)
(* point rounding of the interpolation weights (relative error ~ 2^-23 per *)
(* operation in single precision, on values far below 2^13: several orders *)
(* of magnitude less than 2^-10).                                          *)
(***************************************************************************)
HullOK(order, finite, inlo, inhi, outlo, outhi) ==
  /\ order >= 1                                               \* any order
  /\ finite = 1                                               \* no non-finite value
  /\ inlo <= inhi
  /\ outlo >= inlo - 1 /\ outhi <= inhi + 1                   \* inside the range of its input

(***************************************************************************)
(* Code-shaped side                                                        *)
(***************************************************************************)
VARIABLES kind,   \* "tmask" | "fmask" | "warp" | "apply" | "grid" | "hull"
          cfg,    \* configuration record of the kind
          len,    \* valid length (tmask, warp, apply, grid) or F (fmask)
          par,    \* drawn parameters so far (record)
          phase,  \* "start" -> ... -> "done"
          zero    \* apply: the zeroed cells computed the code's way
vars == <<kind, cfg, len, par, phase, zero>>

TimeCfgs == {[mtm |-> a, p4 |-> b, ntm |-> c, q4 |-> d] : a \in MaskWs, b \in Props4, c \in Nums, d \in Props4}
FreqCfgs == {[mfm |-> a, nfm |-> c] : a \in MaskWs, c \in Nums}
NoPar == [t0 |-> <<>>, t |-> <<>>, f0 |-> <<>>, f |-> <<>>, c |-> 0, s |-> 0, q |-> <<>>]

Init ==
  /\ phase = "start" /\ par = NoPar /\ zero = {}
  /\ \/ kind = "tmask" /\ cfg \in TimeCfgs /\ len \in 1..MaxT
     \/ kind = "fmask" /\ cfg \in FreqCfgs /\ len \in 1..MaxF
     \/ kind = "warp" /\ cfg \in {[mw2 |-> m] : m \in Warps2} /\ len \in 1..MaxT
     \/ kind = "apply" /\ len \in 1..ApplyT
                       /\ cfg \in {[T |-> tt, F |-> ff, nt |-> a, nf |-> b] :
                                     tt \in 1..ApplyT, ff \in 1..ApplyF, a \in 0..ApplyMasks, b \in 0..ApplyMasks}
                       /\ len <= cfg.T
     \/ kind = "grid" /\ len \in 2..MaxT
                      /\ cfg \in {[s2 |-> a, d2 |-> b] : a \in 0..(2 * MaxT), b \in 1..(2 * MaxT)}
                      /\ cfg.s2 <= 2 * (len - 1) /\ cfg.d2 < 2 * (len - 1)
     \/ kind = "hull" /\ len = 2                              \* a 2 x 2 plane <<v00, v01, v10, v11>>
                      /\ cfg \in {[v |-> vv, x |-> a, y |-> b] : vv \in [1..4 -> HullVals],
                                    a \in (-HullDen)..(2 * HullDen), b \in (-HullDen)..(2 * HullDen)}

\* --- time masks: max_ = floor(min(len * p, max_time_mask)), nums_ likewise; widths are
\* floor(u * (max_ + 1 - eps)) in 0..max_, zeroed for mask indices >= nums_; then the starts are
\* floor(u * (len - width + 1 - eps)) in 0..len - width
DrawTimeWidths ==
  /\ kind = "tmask" /\ phase = "start"
  /\ IF TimeMaskEnabled(cfg)
     THEN /\ \E w \in [1..cfg.ntm -> 0..TimeWidthCap(cfg, len)] :
               /\ \A k \in 1..cfg.ntm : k > TimeCountCap(cfg, len) => w[k] = 0
               /\ par' = [par EXCEPT !.t = w]
          /\ phase' = "widths"
     ELSE par' = par /\ phase' = "done"                       \* step disabled: parameters stay empty
  /\ UNCHANGED <<kind, cfg, len, zero>>
DrawTimeStarts ==
  /\ kind = "tmask" /\ phase = "widths"
  /\ \E s \in [1..cfg.ntm -> 0..len] :
       /\ \A k \in 1..cfg.ntm : s[k] <= len - par.t[k]
       /\ par' = [par EXCEPT !.t0 = s]
  /\ phase' = "done"
  /\ UNCHANGED <<kind, cfg, len, zero>>

\* --- frequency masks: max_ = min(max_freq_mask, F)
DrawFreqWidths ==
  /\ kind = "fmask" /\ phase = "start"
  /\ IF FreqMaskEnabled(cfg)
     THEN /\ \E w \in [1..cfg.nfm -> 0..MinOf2(cfg.mfm, len)] : par' = [par EXCEPT !.f = w]
          /\ phase' = "widths"
     ELSE par' = par /\ phase' = "done"
  /\ UNCHANGED <<kind, cfg, len, zero>>
DrawFreqStarts ==
  /\ kind = "fmask" /\ phase = "widths"
  /\ \E s \in [1..cfg.nfm -> 0..len] :
       /\ \A k \in 1..cfg.nfm : s[k] <= len - par.f[k]
       /\ par' = [par EXCEPT !.f0 = s]
  /\ phase' = "done"
  /\ UNCHANGED <<kind, cfg, len, zero>>

\* --- warp: W = clamp(len/2 - eps, 0, max_warp); centre = u (len - 2W) + W; shift = u 2W - W
\* (half-frame grid; the eps only keeps the centre's range from being empty)
DrawWarpCentre ==
  /\ kind = "warp" /\ phase = "start"
  /\ IF WarpEnabled(cfg.mw2)
     THEN /\ \E cc \in TwoW(cfg.mw2, len)..(2 * len - TwoW(cfg.mw2, len)) : par' = [par EXCEPT !.c = cc]
          /\ phase' = "centre"
     ELSE par' = par /\ phase' = "done"
  /\ UNCHANGED <<kind, cfg, len, zero>>
DrawWarpShift ==
  /\ kind = "warp" /\ phase = "centre"
  /\ \E ss \in (-TwoW(cfg.mw2, len))..TwoW(cfg.mw2, len) : par' = [par EXCEPT !.s = ss]
  /\ phase' = "done"
  /\ UNCHANGED <<kind, cfg, len, zero>>

\* --- apply: any in-bounds mask parameters (drawn as above with caps = the whole axis)
ApplyDraw ==
  /\ kind = "apply" /\ phase = "start"
  /\ \E tw \in [1..cfg.nt -> 0..len], ts \in [1..cfg.nt -> 0..len],
        fw \in [1..cfg.nf -> 0..cfg.F], fs \in [1..cfg.nf -> 0..cfg.F] :
       /\ \A k \in 1..cfg.nt : ts[k] + tw[k] <= len
       /\ \A k \in 1..cfg.nf : fs[k] + fw[k] <= cfg.F
       /\ par' = [par EXCEPT !.t = tw, !.t0 = ts, !.f = fw, !.f0 = fs]
  /\ phase' = "drawn"
  /\ UNCHANGED <<kind, cfg, len, zero>>
\* code: tmask[i] = any_k (i >= t_0[k] & i < t_0[k] + t[k])  (N,T,1); fmask likewise (N,1,F);
\* cells of (tmask | fmask) are filled with 0
Apply ==
  /\ kind = "apply" /\ phase = "drawn"
  /\ LET tm == [i \in 0..(cfg.T - 1) |-> \E k \in 1..cfg.nt : i >= par.t0[k] /\ i < par.t0[k] + par.t[k]]
         fm == [j \in 0..(cfg.F - 1) |-> \E k \in 1..cfg.nf : j >= par.f0[k] /\ j < par.f0[k] + par.f[k]]
     IN zero' = {cell \in (0..(cfg.T - 1)) \X (0..(cfg.F - 1)) : tm[cell[1]] \/ fm[cell[2]]}
  /\ phase' = "done"
  /\ UNCHANGED <<kind, cfg, len, par>>

\* --- linear warp grid (interpolation order 1): the piecewise-linear map through the knots
\* (frame 0 -> 0), (destination d -> source s), (frame len-1 -> len-1), read at the integer
\* frames; all in half frames and exact rationals.  cfg.d2 strictly inside (0, 2(len-1)).
GridAt(i2, s2, d2, e2) ==   \* twice the source position read by the frame at half-frame index i2
  IF i2 <= d2 THEN QMul(QInt(i2), QMk(s2, d2))
  ELSE QAdd(QInt(s2), QMul(QInt(i2 - d2), QMk(e2 - s2, e2 - d2)))
QFloor(r) == IF r[1] >= 0 THEN r[1] \div r[2] ELSE -((-r[1] + r[2] - 1) \div r[2])
ComputeGrid ==
  /\ kind = "grid" /\ phase = "start"
  /\ par' = [par EXCEPT !.q = [i \in 1..len |-> QFloor(GridAt(2 * (i - 1), cfg.s2, cfg.d2, 2 * (len - 1)))]]
  /\ phase' = "done"
  /\ UNCHANGED <<kind, cfg, len, zero>>

\* --- one read of the resampler (grid_sample, bilinear, padding_mode = "border"): the position
\* (cfg.x, cfg.y) / HullDen, in cell units, possibly outside the plane, is clipped to the plane, then
\* the four surrounding cells are mixed with the bilinear weights; exact rationals over HullDen^2,
\* quantised to 1 / 1024 the way the harness quantises an output cell (par.q = <<floor, ceiling>>)
ClipTo(x, lo, hi) == IF x < lo THEN lo ELSE IF x > hi THEN hi ELSE x
HullCell(k) == cfg.v[k] - HullOff
ComputeHull ==
  /\ kind = "hull" /\ phase = "start"
  /\ LET D == HullDen
         a == ClipTo(cfg.x, 0, D)
         b == ClipTo(cfg.y, 0, D)
         num == (D - a) * (D - b) * HullCell(1) + (D - a) * b * HullCell(2)
                  + a * (D - b) * HullCell(3) + a * b * HullCell(4)
     IN par' = [par EXCEPT !.q = <<QFloor(<<1024 * num, D * D>>), -QFloor(<<-(1024 * num), D * D>>)>>]
  /\ phase' = "done"
  /\ UNCHANGED <<kind, cfg, len, zero>>

Next == \/ DrawTimeWidths \/ DrawTimeStarts \/ DrawFreqWidths \/ DrawFreqStarts
        \/ DrawWarpCentre \/ DrawWarpShift \/ ApplyDraw \/ Apply \/ ComputeGrid \/ ComputeHull
Spec == Init /\ [][Next]_vars

(***************************************************************************)
(* Design invariants                                                       *)
(***************************************************************************)
Done == phase = "done"
\* every code-shaped draw is inside the documented bounds; a disabled step leaves the parameters empty
TimeDrawInBounds == (kind = "tmask" /\ Done) =>
  IF TimeMaskEnabled(cfg) THEN TimeMaskOK(cfg, len, par.t0, par.t) ELSE par = NoPar
FreqDrawInBounds == (kind = "fmask" /\ Done) =>
  IF FreqMaskEnabled(cfg) THEN FreqMaskOK(cfg, len, par.f0, par.f) ELSE par = NoPar
WarpDrawInBounds == (kind = "warp" /\ Done) =>
  IF WarpEnabled(cfg.mw2)
  THEN /\ WarpOK(cfg.mw2, len, par.c, par.c, par.s, par.s)
       /\ 0 <= par.c + par.s /\ par.c + par.s <= 2 * len          \* destination inside the valid frames
       /\ 0 <= par.c /\ par.c <= 2 * len
  ELSE par = NoPar
\* tightness: every bound is attained by some draw (evaluated once per configuration, at the start)
Tight ==
  /\ (kind = "tmask" /\ phase = "start" /\ TimeMaskEnabled(cfg)) =>
        LET wc == TimeWidthCap(cfg, len)
            nc == TimeCountCap(cfg, len)
        IN \* a draw with min(nc, ntm) masks of full width, ending exactly at the last valid frame
           /\ wc <= len /\ nc <= cfg.ntm
           /\ TimeMaskOK(cfg, len, [k \in 1..cfg.ntm |-> IF k <= nc THEN len - wc ELSE len],
                                   [k \in 1..cfg.ntm |-> IF k <= nc THEN wc ELSE 0])
           \* ... and one more non-empty mask, or one more frame of width, is out of bounds
           /\ (nc < cfg.ntm /\ wc > 0) =>
                 ~TimeMaskOK(cfg, len, [k \in 1..cfg.ntm |-> 0], [k \in 1..cfg.ntm |-> IF k <= nc + 1 THEN 1 ELSE 0])
           /\ ~TimeMaskOK(cfg, len, [k \in 1..cfg.ntm |-> 0], [k \in 1..cfg.ntm |-> IF k = 1 THEN wc + 1 ELSE 0])
  /\ (kind = "warp" /\ phase = "start" /\ WarpEnabled(cfg.mw2)) =>
        /\ TwoW(cfg.mw2, len) <= 2 * len - TwoW(cfg.mw2, len)          \* the centre's window is never empty
        /\ (cfg.mw2 >= len => TwoW(cfg.mw2, len) = len)                \* warps larger than half the length
\* application: the code-shaped mask is the declarative one; it lies inside the valid frames /
\* coefficients bands; nothing is zeroed without masks
ApplyIsMasked == (kind = "apply" /\ Done) =>
  /\ zero = Masked(cfg.T, cfg.F, par.t0, par.t, par.f0, par.f)
  /\ (cfg.nt = 0 /\ cfg.nf = 0) => zero = {}
  /\ \A cell \in zero : Band(par.t0, par.t, cell[1]) => cell[1] < len
\* the abstraction of the linear warp: monotone and pinned whenever the destination is strictly
\* inside the valid frames
GridAbstraction == (kind = "grid" /\ Done) => GridOK(par.q, len)
\* the abstraction of the resampler: a read at ANY position, inside or outside the plane, is accepted
\* by HullOK - in exact arithmetic without the unit of slack -, and a read at a cell returns that cell
\* (so the range of the input is attained: the bound cannot be tightened)
HullAbstraction == (kind = "hull" /\ Done) =>
  LET cells == {HullCell(k) : k \in 1..4}
      lo == 1024 * (CHOOSE m \in cells : \A o \in cells : m <= o)
      hi == 1024 * (CHOOSE m \in cells : \A o \in cells : m >= o)
  IN /\ HullOK(1, 1, lo, hi, par.q[1], par.q[2])
     /\ lo <= par.q[1] /\ par.q[1] <= par.q[2] /\ par.q[2] <= hi
     /\ (cfg.x <= 0 /\ cfg.y <= 0) => par.q = <<1024 * HullCell(1), 1024 * HullCell(1)>>
     /\ (cfg.x >= HullDen /\ cfg.y >= HullDen) => par.q = <<1024 * HullCell(4), 1024 * HullCell(4)>>
     /\ ~HullOK(1, 0, lo, hi, par.q[1], par.q[2])             \* a non-finite value is never accepted
     /\ ~HullOK(1, 1, lo, hi, lo - 2, hi) /\ ~HullOK(1, 1, lo, hi, lo, hi + 2)

(***************************************************************************)
(* Export (spec -> code): mask applications                                *)
(***************************************************************************)
SetToSortedSeq(S) ==
  LET RECURSIVE F(_)
      F(X) == IF X = {} THEN <<>>
              ELSE LET m == CHOOSE x \in X : \A y \in X : (x[1] < y[1]) \/ (x[1] = y[1] /\ x[2] <= y[2])
                   IN <<m>> \o F(X \ {m})
  IN F(S)
Emit(rec) == PrintT(<<"VFJ", ToJson(rec)>>)
Export == (kind = "apply" /\ Done) =>
  Emit([T |-> cfg.T, F |-> cfg.F, len |-> len, t0 |-> par.t0, t |-> par.t, f0 |-> par.f0, f |-> par.f,
        zero |-> SetToSortedSeq(zero)])
=============================================================================
