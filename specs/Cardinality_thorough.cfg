\* exhaustive: total 0..8, given 0..total, out_size max(total,1)..total+2; binomial table to n = 33
INIT Init
NEXT Next
CONSTANTS
  MaxTotal = 8
  MaxPad = 2
  BinomN = 33
  VocabMaxLen = 4
  VocabMaxV = 3
INVARIANT CountsOK
INVARIANT TerminalInSupport
INVARIANT PathsAreBinom
INVARIANT SupportIsBinom
INVARIANT ReachIsSupportPrefix
INVARIANT BinomIsFactorial
INVARIANT VocabCount
INVARIANT Export
CHECK_DEADLOCK FALSE
