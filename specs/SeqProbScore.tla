--------------------------- MODULE SeqProbScore ---------------------------
(***************************************************************************)
(* Code-shaped machine for functional.sequence_log_probs                   *)
(* (_decoding.py: _sequence_log_probs_tensor and _sequence_log_probs_ps).  *)
(*                                                                         *)
(* Tensor path: lens = (index of the first eos, or the number of steps) +1 *)
(* computed with a cumulative count of eos; mask = out-of-vocabulary or    *)
(* position index >= lens; masked positions contribute log 1.  One action  *)
(* per position of the masked sum.                                         *)
(* Packed path: eos is ignored, the sequence simply has L valid positions; *)
(* the running value after k positions is what a packed sequence of length *)
(* k yields, so the machine records every prefix value.                    *)
(* TLC checks both against the declarative Num/Cnt of SeqProb.             *)
(***************************************************************************)
EXTENDS SeqProb

CONSTANTS EosSet      \* subset of Tok \cup {NoEos}

Oov == {-1, V}        \* one id below and one above the vocabulary
HypSyms == Tok \cup Oov

VARIABLES w, hyp, eos,   \* the case
          k,             \* positions folded in so far
          acc, cnt,      \* tensor path: numerator, number of counted positions
          pacc, pcnt,    \* packed path (eos ignored): running numerator / count
          pre            \* pre[L + 1] = <<pacc, pcnt>> after L positions
vars == <<w, hyp, eos, k, acc, cnt, pacc, pcnt, pre>>

N == Len(hyp)

\* _lens_from_eos: x = cumsum(tok == eos); the position with x = 1 and tok == eos; else #steps
CumEos(t) == Cardinality({s \in 1..t : hyp[s] = eos})
EosIndex0 == IF \E t \in 1..N : CumEos(t) = 1 /\ hyp[t] = eos
             THEN (CHOOSE t \in 1..N : CumEos(t) = 1 /\ hyp[t] = eos) - 1
             ELSE N
HypLens == EosIndex0 + 1
\* mask of 0-based position i
Masked(i) == \/ hyp[i + 1] < 0
             \/ hyp[i + 1] >= V
             \/ (eos # NoEos /\ i >= HypLens)

Init ==
  /\ eos \in EosSet
  /\ \E n \in 1..T : /\ hyp \in [1..n -> HypSyms]
                     /\ w \in [1..n -> Rows]
  /\ k = 0 /\ acc = 1 /\ cnt = 0 /\ pacc = 1 /\ pcnt = 0
  /\ pre = << <<1, 0>> >>

AddPosition ==
  /\ k < N
  /\ k' = k + 1
  /\ LET wt == w[k + 1][(IF InVocab(hyp[k + 1]) THEN hyp[k + 1] ELSE 0) + 1]  \* masked_fill(mask, 0) before gather
         oov == hyp[k + 1] < 0 \/ hyp[k + 1] >= V
     IN /\ acc' = IF Masked(k) THEN acc ELSE acc * wt
        /\ cnt' = IF Masked(k) THEN cnt ELSE cnt + 1
        /\ pacc' = IF oov THEN pacc ELSE pacc * wt
        /\ pcnt' = IF oov THEN pcnt ELSE pcnt + 1
        /\ pre' = Append(pre, <<pacc', pcnt'>>)
  /\ UNCHANGED <<w, hyp, eos>>

Next == AddPosition
Spec == Init /\ [][Next]_vars

(***************************************************************************)
(* Design invariants                                                       *)
(***************************************************************************)
TypeOK == Len(pre) = k + 1 /\ k \in 0..N

\* the tensor path computes the definition
ScoreIsDefinition == k = N => (acc = Num(w, hyp, eos) /\ cnt = Cnt(hyp, eos))

\* the packed path with length L computes the definition on the first L positions, eos unset
PackedIsPrefixDefinition ==
  \A L \in 0..k : pre[L + 1] = <<Num(w, SubSeq(hyp, 1, L), NoEos), Cnt(SubSeq(hyp, 1, L), NoEos)>>

\* padded input with eos = packed input whose length runs up to and including the first eos
PaddedPackedAgree == k = N => <<acc, cnt>> = pre[EffLen(hyp, eos) + 1]

Export ==
  k = N =>
    Emit([w |-> w, hyp |-> hyp, eos |-> eos, num |-> acc, cnt |-> cnt,
          efflen |-> EffLen(hyp, eos), pre |-> pre])
=============================================================================
