\* W = 3 workers execute the recorded per-item file-system operations one at a time, every interleaving
INIT Init
NEXT Next
CONSTANTS
  W = 3
  Source = "file"
INVARIANT Report
INVARIANT Explored
CHECK_DEADLOCK FALSE
