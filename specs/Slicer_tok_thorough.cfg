\* tok_thorough: exhaustive model of the Slicer kinds KTok
INIT Init
NEXT Next
CONSTANTS
  Kinds <- KTok
  WTypes <- AllWTypes
  Lobes = {0}
  FixedMaxLen = 0
  AliMaxLen = 0
  Labels = {1,2}
  RefMaxSegs = 0
  RefVals <- RefValsQuick
  RefOthers = {0}
  TokMaxSegs = 2
  TokSegs <- TokSegsThorough
  TokStarts <- TokStartsThorough
  TokEnds <- TokEndsThorough
  Pool <- ThePool
  Dirs <- DirsQuick
  DirLobes = {0}
  PadModes <- AllPadModes
INVARIANT TypeOK
INVARIANT ScanAgrees
INVARIANT FixedOK
INVARIANT AliOK
INVARIANT RefOK
INVARIANT TokOK
INVARIANT DirOK
INVARIANT TokConcat
INVARIANT FilesOK
INVARIANT Export
CHECK_DEADLOCK FALSE
