\* (5) Termination under weak fairness of the job's own steps when crashes are bounded; no deadlock before the end
SPECIFICATION Spec
CONSTANTS
  ParamSpace <- ParamsQuick
  KeepModes <- Both
  Levels <- L2
  MaxE = 3
  NBs = {2}
  MaxCrash = 2
  MaxFsCrash = 1
  InitEpochFromDisk = TRUE
INVARIANT NeverBroken
PROPERTY Termination
CHECK_DEADLOCK TRUE
