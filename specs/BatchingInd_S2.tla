---- MODULE BatchingInd_S2 ----
EXTENDS Integers
VARIABLES
  \* @type: Int;
  k,
  \* @type: Int;
  partial,
  \* @type: Int;
  yielded
INSTANCE BatchingInd WITH S <- 2
====
