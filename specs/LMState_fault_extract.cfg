\* non-vacuity: extract_by_src that leaves the second sub-state where it was MUST violate an invariant
INIT Init
NEXT FreeNext
CONSTANTS
  N = 2
  V = 2
  L = 2
  K1 = 1
  K2 = 2
  SosIn = FALSE
  Depth = 0
  InitLens = {0}
  Beta2s = {0, 1, 2, 4}
  Fault = "extract_stale_second"
  Scripts <- NoScripts
INVARIANT TypeOK
INVARIANT HistoryDetermined
INVARIANT StepIsDist
INVARIANT ExtractLaws
INVARIANT MixLaws
INVARIANT WindowIsLastK
INVARIANT FullIsSteps
CHECK_DEADLOCK FALSE
