\* the optimizer's life, replayed into the real controller (thorough): 5 optimizer set-ups x 32 parameter settings x
\* every metric history of length <= 4 over 3 levels x restarts after every subset of epochs
INIT OInit
NEXT ONext
CONSTANTS
  ParamSpace <- ParamsOptReplayThorough
  Levels <- L3
  MaxLen = 4
INVARIANT TypeOK
INVARIANT StopRule
INVARIANT ReduceRule
INVARIANT ReduceOnlyOnFire
INVARIANT OptimizerHasRate
INVARIANT ReductionWritten
INVARIANT RestartTransparent
INVARIANT StartsAsPromised
INVARIANT FollowsReductions
INVARIANT LogIsCurrent
INVARIANT OExport
CHECK_DEADLOCK FALSE
