\* design check, quick: 2187 parameter settings x every metric history of length <= 5 over 3 levels, restarts anywhere
INIT Init
NEXT Next
CONSTANTS
  ParamSpace <- ParamsDesign
  Levels <- L3
  MaxLen = 5
INVARIANT TypeOK
INVARIANT StopRule
INVARIANT ReduceRule
INVARIANT ReduceOnlyOnFire
INVARIANT OptimizerHasRate
INVARIANT RestartTransparent

CHECK_DEADLOCK FALSE
