\* exhaustive: every table Hist -> {3 rows} (2187), eos unset/0/1, single walk; exports the support
INIT Init
NEXT Next
CONSTANTS
  V = 2
  T = 3
  D = 4
  Rows <- Rows2Quick
  EosSet <- Eos2
  NB = 1
INVARIANT TypeOK
INVARIANT ChainScores
INVARIANT WalkShape
INVARIANT TerminalInSupport
INVARIANT EosPadding
INVARIANT SupportSumsToOne
INVARIANT ExportSupport
CHECK_DEADLOCK FALSE
