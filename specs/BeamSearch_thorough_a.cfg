\* thorough, part a: V = 2 up to 5 steps (see BeamSearch_thorough_b.cfg for V = 3)
INIT Init
NEXT Next
CONSTANTS
  Vs = {2}
  TVs = {0, 1, 2}
  Widths = {1, 2, 3, 4, 7, 100}
  MaxItersS = {0, 1, 2, 3, 4, 5}
  NoEos = NoEos
INVARIANT ScoreIsChain
INVARIANT StopsAtFirstEos
INVARIANT Shape
INVARIANT FullSetWhenWide
INVARIANT Export
INVARIANT ExportStep
CHECK_DEADLOCK FALSE
