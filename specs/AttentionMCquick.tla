-------------------------- MODULE AttentionMCquick --------------------------
(* quick-tier table universe of Attention (kept apart from the thorough one: TLC evaluates every
   parameterless constant definition of the modules it loads -- once) *)
EXTENDS AttentionMC
Params == SeqOfSet(Singles) \o SeqOfSet(Mhas)                 \* 5 single-head + 32 multi-head
QuerySq == <<<<1, 1>>, <<2, -1>>, <<1, 0>>, <<0, 1>>>>
KeysSingle == SeqOfSet(KeysOf(1, 1) \cup KeysOf(2, 2) \cup KeysOf(3, 6))
KeysMha == SeqOfSet(KeysOf(1, 2) \cup KeysOf(2, 6) \cup KeysOf(3, 30))
Keys == KeysSingle \o KeysMha
\* single-head flavours x 4 queries x KeysSingle; multi-head x 2 queries x KeysMha
Idx == {<<p, q, k>> : p \in 1..5, q \in 1..4, k \in 1..Len(KeysSingle)}
       \cup {<<p, q, k>> : p \in 6..37, q \in 1..2, k \in (Len(KeysSingle) + 1)..Len(Keys)}
=============================================================================
