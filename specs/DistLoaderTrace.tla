-------------------------- MODULE DistLoaderTrace --------------------------
(***************************************************************************)
(* code -> spec for X03: validates recorded JOBS of the real SpectDataLoader*)
(* / LangDataLoader / ContextWindowDataLoader objects (one per simulated   *)
(* rank, constructed under FakeDist with the same directory, parameters    *)
(* and seed) against DistLoader.tla.  Every recorded event is consumed     *)
(* through the ORIGINAL action of DistLoader conjoined with the logged     *)
(* arguments; the design invariants of Sampler and of DistLoader (the      *)
(* clauses about the job as a whole) are evaluated after every event.      *)
(*                                                                         *)
(* The epoch order Perm[seed, epoch] of a shuffled loader is never logged: *)
(* the first pull that reveals a position binds it, every later pull - of  *)
(* any rank, of any loader object (a twin constructed with init_epoch) -   *)
(* must be consistent with ONE permutation per epoch.                      *)
(*                                                                         *)
(* The harness wraps the utterance sampler of every rank's batch sampler   *)
(* in a recording proxy, so a rank's run is the exact interleaving         *)
(*   construct, [begin, pull ... yield ... exhaust, yield ..., finish]*    *)
(* and the runs of the ranks are interleaved as the harness scheduled them.*)
(* A batch the loader delivers (`yield`, utterance indices in batch order) *)
(* is matched against the bucket machine: while feeding it must be the     *)
(* batch the machine has just completed (and it must be delivered before   *)
(* the next pull), after exhaustion it is the Flush of some bucket (any    *)
(* order).  `finish` carries the value len(loader) had BEFORE the epoch    *)
(* (the harness asks before every epoch; the first call on an object is    *)
(* the fresh one).                                                         *)
(*                                                                         *)
(* Trace file (env TRACE_FILE): [{tid, N, W, kind, cls, lmode, dropLast,   *)
(* bsz, nbreq, dyn, lens, i2b, size (the REAL idx2bucket / bucket2size of  *)
(* the loaders; one bucket of size bsz for torch's BatchSampler), events:  *)
(* [{op, rank, a, b, raised, items}]}], op in                              *)
(*   construct(a = init_epoch, raised) | begin(a = the epoch the loader    *)
(*   reported) | pull(a = utterance) | exhaust | yield(items) |            *)
(*   finish(a = len(loader) before the epoch, b = 1 iff first call).       *)
(***************************************************************************)
EXTENDS DistLoader, IOUtils, TLCExt

Traces == JsonDeserialize(IOEnv.TRACE_FILE)

VARIABLES ti, pos,
          ny         \* per rank: batches of the running epoch the loader has delivered so far
tvars == <<dvars, ti, pos, ny>>

Events == Traces[ti].events

\* the design invariants are part of the step relation (see SamplerTrace): a step into a state that
\* violates one does not exist; the diagnosis run keeps such states and names the violated invariants
SamplerInv ==
  /\ TypeOK
  /\ RefusesExactly
  /\ CoordinatesAgree
  /\ LenIsYielded
  /\ PathIndependent
  /\ WellFormedLists
  /\ Disjoint
  /\ Cover
  /\ IgnoreGivesAll
JobInv ==
  /\ JobCover
  /\ SharesAsDocumented
  /\ RankDisjoint
  /\ LenAgrees
  /\ SameStepsWhenPromised
  /\ SameSamplesWhenPromised
  /\ UnevenByOne
  /\ EpochPermutationShared
  /\ FedIsSharedOrder
  /\ IgnoreSameBatches
  /\ BatchesWellFormed
  /\ LenIsBatchingLen
AllInv == DTypeOK /\ SamplerInv /\ JobInv
\* Evaluation at every step, without re-evaluating what cannot have changed: SamplerInv reads log, smp, refused (and perm
\* through TypeOK); JobInv reads done and - of perm - only positions that are bound already, and a bound position never
\* changes (Bind).  So after a step that leaves log, smp, refused and done alone, SamplerInv and JobInv hold iff they held
\* before; DTypeOK and TypeOK (bm, perm) are evaluated after every step.
StepInv ==
  /\ DTypeOK' /\ TypeOK'
  /\ ((done' # done \/ log' # log \/ smp' # smp \/ refused' # refused) => (SamplerInv' /\ JobInv'))
FailedInvs ==
  (IF DTypeOK THEN {} ELSE {"DTypeOK"})
  \cup (IF TypeOK THEN {} ELSE {"TypeOK"})
  \cup (IF RefusesExactly THEN {} ELSE {"RefusesExactly"})
  \cup (IF CoordinatesAgree THEN {} ELSE {"CoordinatesAgree"})
  \cup (IF LenIsYielded THEN {} ELSE {"LenIsYielded"})
  \cup (IF PathIndependent THEN {} ELSE {"PathIndependent"})
  \cup (IF WellFormedLists THEN {} ELSE {"WellFormedLists"})
  \cup (IF Disjoint THEN {} ELSE {"Disjoint"})
  \cup (IF Cover THEN {} ELSE {"Cover"})
  \cup (IF IgnoreGivesAll THEN {} ELSE {"IgnoreGivesAll"})
  \cup (IF JobCover THEN {} ELSE {"JobCover"})
  \cup (IF SharesAsDocumented THEN {} ELSE {"SharesAsDocumented"})
  \cup (IF RankDisjoint THEN {} ELSE {"RankDisjoint"})
  \cup (IF LenAgrees THEN {} ELSE {"LenAgrees"})
  \cup (IF SameStepsWhenPromised THEN {} ELSE {"SameStepsWhenPromised"})
  \cup (IF SameSamplesWhenPromised THEN {} ELSE {"SameSamplesWhenPromised"})
  \cup (IF UnevenByOne THEN {} ELSE {"UnevenByOne"})
  \cup (IF EpochPermutationShared THEN {} ELSE {"EpochPermutationShared"})
  \cup (IF FedIsSharedOrder THEN {} ELSE {"FedIsSharedOrder"})
  \cup (IF IgnoreSameBatches THEN {} ELSE {"IgnoreSameBatches"})
  \cup (IF BatchesWellFormed THEN {} ELSE {"BatchesWellFormed"})
  \cup (IF LenIsBatchingLen THEN {} ELSE {"LenIsBatchingLen"})
Diag == IOEnv.PROGRESS = "1"

TInit ==
  \E i \in 1..Len(Traces) :
    LET h == Traces[i]
    IN /\ ti = i /\ pos = 0
       /\ N = h.N /\ W = h.W /\ kind = h.kind
       /\ cls = h.cls /\ lmode = h.lmode /\ dropLast = h.dropLast
       /\ mode = EffModeOf(h.cls, h.lmode, h.dropLast)      \* the loader-level rule decides the effective mode
       /\ bsz = h.bsz /\ nbreq = h.nbreq /\ dyn = h.dyn
       /\ lens = [j \in 0..(h.N - 1) |-> h.lens[j + 1]]
       /\ i2b = [j \in 0..(h.N - 1) |-> h.i2b[j + 1]]
       /\ size = [j \in 0..(Len(h.size) - 1) |-> h.size[j + 1]]
       /\ SamplerInit /\ MachineInit
       /\ ny = [r \in 0..(h.W - 1) |-> 0]
       /\ (Diag \/ AllInv)

Delivered(r) == ny[r] = Len(bm[r].out)      \* every batch the machine has completed was delivered
LastOut(r) == bm'[r].out[Len(bm'[r].out)]

\* len(loader) before the epoch: the code-shaped value (computed on the first call, the cache later).
\* Where the documentation promises nothing about a cached value (not fresh, not LenStablePromised)
\* a loader that recomputes instead of caching is not excluded either.
LenObserved(r, l) ==
  \/ l = LenReported(r)
  \/ (lenc[r] >= 0 /\ ~LenStablePromised /\ l = LenFormula(bm[r].fed))

TNext ==
  /\ pos < Len(Events) /\ (Diag => FailedInvs = {})
  /\ pos' = pos + 1 /\ ti' = ti
  /\ LET e == Events[pos + 1]
         r == e.rank
     IN CASE e.op = "construct" -> /\ LConstruct(r, e.a)
                                   /\ (e.raised <=> r \in refused')
                                   /\ ny' = [ny EXCEPT ![r] = 0]
          [] e.op = "begin"     -> /\ BeginEpoch(r)
                                   /\ smp[r].epoch = e.a
                                   /\ ny' = [ny EXCEPT ![r] = 0]
          [] e.op = "pull"      -> /\ Delivered(r)
                                   /\ Pull(r, e.a)
                                   /\ UNCHANGED ny
          [] e.op = "exhaust"   -> /\ Delivered(r)
                                   /\ Exhaust(r)
                                   /\ UNCHANGED ny
          [] e.op = "yield"     -> /\ IF bm[r].phase = "feed"
                                      THEN /\ ny[r] < Len(bm[r].out)
                                           /\ bm[r].out[ny[r] + 1] = e.items
                                           /\ UNCHANGED dvars
                                      ELSE /\ Delivered(r)
                                           /\ \E b \in Buckets : Flush(r, b)
                                           /\ LastOut(r) = e.items
                                   /\ ny' = [ny EXCEPT ![r] = @ + 1]
          [] e.op = "finish"    -> /\ Delivered(r)
                                   /\ LenObserved(r, e.a)
                                   /\ ((e.b = 1) <=> (lenc[r] < 0))
                                   /\ Finish(r)
                                   /\ ny' = [ny EXCEPT ![r] = 0]
  /\ (Diag \/ StepInv)

\* the real bucket assignment is the one of Batching.tla's Boundaries (informational: C14's clause)
SpecAssign ==
  IF nbreq = 1
  THEN i2b = [i \in 0..(N - 1) |-> 0] /\ size = [j \in {0} |-> bsz]
  ELSE \E bounds \in {IF N = 0 THEN <<>> ELSE B!BoundsOf(lens, N, nbreq)} :
          /\ i2b = [i \in 0..(N - 1) |-> B!BucketOfLen(bounds, lens[i])]
          /\ size = [j \in 0..(Len(bounds) - 1) |-> B!DynSize(bounds, j, bsz, dyn)]

\* acceptance: count fully consumed traces, name them (with what the job showed of the NOT promised)
Accept ==
  (pos = Len(Events)) =>
     /\ TLCSet(1, TLCGet(1) + 1)
     /\ Emit([what |-> "accepted", tid |-> Traces[ti].tid, ndone |-> Cardinality(done),
              stale |-> Cardinality(StaleRecs), stepsEqual |-> StepsEqual,
              stepsPromised |-> StepsPromised, specAssign |-> SpecAssign,
              nbound |-> [e \in 0..MaxEpoch |-> Cardinality(Bound(EKey(e)))]])
\* diagnosis run (PROGRESS = 1 in the environment): longest matched prefix per trace
Progress ==
  Diag => Emit([what |-> "progress", tid |-> Traces[ti].tid, pos |-> pos, failed |-> FailedInvs])
ASSUME TLCSet(1, 0)
Post == TLCGet(1) = Len(Traces)
=============================================================================
