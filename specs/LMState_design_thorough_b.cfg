\* design check, three slots (the algebraic laws of extract/mix are checked in the two-slot universes: 729 pairs of gathers per state are too slow here)
INIT Init
NEXT FreeNext
CONSTANTS
  N = 3
  V = 2
  L = 1
  K1 = 1
  K2 = 0
  SosIn = FALSE
  Depth = 0
  InitLens = {0}
  Beta2s = {0, 1, 2, 4}
  Fault = "none"
  Scripts <- NoScripts
INVARIANT TypeOK
INVARIANT HistoryDetermined
INVARIANT StepIsDist
INVARIANT WindowIsLastK
INVARIANT FullIsSteps
CHECK_DEADLOCK FALSE
