\* shallow fusion of two table models (ExtractableShallowFusionLanguageModel, beta = 1): the normaliser is path dependent
INIT Init
NEXT Next
CONSTANTS
  Vs = {2}
  TVs = {4, 5, 6}
  Widths = {1, 2, 3, 30}
  MaxItersS = {0, 1, 2, 3, 4}
  NoEos = NoEos
INVARIANT ScoreIsChain
INVARIANT StopsAtFirstEos
INVARIANT Shape
INVARIANT FullSetWhenWide
INVARIANT Export
INVARIANT ExportStep
CHECK_DEADLOCK FALSE
