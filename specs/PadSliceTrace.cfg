\* batched trace validation of RandomShift runs (file named by env TRACE_FILE); run with -workers 1
INIT TInit
NEXT TNext
CONSTANTS
  Ops <- AllOps
  Modes <- AllModes
  MaxLen = 1
  MaxPad = 1
  SMin = 0
  SMax = 0
  EMin = 0
  EMax = 0
  MaxMaskT = 0
  Props <- PropsThorough
  MaxShiftLen = 64
INVARIANT TypeOK
INVARIANT ShiftOK
INVARIANT Accept
POSTCONDITION Post
CHECK_DEADLOCK FALSE
