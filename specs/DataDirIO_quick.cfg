\* every transcript of 0..2 tokens over {0, 1} (1-D, 2-D with and without boundaries), tokens_only,
\* sos / eos set or not; every hypothesis of 0..3 symbols over {0, 1, sos, eos}; every set of files
\* over 2 utterances x 2 prefix/suffix families x feat/ali/ref
INIT Init
NEXT Next
CONSTANTS
  Toks = {0, 1}
  MaxR = 2
  Sos = 5
  Eos = 6
  MaxH = 3
  Utts = {"a", "b"}
  Fams = {1, 2}
INVARIANT ReadIsWrapped
INVARIANT RoundTrip
INVARIANT RouteIsTransparent
INVARIANT RoundTripAnyBinding
INVARIANT StripIsDeclared
INVARIANT DiscoveryIsDeclared
INVARIANT Export
CHECK_DEADLOCK FALSE
