\* design check without history: every interleaving for n <= 6 items, chunk sizes 1..3, 1..4 workers
INIT Init
NEXT Next
CONSTANTS
  Ns = {1, 2, 3, 4, 5, 6}
  Cs = {1, 2, 3}
  Ws = {1, 2, 3, 4}
  Modes = {"ordered", "unordered"}
  KeepHist = FALSE
INVARIANT TypeOK
INVARIANT OrderedOK
INVARIANT OrderedPrefix
INVARIANT UnorderedOK
INVARIANT Progress
CHECK_DEADLOCK FALSE
