----------------------------- MODULE Cardinality -----------------------------
(***************************************************************************)
(* Fixed-cardinality binary vectors of pydrobert.torch (_combinatorics.py: *)
(* simple_random_sampling_without_replacement, the distribution            *)
(* SimpleRandomSamplingWithoutReplacement, binomial_coefficient and the    *)
(* enumerate_* helpers).                                                   *)
(*                                                                         *)
(*  - code-shaped: the sequential machine of [fan1962] -- one action per   *)
(*    iteration of the loop over output positions, state = (remaining ones,*)
(*    remaining slots); Draw(1) is possible iff ones remain (p > 0),       *)
(*    Draw(0) iff slots exceed ones (p < 1); beyond total_count only 0;    *)
(*  - declarative: the support {b : b binary, sum(b[1..total]) = given,    *)
(*    b[i] = 0 for i > total}; its size; Pascal's triangle.                *)
(* TLC checks: 0 <= ones <= slots always; every terminal state lies in the *)
(* declarative support; every element of the support is reached; the       *)
(* number of completions of a state is Binom(slots, ones) (so Binom =      *)
(* number of terminal paths = size of the support).                        *)
(***************************************************************************)
EXTENDS Naturals, Integers, Sequences, FiniteSets, TLC, Json

CONSTANTS MaxTotal,    \* total_count in 0..MaxTotal
          MaxPad,      \* out_size in max(total,1)..total+MaxPad
          BinomN,      \* binomial table exported for n in 0..BinomN (k in 0..n+1)
          VocabMaxLen, \* enumerate_vocab_sequences(length <= VocabMaxLen, vocab <= VocabMaxV)
          VocabMaxV

ASSUME BinomN <= 33   \* C(33,16) < 2^31 <= C(34,17)

Bits == {0, 1}

(***************************************************************************)
(* Declarative side                                                        *)
(***************************************************************************)
RECURSIVE SumTo(_, _)
SumTo(s, n) == IF n = 0 THEN 0 ELSE s[n] + SumTo(s, n - 1)

InSupport(s, tot, giv, osz) ==
  /\ Len(s) = osz
  /\ \A j \in 1..osz : s[j] \in Bits
  /\ \A j \in 1..osz : j > tot => s[j] = 0
  /\ SumTo(s, IF tot < osz THEN tot ELSE osz) = giv

Support(tot, giv, osz) == {s \in [1..osz -> Bits] : InSupport(s, tot, giv, osz)}

\* Pascal's triangle, row by row (row n = <<C(n,0), ..., C(n,n)>>); the row is threaded through
\* as an argument and materialised with SubSeq (TLC's function constructor is lazy: without it each
\* entry of row n would re-evaluate two entries of row n-1, 2^n work)
NextPascalRow(r) ==
  SubSeq([j \in 1..(Len(r) + 1) |-> (IF j > 1 THEN r[j - 1] ELSE 0) + (IF j <= Len(r) THEN r[j] ELSE 0)],
         1, Len(r) + 1)
RECURSIVE PascalFrom(_, _)
PascalFrom(r, n) == IF Len(r) = n + 1 THEN r ELSE PascalFrom(NextPascalRow(r), n)
PascalRow(n) == PascalFrom(<<1>>, n)
Binom(n, k) == IF k < 0 \/ k > n THEN 0 ELSE PascalRow(n)[k + 1]

VocabSeqs(len, v) == [1..len -> 0..(v - 1)]
RECURSIVE IntPow(_, _)
IntPow(a, e) == IF e = 0 THEN 1 ELSE a * IntPow(a, e - 1)

(***************************************************************************)
(* Code-shaped side: the sequential sampler                                *)
(***************************************************************************)
VARIABLES kind,         \* "srs": sampler machine; "binom" / "vocab": table queries (no steps)
          total, given, \* srs: counts; binom: n, k; vocab: length, vocab size
          osz,          \* out_size
          ones, slots,  \* code: remainder_ell, remainder_t (before the clamp to >= 1)
          pos, b        \* positions written so far, the vector
vars == <<kind, total, given, osz, ones, slots, pos, b>>

MaxOf2(x, y) == IF x >= y THEN x ELSE y

InitSrs ==
  /\ kind = "srs"
  /\ total \in 0..MaxTotal
  /\ given \in 0..total
  /\ osz \in MaxOf2(total, 1)..(total + MaxPad)
  /\ ones = given /\ slots = total /\ pos = 0 /\ b = <<>>
InitBinom ==
  /\ kind = "binom"
  /\ total \in 0..BinomN
  /\ given \in 0..(total + 1)
  /\ osz = 0 /\ ones = 0 /\ slots = 0 /\ pos = 0 /\ b = <<>>
InitVocab ==
  /\ kind = "vocab"
  /\ total \in 0..VocabMaxLen
  /\ given \in 1..VocabMaxV
  /\ osz = 0 /\ ones = 0 /\ slots = 0 /\ pos = 0 /\ b = <<>>
Init == InitSrs \/ InitBinom \/ InitVocab

\* code: p = remainder_ell / max(remainder_t, 1); b_t ~ Bernoulli(p)
CanDraw(bit) ==
  IF slots = 0 THEN bit = 0                   \* p = 0/1: padding positions
  ELSE /\ bit \in Bits
       /\ (bit = 1 => ones > 0)               \* p > 0
       /\ (bit = 0 => slots > ones)           \* p < 1
Draw(bit) ==
  /\ kind = "srs"
  /\ pos < osz
  /\ CanDraw(bit)
  /\ ones' = ones - bit
  /\ slots' = IF slots > 0 THEN slots - 1 ELSE 0
  /\ pos' = pos + 1
  /\ b' = Append(b, bit)
  /\ UNCHANGED <<kind, total, given, osz>>
DrawOne == Draw(1)
DrawZero == Draw(0)
Next == DrawOne \/ DrawZero
Spec == Init /\ [][Next]_vars

(***************************************************************************)
(* Design invariants                                                       *)
(***************************************************************************)
Done == kind = "srs" /\ pos = osz
CountsOK == kind = "srs" => (0 <= ones /\ ones <= slots)
TerminalInSupport == Done => InSupport(b, total, given, osz)
\* number of ways to finish from a state, by the machine's own enabling conditions
RECURSIVE Completions(_, _, _)
Completions(o, s, left) ==
  IF left = 0 THEN (IF o = 0 THEN 1 ELSE 0)
  ELSE IF s = 0 THEN Completions(o, 0, left - 1)
  ELSE (IF o > 0 THEN Completions(o - 1, s - 1, left - 1) ELSE 0)
       + (IF s > o THEN Completions(o, s - 1, left - 1) ELSE 0)
PathsAreBinom == kind = "srs" => Completions(ones, slots, osz - pos) = Binom(slots, ones)
\* the support is what the declarative definition says, and has Binom(total, given) elements
SupportIsBinom == (kind = "srs" /\ pos = 0) =>
                    Cardinality(Support(total, given, osz)) = Binom(total, given)
\* every prefix the machine can reach is a prefix of a support element and vice versa
ReachIsSupportPrefix == kind = "srs" =>
  (\E s \in Support(total, given, osz) : SubSeq(s, 1, pos) = b)
\* Pascal agrees with the factorial formula where the latter fits 32 bits
RECURSIVE Fact(_)
Fact(n) == IF n = 0 THEN 1 ELSE n * Fact(n - 1)
BinomIsFactorial == (kind = "binom" /\ total <= 12 /\ given <= total) =>
                      Binom(total, given) * Fact(given) * Fact(total - given) = Fact(total)
VocabCount == kind = "vocab" => Cardinality(VocabSeqs(total, given)) = IntPow(given, total)

(***************************************************************************)
(* Export                                                                  *)
(***************************************************************************)
SeqLess(s, t) == \E j \in 1..Len(s) : (\A i \in 1..(j - 1) : s[i] = t[i]) /\ s[j] < t[j]
RECURSIVE SortSeqs(_)
SortSeqs(S) == IF S = {} THEN <<>>
               ELSE LET m == CHOOSE x \in S : \A y \in S \ {x} : SeqLess(x, y)
                    IN <<m>> \o SortSeqs(S \ {m})
Emit(rec) == PrintT(<<"VFJ", ToJson(rec)>>)
Export ==
  /\ Done => Emit([kind |-> "path", total |-> total, given |-> given, osz |-> osz, b |-> b])
  /\ (kind = "srs" /\ pos = 0 /\ osz = MaxOf2(total, 1)) =>
        Emit([kind |-> "support", total |-> total, given |-> given,
              binom |-> Binom(total, given),
              seqs |-> SortSeqs({SubSeq(s, 1, total) : s \in Support(total, given, osz)})])
  /\ kind = "binom" => Emit([kind |-> "binom", n |-> total, k |-> given, binom |-> Binom(total, given)])
  /\ kind = "vocab" => Emit([kind |-> "vocab", len |-> total, v |-> given,
                             count |-> IntPow(given, total),
                             seqs |-> SortSeqs(VocabSeqs(total, given))])
=============================================================================
