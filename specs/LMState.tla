------------------------------- MODULE LMState -------------------------------
(***************************************************************************)
(* X02 (extra coverage) -- the language-model state protocol of            *)
(* pydrobert.torch: SequentialLanguageModel.calc_idx_log_probs /           *)
(* update_input / calc_full_log_probs, ExtractableSequentialLanguageModel   *)
(* .extract_by_src, MixableSequentialLanguageModel.mix_by_mask, and the     *)
(* way LookupLanguageModel and the ShallowFusion models implement them.     *)
(*                                                                         *)
(* N batch slots.  A *register* is what a decoder holds in one Python        *)
(* variable: a history per slot plus a model state per slot.  Decoders keep  *)
(* two of them: P ("prev", with y_prev) and Q ("in_next", the result of the  *)
(* last calc_idx_log_probs, with the histories it was computed from).        *)
(*                                                                         *)
(* The state of a slot is abstracted to what it has consumed: `pos` is the   *)
(* index the next calc_idx_log_probs must be asked for, `c1`/`c2` are the    *)
(* tokens the first / second sub-model of a fusion has folded in (a plain    *)
(* model is the first component).  A state at pos k has consumed tokens      *)
(* 1..k-1 of its history; a step at idx = k reads token k (none for k = 0),  *)
(* answers with the distribution of token k+1 given tokens 1..k and leaves a  *)
(* state at pos k+1.                                                        *)
(*                                                                         *)
(*  declarative: the answer for slot n is Dist(prefix of the slot's OWN       *)
(*    history), Dist a fixed table indexed by the last K tokens of the        *)
(*    start-symbol padded prefix, values integer log-weights;                *)
(*  code-shaped: the answer is computed from the threaded state (c1/c2 plus   *)
(*    the one token read), the n-gram window is cut out of the padded,        *)
(*    garbage-filled history matrix the way _lookup_calc_idx_log_probs does,  *)
(*    and forward(idx=None) is the fold of steps from a fresh state.         *)
(* TLC checks that they agree after ANY interleaving of the protocol calls.  *)
(***************************************************************************)
EXTENDS Naturals, Integers, Sequences, FiniteSets, TLC, Json

CONSTANTS N,        \* batch slots 1..N
          V,        \* vocabulary 0..V-1
          L,        \* histories never grow beyond L tokens
          K1, K2,   \* context width (n-gram order - 1) of the first / second model
          SosIn,    \* TRUE: the start symbol is token 0; FALSE: it is outside the vocabulary (written V here)
          Depth,    \* 0: no trace is recorded (design check of the whole graph); d > 0: every behaviour of d calls is recorded
          InitLens, \* lengths the initial histories may have
          Beta2s,   \* the fusion weights, as 2 * beta
          Scripts,  \* <<>> (free mode), or the call sequences to follow (scripted mode, see the machine)
          Fault     \* "none", or a deliberately broken protocol (the design invariants must then fail: non-vacuity)

ASSUME /\ N \in Nat \ {0} /\ V \in Nat \ {0} /\ L \in Nat /\ K1 \in Nat /\ K2 \in Nat /\ Depth \in Nat
       /\ InitLens \subseteq 0..L /\ Beta2s \subseteq Nat /\ SosIn \in BOOLEAN
       /\ Fault \in {"none", "extract_stale_second", "mix_swapped", "window_off_by_one"}

Slots == 1..N
Tok == 0..V-1
Sos == IF SosIn THEN 0 ELSE V
Hists(lens) == UNION {[1..m -> Tok] : m \in lens}
Max0(x) == IF x > 0 THEN x ELSE 0
Prefix(h, k) == SubSeq(h, 1, k)
IsPrefixOf(s, h) == Len(s) <= Len(h) /\ Prefix(h, Len(s)) = s

(***************************************************************************)
(* Dist: the fixed next-token table.  Log-weights are negative integers      *)
(* (exact in float32/float64); the harness builds real models from Table1 /   *)
(* Table2 as exported.                                                       *)
(***************************************************************************)
SosPad(k) == [i \in 1..k |-> Sos]
LastK(s, k) == SubSeq(s, Len(s) - k + 1, Len(s))
Ctx(prefix, k) == LastK(SosPad(k) \o prefix, k)            \* the last k tokens, start-symbol padded on the left

RECURSIVE Code(_)
Code(g) == IF g = <<>> THEN 0 ELSE Code(SubSeq(g, 1, Len(g) - 1)) * (V + 2) + g[Len(g)] + 1
LW(salt, g) == -(1 + ((Code(g) * 7 + salt * 5 + Len(g)) % 29))       \* log-weight of the n-gram g (context then token)
Vec(salt, ctx) == [v \in 1..V |-> LW(salt, ctx \o <<v - 1>>)]
Dist1(prefix) == Vec(1, Ctx(prefix, K1))
Dist2(prefix) == Vec(2, Ctx(prefix, K2))
Fuse(a, b) == [b2 \in Beta2s |-> [v \in 1..V |-> 2 * a[v] + b2 * b[v]]]   \* twice (first + beta * second)

\* contexts that can occur: a (possibly empty) run of start symbols followed by tokens
Ctxs(k) == {Ctx(h, k) : h \in Hists(0..k)}
\* distinct contexts have distinct vectors, so a slot that answers from another slot's context is always visible
ASSUME Separates1 == \A a, b \in Ctxs(K1) : a # b => Vec(1, a) # Vec(1, b)
ASSUME Separates2 == \A a, b \in Ctxs(K2) : a # b => Vec(2, a) # Vec(2, b)
ASSUME Small == 2 * 29 + 29 * 8 < 2147483647 /\ \A b \in Beta2s : b <= 8

VARIABLES ph, ps,   \* register P: history and state per slot
          qh, qs,   \* register Q
          trace,    \* the calls so far with their expected answers (only when recording)
          sid,      \* scripted mode: which script this behaviour follows (0 in free mode)
          script    \* scripted mode: its calls
vars == <<ph, ps, qh, qs, trace, sid, script>>

Fresh == [pos |-> 0, c1 |-> <<>>, c2 |-> <<>>]                          \* update_input of an empty dictionary

(***************************************************************************)
(* code-shaped: the operations on states                                   *)
(***************************************************************************)
\* calc_idx_log_probs for one slot: the state folds in the single token at idx - 1
StepSlot(s, h) == LET tok == IF s.pos = 0 THEN <<>> ELSE <<h[s.pos]>>
                  IN [pos |-> s.pos + 1, c1 |-> s.c1 \o tok, c2 |-> s.c2 \o tok]
\* the answer read off the NEW state (the model never looks at the history before idx - 1)
Ans1(s) == Vec(1, Ctx(s.c1, K1))
Ans2(s) == Vec(2, Ctx(s.c2, K2))

\* extract_by_src / mix_by_mask on (history, state) pairs
ExH(h, src) == [n \in Slots |-> h[src[n]]]
ExS(s, src) ==
  IF Fault = "extract_stale_second"
  THEN [n \in Slots |-> [pos |-> s[src[n]].pos, c1 |-> s[src[n]].c1, c2 |-> s[n].c2]]
  ELSE [n \in Slots |-> s[src[n]]]
MixOf(t, f, mask) == IF Fault = "mix_swapped" THEN [n \in Slots |-> IF mask[n] THEN f[n] ELSE t[n]]
                     ELSE [n \in Slots |-> IF mask[n] THEN t[n] ELSE f[n]]
MixH(t, f, mask) == [n \in Slots |-> IF mask[n] THEN t[n] ELSE f[n]]

Srcs == [Slots -> Slots]
Masks == [Slots -> BOOLEAN]
IdSrc == [n \in Slots |-> n]
Compose(a, b) == [n \in Slots |-> a[b[n]]]     \* Extract(a) then Extract(b) takes slot n from a[b[n]]

\* the n-gram window the way _lookup_calc_idx_log_probs cuts it: the (S, N) matrix holds arbitrary tokens g beyond
\* each history; rem = k - min(idx) start symbols are prepended to EVERY column, idx shifts by rem, and column n keeps
\* the rows r with idx[n] - k <= r < idx[n]
MinOf(S) == CHOOSE x \in S : \A y \in S : x <= y
MaxOf(S) == CHOOSE x \in S : \A y \in S : x >= y
PadTo(h, s, g) == h \o [i \in 1..(s - Len(h)) |-> g]
CodeWindow(hs, idx, k, g) ==
  LET s == MaxOf({Len(hs[n]) : n \in Slots})
      rem == Max0(k - MinOf({idx[n] : n \in Slots}))
      extra == IF Fault = "window_off_by_one" THEN <<Sos>> ELSE <<>>     \* the faulty variant keeps rows one too early
  IN [n \in Slots |-> LET col == extra \o SosPad(rem) \o PadTo(hs[n], s, g)
                          hi == idx[n] + rem
                      IN SubSeq(col, hi - k + 1, hi)]

\* forward(idx=None) as the base class computes it: steps idx = 0..Len from a fresh state
RECURSIVE FullIter(_, _, _)
FullIter(h, s, acc) ==
  IF s.pos > Len(h) THEN acc
  ELSE LET s2 == StepSlot(s, h) IN FullIter(h, s2, Append(acc, [lw1 |-> Ans1(s2), lw2 |-> Ans2(s2)]))
FullDecl(h) == [p \in 1..Len(h) + 1 |-> [lw1 |-> Dist1(Prefix(h, p - 1)), lw2 |-> Dist2(Prefix(h, p - 1))]]

(***************************************************************************)
(* the machine                                                             *)
(*  free mode (Scripts = <<>>): any call at any time; with Depth > 0 every   *)
(*    behaviour of Depth calls is recorded in `trace`;                      *)
(*  scripted mode: behaviour i follows Scripts[i] = [init |-> histories,     *)
(*    ops |-> calls with arguments] (the harness draws long, decoder-like     *)
(*    call sequences; the specification decides which calls are legal -- an   *)
(*    illegal one is skipped -- and what every call must answer).            *)
(***************************************************************************)
NoScripts == <<>>
Scripted == sid > 0                           \* (the constant Scripts is only read by Init: it is big)
Rec == IF Depth > 0 THEN TRUE ELSE Scripted
Limit == IF Scripted THEN Len(script) ELSE Depth
\* (guards are written with IF / Cardinality: TLC would take every true disjunct or witness of a guard as a successor of its own)
More == IF Rec THEN Len(trace) <= Limit ELSE TRUE           \* trace[1] is the initial record
Done == Rec /\ Len(trace) = Limit + 1
Prune == Rec /\ ~Scripted
View(h, s) == [h |-> h, pos |-> [n \in Slots |-> s[n].pos], c1 |-> [n \in Slots |-> s[n].c1], c2 |-> [n \in Slots |-> s[n].c2]]
Log(op) == trace' = IF Rec THEN Append(trace, op @@ [p |-> View(ph', ps'), q |-> View(qh', qs')]) ELSE trace

Init == /\ \E S \in {Scripts} :
             IF S # <<>> THEN \E i \in 1..Len(S) : sid = i /\ ph = S[i].init /\ script = S[i].ops
             ELSE sid = 0 /\ script = <<>> /\ ph \in [Slots -> Hists(InitLens)]
        /\ ps = [n \in Slots |-> Fresh]
        /\ qh = ph /\ qs = ps
        /\ trace = IF Rec THEN <<[op |-> "Init", p |-> View(ph, ps), q |-> View(ph, ps)]>> ELSE <<>>

CanStep == \A n \in Slots : ps[n].pos <= Len(ph[n])
\* Q := calc_idx_log_probs(P.hist, P.state, idx) with idx[n] = the position of slot n's state; P is kept
Step ==
  /\ More /\ CanStep
  /\ qs' = [n \in Slots |-> StepSlot(ps[n], ph[n])]
  /\ qh' = ph
  /\ UNCHANGED <<ph, ps, sid, script>>
  /\ LET idx == [n \in Slots |-> ps[n].pos]
         d1 == [n \in Slots |-> Dist1(Prefix(ph[n], idx[n]))]
         d2 == [n \in Slots |-> Dist2(Prefix(ph[n], idx[n]))]
     IN Log([op |-> "Step", idx |-> idx, shared |-> (\A n \in Slots : idx[n] = idx[1]),
             lw1 |-> d1, lw2 |-> d2, fused2 |-> [n \in Slots |-> Fuse(d1[n], d2[n])]])

LastIs(opname) == Rec /\ trace[Len(trace)].op = opname
\* exhaustively recorded behaviours leave out calls that cannot tell anything: gathering from / mixing registers whose
\* slots all agree
Varied(h, s) == IF Prune THEN Cardinality({<<h[n], s[n]>> : n \in Slots}) > 1 ELSE TRUE
ExtractP(src) ==
  /\ More /\ Varied(ph, ps)
  /\ ph' = ExH(ph, src) /\ ps' = ExS(ps, src)
  /\ UNCHANGED <<qh, qs, sid, script>>
  /\ Log([op |-> "ExtractP", src |-> src,
          \* Extract(a) then Extract(b) must equal Extract(a o b) of the state before: the harness applies comp to it
          comp |-> IF LastIs("ExtractP") THEN Compose(trace[Len(trace)].src, src) ELSE <<>>])
ExtractQ(src) ==
  /\ More /\ Varied(qh, qs)
  /\ qh' = ExH(qh, src) /\ qs' = ExS(qs, src)
  /\ UNCHANGED <<ph, ps, sid, script>>
  /\ Log([op |-> "ExtractQ", src |-> src,
          comp |-> IF LastIs("ExtractQ") THEN Compose(trace[Len(trace)].src, src) ELSE <<>>])
\* prev = in_next (no model call)
Take ==
  /\ More /\ (IF Prune THEN <<ph, ps>> # <<qh, qs>> ELSE TRUE)
  /\ ph' = qh /\ ps' = qs
  /\ UNCHANGED <<qh, qs, sid, script>>
  /\ Log([op |-> "Take"])
\* P := mix_by_mask(P, Q, mask), histories mixed alike
Mix(mask) ==
  /\ More /\ (IF Prune THEN <<ph, ps>> # <<qh, qs>> ELSE TRUE)
  /\ ph' = MixH(ph, qh, mask) /\ ps' = MixOf(ps, qs, mask)
  /\ UNCHANGED <<qh, qs, sid, script>>
  /\ Log([op |-> "Mix", mask |-> mask])
\* the decoder appends a token to every history of the register that is not yet L long
Room(h) == Cardinality({n \in Slots : Len(h[n]) < L}) > 0
Grow(h, toks) == [n \in Slots |-> IF Len(h[n]) < L THEN Append(h[n], toks[n]) ELSE h[n]]
Canon(h, toks) == IF Scripted THEN TRUE ELSE \A n \in Slots : Len(h[n]) >= L => toks[n] = 0
AppendP(toks) ==
  /\ More /\ Room(ph) /\ Canon(ph, toks)
  /\ ph' = Grow(ph, toks)
  /\ UNCHANGED <<ps, qh, qs, sid, script>>
  /\ Log([op |-> "AppendP", toks |-> toks])
AppendQ(toks) ==
  /\ More /\ Room(qh) /\ Canon(qh, toks)
  /\ qh' = Grow(qh, toks)
  /\ UNCHANGED <<ph, ps, qs, sid, script>>
  /\ Log([op |-> "AppendQ", toks |-> toks])
\* forward(P.hist, idx=None): all positions at once from a fresh state; no register changes
Full ==
  /\ Rec /\ More /\ (IF Scripted THEN TRUE ELSE ~LastIs("Full"))
  /\ UNCHANGED <<ph, ps, qh, qs, sid, script>>
  /\ Log([op |-> "Full",
          rows |-> [n \in Slots |-> [p \in 1..Len(ph[n]) + 1 |->
                      LET d == FullDecl(ph[n])[p]
                      IN [lw1 |-> d.lw1, lw2 |-> d.lw2, fused2 |-> Fuse(d.lw1, d.lw2)]]]])
\* a scripted call that is not legal in the current state
Skip ==
  /\ More
  /\ UNCHANGED <<ph, ps, qh, qs, sid, script>>
  /\ Log([op |-> "Skip"])

FreeNext == \/ Step
            \/ \E src \in Srcs : ExtractP(src)
            \/ \E src \in Srcs : ExtractQ(src)
            \/ Take
            \/ \E mask \in Masks : Mix(mask)
            \/ \E toks \in [Slots -> Tok] : AppendP(toks)
            \/ \E toks \in [Slots -> Tok] : AppendQ(toks)
            \/ Full
ScriptNext ==
  /\ More
  /\ LET o == script[Len(trace)]
     IN \/ o.op = "Step" /\ Step
        \/ o.op = "Step" /\ ~CanStep /\ Skip
        \/ o.op = "ExtractP" /\ o.a \in Srcs /\ ExtractP(o.a)
        \/ o.op = "ExtractQ" /\ o.a \in Srcs /\ ExtractQ(o.a)
        \/ o.op = "Take" /\ Take
        \/ o.op = "Mix" /\ o.a \in Masks /\ Mix(o.a)
        \/ o.op = "AppendP" /\ o.a \in [Slots -> Tok] /\ AppendP(o.a)
        \/ o.op = "AppendP" /\ ~Room(ph) /\ Skip
        \/ o.op = "AppendQ" /\ o.a \in [Slots -> Tok] /\ AppendQ(o.a)
        \/ o.op = "AppendQ" /\ ~Room(qh) /\ Skip
        \/ o.op = "Full" /\ Full
Next == IF Scripted THEN ScriptNext ELSE FreeNext

(***************************************************************************)
(* design invariants                                                       *)
(***************************************************************************)
StateOf(h, s) == /\ s.pos \in 0..Len(h) + 1
                 /\ s.c1 = Prefix(h, Max0(s.pos - 1))
                 /\ s.c2 = Prefix(h, Max0(s.pos - 1))
\* (1) whatever the interleaving, the state a slot carries is the state of a prefix of the slot's own history
HistoryDetermined == \A n \in Slots : StateOf(ph[n], ps[n]) /\ StateOf(qh[n], qs[n])

\* the answer computed from the threaded state is Dist of the slot's own prefix; (5) the fusion is slot-wise
\* first + beta * second with the two sub-states threaded independently
StepIsDist ==
  CanStep => \A n \in Slots :
    LET s2 == StepSlot(ps[n], ph[n])
        pre == Prefix(ph[n], ps[n].pos)
    IN /\ Ans1(s2) = Dist1(pre)
       /\ Ans2(s2) = Dist2(pre)
       /\ Fuse(Ans1(s2), Ans2(s2)) = Fuse(Dist1(pre), Dist2(pre))

\* (2) extract_by_src composes; the identity is a no-op
ExtractLaws ==
  /\ ExS(ps, IdSrc) = ps /\ ExH(ph, IdSrc) = ph
  /\ \A a, b \in Srcs : /\ ExS(ExS(ps, a), b) = ExS(ps, Compose(a, b))
                        /\ ExH(ExH(ph, a), b) = ExH(ph, Compose(a, b))
                        /\ ExS(ExS(qs, a), b) = ExS(qs, Compose(a, b))
\* (3) mix_by_mask is slot-wise; constant masks return an operand
MixLaws ==
  /\ MixOf(ps, qs, [n \in Slots |-> TRUE]) = ps
  /\ MixOf(ps, qs, [n \in Slots |-> FALSE]) = qs
  /\ \A m \in Masks : \A n \in Slots : MixOf(ps, qs, m)[n] = (IF m[n] THEN ps[n] ELSE qs[n])
  \* extract distributes over mix (CTC prefix search: extract both, then mix)
  /\ \A m \in Masks, a \in Srcs : ExS(MixOf(ps, qs, m), a) = MixOf(ExS(ps, a), ExS(qs, a), [n \in Slots |-> m[a[n]]])

\* (4) the window cut out of the padded matrix is the last K tokens of the consumed prefix, whatever lies beyond idx
WindowOK(h, idx, k) == \A g \in Tok : \A n \in Slots : CodeWindow(h, idx, k, g)[n] = Ctx(Prefix(h[n], idx[n]), k)
WindowIsLastK ==
  /\ CanStep => LET idx == [n \in Slots |-> ps[n].pos] IN WindowOK(ph, idx, K1) /\ WindowOK(ph, idx, K2)
  \* a stateless model may be asked for any position: the shortest and the full prefix of every slot
  /\ WindowOK(ph, [n \in Slots |-> 0], K1)
  /\ WindowOK(ph, [n \in Slots |-> Len(ph[n])], K1) /\ WindowOK(ph, [n \in Slots |-> Len(ph[n])], K2)
  \* and the window of the state agrees with it (the state is the consumed prefix)
  /\ CanStep => \A n \in Slots : Ctx(StepSlot(ps[n], ph[n]).c1, K1) = Ctx(Prefix(ph[n], ps[n].pos), K1)

\* forward(idx=None) is the fold of steps
FullIsSteps == \A n \in Slots : FullIter(ph[n], Fresh, <<>>) = FullDecl(ph[n])

TypeOK == /\ ph \in [Slots -> Hists(0..L)] /\ qh \in [Slots -> Hists(0..L)]
          /\ \A n \in Slots : ps[n].pos \in 0..L + 1 /\ qs[n].pos \in 0..L + 1

(***************************************************************************)
(* export                                                                  *)
(***************************************************************************)
Emit(rec) == PrintT(<<"VFJ", ToJson(rec)>>)
\* one record per behaviour of exactly Depth calls (a shorter behaviour is a prefix of one, or ends with all histories L long and nothing left to ask)
Export == Done => Emit([sid |-> sid, ops |-> trace])
\* the tables (config LMState_tables: a single initial state, no steps)
Halt == FALSE /\ UNCHANGED vars
Gram(salt, k) == LET S == {c \o <<v>> : c \in [1..k -> Tok \cup {Sos}], v \in Tok}
                 IN {[g |-> g, lw |-> LW(salt, g), bo |-> -(1 + (Code(g) % 3))] : g \in S}
ExportTables == Emit([sos |-> Sos, k1 |-> K1, k2 |-> K2,
                      t1 |-> [k \in 1..K1 + 1 |-> Gram(1, k - 1)], t2 |-> [k \in 1..K2 + 1 |-> Gram(2, k - 1)]])
=============================================================================
