----------------------------- MODULE CommandsMC -----------------------------
(* Model-checking instances of Commands: constants that a .cfg cannot hold. *)
EXTENDS Commands
AllFams == {"ali", "trn", "ctm", "tg", "er", "sub", "subrun", "mom", "momr"}
UttNames5 == <<<<"u", "1">>, <<"u", "2">>, <<"u", "t", "t", "3">>, <<"v">>, <<"w", "5">>>>
Nm(pre, suf, utts, dir) == [pre |-> pre, suf |-> suf, utts |-> utts, dir |-> dir]
\* default prefix/suffix, non-default prefix, non-default prefix AND suffix
NamingsAll == {Nm(<<>>, <<".", "p", "t">>, UttNames5, <<>>),
               Nm(<<"p", "_">>, <<".", "p", "t">>, UttNames5, <<>>),
               Nm(<<"x", "-">>, <<".", "t", "o", "k">>, UttNames5, <<>>)}
\* prefix / suffix / directory holding [ ] * ? : "t[s]-u1.pt";  "u1.[0].pt" in "e [v2]";  "a*u1?.pt" in "x[y]"
GlobNamingsAll == {Nm(<<"t", "[", "s", "]", "-">>, <<".", "p", "t">>, UttNames5, <<>>),
                   Nm(<<>>, <<".", "[", "0", "]", ".", "p", "t">>, UttNames5, <<"e", " ", "[", "v", "2", "]">>),
                   Nm(<<"a", "*">>, <<"?", ".", "p", "t">>, UttNames5, <<"x", "[", "y", "]">>)}
\* ids one of which is a proper prefix of another, the next character of the longer one sorting below the first
\* character of the suffix ("." is 46, "-" 45, "+" 43):  r < r-a < r0  but  r-a.pt < r.pt < r0.pt ;
\* ab < ab+1 < ab0  but  x[1]ab+1.tok < x[1]ab.tok < x[1]ab0.tok.  The corpus lists them in neither order; the
\* fourth id is one that is not in the directory
IdNamingsAll == {Nm(<<>>, <<".", "p", "t">>, <<<<"r", "0">>, <<"r">>, <<"r", "-", "a">>, <<"q">>>>, <<>>),
                 Nm(<<"x", "[", "1", "]">>, <<".", "t", "o", "k">>, <<<<"a", "b">>, <<"a", "b", "0">>, <<"a", "b", "+", "1">>, <<"z", "z">>>>,
                    <<"e", " ", "[", "v", "2", "]">>)}
\* Deliberately wrong variants that the design invariants must reject (fault runs: `Selects <- SelectsGlob`, `ListKey <-
\* ListKeyFileName`) -- otherwise the universes could not tell them from the right ones.
\* (1) prefix, suffix and directory read as a shell pattern  dir/prefix*suffix  (fnmatch: * any string, ? any
\*     character, [...] one of the characters listed)
RECURSIVE GlobMatch(_, _)
GlobMatch(p, s) ==
  IF p = <<>> THEN s = <<>>
  ELSE IF Head(p) = "*" THEN GlobMatch(Tail(p), s) \/ (s # <<>> /\ GlobMatch(p, Tail(s)))
  ELSE IF Head(p) = "?" THEN s # <<>> /\ GlobMatch(Tail(p), Tail(s))
  ELSE IF Head(p) = "[" /\ \E k \in 3..Len(p) : p[k] = "]"
       THEN LET k == MinOf({j \in 3..Len(p) : p[j] = "]"})
            IN s # <<>> /\ (\E j \in 2..(k - 1) : p[j] = Head(s)) /\ GlobMatch(SubSeq(p, k + 1, Len(p)), Tail(s))
  ELSE s # <<>> /\ Head(s) = Head(p) /\ GlobMatch(Tail(p), Tail(s))
SelectsGlob(nm, f) == GlobMatch(nm.dir \o <<"/">> \o nm.pre \o <<"*">> \o nm.suf, nm.dir \o <<"/">> \o f)
\* (2) the directory listed by file name (sort the listing, strip prefix and suffix afterwards)
ListKeyFileName(nm, i) == Codes(Name(nm, i))
UnorderedOnly == {"unordered"}
\* alignments
AliSeqsQuick == UNION {[1..m -> {1, 2}] : m \in 1..3}
AliSeqs2Quick == UNION {[1..m -> {1, 2}] : m \in 1..2}
AliSeqsThorough == UNION {[1..m -> {1, 2, 3}] : m \in 1..4}
\* trn transcripts: plain, empty, out-of-vocabulary token 3, alternates (first branch empty / nested)
T(t) == [tok |-> t]
A(bs) == [alt |-> bs]
TrnSetQuick == {<<>>, <<T(1)>>, <<T(2), T(1)>>, <<T(3), T(1)>>,
                <<A(<<<<T(1)>>, <<T(2)>>>>)>>, <<T(2), A(<<<<>>, <<T(1)>>>>)>>,
                <<A(<<<<A(<<<<T(2)>>>>), T(1)>>, <<T(1)>>>>), T(2)>>}
TrnSetThorough == TrnSetQuick \cup {<<T(1), T(1), T(2)>>, <<A(<<<<T(3)>>, <<T(1)>>>>)>>, <<A(<<<<T(1), A(<<<<>>, <<T(2)>>>>)>>>>)>>}
SizingsAll == {"none", "skip", "feat"}
\* timed transcripts (ms; multiples of 125 ms are dyadic in seconds)
I(t, s, d) == [tok |-> t, s |-> s, d |-> d]
CtmSetQuick == {<<I(1, 0, 125)>>, <<I(2, 1000, 0)>>, <<I(1, 125, 250), I(2, 0, 125)>>, <<I(2, 0, 1375), I(1, 1375, 125)>>,
                <<I(1, 250, 10)>>}
CtmSetThorough == CtmSetQuick \cup {<<I(1, 10125, 250), I(2, 9000, 1125)>>, <<I(2, 0, 5), I(1, 5, 5), I(1, 10, 1000)>>}
TgSetQuick == {<<I(1, 0, 125)>>, <<I(1, 0, 250), I(2, 250, 125)>>, <<I(2, 125, 125), I(1, 1000, 375)>>,
               <<I(1, 0, 0)>>, <<I(2, 125, 0), I(1, 1375, 0)>>, <<I(1, 250, 10), I(2, 260, 1000)>>,
               <<I(1, 9875, 250), I(2, 10125, 125)>>}       \* (crosses 10 s: the number of digits changes)
TgSetThorough == TgSetQuick \cup {<<I(2, 0, 0), I(2, 10000, 0), I(1, 12000, 0)>>, <<I(2, 2000, 0), I(1, 11000, 0)>>}
AliTinySet == {<<1, 1, 2>>, <<2>>}
TrnTinySet == {<<T(2), T(1)>>, <<A(<<<<T(1)>>, <<T(2)>>>>), T(3)>>}
CtmTinySet == {<<I(1, 125, 250), I(2, 0, 125)>>, <<I(2, 1000, 0)>>}
TgTinySet == {<<I(1, 0, 250), I(2, 250, 125)>>, <<I(2, 125, 0), I(1, 1375, 0)>>}
MomRefTinySet == {<<<<1, 0, 1>>, <<2, 1, 4>>>>, <<<<2, 0, 3>>, <<1, -1, -1>>>>}
\* <<reference, hypothesis>> pairs over {1, 2}
ErSeqs == UNION {[1..m -> {1, 2}] : m \in 0..2}
ErPairsAll == ErSeqs \X ErSeqs
ErPairsFew == {<<<<1, 2>>, <<2>>>>, <<<<>>, <<1>>>>, <<<<2>>, <<2>>>>, <<<<2, 1>>, <<1, 2>>>>, <<<<1>>, <<>>>>, <<<<2, 2>>, <<1>>>>}
ErPairsTinySet == {<<<<1, 2>>, <<2>>>>, <<<<2>>, <<2, 1>>>>, <<<<1>>, <<1>>>>}
ErPairsTinyThorough == ErPairsTinySet \cup {<<<<2, 2>>, <<1>>>>}
ErCostsQuick == {<<1, 1, 1>>, <<3, 3, 4>>, <<1, 2, 1>>}
ErCostsThorough == ErCostsQuick \cup {<<2, 1, 3>>, <<1, 1, 3>>}
\* reference rows for the length-moment command: <<id, start, end>>; -1 = boundary missing
MomRefQuick == {<<<<1, 0, 2>>>>, <<<<1, 0, 1>>, <<2, 1, 4>>>>, <<<<2, 0, 3>>, <<1, -1, -1>>>>, <<<<2, 3, 3>>, <<2, 3, 5>>>>}
\* repeated subset runs: three utterances of 1, 2, 1 frames; criteria selecting {1, 2}, {2, 3}, {1}
SubRunData3 == <<1, 2, 1>>
Crit(k, x) == [kind |-> k, num |-> x, den |-> 1]
SubRunCritsQuick == {Crit("first-n", 2), Crit("last-n", 2), Crit("first-n", 1)}
=============================================================================
