\* every (distribution, n <= 3, z over {-2..2}^n): 310 relaxed values, every conditioning value
SPECIFICATION Spec
CONSTANTS
  MaxN = 3
  ZVals <- ZFive
  Dists = {"bern", "cat"}
INVARIANT TypeOK
INVARIANT ThresholdInSupport
INVARIANT SampleThresholdsBack
INVARIANT CondSupportNonEmpty
INVARIANT ExactlyOneBranch
INVARIANT CanonExists
CHECK_DEADLOCK FALSE
