----------------------------- MODULE AttentionMC -----------------------------
(* Model-checking instances of Attention: parameter sets and contents (a .cfg cannot hold them). *)
EXTENDS Attention

NoM == <<>>
P(id, fl, s, W, hasb, WQ, WK, WV, WC, bQ, bK, bV, bC, use) ==
  [id |-> id, fl |-> fl, s |-> s, W |-> W, hasb |-> hasb, WQ |-> WQ, WK |-> WK, WV |-> WV, WC |-> WC,
   bQ |-> bQ, bK |-> bK, bV |-> bV, bC |-> bC, use |-> use]
Single(id, fl, s, W, hasb) == P(id, fl, s, W, hasb, NoM, NoM, NoM, NoM, NoM, NoM, NoM, NoM, {})

Singles ==
  {Single(<<"dot", 1>>, "dot", 1, NoM, FALSE), Single(<<"dot", 2>>, "dot", 2, NoM, FALSE),
   Single(<<"gen", 1>>, "gen", 1, <<<<1, 0>>, <<1, -1>>>>, FALSE),
   Single(<<"gen", 2>>, "gen", 1, <<<<0, 2>>, <<1, 1>>>>, TRUE),
   Single(<<"concat0", 0>>, "concat0", 1, NoM, TRUE)}

UseOf(u) == {x \in {"Q", "K", "V", "C"} :
               \/ (x = "Q" /\ u % 2 = 1) \/ (x = "K" /\ (u \div 2) % 2 = 1)
               \/ (x = "V" /\ (u \div 4) % 2 = 1) \/ (x = "C" /\ (u \div 8) % 2 = 1)}
\* two heads, d_q = d_k = 1, d_v = 1, out_size 2
MhaA(u) == P(<<"mhaA", u>>, "mha", 1, NoM, FALSE,
             << <<<<1, 0>>>>, <<<<0, 1>>>> >>,
             << <<<<1, 0>>>>, <<<<1, 1>>>> >>,
             << <<<<1, 0>>>>, <<<<1, -1>>>> >>,
             << <<1, 2>>, <<0, -1>> >>,
             << <<1>>, <<-1>> >>, << <<2>>, <<-1>> >>, << <<1>>, <<-2>> >>, <<3, -1>>, UseOf(u))
\* two heads, d_q = d_k = 2, d_v = 2, out_size 2
MhaB(u) == P(<<"mhaB", u>>, "mha", 1, NoM, FALSE,
             << <<<<1, 0>>, <<0, 1>>>>, <<<<1, 1>>, <<0, -1>>>> >>,
             << <<<<1, 0>>, <<0, 1>>>>, <<<<0, 1>>, <<1, 0>>>> >>,
             << <<<<1, 0>>, <<0, 1>>>>, <<<<2, 1>>, <<-1, 0>>>> >>,
             << <<1, 0, 1, 0>>, <<0, 1, -1, 2>> >>,
             << <<1, 0>>, <<0, -1>> >>, << <<1, 1>>, <<0, 2>> >>, << <<1, 0>>, <<0, -1>> >>, <<1, 1>>,
             UseOf(u))
Mhas == {MhaA(u) : u \in 0..15} \cup {MhaB(u) : u \in 0..15}

CoreVals == {-1, 0, 2}
Queries == {<<1, 0>>, <<0, 1>>, <<1, 1>>, <<2, -1>>}
QueriesMha == {<<1, 1>>, <<2, -1>>}

\* key contents.  Each position holds one of a few (bases, value) pairs; masked positions are
\* canonical (the oracle does not read them: MaskBlind); the product is thinned by a fixed
\* arithmetic filter.  (Only parameterised operators here: TLC evaluates every parameterless
\* constant definition of the modules it loads, once per worker; and no UNION of big sets, whose
\* duplicate elimination is quadratic.)
PosContents == {<<<<1, 1>>, <<0, 1>>>>, <<<<2, 1>>, <<2, -1>>>>, <<<<1, 3>>, <<-3, 4>>>>,
                <<<<3, 2>>, <<1, 1>>>>, <<<<2, 1>>, <<-3, 4>>>>, <<<<3, 2>>, <<0, 1>>>>}
CanonPos == <<<<1, 1>>, <<0, 1>>>>
Code(kc) == LET RECURSIVE S(_)
                S(t) == IF t = 0 THEN 0
                        ELSE 3 * kc.kb[t][1] + 5 * kc.kb[t][2] + 7 * kc.val[t][1] + 11 * kc.val[t][2] + t + S(t - 1)
            IN S(kc.T) + 13 * Cardinality(kc.keep)
KeysOf(n, m) ==
  {kc \in {[T |-> n, kb |-> [t \in 1..n |-> c[t][1]], keep |-> kp, val |-> [t \in 1..n |-> c[t][2]]] :
             kp \in NonEmptySubsets(1..n),
             c \in {x \in [1..n -> PosContents] : TRUE}} :
     (\A t \in 1..n : t \notin kc.keep => (kc.kb[t] = CanonPos[1] /\ kc.val[t] = CanonPos[2]))
       /\ Code(kc) % m = 0}
\* a set as a sequence (any fixed order), materialised
RECURSIVE SeqOfSet(_)
SeqOfSet(S) == IF S = {} THEN <<>> ELSE LET x == CHOOSE y \in S : TRUE IN <<x>> \o SeqOfSet(S \ {x})
=============================================================================
