\* exhaustive: lengths 0..6, pads 0..9 per side, slices [-4..9) x [-4..11), all masks over <= 7 positions
INIT Init
NEXT Next
CONSTANTS
  Ops <- AllOps
  Modes <- AllModes
  MaxLen = 6
  MaxPad = 9
  SMin <- Neg4
  SMax = 9
  EMin <- Neg4
  EMax = 11
  MaxMaskT = 7
  Props <- PropsThorough
  MaxShiftLen = 5
INVARIANT TypeOK
INVARIANT PadAgree
INVARIANT SliceAgree
INVARIANT MaskAgree
INVARIANT ShiftOK
INVARIANT Export
CHECK_DEADLOCK FALSE
