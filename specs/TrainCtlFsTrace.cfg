INIT Init
NEXT Next
INVARIANT LastLoadable
INVARIANT BestLoadable
INVARIANT AllLoadable
INVARIANT ExactlyTwo
INVARIANT ModelSawEverything
INVARIANT Accept
CHECK_DEADLOCK FALSE
