--------------------------- MODULE FeatStatsReturn ---------------------------
(***************************************************************************)
(* functional.time_distributed_return (_rl.py).                            *)
(*                                                                         *)
(* Code-shaped machine: gamma = 0 returns r itself; otherwise the vector   *)
(* g[t] = gamma^t is built, the matrix M[t][t'] = g[t'] / g[t] is cut to   *)
(* its upper triangle (t' >= t) and multiplied with r -- one action Row    *)
(* per row of the product.                                                 *)
(* Declarative side (the property): R_t = r_t + gamma * R_(t+1), R beyond  *)
(* the horizon = 0; and the closed form of the documentation               *)
(* R_t = sum_{t' >= t} gamma^(t' - t) r_t'.                                *)
(* gamma = <<p, q>> is an exact rational.                                  *)
(***************************************************************************)
EXTENDS FeatStats

CONSTANTS MaxLen, RVals, Gammas

VARIABLES r, gamma,    \* the case; r: 1..n -> integer, positions t = 0..n-1 are r[t + 1]
          k,           \* rows computed
          R            \* R[t + 1] : rational
vars == <<r, gamma, k, R>>

NT == Len(r)
RatPow(g, e) == <<Pow(g[1], e), Pow(g[2], e)>>
RatDiv(a, b) == <<a[1] * b[2], a[2] * b[1]>>       \* b # 0

Init ==
  /\ \E n \in 1..MaxLen : r \in [1..n -> RVals]
  /\ gamma \in Gammas
  /\ k = 0
  /\ R = <<>>

Row ==
  /\ k < NT
  /\ k' = k + 1
  /\ LET t == k
         entry(t2) == RatDiv(RatPow(gamma, t2), RatPow(gamma, t))       \* g[t'] / g[t]
         RECURSIVE Dot(_)
         Dot(t2) == IF t2 >= NT THEN RatInt(0)
                    ELSE RatAdd(RatMul(entry(t2), RatInt(r[t2 + 1])), Dot(t2 + 1))
     IN R' = Append(R, IF gamma[1] = 0 THEN RatInt(r[t + 1]) ELSE Dot(t))
  /\ UNCHANGED <<r, gamma>>

Next == Row
Spec == Init /\ [][Next]_vars

RECURSIVE Ret(_)
Ret(t) == IF t >= NT THEN RatInt(0) ELSE RatAdd(RatInt(r[t + 1]), RatMul(gamma, Ret(t + 1)))
RECURSIVE Closed(_, _)
Closed(t, t2) == IF t2 >= NT THEN RatInt(0)
                 ELSE RatAdd(RatMul(RatPow(gamma, t2 - t), RatInt(r[t2 + 1])), Closed(t, t2 + 1))

ReturnIsRecurrence == \A t \in 0..(k - 1) : RatEq(R[t + 1], Ret(t)) /\ RatOK(R[t + 1]) /\ RatOK(Ret(t))
ClosedFormIsRecurrence == \A t \in 0..(NT - 1) : RatEq(Closed(t, t), Ret(t))

Export == k = NT => Emit([r |-> r, gamma |-> gamma, R |-> [t \in 1..NT |-> Ret(t - 1)]])
=============================================================================
