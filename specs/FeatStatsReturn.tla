--------------------------- MODULE FeatStatsReturn ---------------------------
(***************************************************************************)
(* functional.time_distributed_return (_rl.py).                            *)
(*                                                                         *)
(* Code-shaped machine: gamma = 0 returns r itself; otherwise the vector   *)
(* g[t] = gamma^t is built, the matrix M[t][t'] = g[t'] / g[t] is cut to   *)
(* its upper triangle (t' >= t) and multiplied with r -- one action Row    *)
(* per row of the product.                                                 *)
(* Declarative side (the property): R_t = r_t + gamma * R_(t+1), R beyond  *)
(* the horizon = 0; and the closed form of the documentation               *)
(* R_t = sum_{t' >= t} gamma^(t' - t) r_t'.                                *)
(* gamma = <<p, q>> is an exact rational.                                  *)
(* Long sequences (1000..2500 steps) are reached through the lemmas at the *)
(* end of the module: ConcatLemma, EmbedLemma, SuperposeLemma.             *)
(***************************************************************************)
EXTENDS FeatStats

CONSTANTS MaxLen, RVals, Gammas

VARIABLES r, gamma,    \* the case; r: 1..n -> integer, positions t = 0..n-1 are r[t + 1]
          k,           \* rows computed
          R            \* R[t + 1] : rational
vars == <<r, gamma, k, R>>

NT == Len(r)
RatPow(g, e) == <<Pow(g[1], e), Pow(g[2], e)>>
RatDiv(a, b) == <<a[1] * b[2], a[2] * b[1]>>       \* b # 0

Init ==
  /\ \E n \in 1..MaxLen : r \in [1..n -> RVals]
  /\ gamma \in Gammas
  /\ k = 0
  /\ R = <<>>

Row ==
  /\ k < NT
  /\ k' = k + 1
  /\ LET t == k
         entry(t2) == RatDiv(RatPow(gamma, t2), RatPow(gamma, t))       \* g[t'] / g[t]
         RECURSIVE Dot(_)
         Dot(t2) == IF t2 >= NT THEN RatInt(0)
                    ELSE RatAdd(RatMul(entry(t2), RatInt(r[t2 + 1])), Dot(t2 + 1))
     IN R' = Append(R, IF gamma[1] = 0 THEN RatInt(r[t + 1]) ELSE Dot(t))
  /\ UNCHANGED <<r, gamma>>

Next == Row
Spec == Init /\ [][Next]_vars

RECURSIVE Ret(_)
Ret(t) == IF t >= NT THEN RatInt(0) ELSE RatAdd(RatInt(r[t + 1]), RatMul(gamma, Ret(t + 1)))
RECURSIVE Closed(_, _)
Closed(t, t2) == IF t2 >= NT THEN RatInt(0)
                 ELSE RatAdd(RatMul(RatPow(gamma, t2 - t), RatInt(r[t2 + 1])), Closed(t, t2 + 1))

ReturnIsRecurrence == \A t \in 0..(k - 1) : RatEq(R[t + 1], Ret(t)) /\ RatOK(R[t + 1]) /\ RatOK(Ret(t))
ClosedFormIsRecurrence == \A t \in 0..(NT - 1) : RatEq(Closed(t, t), Ret(t))

(***************************************************************************)
(* Lemmas that carry the small universe to LONG reward sequences (the      *)
(* harness embeds every exported case into sequences of 1000..2500 steps,  *)
(* far beyond what exact rationals in 32-bit integers can enumerate).      *)
(* RetS is the recurrence of the property on an arbitrary sequence s.      *)
(*  ConcatLemma: for r = u o v,                                            *)
(*      Return(r)[t] = Return(u)[t] + gamma^(|u| - t) * Return(v)[0]  t < |u| *)
(*      Return(r)[t] = Return(v)[t - |u|]                            t >= |u| *)
(*    (every way of cutting every sequence of the universe in two; this is *)
(*    also the equation a block-wise evaluation with a carried return has  *)
(*    to satisfy at every block boundary);                                 *)
(*  EmbedLemma: zero rewards before / after a case leave its returns       *)
(*    unchanged, give gamma^(pre - t) * R[0] before it and 0 after it;     *)
(*  SuperposeLemma: two cases u, v separated by zeros: the returns are the *)
(*    sum of the two embedded single cases (linearity in the rewards).     *)
(* The new gammas close to 1 (7/8, 31/32, 33/32) have large denominators:  *)
(* equality is decided on the reduced pairs (no cross products).           *)
(***************************************************************************)
CONSTANT PadMax
RECURSIVE RetS(_, _)
RetS(s, t) == IF t >= Len(s) THEN RatInt(0) ELSE RatAdd(RatInt(s[t + 1]), RatMul(gamma, RetS(s, t + 1)))
Zeros(n) == [i \in 1..n |-> 0]
RatSame(a, b) == Reduce(a) = Reduce(b) /\ a[2] > 0 /\ b[2] > 0
AsSeq(f) == [i \in 1..Len(f) |-> f[i]]
\* sum over the least common denominator (keeps the intermediate products inside 32 bits)
RatAddG(a, b) == LET g == Gcd(a[2], b[2])
                 IN Reduce(<<a[1] * (b[2] \div g) + b[1] * (a[2] \div g), (a[2] \div g) * b[2]>>)

ConcatLemma == k = NT =>
  \A a \in 0..NT :
    LET u == SubSeq(AsSeq(r), 1, a)
        v == SubSeq(AsSeq(r), a + 1, NT)
    IN \A t \in 0..(NT - 1) :
         RatSame(Ret(t), IF t < a THEN RatAddG(RetS(u, t), RatMul(RatPow(gamma, a - t), RetS(v, 0)))
                         ELSE RetS(v, t - a))

\* value the lemmas prescribe at position t of a long sequence that holds the case c (a reward
\* sequence) at offset o and zeros elsewhere
Embedded(c, o, t) == IF t < o THEN RatMul(RatPow(gamma, o - t), RetS(c, 0))
                     ELSE IF t < o + Len(c) THEN RetS(c, t - o) ELSE RatInt(0)

EmbedLemma == k = NT =>
  \A pre \in 0..PadMax, post \in 0..PadMax :
    LET s == Zeros(pre) \o AsSeq(r) \o Zeros(post)
    IN \A t \in 0..(Len(s) - 1) : RatSame(RetS(s, t), Embedded(AsSeq(r), pre, t))

\* r = u o v with a gap of zeros in between and zeros in front
SuperposeLemma == k = NT =>
  \A a \in 1..(NT - 1), pre \in 0..1, gap \in 0..PadMax :
    LET u == SubSeq(AsSeq(r), 1, a)
        v == SubSeq(AsSeq(r), a + 1, NT)
        s == Zeros(pre) \o u \o Zeros(gap) \o v
    IN \A t \in 0..(Len(s) - 1) :
         RatSame(RetS(s, t), RatAddG(Embedded(u, pre, t), Embedded(v, pre + a + gap, t)))

Export == k = NT => Emit([r |-> r, gamma |-> gamma, R |-> [t \in 1..NT |-> Ret(t - 1)]])
=============================================================================
