\* exhaustive: V = 3 (5 hyp symbols), length 1..3, 4 rows per position, eos unset/0/2
INIT Init
NEXT Next
CONSTANTS
  V = 3
  T = 3
  D = 4
  Rows <- Rows3
  EosSet <- Eos3
INVARIANT TypeOK
INVARIANT ScoreIsDefinition
INVARIANT PackedIsPrefixDefinition
INVARIANT PaddedPackedAgree
INVARIANT Export
CHECK_DEADLOCK FALSE
