\* design check, three tokens
INIT Init
NEXT FreeNext
CONSTANTS
  N = 2
  V = 3
  L = 1
  K1 = 1
  K2 = 2
  SosIn = FALSE
  Depth = 0
  InitLens = {0}
  Beta2s = {0, 1, 2, 4}
  Fault = "none"
  Scripts <- NoScripts
INVARIANT TypeOK
INVARIANT HistoryDetermined
INVARIANT StepIsDist
INVARIANT ExtractLaws
INVARIANT MixLaws
INVARIANT WindowIsLastK
INVARIANT FullIsSteps
CHECK_DEADLOCK FALSE
