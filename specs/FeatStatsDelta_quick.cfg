\* exhaustive: sequences of length 1..4 over {0,1,3}, orders 0..2, widths 1..2, 4 pad modes (legal ones), constant value 0/2
INIT Init
NEXT Next
CONSTANTS
  MaxLen = 4
  Vals <- ValsQ
  Orders = {0, 1, 2}
  Widths = {1, 2}
  PadModes <- AllPads
  CVals <- CValsQ
INVARIANT DeltasAreRecursion
INVARIANT FilterShape
INVARIANT Export
CHECK_DEADLOCK FALSE
