\* design check, parameter groups: every optimizer set-up (configured rate / optimizer's default, group 2 with its own
\* rate, state directory / history file alone) x 32 parameter settings x every metric history of length <= 5 over 3
\* levels, restarts anywhere
INIT Init
NEXT Next
CONSTANTS
  ParamSpace <- ParamsGroups
  Levels <- L3
  MaxLen = 5
INVARIANT TypeOK
INVARIANT StopRule
INVARIANT ReduceRule
INVARIANT ReduceOnlyOnFire
INVARIANT OptimizerHasRate
INVARIANT ReductionWritten
INVARIANT RestartTransparent
PROPERTY TouchedOnlyToReduce
CHECK_DEADLOCK FALSE
