\* whole orders (get_samples_for_epoch_ignoring_distributed) against the rank slices, one epoch
INIT Init
NEXT Next
CONSTANTS
  MaxN = 5
  MaxW = 3
  ModeSet <- AllModes
  KindSet <- BothKinds
  RandomMaxN = 4
  Seeds = {1}
  MaxEpoch = 0
  MaxOps = 1000
  Schedule = "serial"
  Features <- FullFeatures
VIEW View
INVARIANT TypeOK
INVARIANT RefusesExactly
INVARIANT CoordinatesAgree
INVARIANT LenIsYielded
INVARIANT PathIndependent
INVARIANT LivePrefixes
INVARIANT WellFormedLists
INVARIANT Disjoint
INVARIANT Cover
INVARIANT IgnoreGivesAll
INVARIANT SliceOfFull
INVARIANT SequentialIsIdentity
CHECK_DEADLOCK FALSE

