--------------------------- MODULE SpecAugmentTrace ---------------------------
(***************************************************************************)
(* code -> spec: batched validation of recorded SpecAugment calls against  *)
(* the declarative side of SpecAugment.tla.  One trace = one batch element *)
(* of one call of SpecAugment.draw_parameters (+ warp_1d_grid,             *)
(* apply_parameters / forward, eval-mode call) with its configuration;     *)
(* the events are, in the order the library performs the steps:            *)
(*   TimeWarp, FreqWarp, TimeMask, FreqMask : the drawn parameters of the  *)
(*        step (on = 0: the returned parameter was empty),                 *)
(*   Grid  : half-frame quantisation of the linear warp's sampling grid    *)
(*           (of warp_1d_grid itself, or as observed through an entry      *)
(*           point on ramp features; also for the deterministic "long      *)
(*           padded batch" family, where the valid length is much shorter  *)
(*           than the padded one),                                         *)
(*   Apply : the set of zeroed cells of the output and the number of       *)
(*           other cells that differ from the input,                       *)
(*   Hull  : finiteness and the range of the non-masked output cells of    *)
(*           the element against the range of its input plane, in units of *)
(*           1/1024, for a warp of any interpolation order,                *)
(*   Shape : the output's shape,   Eval : cells changed in eval mode.      *)
(* An event is accepted iff the documented bound / effect (TimeMaskOK,     *)
(* FreqMaskOK, WarpOK, Masked, GridOK, HullOK) allows it.  An EMPTY        *)
(* parameter respects every limit and is always accepted; whether a step   *)
(* is enabled exactly when all its limits are non-zero is documented by    *)
(* the library                                                             *)
(* but is not a clause of the property: a mismatch is exported as an       *)
(* informational record (Informational) and never rejects.  Acceptance of  *)
(* the batch: every trace is consumed completely (POSTCONDITION            *)
(* AllAccepted).                                                           *)
(***************************************************************************)
EXTENDS SpecAugment, IOUtils, TLCExt

Traces == JsonDeserialize(IOEnv.TRACE_FILE)

VARIABLES i, pos
tvars == <<vars, i, pos>>

Tr == Traces[i]
Ev == Tr.ev[pos + 1]

TStart(k) ==
  /\ i = k /\ pos = 0
  /\ kind = "trace" /\ cfg = Traces[k].cfg /\ len = Traces[k].len
  /\ par = NoPar /\ phase = "start" /\ zero = {}
TInit == \E k \in 1..Len(Traces) : TStart(k)

Keep == UNCHANGED <<kind, cfg, len, phase, zero>>

\* drawn parameters must respect every configured limit (with a limit of zero the caps are zero)
TTimeWarp ==
  /\ Ev.a = "TimeWarp"
  /\ (Ev.on = 1 => WarpOK(cfg.mtw2, len, Ev.clo, Ev.chi, Ev.slo, Ev.shi))
  /\ par' = par /\ Keep
TFreqWarp ==
  /\ Ev.a = "FreqWarp"
  /\ (Ev.on = 1 => WarpOK(cfg.mfw2, Tr.F, Ev.clo, Ev.chi, Ev.slo, Ev.shi))
  /\ par' = par /\ Keep
TTimeMask ==
  /\ Ev.a = "TimeMask"
  /\ (Ev.on = 1 => TimeMaskOK(cfg, len, Ev.t0, Ev.t))
  /\ par' = IF Ev.on = 1 THEN [par EXCEPT !.t0 = Ev.t0, !.t = Ev.t] ELSE par
  /\ Keep
TFreqMask ==
  /\ Ev.a = "FreqMask"
  /\ (Ev.on = 1 => FreqMaskOK(cfg, Tr.F, Ev.f0, Ev.f))
  /\ par' = IF Ev.on = 1 THEN [par EXCEPT !.f0 = Ev.f0, !.f = Ev.f] ELSE par
  /\ Keep
\* documented, not part of the property: a step is enabled exactly when all its limits are non-zero
EnabledByCfg(a) ==
  CASE a = "TimeWarp" -> WarpEnabled(cfg.mtw2)
    [] a = "FreqWarp" -> WarpEnabled(cfg.mfw2)
    [] a = "TimeMask" -> TimeMaskEnabled(cfg)
    [] a = "FreqMask" -> FreqMaskEnabled(cfg)
Informational ==
  (pos < Len(Tr.ev) /\ Ev.a \in {"TimeWarp", "FreqWarp", "TimeMask", "FreqMask"}
     /\ (Ev.on = 1) # EnabledByCfg(Ev.a))
    => Emit([tid |-> Tr.tid, info |-> Ev.a, on |-> Ev.on])
\* default (linear) warp: the valid frames are read in non-decreasing order, pinned at both ends
TGrid ==
  /\ Ev.a = "Grid"
  /\ GridOK(Ev.q, IF Ev.axis = "time" THEN len ELSE Tr.F)
  /\ par' = par /\ Keep
\* applying the drawn parameters zeroes exactly the masked bands; without a warp every other
\* cell is bit-identical (Ev.exact = 1 marks traces without warp)
TApply ==
  /\ Ev.a = "Apply"
  /\ {Ev.zero[k] : k \in 1..Len(Ev.zero)} = Masked(Tr.T, Tr.F, par.t0, par.t, par.f0, par.f)
  /\ (Ev.exact = 1 => Ev.changed = 0)
  /\ par' = par /\ Keep
\* no warp of any order yields a non-finite value or one outside the range of its input (the
\* element's own padded plane; masked cells, validated by the preceding Apply event, excluded)
THull ==
  /\ Ev.a = "Hull"
  /\ HullOK(Ev.order, Ev.finite, Ev.inlo, Ev.inhi, Ev.outlo, Ev.outhi)
  /\ par' = par /\ Keep
TShape ==
  /\ Ev.a = "Shape"
  /\ Ev.shape = Tr.shape                      \* the output always has the input's shape
  /\ par' = par /\ Keep
TEval ==
  /\ Ev.a = "Eval"
  /\ Ev.changed = 0                           \* evaluation mode: the input is returned unchanged
  /\ par' = par /\ Keep

\* read positions observed to float precision, quantised to 1/u frame
TFineGrid ==
  /\ Ev.a = "FineGrid"
  /\ GridFineOK(Ev.q, IF Ev.axis = "time" THEN len ELSE Tr.F, Ev.u)
  /\ par' = par /\ Keep

TNext == /\ pos < Len(Tr.ev)
         /\ (TTimeWarp \/ TFreqWarp \/ TTimeMask \/ TFreqMask \/ TGrid \/ TFineGrid \/ TApply \/ THull \/ TShape \/ TEval)
         /\ pos' = pos + 1 /\ i' = i

TDone == pos = Len(Tr.ev)
Accept == TDone => (Emit([tid |-> Tr.tid]) /\ TLCSet(1, TLCGet(1) + 1))
\* longest accepted prefix of every trace (to report the first rejected event)
Progress == Emit([tid |-> Tr.tid, upto |-> pos])
\* diagnosis only: which clause(s) of GridOK a Grid event fails (classification of a rejected grid
\* comes from the specification, not from the harness)
B2I(b) == IF b THEN 1 ELSE 0
GridDiag ==
  (pos < Len(Tr.ev) /\ Ev.a = "Grid") =>
    LET L == IF Ev.axis = "time" THEN len ELSE Tr.F
    IN Emit([tid |-> Tr.tid, gridat |-> pos, order |-> B2I(GridOrderOK(Ev.q, L)),
             first |-> B2I(GridFirstOK(Ev.q, L)), last |-> B2I(GridLastOK(Ev.q, L))])
ASSUME TLCSet(1, 0)
AllAccepted == /\ PrintT(<<"accepted", TLCGet(1), "of", Len(Traces)>>)
               /\ TLCGet(1) = Len(Traces)
=============================================================================
