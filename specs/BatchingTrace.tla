--------------------------- MODULE BatchingTrace ---------------------------
(***************************************************************************)
(* code -> spec: validates recorded runs of the real BucketBatchSampler    *)
(* (and of the loaders' batch samplers) against the bucket machine of      *)
(* Batching.tla.  The harness wraps the index sampler in a recording proxy,*)
(* so a run is the exact interleaving                                      *)
(*    feed(i) ... yield(items) ... exhausted ... yield(items) ... stop     *)
(* Indices are renamed to their feed position (the spec feeds 0, 1, ...),  *)
(* bucket keys to 0..NB-1.  Every event is consumed through the original   *)
(* action of Batching conjoined with the logged arguments; the design      *)
(* invariants are evaluated after every event.  Only the order of the      *)
(* incomplete batches after exhaustion is free (Flush of any bucket).      *)
(*                                                                         *)
(* Trace file: [{tid, n, lens (or <<>>), nbreq, bsz, dyn, i2b, size, drop, *)
(* events: [{op, a, items}]}]; op in feed(a = feed position) | exhausted | *)
(* yield(items) | stop(a = the reported length, or -1 when there is none). *)
(***************************************************************************)
EXTENDS BatchingMC, IOUtils, TLCExt

Traces == JsonDeserialize(IOEnv.TRACE_FILE)

VARIABLES ti, pos
tvars == <<vars, ti, pos>>
Events == Traces[ti].events

\* the design invariants are part of the step relation (see SamplerTrace)
AllInv ==
  /\ TypeOK
  /\ Conservation
  /\ ExactlyOnceOrDropped
  /\ SingleBucketInOrder
  /\ SizesAndTrailing
  /\ PredictedIsActual
  /\ LengthMonotone
  /\ SameLengthSameClass
  /\ BatchesArePure
FailedInvs ==
  (IF TypeOK THEN {} ELSE {"TypeOK"})
  \cup (IF Conservation THEN {} ELSE {"Conservation"})
  \cup (IF ExactlyOnceOrDropped THEN {} ELSE {"ExactlyOnceOrDropped"})
  \cup (IF SingleBucketInOrder THEN {} ELSE {"SingleBucketInOrder"})
  \cup (IF SizesAndTrailing THEN {} ELSE {"SizesAndTrailing"})
  \cup (IF PredictedIsActual THEN {} ELSE {"PredictedIsActual"})
  \cup (IF LengthMonotone THEN {} ELSE {"LengthMonotone"})
  \cup (IF SameLengthSameClass THEN {} ELSE {"SameLengthSameClass"})
  \cup (IF BatchesArePure THEN {} ELSE {"BatchesArePure"})
Diag == IOEnv.PROGRESS = "1"

TInit ==
  \E i \in 1..Len(Traces) :
    LET h == Traces[i]
    IN /\ ti = i /\ pos = 0
       /\ n = h.n
       /\ src = (IF Len(h.lens) > 0 THEN "lengths" ELSE "direct")
       /\ lens = [j \in 0..(Len(h.lens) - 1) |-> h.lens[j + 1]]
       /\ nbreq = h.nbreq /\ bsz = h.bsz /\ dyn = h.dyn
       /\ i2b = [j \in 0..(h.n - 1) |-> h.i2b[j + 1]]
       /\ size = [j \in 0..(Len(h.size) - 1) |-> h.size[j + 1]]
       /\ drop = h.drop
       /\ Start
       /\ (Diag \/ AllInv)

Neg1 == 0 - 1
LastItems == yielded'[Len(yielded')].items

TNext ==
  /\ pos < Len(Events) /\ FailedInvs = {}
  /\ pos' = pos + 1 /\ ti' = ti
  /\ LET e == Events[pos + 1]
     IN CASE e.op = "feed"      -> Feed /\ e.a = k
          [] e.op = "exhausted" -> EndFeed
          [] e.op = "yield"     -> /\ \E b \in Buckets : EmitFull(b) \/ Flush(b)
                                   /\ LastItems = e.items
          [] e.op = "stop"      -> /\ Finish
                                   /\ (e.a = Neg1 \/ e.a = Len(yielded))
  /\ (Diag \/ AllInv')

Emit2(rec) == PrintT(<<"VFJ", ToJson(rec)>>)
Accept ==
  (pos = Len(Events)) =>
     /\ TLCSet(1, TLCGet(1) + 1)
     /\ Emit2([what |-> "accepted", tid |-> Traces[ti].tid])
Progress ==
  Diag => Emit2([what |-> "progress", tid |-> Traces[ti].tid, pos |-> pos, failed |-> FailedInvs])
ASSUME TLCSet(1, 0)
Post == TLCGet(1) = Len(Traces)
=============================================================================
