\* epoch in file names, keep last and best; every metric history of 4 epochs over 3 levels, <= 2 crashes anywhere
INIT Init
NEXT Next
CONSTANTS
  EpochFmt = TRUE
  KeepLB = TRUE
  BestTrain = FALSE
  ModelKind = "plain"
  Params <- FsP0
  MaxE = 4
  MaxCrash = 2
  Levels = {1, 2, 3}
INVARIANT TypeOK
INVARIANT HistoryIsPrefix
INVARIANT LastLoadable
INVARIANT BestLoadable
INVARIANT ExactlyTwo
INVARIANT AllLoadable
INVARIANT Convergent
INVARIANT LiveRate
INVARIANT Export
CHECK_DEADLOCK FALSE
