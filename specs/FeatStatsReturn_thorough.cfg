\* exhaustive: reward sequences of length 1..5 over {-1,0,2,3}
INIT Init
NEXT Next
CONSTANTS
  MaxLen = 5
  RVals <- RValsT
  Gammas <- GammasQ
  PadMax = 2
INVARIANT ReturnIsRecurrence
INVARIANT ClosedFormIsRecurrence
INVARIANT ConcatLemma
INVARIANT EmbedLemma
INVARIANT SuperposeLemma
INVARIANT Export
CHECK_DEADLOCK FALSE
