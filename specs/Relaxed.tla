------------------------------- MODULE Relaxed -------------------------------
(***************************************************************************)
(* C19 - the DISCRETE face of the relaxed (straight-through) distributions *)
(* LogisticBernoulli ("bern": n independent coordinates, threshold z >= 0) *)
(* and GumbelOneHotCategorical ("cat": one vector of n coordinates,        *)
(* threshold = one-hot of the first maximum).                              *)
(*                                                                         *)
(* A relaxed sample is a real vector; what the property's discrete clauses *)
(* speak about is its image under the threshold H, so the model carries a  *)
(* relaxed value as a vector over a small ordered set ZVals (only the      *)
(* order of the coordinates relative to each other and to 0 matters to H). *)
(*                                                                         *)
(* Actions (one per method of the ConditionalStraightThrough interface):   *)
(*   RSample       z ~ P(z)            any z;  b := H(z)                   *)
(*   CSample(bb)   z ~ P(z | bb)       any z in the conditional's support  *)
(*   Evaluate      log_prob / tlog_prob / clog_prob of the current (z, b)  *)
(* Declarative part (from the documentation of clog_prob):                 *)
(*   P(z | b) P(b) = P(z) if H(z) = b, 0 otherwise                         *)
(* i.e. the conditional density is finite exactly on {z : H(z) = b}, every *)
(* z has exactly one branch b with positive joint density (so the sum over *)
(* b of P(b) P(z | b) has a single term - the factorisation), and a        *)
(* conditional sample thresholds back to its conditioning value.           *)
(* The numerical identity log P(z) = log P(H(z)) + log P(z | H(z)) is      *)
(* stated over QUANTISED logarithms (integers, unit 1e-6) so that traces   *)
(* of the implementation can be checked against it (RelaxedTrace.tla).     *)
(***************************************************************************)
EXTENDS Integers, Sequences, FiniteSets, TLC, Json

CONSTANTS MaxN,     \* vector sizes 1..MaxN
          ZVals,    \* abstract coordinate values (integers; 0 is the Bernoulli threshold)
          Dists     \* subset of {"bern", "cat"}

VARIABLES dist, n, z, b, phase
vars == <<dist, n, z, b, phase>>

Emit(rec) == PrintT(<<"VFJ", ToJson(rec)>>)
\* values for ZVals (a cfg cannot hold negative numbers)
ZFive == (0 - 2)..2
ZThree == (0 - 1)..1
ZTrace == (0 - 1)..4      \* trace validation: signs and dense ranks of up to 5 coordinates

Vecs(m, S) == [1..m -> S]
MaxOf(zz, m) == CHOOSE v \in {zz[j] : j \in 1..m} : \A q \in 1..m : zz[q] <= v
FirstArgMax(zz, m) == CHOOSE j \in 1..m : zz[j] = MaxOf(zz, m) /\ \A q \in 1..(j - 1) : zz[q] < MaxOf(zz, m)

\* the threshold function H
Thr(d, zz, m) ==
  IF d = "bern" THEN [j \in 1..m |-> IF zz[j] >= 0 THEN 1 ELSE 0]
  ELSE [j \in 1..m |-> IF j = FirstArgMax(zz, m) THEN 1 ELSE 0]

Support(d, m) ==
  IF d = "bern" THEN Vecs(m, {0, 1})
  ELSE {bb \in Vecs(m, {0, 1}) : Cardinality({j \in 1..m : bb[j] = 1}) = 1}

\* "P(z | b) > 0": the support of the conditional
CondFinite(d, zz, bb, m) == Thr(d, zz, m) = bb

\* the factorisation over quantised logarithms: lp = tlp + clp up to the quantisation error
FactorOK(lp, tlp, clp, tol) == (lp - (tlp + clp)) \in (0 - tol)..tol

Init ==
  /\ dist \in Dists /\ n \in 1..MaxN
  /\ z \in Vecs(n, ZVals) /\ b = Thr(dist, z, n) /\ phase = "r"

RSample ==
  /\ z' \in Vecs(n, ZVals) /\ b' = Thr(dist, z', n) /\ phase' = "r"
  /\ UNCHANGED <<dist, n>>

CSample(bb) ==
  /\ bb \in Support(dist, n)
  /\ z' \in {zz \in Vecs(n, ZVals) : CondFinite(dist, zz, bb, n)}
  /\ b' = bb /\ phase' = "c"
  /\ UNCHANGED <<dist, n>>

\* conditioning on an ARBITRARY value of the support (what clog_prob(z, b) is asked for)
Recondition(bb) ==
  /\ bb \in Support(dist, n) /\ b' = bb /\ phase' = "e"
  /\ UNCHANGED <<dist, n, z>>

DoCSample == \E bb \in Support(dist, n) : CSample(bb)
DoRecondition == \E bb \in Support(dist, n) : Recondition(bb)
Next == RSample \/ DoCSample \/ DoRecondition
Spec == Init /\ [][Next]_vars

(***************************************************************************)
(* Design invariants                                                       *)
(***************************************************************************)
TypeOK == dist \in Dists /\ n \in 1..MaxN /\ z \in Vecs(n, ZVals) /\ b \in Vecs(n, {0, 1})
\* every sample's threshold image is a value of the discrete distribution
ThresholdInSupport == Thr(dist, z, n) \in Support(dist, n)
\* threshold(csample(b)) = b, and threshold(rsample()) is what tlog_prob is asked about
SampleThresholdsBack == phase \in {"r", "c"} => Thr(dist, z, n) = b
\* csample is total: every value of the support has a non-empty conditional
CondSupportNonEmpty == \A bb \in Support(dist, n) : \E zz \in Vecs(n, ZVals) : CondFinite(dist, zz, bb, n)
\* exactly one branch: sum over b of P(b) P(z | b) has the single term b = H(z)
ExactlyOneBranch == Cardinality({bb \in Support(dist, n) : CondFinite(dist, z, bb, n)}) = 1
\* H depends only on the order of the coordinates relative to each other and to 0: every threshold
\* image is already reached over the three-valued coordinates {-1, 0, 1} (justifies the small ZVals)
Canon(d, bb, m) == CHOOSE zz \in Vecs(m, {0 - 1, 0, 1}) : Thr(d, zz, m) = bb
CanonExists == \A bb \in Support(dist, n) : Thr(dist, Canon(dist, bb, n), n) = bb
=============================================================================
