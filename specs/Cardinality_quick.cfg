\* exhaustive: total 0..6, given 0..total, out_size max(total,1)..total+1; binomial table to n = 30
INIT Init
NEXT Next
CONSTANTS
  MaxTotal = 6
  MaxPad = 1
  BinomN = 30
  VocabMaxLen = 3
  VocabMaxV = 3
INVARIANT CountsOK
INVARIANT TerminalInSupport
INVARIANT PathsAreBinom
INVARIANT SupportIsBinom
INVARIANT ReachIsSupportPrefix
INVARIANT BinomIsFactorial
INVARIANT VocabCount
INVARIANT Export
CHECK_DEADLOCK FALSE
