------------------------- MODULE BatchingDirTrace -------------------------
(***************************************************************************)
(* code -> spec: validates recorded HISTORIES of real SpectDataLoader /    *)
(* LangDataLoader objects constructed one after the other, in one process, *)
(* over ONE real directory path that holds several renditions of the same  *)
(* utterances, against BatchingDir.tla.                                    *)
(*                                                                         *)
(* The lengths a loader serves are NOT logged with the loader: the trace   *)
(* states what the harness wrote to disk (header `dir`, `write` events),   *)
(* the specification keeps the directory as state and Open READS it.  The  *)
(* `open` event carries the REAL idx2bucket / bucket2size of the loader    *)
(* just constructed (renamed to feed positions / bucket numbers, as in     *)
(* BatchingTrace) and the feed order `ord` of its epoch; the state Open    *)
(* leads to must satisfy the design invariants - in particular the real    *)
(* length classes must be ordered by the lengths of the rendition the      *)
(* loader serves as it is on disk NOW.  The epoch of every loader is then  *)
(* consumed by the bucket machine exactly as in BatchingTrace.             *)
(*                                                                         *)
(* Trace file: [{tid, n, dir: {rendition: lens}, events: [{op, r, lens,    *)
(* ord, nbreq, bsz, dyn, drop, i2b, size, a, items}]}]; op in              *)
(* write(r, lens) | open(r, ord, nbreq, bsz, dyn, drop, i2b, size) |       *)
(* feed(a) | exhausted | yield(items) | stop(a = reported length or -1).   *)
(***************************************************************************)
EXTENDS BatchingDir, IOUtils, TLCExt

Traces == JsonDeserialize(IOEnv.TRACE_FILE)

VARIABLES ti, pos
tvars == <<dvars, ti, pos>>
Events == Traces[ti].events

AllInv ==
  /\ HTypeOK
  /\ HConservation
  /\ HExactlyOnceOrDropped
  /\ HSingleBucketInOrder
  /\ HSizesAndTrailing
  /\ HPredictedIsActual
  /\ HLengthMonotone
  /\ HBatchesArePure
  /\ ClassesOfServedData
  /\ BatchesPureOnDisk
FailedInvs ==
  (IF HTypeOK THEN {} ELSE {"TypeOK"})
  \cup (IF HConservation THEN {} ELSE {"Conservation"})
  \cup (IF HExactlyOnceOrDropped THEN {} ELSE {"ExactlyOnceOrDropped"})
  \cup (IF HSingleBucketInOrder THEN {} ELSE {"SingleBucketInOrder"})
  \cup (IF HSizesAndTrailing THEN {} ELSE {"SizesAndTrailing"})
  \cup (IF HPredictedIsActual THEN {} ELSE {"PredictedIsActual"})
  \cup (IF HLengthMonotone THEN {} ELSE {"LengthMonotone"})
  \cup (IF HBatchesArePure THEN {} ELSE {"BatchesArePure"})
  \cup (IF ClassesOfServedData THEN {} ELSE {"ClassesOfServedData"})
  \cup (IF BatchesPureOnDisk THEN {} ELSE {"BatchesPureOnDisk"})
Diag == IOEnv.PROGRESS = "1"

SeqFun(s) == [j \in 0..(Len(s) - 1) |-> s[j + 1]]     \* a JSON list as a function on 0..m-1

TInit ==
  \E i \in 1..Len(Traces) :
    LET h == Traces[i]
    IN /\ ti = i /\ pos = 0
       /\ src = "lengths"
       /\ n = h.n
       /\ dir = [r \in Renditions |-> SeqFun(h.dir[r])]
       /\ dir0 = dir
       /\ opened = 0 /\ cur = "" /\ feedord = <<>> /\ hist = <<>>
       /\ lens = <<>> /\ nbreq = 0 /\ bsz = 0 /\ dyn = FALSE /\ drop = FALSE
       /\ i2b = <<>> /\ size = <<>>
       /\ k = 0 /\ yielded = <<>> /\ partial = <<>> /\ phase = "idle"
       /\ (Diag \/ AllInv)

Neg1 == 0 - 1
LastItems == yielded'[Len(yielded')].items

TNext ==
  /\ pos < Len(Events) /\ FailedInvs = {}
  /\ pos' = pos + 1 /\ ti' = ti
  /\ LET e == Events[pos + 1]
     IN CASE e.op = "write"     -> Write(e.r, SeqFun(e.lens))
          [] e.op = "open"      -> Open(e.r, e.ord, e.nbreq, e.bsz, e.dyn, e.drop, SeqFun(e.i2b), SeqFun(e.size))
          [] e.op = "feed"      -> HFeed /\ e.a = k
          [] e.op = "exhausted" -> HEndFeed
          [] e.op = "yield"     -> /\ (\E b \in Buckets : EmitFull(b) \/ Flush(b)) /\ UNCHANGED hvars
                                   /\ LastItems = e.items
          [] e.op = "stop"      -> /\ HFinish
                                   /\ (e.a = Neg1 \/ e.a = Len(yielded))
  /\ (Diag \/ AllInv')

Emit2(rec) == PrintT(<<"VFJ", ToJson(rec)>>)
Accept ==
  (pos = Len(Events)) =>
     /\ TLCSet(1, TLCGet(1) + 1)
     /\ Emit2([what |-> "accepted", tid |-> Traces[ti].tid])
Progress ==
  Diag => Emit2([what |-> "progress", tid |-> Traces[ti].tid, pos |-> pos, failed |-> FailedInvs])
ASSUME TLCSet(1, 0)
Post == TLCGet(1) = Len(Traces)
=============================================================================
