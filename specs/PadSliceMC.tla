----------------------------- MODULE PadSliceMC -----------------------------
(* Model-checking instances of PadSlice: constants that a .cfg cannot hold. *)
EXTENDS PadSlice
Neg3 == -3
Neg4 == -4
AllOps == {"pad", "slice", "mask", "shift"}
AllModes == {"constant", "reflect", "replicate"}
\* proportions: 0, 1/4, 1/2, 3/4, 1, 3/2, 2  (dyadic: exact in float32)
PropsQuick == {<<0, 1>>, <<1, 2>>, <<1, 1>>, <<3, 2>>}
PropsThorough == {<<0, 1>>, <<1, 4>>, <<1, 2>>, <<3, 4>>, <<1, 1>>, <<3, 2>>, <<2, 1>>}
=============================================================================
