\* exhaustive thorough universe: every case x every interleaving of 1..3-worker pools with chunk sizes 1..2
INIT Init
NEXT Next
CONSTANTS
  Fams <- AllFams
  Namings <- NamingsAll
  GlobNamings <- GlobNamingsAll
  IdNamings <- IdNamingsAll
  Cs = {1, 2}
  Ws = {1, 2, 3}
  PModes <- UnorderedOnly
  KeepHist = FALSE
  AliSeqs <- AliSeqsThorough
  AliSeqs2 <- AliSeqsQuick
  AliUtts = 2
  TrnSet <- TrnSetThorough
  TrnUtts = 2
  Sizings <- SizingsAll
  CtmSet <- CtmSetThorough
  CtmUtts = 2
  CtmShifts = {1, 10, 25}
  TgSet <- TgSetThorough
  TgUtts = 2
  TgShifts = {10, 125}
  ErPairs <- ErPairsAll
  ErPairsSmall <- ErPairsFew
  ErPairsTiny <- ErPairsTinyThorough
  ErCostsAll <- ErCostsThorough
  ErMissUtts = 3
  ErBatches = {1, 2, 100}
  SubLens = {1, 2, 3}
  SubUtts = 3
  SubRunData <- SubRunData3
  SubRunCrits <- SubRunCritsQuick
  SubRunStyles = {"copy", "symlink", "link"}
  SubRunMax = 3
  SubRunFault = FALSE
  MomAli <- AliSeqsQuick
  MomRef <- MomRefQuick
  MomUtts = 2
  BigUtts = 4
  AliTiny <- AliTinySet
  TrnTiny <- TrnTinySet
  CtmTiny <- CtmTinySet
  TgTiny <- TgTinySet
  MomRefTiny <- MomRefTinySet
INVARIANT TypeOK
INVARIANT ScheduleFree
INVARIANT NoClobber
INVARIANT Naming
INVARIANT IdUniverse
INVARIANT AliInverse
INVARIANT TrnInverse
INVARIANT CtmInverse
INVARIANT CtmOrderFree
INVARIANT TgInverse
INVARIANT ErMergeOK
INVARIANT ErBatchFree
INVARIANT ErIdFree
INVARIANT ErUniformExact
INVARIANT SubOK
INVARIANT SubRunIdentical
INVARIANT SubRunExact
INVARIANT SubRunRaises
INVARIANT SubRunMustRaise
INVARIANT SubRunLogFree
INVARIANT Export
CHECK_DEADLOCK FALSE
