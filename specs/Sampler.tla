------------------------------- MODULE Sampler -------------------------------
(***************************************************************************)
(* Epoch samplers of pydrobert.torch (_dataloaders.py: AbstractEpochSampler,*)
(* EpochRandomSampler, EpochSequentialSampler) in a distributed group of W *)
(* processes over a data set of N elements.                                *)
(*                                                                         *)
(* The order of an epoch is an UNINTERPRETED function Perm[seed, epoch]:   *)
(* `perm` is a lazily bound partial map  position -> index  that may be    *)
(* extended by any value that keeps it injective - the set of behaviours   *)
(* is that of choosing an arbitrary family of permutations up front, but   *)
(* nothing is fixed before an action reveals it.  (Sequential sampler:     *)
(* bound to the identity from the start.)                                  *)
(*                                                                         *)
(* Code-shaped part: one sampler object per rank (`smp[r]`: _rank,         *)
(* _world_size, effective_total, epoch as computed by __init__), iterators *)
(* as cursor machines (islice(order, rank, effective_total, world)) that   *)
(* may be interleaved across ranks, __len__ by the code's formula.         *)
(* One sampler object may have SEVERAL iterators alive at once (slots      *)
(* `it[r][h]`): iter(sampler) / get_samples_for_epoch(e) while an earlier   *)
(* iterator of the same object is only partially consumed (a progress bar  *)
(* asking len() of a bucketed loader mid-epoch, two epochs zipped, a       *)
(* prefetching consumer).  Every iterator is bound to the (seed, epoch) it *)
(* was created for; their Yield steps interleave freely.                   *)
(* Declarative part: the invariants below, on the log of completed epochs: *)
(* disjointness, exact cover, equal shares when dropping, len = number     *)
(* yielded, refusal exactly for indivisible sizes under "raise", "ignore"  *)
(* = everything for everybody, and path independence (same rank, seed and  *)
(* epoch => same list, however the epoch counter got there).               *)
(***************************************************************************)
EXTENDS Naturals, Integers, Sequences, FiniteSets, TLC, Json

CONSTANTS MaxN,        \* data-set sizes 0..MaxN
          MaxW,        \* world sizes 1..MaxW
          ModeSet,     \* subset of {"raise", "drop", "uneven", "ignore"}
          KindSet,     \* subset of {"random", "seq"}
          RandomMaxN,  \* the random kind is explored for N <= RandomMaxN (all permutations, lazily)
          Seeds,       \* base seeds
          MaxEpoch,    \* epochs 0..MaxEpoch are iterated
          MaxOps,      \* bound on the number of operations of a behaviour
          Schedule,    \* "free": iterators of different ranks interleave; "serial": one live
                       \* iterator at a time; "ordered": serial and ranks act in rank order;
                       \* "perrank": the iterators of one rank interleave, one rank at a time
          Features     \* subset of {"reconstruct", "get", "full", "abandon", "live2", "live3"}: operations
                       \* beyond construct/iterate; "live2" / "live3": up to 2 / 3 iterators of ONE sampler
                       \* object alive at the same time (otherwise one); "sharedbuf": the REJECTED design
                       \* in which the iterators of an object read one buffer that every request for an
                       \* order refills (cfg Sampler_sharedbuf*: TLC must refute it as soon as two
                       \* iterators are alive, and cannot tell it apart when there is one at a time)

VARIABLES N, W, mode, kind,
          perm,      \* [Seeds \X (0..MaxEpoch) -> partial function 0..N-1 -> 0..N-1], injective
          smp,       \* per rank: sampler object state (alive = FALSE: none yet)
          it,        \* per rank, per slot: a live iterator, if any
          refused,   \* ranks whose constructor raised
          log,       \* completed iterations: [rank, seed, epoch, full, items, len]
          ops        \* history of operations (exported as a driver skeleton; hidden by VIEW)
vars == <<N, W, mode, kind, perm, smp, it, refused, log, ops>>
View == <<N, W, mode, kind, perm, smp, it, refused, log>>

Ranks == 0..(W - 1)
Keys == Seeds \X (0..MaxEpoch)
NoSmp == [alive |-> FALSE, seed |-> 0, epoch |-> 0, rank |-> 0, world |-> 1, eff |-> 0, last |-> <<0, 0>>]
\* "sharedbuf" only: the (seed, epoch) whose order the object's one buffer holds = the last one requested
SharedBuf == "sharedbuf" \in Features
Requested(r, e) == IF SharedBuf THEN <<smp[r].seed, e>> ELSE <<0, 0>>
\* iterator slots of one sampler object (handles the consumer holds)
Slots == 0..(IF "live3" \in Features THEN 2 ELSE IF "live2" \in Features THEN 1 ELSE 0)
NoIt1 == [on |-> FALSE, seed |-> 0, epoch |-> 0, pos |-> 0, stop |-> 0, step |-> 1, full |-> FALSE, out |-> <<>>]
NoIt == [h \in Slots |-> NoIt1]

(***************************************************************************)
(* Declarative vocabulary (from the documentation of on_uneven_distributed)*)
(***************************************************************************)
Divisible == N % W = 0
Refuses == mode = "raise" /\ ~Divisible
EffDecl == IF mode = "drop" THEN N - (N % W) ELSE N
\* the positions of the epoch order that rank r is responsible for
PositionsOf(r) == IF mode = "ignore" THEN 0..(N - 1)
                  ELSE {p \in 0..(EffDecl - 1) : p % W = r}

ERank(r) == IF mode = "ignore" THEN 0 ELSE r
EWorld == IF mode = "ignore" THEN 1 ELSE W

(***************************************************************************)
(* Uninterpreted permutation, lazily bound                                 *)
(***************************************************************************)
Bound(k) == DOMAIN perm[k]
CanBind(k, p, x) ==
  /\ x \in 0..(N - 1)
  /\ IF p \in Bound(k) THEN perm[k][p] = x ELSE \A q \in Bound(k) : perm[k][q] # x
Bind(k, p, x) == IF p \in Bound(k) THEN perm ELSE [perm EXCEPT ![k] = (p :> x) @@ @]

(***************************************************************************)
(* Code-shaped actions                                                     *)
(***************************************************************************)
OpH(name, r, h, a, b) == [op |-> name, rank |-> r, h |-> h, a |-> a, b |-> b]
Op(name, r, a, b) == OpH(name, r, 0, a, b)

AnyLive(q) == \E h \in Slots : it[q][h].on
\* a new iterator takes the lowest free slot (slot numbers carry no meaning: fewer symmetric states)
LowestFree(r, h) == /\ ~it[r][h].on
                    /\ \A g \in Slots : g < h => it[r][g].on
\* scheduling restrictions of the exhaustive configurations (none under "free")
Busy == \E q \in Ranks : AnyLive(q)
Finished(q) == q \in refused \/ \E l \in log : l.rank = q /\ ~l.full
MayStart(r) == \/ Schedule = "free"
               \/ Schedule = "serial" /\ ~Busy
               \/ Schedule = "ordered" /\ ~Busy /\ \A q \in 0..(r - 1) : Finished(q)
               \/ Schedule = "perrank" /\ \A q \in Ranks \ {r} : ~AnyLive(q)  \* one rank at a time,
                                                                              \* its iterators interleave

\* AbstractEpochSampler.__init__ (under a process group in which this process is rank r of W)
Construct(r, s, e0) ==
  /\ ~AnyLive(r) /\ MayStart(r)
  /\ ("reconstruct" \in Features \/ (~smp[r].alive /\ r \notin refused))
  /\ LET dist == mode # "ignore"              \* "ignore" skips the distributed branch altogether
         rk == IF dist THEN r ELSE 0
         ws == IF dist THEN W ELSE 1
     IN IF dist /\ N % ws # 0 /\ mode = "raise"
        THEN /\ refused' = refused \cup {r}
             /\ smp' = [smp EXCEPT ![r] = NoSmp]
             /\ ops' = Append(ops, Op("construct", r, s, e0))
        ELSE /\ smp' = [smp EXCEPT ![r] =
                   [alive |-> TRUE, seed |-> s, epoch |-> e0, rank |-> rk, world |-> ws,
                    eff |-> IF dist /\ N % ws # 0 /\ mode = "drop" THEN N - (N % ws) ELSE N,
                    last |-> <<0, 0>>]]
             /\ ops' = Append(ops, Op("construct", r, s, e0))
             /\ UNCHANGED refused
  /\ UNCHANGED <<N, W, mode, kind, perm, it, log>>

\* __len__
LenCode(r) == (smp[r].eff - smp[r].rank + smp[r].world - 1) \div smp[r].world

\* __iter__: the iterator of the current epoch; the epoch counter moves on at once
BeginIterAt(r, h) ==
  /\ smp[r].alive /\ LowestFree(r, h) /\ smp[r].epoch <= MaxEpoch /\ MayStart(r)
  /\ it' = [it EXCEPT ![r][h] = [on |-> TRUE, seed |-> smp[r].seed, epoch |-> smp[r].epoch,
                                 pos |-> smp[r].rank, stop |-> smp[r].eff, step |-> smp[r].world,
                                 full |-> FALSE, out |-> <<>>]]
  /\ smp' = [smp EXCEPT ![r].epoch = @ + 1, ![r].last = Requested(r, smp[r].epoch)]
  /\ ops' = Append(ops, OpH("iter", r, h, smp[r].epoch, 0))
  /\ UNCHANGED <<N, W, mode, kind, perm, refused, log>>
BeginIter(r) == \E h \in Slots : BeginIterAt(r, h)

\* get_samples_for_epoch(e): same slice, the counter stays
BeginGetAt(r, h, e) ==
  /\ "get" \in Features /\ smp[r].alive /\ LowestFree(r, h) /\ MayStart(r)
  /\ it' = [it EXCEPT ![r][h] = [on |-> TRUE, seed |-> smp[r].seed, epoch |-> e,
                                 pos |-> smp[r].rank, stop |-> smp[r].eff, step |-> smp[r].world,
                                 full |-> FALSE, out |-> <<>>]]
  /\ smp' = [smp EXCEPT ![r].last = Requested(r, e)]
  /\ ops' = Append(ops, OpH("get", r, h, e, 0))
  /\ UNCHANGED <<N, W, mode, kind, perm, refused, log>>
BeginGet(r, e) == \E h \in Slots : BeginGetAt(r, h, e)

\* get_samples_for_epoch_ignoring_distributed(e): the whole order
BeginFullAt(r, h, e) ==
  /\ "full" \in Features /\ smp[r].alive /\ LowestFree(r, h) /\ MayStart(r)
  /\ it' = [it EXCEPT ![r][h] = [on |-> TRUE, seed |-> smp[r].seed, epoch |-> e,
                                 pos |-> 0, stop |-> N, step |-> 1, full |-> TRUE, out |-> <<>>]]
  /\ smp' = [smp EXCEPT ![r].last = Requested(r, e)]
  /\ ops' = Append(ops, OpH("full", r, h, e, 0))
  /\ UNCHANGED <<N, W, mode, kind, perm, refused, log>>
BeginFull(r, e) == \E h \in Slots : BeginFullAt(r, h, e)

\* next(iterator) yields x: the element of the order of ITS (seed, epoch) at its cursor - whatever
\* other iterators of the same object have been created or advanced in the meantime
YieldAt(r, h, x) ==
  /\ it[r][h].on /\ it[r][h].pos < it[r][h].stop
  /\ LET k == IF SharedBuf THEN smp[r].last          \* (rejected design: whatever the buffer holds now)
              ELSE <<it[r][h].seed, it[r][h].epoch>>  \* the order of the iterator's own (seed, epoch)
     IN /\ CanBind(k, it[r][h].pos, x)
        /\ perm' = Bind(k, it[r][h].pos, x)
  /\ it' = [it EXCEPT ![r][h].pos = @ + it[r][h].step, ![r][h].out = Append(@, x)]
  /\ ops' = Append(ops, OpH("yield", r, h, x, 0))
  /\ UNCHANGED <<N, W, mode, kind, smp, refused, log>>
Yield(r, x) == \E h \in Slots : YieldAt(r, h, x)

\* next(iterator) raises StopIteration; the length the sampler reports is noted next to it
EndAt(r, h) ==
  /\ it[r][h].on /\ it[r][h].pos >= it[r][h].stop
  /\ log' = log \cup {[rank |-> r, seed |-> it[r][h].seed, epoch |-> it[r][h].epoch, full |-> it[r][h].full,
                       items |-> it[r][h].out, len |-> LenCode(r)]}
  /\ it' = [it EXCEPT ![r][h] = NoIt1]
  /\ ops' = Append(ops, OpH("end", r, h, LenCode(r), 0))
  /\ UNCHANGED <<N, W, mode, kind, perm, smp, refused>>
End(r) == \E h \in Slots : EndAt(r, h)

\* the consumer drops a live iterator without exhausting it (break out of the loop, zip with a shorter
\* iterable, islice(len)); nothing else changes: the epoch counter already moved on when it was created
AbandonAt(r, h) ==
  /\ "abandon" \in Features /\ it[r][h].on
  /\ it' = [it EXCEPT ![r][h] = NoIt1]
  /\ ops' = Append(ops, OpH("abandon", r, h, 0, 0))
  /\ UNCHANGED <<N, W, mode, kind, perm, smp, refused, log>>
Abandon(r) == \E h \in Slots : AbandonAt(r, h)

Init ==
  /\ N \in 0..MaxN /\ W \in 1..MaxW /\ mode \in ModeSet /\ kind \in KindSet
  /\ (kind = "random" => N <= RandomMaxN)
  /\ perm = [k \in Keys |-> IF kind = "seq" THEN [p \in 0..(N - 1) |-> p] ELSE <<>>]
  /\ smp = [r \in Ranks |-> NoSmp]
  /\ it = [r \in Ranks |-> NoIt]
  /\ refused = {}
  /\ log = {}
  /\ ops = <<>>

Live == Len(ops) < MaxOps
DoConstruct == Live /\ \E r \in Ranks, s \in Seeds, e0 \in 0..MaxEpoch : Construct(r, s, e0)
DoBeginIter == Live /\ \E r \in Ranks : BeginIter(r)
DoBeginGet == Live /\ \E r \in Ranks, e \in 0..MaxEpoch : BeginGet(r, e)
DoBeginFull == Live /\ \E r \in Ranks, e \in 0..MaxEpoch : BeginFull(r, e)
DoYield == Live /\ \E r \in Ranks, x \in 0..(N - 1) : Yield(r, x)
DoEnd == Live /\ \E r \in Ranks : End(r)
DoAbandon == Live /\ \E r \in Ranks : Abandon(r)
Next == DoConstruct \/ DoBeginIter \/ DoBeginGet \/ DoBeginFull \/ DoYield \/ DoEnd \/ DoAbandon
Spec == Init /\ [][Next]_vars

(***************************************************************************)
(* Design invariants (the clauses of the property)                         *)
(***************************************************************************)
Slices == {l \in log : ~l.full}
Fulls == {l \in log : l.full}
Items(l) == {l.items[j] : j \in 1..Len(l.items)}
NoDup(s) == \A a, b \in 1..Len(s) : a # b => s[a] # s[b]
Key(l) == <<l.seed, l.epoch>>

TypeOK ==
  /\ \A k \in Keys : Bound(k) \subseteq 0..(N - 1)
  /\ \A k \in Keys : \A p, q \in Bound(k) : p # q => perm[k][p] # perm[k][q]
  /\ \A r \in Ranks : smp[r].alive => smp[r].epoch \in 0..(MaxEpoch + 1)

\* "an indivisible size raises under the strict setting" - and only then
RefusesExactly ==
  /\ refused # {} => Refuses
  /\ Refuses => \A r \in Ranks : ~smp[r].alive
\* effective size and coordinates as the documentation gives them
CoordinatesAgree ==
  \A r \in Ranks : smp[r].alive =>
     /\ smp[r].eff = EffDecl
     /\ smp[r].rank = ERank(r)
     /\ smp[r].world = EWorld
\* "the sampler's length is the number of indices it yields" (= its share of positions)
LenIsYielded ==
  /\ \A l \in Slices : Len(l.items) = l.len /\ l.len = Cardinality(PositionsOf(l.rank))
  /\ \A r \in Ranks : smp[r].alive => LenCode(r) = Cardinality(PositionsOf(r))
\* "a function of (seed, epoch) alone": one list per (rank, seed, epoch), whatever the path
PathIndependent ==
  \A a, b \in log : (a.rank = b.rank /\ Key(a) = Key(b) /\ a.full = b.full) => a.items = b.items
\* the same for iterators still in flight: what an iterator has yielded so far is the prefix of the list
\* of its (rank, seed, epoch) - it agrees with every completed iteration and with every other live
\* iterator of that (rank, seed, epoch), of the same or of another slot, however their steps interleaved
IsPrefix(s, t) == Len(s) <= Len(t) /\ \A j \in 1..Len(s) : s[j] = t[j]
LiveIts == {<<r, h>> \in Ranks \X Slots : it[r][h].on}
LivePrefixes ==
  \A a \in LiveIts :
     LET ia == it[a[1]][a[2]]
     IN /\ NoDup(ia.out)
        /\ \A l \in log : (l.rank = a[1] /\ Key(l) = <<ia.seed, ia.epoch>> /\ l.full = ia.full) =>
              IsPrefix(ia.out, l.items)
        /\ \A b \in LiveIts :
              LET ib == it[b[1]][b[2]]
              IN (a[1] = b[1] /\ ia.seed = ib.seed /\ ia.epoch = ib.epoch /\ ia.full = ib.full) =>
                    (IsPrefix(ia.out, ib.out) \/ IsPrefix(ib.out, ia.out))
WellFormedLists ==
  \A l \in log : NoDup(l.items) /\ Items(l) \subseteq 0..(N - 1)
\* "pairwise disjoint"
Disjoint ==
  mode # "ignore" =>
    \A a, b \in Slices : (Key(a) = Key(b) /\ a.rank # b.rank) => Items(a) \cap Items(b) = {}
\* "together cover every index exactly once (all but the remainder when dropping, each rank
\*  then getting equally many)"
Cover ==
  \A k \in Keys :
    (\A r \in Ranks : \E l \in Slices : Key(l) = k /\ l.rank = r) =>
       LET S == {l \in Slices : Key(l) = k}
           U == UNION {Items(l) : l \in S}
       IN IF mode = "drop"
          THEN /\ Cardinality(U) = N - (N % W)
               /\ \A l \in S : Len(l.items) = N \div W
          ELSE U = 0..(N - 1)
\* "the ignore setting gives every rank the full epoch"
IgnoreGivesAll ==
  mode = "ignore" =>
    /\ \A l \in Slices : Items(l) = 0..(N - 1)
    /\ \A a, b \in Slices : Key(a) = Key(b) => a.items = b.items
\* slices are strided reads of the one order of the epoch
SliceOfFull ==
  \A f \in Fulls : /\ Items(f) = 0..(N - 1)
                   /\ \A l \in Slices : Key(l) = Key(f) =>
                        \A j \in 1..Len(l.items) :
                           l.items[j] = f.items[ERank(l.rank) + (j - 1) * EWorld + 1]
SequentialIsIdentity ==
  kind = "seq" => \A f \in Fulls : \A j \in 1..Len(f.items) : f.items[j] = j - 1

(***************************************************************************)
(* Export                                                                  *)
(***************************************************************************)
SetToSeq(S) == LET RECURSIVE F(_)
                   F(T) == IF T = {} THEN <<>>
                           ELSE LET x == CHOOSE y \in T : \A z \in T : y <= z IN <<x>> \o F(T \ {x})
               IN F(S)
Emit(rec) == PrintT(<<"VFJ", ToJson(rec)>>)
\* constructor outcomes and shares for every case: once per initial state
ExportCases ==
  (ops = <<>>) =>
    Emit([what |-> "case", N |-> N, W |-> W, mode |-> mode, kind |-> kind,
          refuses |-> Refuses, eff |-> EffDecl,
          positions |-> [r \in Ranks |-> SetToSeq(PositionsOf(r))]])
\* driver skeletons (simulation runs): a behaviour of exactly MaxOps operations
ExportOps ==
  (Len(ops) = MaxOps) =>
    Emit([what |-> "ops", N |-> N, W |-> W, mode |-> mode, kind |-> kind, ops |-> ops])
=============================================================================
