-------------------------- MODULE FeatStatsReturnMC --------------------------
EXTENDS FeatStatsReturn
Neg1 == -1
RValsQ == {Neg1, 0, 2}
RValsT == {Neg1, 0, 2, 3}
GammasQ == {<<0, 1>>, <<1, 2>>, <<1, 1>>, <<2, 1>>, <<3, 1>>, <<3, 2>>}
\* the cases embedded into long sequences: 0, 1/2, 1, 2 and discount factors close to 1: gamma^2500 is a normal float64 (7/8) / float32 (31/32, 33/32) number, so
\* that cases with them can be embedded into long sequences
GammasL == {<<0, 1>>, <<1, 2>>, <<7, 8>>, <<31, 32>>, <<1, 1>>, <<33, 32>>, <<2, 1>>}
=============================================================================
