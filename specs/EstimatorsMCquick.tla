-------------------------- MODULE EstimatorsMCquick --------------------------
(* quick-tier case universe of Estimators (kept apart from the thorough one: TLC evaluates every
   parameterless constant definition of the modules it loads) *)
EXTENDS EstimatorsMC
CasesQuick ==
  {c \in BernCases(4, K4, {1, 2, 3}, {1, 2}) \cup CatCases(4, KCat4, {1, 2}) : WellFormed(c)}
  \cup {c \in MHCases(4, {1, 2, 3}) : MHWell(c)}
=============================================================================
