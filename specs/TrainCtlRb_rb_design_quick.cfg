\* roll-back design check, quick: 32 parameter settings x every run of <= 4 epochs over 3 levels, rolled back once
\* to any earlier epoch (same or rebuilt controller) and carried on
INIT RbInit
NEXT RbNext
CONSTANTS
  ParamSpace <- ParamsRbDesign
  Levels <- L3
  MaxLen = 4
  MaxRb = 1
INVARIANT RbTypeOK
INVARIANT RbStopRule
INVARIANT TargetStopRule
INVARIANT RbReduceRule
INVARIANT RbReduceOnlyOnFire
INVARIANT RbOptimizerHasRate
INVARIANT RbRestartTransparent
CHECK_DEADLOCK FALSE
