\* C03 lemma, quick universe (rows of length 1..2); EditDistance_decl_thorough.cfg has MaxR = 3
INIT Init
NEXT Next
CONSTANTS
  MaxR = 2
  MaxH = 2
  Tokens = {1, 2}
  CostSet <- CostsDecl
  Modes <- AllModes
  CheckDecl = TRUE
  Given <- NoGiven
  WithRange = TRUE
INVARIANT OptimalNextIsDecl
CHECK_DEADLOCK FALSE
