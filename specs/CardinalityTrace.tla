-------------------------- MODULE CardinalityTrace --------------------------
(***************************************************************************)
(* code -> spec: batched validation of implementation traces against the   *)
(* sampler machine of Cardinality.tla.  One trace = one vector returned by *)
(* simple_random_sampling_without_replacement / the distribution's sample  *)
(* for one (total_count, given_count, out_size); event k = the value at    *)
(* position k (0, 1, or 2 for "not a binary value").  Each event is        *)
(* consumed through the ORIGINAL action Draw(bit), so CountsOK and          *)
(* TerminalInSupport are evaluated at every step.  Acceptance: every trace *)
(* is consumed completely (POSTCONDITION AllAccepted).                     *)
(***************************************************************************)
EXTENDS Cardinality, IOUtils, TLCExt

Traces == JsonDeserialize(IOEnv.TRACE_FILE)

VARIABLE i      \* index of the trace being validated
tvars == <<vars, i>>

TStart(k) ==
  /\ i = k
  /\ kind = "srs"
  /\ total = Traces[k].total /\ given = Traces[k].given /\ osz = Traces[k].osz
  /\ ones = Traces[k].given /\ slots = Traces[k].total
  /\ pos = 0 /\ b = <<>>
TInit == \E k \in 1..Len(Traces) : TStart(k)

TNext == /\ pos < Len(Traces[i].b)
         /\ Draw(Traces[i].b[pos + 1])
         /\ i' = i

TDone == pos = Len(Traces[i].b)
\* a vector of the wrong length, or one ending outside the support, is not accepted
Accept == TDone => ((Len(Traces[i].b) = osz /\ InSupport(b, total, given, osz))
                       => (Emit([tid |-> Traces[i].tid]) /\ TLCSet(1, TLCGet(1) + 1)))
ASSUME TLCSet(1, 0)
AllAccepted == /\ PrintT(<<"accepted", TLCGet(1), "of", Len(Traces)>>)
               /\ TLCGet(1) = Len(Traces)
=============================================================================
