------------------------------ MODULE TrainCtl ------------------------------
(***************************************************************************)
(* Decisions of pydrobert.torch.training.TrainingStateController           *)
(* (update_for_epoch / continue_training / get_best_epoch / restart).      *)
(*                                                                         *)
(*  - code-shaped: `Update` is the arithmetic of update_for_epoch verbatim: *)
(*    countdowns re-read from the controller's cache, the reference epoch   *)
(*    computed as  epoch - patience + patience_cd - 1,  burn-in / cool-down *)
(*    through the resume countdowns, the epsilon guard on the learning rate *)
(*  - declarative: `decl` tracks, with NO index arithmetic, the reference   *)
(*    epoch ("the value it had when the patience count was last reset"),    *)
(*    the number of consecutive failures and the cool-down, exactly as the  *)
(*    property text words the rules.                                        *)
(* TLC checks that both agree on every metric history for every parameter   *)
(* setting (StopRule, ReduceRule), that the optimizer carries the recorded  *)
(* rate, and that the memory of a controller rebuilt from the history file  *)
(* equals that of the uninterrupted one (RestartTransparent).               *)
(*                                                                         *)
(* Metrics are integers (grid units); the learning rate is the number lrk   *)
(* of reductions applied (lr = lr0 * factor^lrk).                           *)
(***************************************************************************)
EXTENDS Naturals, Integers, Sequences, FiniteSets, TLC, Json

CONSTANTS ParamSpace,   \* set of parameter records (see TrainCtlMC)
          Levels,       \* validation metric values (grid units, > 0)
          MaxLen        \* longest metric history explored

INF == 1000             \* the synthetic epoch-0 metric (float("inf") in the code)

VARIABLES p,        \* parameter record: ne (0 = unlimited), P, B, TH, RP, RB, RC, RTH, EK
          hist,     \* the CSV: sequence of rows, hist[e] is epoch e
          cache,    \* the controller's memory: 0..Len(hist) -> row (cache_hist)
          conts,    \* sequence of values returned by update_for_epoch
          optlr,    \* lrk held by the optimizer's param groups
          ckpt,     \* epoch -> lrk stored in that epoch's optimizer checkpoint
          decl,     \* declarative tracker (history variable)
          fresh     \* TRUE iff the controller was (re)constructed since the last update
vars == <<p, hist, cache, conts, optlr, ckpt, decl, fresh>>

MaxZ(x) == IF x > 0 THEN x ELSE 0
TrainOf(e, v) == ((v * 3 + e) % 5) + 1      \* training metric fed alongside (no effect on decisions)
UserOf(e, v) == e * 7 + v                   \* user-defined entry fed alongside
\* a user-defined entry of type str, declared BEFORE the numeric ones: values that a comma-separated
\* file has to quote (the separator, the quote character, blanks at either end, the empty string)
UserStrs == << "plain", "a,b", "say \"hi\"", "x,\"y\",z", " lead", "trail ", ",", "\"", "", "7", "1,5",
               "two\nlines", "a\rb", "cr\r\nlf" >>      \* line breaks of every kind inside a (quoted) field
UserStrOf(e, v) == UserStrs[((e * 5 + v) % Len(UserStrs)) + 1]   \* 5 is coprime to the table length

Row0 == [epoch |-> 0, esres |-> p.B, espat |-> p.P, rres |-> p.RB, rpat |-> p.RP,
         lrk |-> 0, val |-> INF, trn |-> INF, user |-> 0]

\* what a freshly constructed controller reads from the history file (update_cache)
FromHist(h) == [e \in 0..Len(h) |-> IF e = 0 THEN Row0 ELSE h[e]]

(***************************************************************************)
(* code-shaped update (update_for_epoch), reading through the cache        *)
(***************************************************************************)
NotNegligible(lrk) == lrk < p.EK        \* old_lr - new_lr > epsilon  (EK reductions are not negligible)

\* the update for a given epoch e (the documented `epoch` argument): everything is read from the
\* rows of the epochs BEFORE e -- rows of e and later epochs (left over from a run that was rolled
\* back) play no part
UpdateAt(c, e, v) ==
  LET prev == c[e - 1]
      esE == e - p.P + prev.espat - 1
      esv == c[esE].val
      rE == e - p.RP + prev.rpat - 1
      rv == c[rE].val
      ES == IF prev.esres > 0 THEN [res |-> prev.esres - 1, pat |-> prev.espat]
            ELSE IF MaxZ(esv - v) < p.TH THEN [res |-> 0, pat |-> MaxZ(prev.espat - 1)]
            ELSE [res |-> 0, pat |-> p.P]
      RL == IF prev.rres > 0 THEN [res |-> prev.rres - 1, pat |-> prev.rpat, lrk |-> prev.lrk]
            ELSE IF MaxZ(rv - v) < p.RTH THEN
                 IF prev.rpat - 1 = 0
                 THEN [res |-> p.RC, pat |-> p.RP,
                       lrk |-> IF NotNegligible(prev.lrk) THEN prev.lrk + 1 ELSE prev.lrk]
                 ELSE [res |-> 0, pat |-> prev.rpat - 1, lrk |-> prev.lrk]
            ELSE [res |-> 0, pat |-> p.RP, lrk |-> prev.lrk]
  IN CHOOSE row \in {[epoch |-> e, esres |-> es1.res, espat |-> es1.pat, rres |-> r1.res, rpat |-> r1.pat,
                       lrk |-> r1.lrk, val |-> v, trn |-> TrainOf(e, v), user |-> UserOf(e, v)] :
                      es1 \in {ES}, r1 \in {RL}} : TRUE
\* epoch inferred: one after the last epoch in the history
Update(c, v) == UpdateAt(c, Len(hist) + 1, v)

ContOf(row) == /\ (p.ne = 0 \/ row.epoch < p.ne)
               /\ ~(p.TH > 0 /\ row.espat = 0)

(***************************************************************************)
(* declarative rules, from the property text                               *)
(***************************************************************************)
ValIn(h, e) == IF e = 0 THEN INF ELSE h[e].val
ImprovedIn(h, ref, v, th) == MaxZ(ValIn(h, ref) - v) >= th        \* th = 0: always "improved"
ValAt(e) == ValIn(hist, e)
Improved(ref, v, th) == ImprovedIn(hist, ref, v, th)

\* one step of the tracker: d = tracker after the epochs before e (whose metrics are h[1..e-1].val)
DeclStep(d, h, e, v) ==
  LET inburn == e <= p.B
      esimp == ImprovedIn(h, d.esref, v, p.TH)
      rinburn == e <= p.RB
      rincool == d.rcool > 0
      rimp == ImprovedIn(h, d.rref, v, p.RTH)
      fire == ~rinburn /\ ~rincool /\ ~rimp /\ d.rcnt + 1 = p.RP
  IN [esref |-> IF inburn \/ esimp THEN e ELSE d.esref,
      escnt |-> IF inburn \/ esimp THEN 0 ELSE d.escnt + 1,
      rref  |-> IF rinburn \/ rincool \/ rimp \/ fire THEN e ELSE d.rref,
      rcnt  |-> IF rinburn \/ rincool \/ rimp \/ fire THEN 0 ELSE d.rcnt + 1,
      rcool |-> IF rinburn THEN 0 ELSE IF rincool THEN d.rcool - 1 ELSE IF fire THEN p.RC ELSE 0,
      lrk   |-> IF fire /\ NotNegligible(d.lrk) THEN d.lrk + 1 ELSE d.lrk,
      fired |-> fire]
DeclUpdate(v) == DeclStep(decl, hist, Len(hist) + 1, v)
Decl0 == [esref |-> 0, escnt |-> 0, rref |-> 0, rcnt |-> 0, rcool |-> 0, lrk |-> 0, fired |-> FALSE]
\* the tracker recomputed from nothing over the chain of epochs 1..n of h
RECURSIVE DeclOver(_, _)
DeclOver(h, n) == IF n = 0 THEN Decl0 ELSE DeclStep(DeclOver(h, n - 1), h, n, h[n].val)
DeclStop == p.TH > 0 /\ decl.escnt >= p.P

(***************************************************************************)
(* behaviour                                                               *)
(***************************************************************************)
Init ==
  /\ p \in ParamSpace
  /\ hist = <<>>
  /\ cache = FromHist(<<>>)
  /\ conts = <<>>
  /\ optlr = 0
  /\ ckpt = [e \in {} |-> 0]
  /\ decl = Decl0
  /\ fresh = TRUE

Stopped == Len(conts) > 0 /\ conts[Len(conts)] = FALSE

UpdateForEpoch(v) ==
  /\ Len(hist) < MaxLen /\ ~Stopped
  /\ \E row \in {Update(cache, v)} :       \* (bound through a singleton: TLC evaluates it once)
        /\ hist' = Append(hist, row)
        /\ cache' = [e \in 0..Len(hist) + 1 |-> IF e = Len(hist) + 1 THEN row ELSE cache[e]]
        /\ conts' = Append(conts, ContOf(row))
        /\ optlr' = row.lrk          \* param_group["lr"] = new_lr when reduced, else untouched
        /\ ckpt' = [e \in DOMAIN ckpt \cup {row.epoch} |-> IF e = row.epoch THEN row.lrk ELSE ckpt[e]]
  /\ decl' = DeclUpdate(v)
  /\ fresh' = FALSE
  /\ UNCHANGED p

\* discard every Python object, construct a new controller on the same files, load last epoch
Restart ==
  /\ ~fresh /\ ~Stopped
  /\ cache' = FromHist(hist)
  /\ optlr' = IF Len(hist) = 0 THEN 0 ELSE ckpt[Len(hist)]
  /\ fresh' = TRUE
  /\ UNCHANGED <<p, hist, conts, ckpt, decl>>

Next == (\E v \in Levels : UpdateForEpoch(v)) \/ Restart
Spec == Init /\ [][Next]_vars

(***************************************************************************)
(* design invariants (C15)                                                 *)
(***************************************************************************)
LastRow == hist[Len(hist)]
\* stops exactly when the budget is reached or the declarative early-stopping rule says so
StopRule == Len(hist) > 0 =>
              (conts[Len(conts)] = FALSE <=> ((p.ne > 0 /\ Len(hist) >= p.ne) \/ DeclStop))
\* the rate is reduced exactly when the declarative criterion fires (and it is not negligible)
ReduceRule == Len(hist) > 0 => LastRow.lrk = decl.lrk
ReduceOnlyOnFire ==
  Len(hist) > 0 =>
    LET prevk == IF Len(hist) = 1 THEN 0 ELSE hist[Len(hist) - 1].lrk
    IN (LastRow.lrk # prevk) <=> (decl.fired /\ NotNegligible(prevk))
OptimizerHasRate == Len(hist) > 0 => optlr = LastRow.lrk
\* lemma (used by TrainCtlRb): the tracker carried along equals the tracker recomputed over the whole chain
DeclIsChain == decl = DeclOver(hist, Len(hist))
\* a controller rebuilt from the files has the memory of the uninterrupted one
RestartTransparent == cache = FromHist(hist)
\* best epoch: lowest validation metric, ties to the earlier epoch, epoch 0 counts as infinity
BestOf(h) == CHOOSE b \in 0..Len(h) :
               /\ \A e \in 0..Len(h) : (IF b = 0 THEN INF ELSE h[b].val) <= (IF e = 0 THEN INF ELSE h[e].val)
               /\ \A e \in 0..Len(h) : (IF e = 0 THEN INF ELSE h[e].val) = (IF b = 0 THEN INF ELSE h[b].val) => b <= e
\* the same by the training metric (get_best_epoch(train_met=True))
BestTrnOf(h) == CHOOSE b \in 0..Len(h) :
               /\ \A x \in 0..Len(h) : (IF b = 0 THEN INF ELSE h[b].trn) <= (IF x = 0 THEN INF ELSE h[x].trn)
               /\ \A y \in 0..Len(h) : (IF y = 0 THEN INF ELSE h[y].trn) = (IF b = 0 THEN INF ELSE h[b].trn) => b <= y
TypeOK == /\ Len(conts) = Len(hist)
          /\ \A e \in 1..Len(hist) : hist[e].epoch = e /\ hist[e].espat \in 0..p.P /\ hist[e].rpat \in 1..p.RP
          /\ \A e \in 1..Len(hist) : hist[e].esres \in 0..p.B /\ hist[e].rres \in 0..(IF p.RB > p.RC THEN p.RB ELSE p.RC)

(***************************************************************************)
(* export: one record per maximal behaviour                                *)
(***************************************************************************)
Emit(rec) == PrintT(<<"VFJ", ToJson(rec)>>)
Terminal == Len(hist) = MaxLen \/ Stopped
Export == (Terminal /\ ~fresh) =>
             Emit([p |-> p, rows |-> hist, conts |-> conts,
                   best |-> [i \in 1..Len(hist) |-> BestOf(SubSeq(hist, 1, i))],
                   besttrn |-> [i \in 1..Len(hist) |-> BestTrnOf(SubSeq(hist, 1, i))],
                   ustr |-> [i \in 1..Len(hist) |-> UserStrOf(i, hist[i].val)]])
=============================================================================
