------------------------------ MODULE TrainCtl ------------------------------
(***************************************************************************)
(* Decisions of pydrobert.torch.training.TrainingStateController           *)
(* (update_for_epoch / continue_training / get_best_epoch / restart).      *)
(*                                                                         *)
(*  - code-shaped: `Update` is the arithmetic of update_for_epoch verbatim: *)
(*    countdowns re-read from the controller's cache, the reference epoch   *)
(*    computed as  epoch - patience + patience_cd - 1,  burn-in / cool-down *)
(*    through the resume countdowns, the epsilon guard on the learning rate *)
(*  - declarative: `decl` tracks, with NO index arithmetic, the reference   *)
(*    epoch ("the value it had when the patience count was last reset"),    *)
(*    the number of consecutive failures and the cool-down, exactly as the  *)
(*    property text words the rules.                                        *)
(* TLC checks that both agree on every metric history for every parameter   *)
(* setting (StopRule, ReduceRule), that the optimizer carries the recorded  *)
(* rate, and that the memory of a controller rebuilt from the history file  *)
(* equals that of the uninterrupted one (RestartTransparent).               *)
(*                                                                         *)
(* The optimizer is a vector of PARAMETER GROUPS, each with a rate of its   *)
(* own (optlr[g]).  "Writes the new rate into the optimizer" is: after an   *)
(* update that reduced the rate EVERY group holds the recorded new rate,    *)
(* whatever it held before (a group constructed with its own rate; a new    *)
(* optimizer object after a restart from the history file alone, which      *)
(* nothing loads); an update that does not reduce leaves every group as it  *)
(* was (OptimizerHasRate, ReductionWritten, TouchedOnlyToReduce; the life   *)
(* of one optimizer object is followed in TrainCtlOpt).                     *)
(*                                                                         *)
(* Metrics are integers (grid units); the learning rate is the number lrk   *)
(* of reductions applied (lr = lr0 * factor^lrk).                           *)
(***************************************************************************)
EXTENDS Naturals, Integers, Sequences, FiniteSets, TLC, Json

CONSTANTS ParamSpace,   \* set of parameter records (see TrainCtlMC)
          Levels,       \* validation metric values (grid units, > 0)
          MaxLen        \* longest metric history explored

INF == 1000             \* the synthetic epoch-0 metric (float("inf") in the code)

VARIABLES p,        \* parameter record: ne (0 = unlimited), P, B, TH, RP, RB, RC, RTH, EK; optimizer set-up LG, OG, SD
          hist,     \* the CSV: sequence of rows, hist[e] is epoch e
          cache,    \* the controller's memory: 0..Len(hist) -> row (cache_hist)
          conts,    \* sequence of values returned by update_for_epoch
          optlr,    \* the optimizer: parameter group -> the rate it holds (see GroupRates)
          ckpt,     \* epoch -> the group rates stored in that epoch's optimizer checkpoint
          decl,     \* declarative tracker (history variable)
          fresh     \* TRUE iff the controller was (re)constructed since the last update
vars == <<p, hist, cache, conts, optlr, ckpt, decl, fresh>>

MaxZ(x) == IF x > 0 THEN x ELSE 0
TrainOf(e, v) == ((v * 3 + e) % 5) + 1      \* training metric fed alongside (no effect on decisions)
UserOf(e, v) == e * 7 + v                   \* user-defined entry fed alongside
\* a user-defined entry of type str, declared BEFORE the numeric ones: values that a comma-separated
\* file has to quote (the separator, the quote character, blanks at either end, the empty string)
UserStrs == << "plain", "a,b", "say \"hi\"", "x,\"y\",z", " lead", "trail ", ",", "\"", "", "7", "1,5",
               "two\nlines", "a\rb", "cr\r\nlf" >>      \* line breaks of every kind inside a (quoted) field
UserStrOf(e, v) == UserStrs[((e * 5 + v) % Len(UserStrs)) + 1]   \* 5 is coprime to the table length

(***************************************************************************)
(* the optimizer's parameter groups                                        *)
(*   a group's rate is either a recorded rate lr0 * factor^k (the number k  *)
(*   >= 0) or "the rate group g was constructed with, which is no recorded  *)
(*   rate" (OwnRate(g) < 0)                                                 *)
(* set-up (fields of p):                                                    *)
(*   LG = 1  log10_learning_rate is given: "Initial optimizer log-learning  *)
(*           rate" - the initial load writes lr0 into every group; the      *)
(*           optimizer OBJECT is constructed with rates of its own          *)
(*   LG = 0  not given: "the initial learning rate of the optimizer         *)
(*           instance remains unchanged"; the rate recorded as lr0 is the   *)
(*           optimizer's default, which group 1 follows; group 2 follows it *)
(*           too (OG = 0) or was constructed with its own rate (OG = 1)     *)
(*   SD = 1  a state directory is given (optimizer states saved / loaded);  *)
(*   SD = 0  history file alone: "the information will not be stored/loaded"*)
(***************************************************************************)
NG == 2
Groups == 1..NG
OwnRate(g) == 0 - g
AllAt(k) == [g \in Groups |-> k]
\* the rates a newly constructed optimizer object holds
Ctor == [g \in Groups |-> IF p.LG = 1 THEN OwnRate(g) ELSE IF g = 1 \/ p.OG = 0 THEN 0 ELSE OwnRate(g)]
\* ... and after the initial load_model_and_optimizer_for_epoch (epoch 0)
InitRates == IF p.LG = 1 THEN AllAt(0) ELSE Ctor

Row0 == [epoch |-> 0, esres |-> p.B, espat |-> p.P, rres |-> p.RB, rpat |-> p.RP,
         lrk |-> 0, val |-> INF, trn |-> INF, user |-> 0]

\* what a freshly constructed controller reads from the history file (update_cache)
FromHist(h) == [e \in 0..Len(h) |-> IF e = 0 THEN Row0 ELSE h[e]]

(***************************************************************************)
(* code-shaped update (update_for_epoch), reading through the cache        *)
(***************************************************************************)
NotNegligible(lrk) == lrk < p.EK        \* old_lr - new_lr > epsilon  (EK reductions are not negligible)

\* the update for a given epoch e (the documented `epoch` argument): everything is read from the
\* rows of the epochs BEFORE e -- rows of e and later epochs (left over from a run that was rolled
\* back) play no part
UpdateAt(c, e, v) ==
  LET prev == c[e - 1]
      esE == e - p.P + prev.espat - 1
      esv == c[esE].val
      rE == e - p.RP + prev.rpat - 1
      rv == c[rE].val
      ES == IF prev.esres > 0 THEN [res |-> prev.esres - 1, pat |-> prev.espat]
            ELSE IF MaxZ(esv - v) < p.TH THEN [res |-> 0, pat |-> MaxZ(prev.espat - 1)]
            ELSE [res |-> 0, pat |-> p.P]
      RL == IF prev.rres > 0 THEN [res |-> prev.rres - 1, pat |-> prev.rpat, lrk |-> prev.lrk]
            ELSE IF MaxZ(rv - v) < p.RTH THEN
                 IF prev.rpat - 1 = 0
                 THEN [res |-> p.RC, pat |-> p.RP,
                       lrk |-> IF NotNegligible(prev.lrk) THEN prev.lrk + 1 ELSE prev.lrk]
                 ELSE [res |-> 0, pat |-> prev.rpat - 1, lrk |-> prev.lrk]
            ELSE [res |-> 0, pat |-> p.RP, lrk |-> prev.lrk]
  IN CHOOSE row \in {[epoch |-> e, esres |-> es1.res, espat |-> es1.pat, rres |-> r1.res, rpat |-> r1.pat,
                       lrk |-> r1.lrk, val |-> v, trn |-> TrainOf(e, v), user |-> UserOf(e, v)] :
                      es1 \in {ES}, r1 \in {RL}} : TRUE
\* epoch inferred: one after the last epoch in the history
Update(c, v) == UpdateAt(c, Len(hist) + 1, v)

ContOf(row) == /\ (p.ne = 0 \/ row.epoch < p.ne)
               /\ ~(p.TH > 0 /\ row.espat = 0)

(***************************************************************************)
(* declarative rules, from the property text                               *)
(***************************************************************************)
ValIn(h, e) == IF e = 0 THEN INF ELSE h[e].val
ImprovedIn(h, ref, v, th) == MaxZ(ValIn(h, ref) - v) >= th        \* th = 0: always "improved"
ValAt(e) == ValIn(hist, e)
Improved(ref, v, th) == ImprovedIn(hist, ref, v, th)

\* one step of the tracker: d = tracker after the epochs before e (whose metrics are h[1..e-1].val)
DeclStep(d, h, e, v) ==
  LET inburn == e <= p.B
      esimp == ImprovedIn(h, d.esref, v, p.TH)
      rinburn == e <= p.RB
      rincool == d.rcool > 0
      rimp == ImprovedIn(h, d.rref, v, p.RTH)
      fire == ~rinburn /\ ~rincool /\ ~rimp /\ d.rcnt + 1 = p.RP
  IN [esref |-> IF inburn \/ esimp THEN e ELSE d.esref,
      escnt |-> IF inburn \/ esimp THEN 0 ELSE d.escnt + 1,
      rref  |-> IF rinburn \/ rincool \/ rimp \/ fire THEN e ELSE d.rref,
      rcnt  |-> IF rinburn \/ rincool \/ rimp \/ fire THEN 0 ELSE d.rcnt + 1,
      rcool |-> IF rinburn THEN 0 ELSE IF rincool THEN d.rcool - 1 ELSE IF fire THEN p.RC ELSE 0,
      lrk   |-> IF fire /\ NotNegligible(d.lrk) THEN d.lrk + 1 ELSE d.lrk,
      fired |-> fire]
DeclUpdate(v) == DeclStep(decl, hist, Len(hist) + 1, v)
Decl0 == [esref |-> 0, escnt |-> 0, rref |-> 0, rcnt |-> 0, rcool |-> 0, lrk |-> 0, fired |-> FALSE]
\* the tracker recomputed from nothing over the chain of epochs 1..n of h
RECURSIVE DeclOver(_, _)
DeclOver(h, n) == IF n = 0 THEN Decl0 ELSE DeclStep(DeclOver(h, n - 1), h, n, h[n].val)
DeclStop == p.TH > 0 /\ decl.escnt >= p.P

(***************************************************************************)
(* behaviour                                                               *)
(***************************************************************************)
Init ==
  /\ p \in ParamSpace
  /\ hist = <<>>
  /\ cache = FromHist(<<>>)
  /\ conts = <<>>
  /\ optlr = InitRates
  /\ ckpt = [e \in {} |-> 0]
  /\ decl = Decl0
  /\ fresh = TRUE

Stopped == Len(conts) > 0 /\ conts[Len(conts)] = FALSE

UpdateForEpoch(v) ==
  /\ Len(hist) < MaxLen /\ ~Stopped
  /\ \E row \in {Update(cache, v)} :       \* (bound through a singleton: TLC evaluates it once)
        /\ hist' = Append(hist, row)
        /\ cache' = [e \in 0..Len(hist) + 1 |-> IF e = Len(hist) + 1 THEN row ELSE cache[e]]
        /\ conts' = Append(conts, ContOf(row))
        \* for param_group in optimizer.param_groups: param_group["lr"] = new_lr  when reduced, else untouched
        /\ optlr' = IF row.lrk # cache[Len(hist)].lrk THEN AllAt(row.lrk) ELSE optlr
        \* optimizer.state_dict() (each group with the rate it holds now) saved for the epoch, if there is a directory
        /\ ckpt' = IF p.SD = 1 THEN [e \in DOMAIN ckpt \cup {row.epoch} |-> IF e = row.epoch THEN optlr' ELSE ckpt[e]]
                   ELSE ckpt
  /\ decl' = DeclUpdate(v)
  /\ fresh' = FALSE
  /\ UNCHANGED p

\* discard every Python object, construct a new controller (and model, and optimizer) on the same files, load
\* last epoch: with a state directory the optimizer gets the groups of the last checkpoint; without one nothing is
\* loaded and the new optimizer object keeps the rates it was constructed with
Restart ==
  /\ ~fresh /\ ~Stopped
  /\ cache' = FromHist(hist)
  /\ optlr' = IF Len(hist) = 0 THEN InitRates ELSE IF p.SD = 1 THEN ckpt[Len(hist)] ELSE Ctor
  /\ fresh' = TRUE
  /\ UNCHANGED <<p, hist, conts, ckpt, decl>>

Next == (\E v \in Levels : UpdateForEpoch(v)) \/ Restart
Spec == Init /\ [][Next]_vars

(***************************************************************************)
(* design invariants (C15)                                                 *)
(***************************************************************************)
LastRow == hist[Len(hist)]
\* stops exactly when the budget is reached or the declarative early-stopping rule says so
StopRule == Len(hist) > 0 =>
              (conts[Len(conts)] = FALSE <=> ((p.ne > 0 /\ Len(hist) >= p.ne) \/ DeclStop))
\* the rate is reduced exactly when the declarative criterion fires (and it is not negligible)
ReduceRule == Len(hist) > 0 => LastRow.lrk = decl.lrk
ReduceOnlyOnFire ==
  Len(hist) > 0 =>
    LET prevk == IF Len(hist) = 1 THEN 0 ELSE hist[Len(hist) - 1].lrk
    IN (LastRow.lrk # prevk) <=> (decl.fired /\ NotNegligible(prevk))
PrevK == IF Len(hist) = 1 THEN 0 ELSE hist[Len(hist) - 1].lrk
\* "writes the new rate into the optimizer": right after an update that reduced the rate every group holds it
ReductionWritten == (~fresh /\ Len(hist) > 0 /\ LastRow.lrk # PrevK) => optlr = AllAt(LastRow.lrk)
\* with a state directory, restarts or not: every group holds the recorded rate as soon as the rate was ever
\* reduced, and until then the rate it started with (configured rate given: that IS the recorded rate);
\* from the history file alone: the recorded rate, or what a new optimizer object starts with
OptimizerHasRate == Len(hist) > 0 =>
  \A g \in Groups :
     IF p.SD = 1 THEN optlr[g] = (IF LastRow.lrk > 0 THEN LastRow.lrk ELSE InitRates[g])
     ELSE optlr[g] \in {LastRow.lrk, Ctor[g], InitRates[g]}
\* "never otherwise": an update that does not reduce the rate leaves every group as it was (action property)
TouchedOnlyToReduce ==
  [][(Len(hist') = Len(hist) + 1 /\ optlr' # optlr) =>
        hist'[Len(hist')].lrk # (IF Len(hist) = 0 THEN 0 ELSE hist[Len(hist)].lrk)]_vars
\* lemma (used by TrainCtlRb): the tracker carried along equals the tracker recomputed over the whole chain
DeclIsChain == decl = DeclOver(hist, Len(hist))
\* a controller rebuilt from the files has the memory of the uninterrupted one
RestartTransparent == cache = FromHist(hist)
\* best epoch: lowest validation metric, ties to the earlier epoch, epoch 0 counts as infinity
BestOf(h) == CHOOSE b \in 0..Len(h) :
               /\ \A e \in 0..Len(h) : (IF b = 0 THEN INF ELSE h[b].val) <= (IF e = 0 THEN INF ELSE h[e].val)
               /\ \A e \in 0..Len(h) : (IF e = 0 THEN INF ELSE h[e].val) = (IF b = 0 THEN INF ELSE h[b].val) => b <= e
\* the same by the training metric (get_best_epoch(train_met=True))
BestTrnOf(h) == CHOOSE b \in 0..Len(h) :
               /\ \A x \in 0..Len(h) : (IF b = 0 THEN INF ELSE h[b].trn) <= (IF x = 0 THEN INF ELSE h[x].trn)
               /\ \A y \in 0..Len(h) : (IF y = 0 THEN INF ELSE h[y].trn) = (IF b = 0 THEN INF ELSE h[b].trn) => b <= y
TypeOK == /\ Len(conts) = Len(hist)
          /\ DOMAIN optlr = Groups /\ \A g \in Groups : optlr[g] \in Nat \cup {OwnRate(g)}
          /\ DOMAIN ckpt = IF p.SD = 1 THEN 1..Len(hist) ELSE {}
          /\ \A e \in 1..Len(hist) : hist[e].epoch = e /\ hist[e].espat \in 0..p.P /\ hist[e].rpat \in 1..p.RP
          /\ \A e \in 1..Len(hist) : hist[e].esres \in 0..p.B /\ hist[e].rres \in 0..(IF p.RB > p.RC THEN p.RB ELSE p.RC)

(***************************************************************************)
(* export: one record per maximal behaviour                                *)
(***************************************************************************)
Emit(rec) == PrintT(<<"VFJ", ToJson(rec)>>)
Terminal == Len(hist) = MaxLen \/ Stopped
Export == (Terminal /\ ~fresh) =>
             Emit([p |-> p, rows |-> hist, conts |-> conts,
                   best |-> [i \in 1..Len(hist) |-> BestOf(SubSeq(hist, 1, i))],
                   besttrn |-> [i \in 1..Len(hist) |-> BestTrnOf(SubSeq(hist, 1, i))],
                   ustr |-> [i \in 1..Len(hist) |-> UserStrOf(i, hist[i].val)]])
=============================================================================
