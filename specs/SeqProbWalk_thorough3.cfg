\* exhaustive: batch of 3 walks, 128 tables
INIT Init
NEXT Next
CONSTANTS
  V = 2
  T = 3
  D = 4
  Rows <- Rows2Small
  EosSet <- Eos2
  NB = 3
INVARIANT TypeOK
INVARIANT ChainScores
INVARIANT WalkShape
INVARIANT TerminalInSupport
INVARIANT EosPadding
INVARIANT SupportSumsToOne
CHECK_DEADLOCK FALSE
