----------------------------- MODULE DataDirMC -----------------------------
(* Model-checking instances of DataDir: constants a .cfg cannot hold. *)
EXTENDS DataDir

Utt(T, alivals, refnd, rows) ==
  [T |-> T, fdt |-> "f32", fnd |-> 2, F |-> 2,
   ali |-> [dt |-> "i64", nd |-> 1, vals |-> alivals],
   ref |-> [dt |-> "i64", nd |-> refnd, cols |-> 3, rows |-> rows]]

\* 2-D references: one full-span token; two adjacent tokens of one class; unknown + EMPTY segment
U2a == Utt(2, <<1, 1>>, 2, << <<1, 0, 2>> >>)
U3c == Utt(3, <<0, 1, 0>>, 2, << <<2, 0, 1>>, <<2, 1, 3>> >>)
U3b == Utt(3, <<1, 1, 0>>, 2, << <<0, None, None>>, <<1, 1, 1>> >>)
\* 1-D references
U2d == Utt(2, <<0, 0>>, 1, << <<1, None, None>>, <<0, None, None>> >>)
U3d == Utt(3, <<2, 0, 0>>, 1, << <<3, None, None>> >>)
U1d == Utt(1, <<0>>, 1, << <<0, None, None>> >>)

B(d, ha, hr) == [dir |-> d, hasali |-> ha, hasref |-> hr]
BasesQuick == {B(<<U2a>>, TRUE, TRUE), B(<<U2a, U3c>>, TRUE, TRUE), B(<<U2d, U3d>>, TRUE, TRUE),
               B(<<U3c, U2a>>, FALSE, TRUE), B(<<U2a, U3b>>, TRUE, FALSE)}
BasesThorough == BasesQuick \cup {B(<<U3b, U2a>>, TRUE, TRUE), B(<<U2a, U3c, U3b>>, TRUE, TRUE),
                                  B(<<U1d, U2d, U3d>>, TRUE, TRUE), B(<<U3c>>, FALSE, FALSE)}

D(i, k, j) == [id |-> i, k |-> k, j |-> j]
DefectsQuick == {D(1, "fdt", 0), D(2, "width", 0), D(3, "alilen", 1), D(4, "alilen", 2), D(5, "alishort", 0),
                 D(6, "alidt", "i32"), D(7, "alidt", "f32"), D(8, "refdt", "i32"), D(9, "refdt", "f32"),
                 D(10, "half_s", 0), D(11, "half_e", 0), D(12, "s_gt_e", 0), D(13, "e_over", 1),
                 D(14, "e_over", 2), D(15, "s_gt_T", 1), D(16, "mixed", 0), D(27, "short_over", 1)}
DefectsThorough == DefectsQuick \cup
                {D(17, "fnd", 0), D(18, "alilen", 3), D(19, "alidt", "u8"), D(20, "alidt", "i8"),
                 D(22, "alind", 0), D(23, "refdt", "i8"), D(24, "e_over", 3),
                 D(25, "s_gt_T", 2), D(26, "cols", 0), D(28, "short_over", 2)}

\* histories: strict / fix k / strict on the same directory; a fix after a (possibly failed) fix
PlansQuick == {<<None, 0, None>>, <<None, 1, None>>, <<None, 2, None>>, <<0, 2>>, <<1, 1>>}
PlansThorough == {<<None, k, None>> : k \in {0, 1, 2, 3}} \cup
                 {<<a, b, None>> : a \in {0, 1}, b \in {1, 2, 3}} \cup
                 {<<2, 0, 1>>, <<None, None, 1>>}

\* views: the start / end symbols are no token of any base (tokens are 0..3)
V(s, e, t) == [sos |-> s, eos |-> e, tokens_only |-> t]
ViewsQuick == {PlainView, V(7, 8, FALSE), V(None, 8, FALSE), V(None, None, TRUE)}
ViewsThorough == ViewsQuick \cup {V(7, None, FALSE), V(7, 8, TRUE)}
ViewPlansQuick == PlansQuick
ViewPlansThorough == {<<None, 1, None>>, <<2, 0, 1>>}
=============================================================================
