\* exhaustive over CasesQuick (see EstimatorsMC.tla): every tuple of M samples of every case
INIT Init
NEXT Next
CONSTANTS
  CaseSet <- CasesQuick
INVARIANT TypeOK
INVARIANT Normalised
INVARIANT ScoreMeanZero
INVARIANT ScoreFunctionIdentity
INVARIANT UnbiasedValue
INVARIANT UnbiasedGrad
INVARIANT TotalMass
INVARIANT PathWeight
INVARIANT MHAcceptsAll
INVARIANT MHIsPlainMean
INVARIANT Export
CHECK_DEADLOCK FALSE
