\* design check, start symbol inside the vocabulary, trigram + unigram contexts
INIT Init
NEXT FreeNext
CONSTANTS
  N = 2
  V = 2
  L = 2
  K1 = 2
  K2 = 0
  SosIn = TRUE
  Depth = 0
  InitLens = {0}
  Beta2s = {0, 1, 2, 4}
  Fault = "none"
  Scripts <- NoScripts
INVARIANT TypeOK
INVARIANT HistoryDetermined
INVARIANT StepIsDist
INVARIANT ExtractLaws
INVARIANT MixLaws
INVARIANT WindowIsLastK
INVARIANT FullIsSteps
CHECK_DEADLOCK FALSE
