\* the composition as written in argcheck.py (btwnone) must NOT equal the table (expected invariant violation)
INIT Init
NEXT Next
CONSTANTS
  Vals <- ValsQuick
  Others <- OthersQuick
  Bounds <- BoundsQuick
  Colls <- CollsQuick
  Faults <- FaultsBtwNone
  JudgeFaulty = TRUE
INVARIANT ComposedIsTable
CHECK_DEADLOCK FALSE
