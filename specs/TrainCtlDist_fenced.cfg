\* the library's rule: reads fenced by barriers; 3 ranks, 3 epochs, every interleaving
SPECIFICATION Spec
CONSTANTS
  W = 3
  E = 3
  Fenced = TRUE
INVARIANT TypeOK
INVARIANT NoTornRead
INVARIANT ReadSeesOwnEpochs
INVARIANT NoDeadlock
PROPERTY Termination
CHECK_DEADLOCK FALSE
