\* design check, thorough: 2187 parameter settings x every metric history of length <= 6 over 4 levels
INIT Init
NEXT Next
CONSTANTS
  ParamSpace <- ParamsDesign
  Levels <- L4
  MaxLen = 6
INVARIANT TypeOK
INVARIANT StopRule
INVARIANT ReduceRule
INVARIANT ReduceOnlyOnFire
INVARIANT OptimizerHasRate
INVARIANT RestartTransparent

CHECK_DEADLOCK FALSE
