\* the documented loop; every metric history over 2 levels, <= 3 epochs, 2 batches per epoch, <= 2 crashes anywhere
\* (at most one of them inside update_for_epoch); both keep modes
INIT Init
NEXT Next
CONSTANTS
  ParamSpace <- ParamsQuick
  KeepModes <- Both
  Levels <- L2
  MaxE = 3
  NBs = {2}
  MaxCrash = 2
  MaxFsCrash = 1
  InitEpochFromDisk = TRUE
INVARIANT TypeOK
INVARIANT NeverBroken
INVARIANT ResumeIsTransparent
INVARIANT MemoryIsReference
INVARIANT NoEpochTwiceNoEpochSkipped
INVARIANT LoaderEpochMatchesController
INVARIANT SameStopDecision
INVARIANT MemoryIsDisk
INVARIANT Export
CHECK_DEADLOCK TRUE
