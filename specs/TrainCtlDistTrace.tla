-------------------------- MODULE TrainCtlDistTrace --------------------------
(***************************************************************************)
(* code -> spec for the distributed use of TrainingStateController: W real  *)
(* controllers run as cooperatively scheduled threads (ThreadDist) on one    *)
(* state directory; every collective, every file-system mutation / read and  *)
(* every finished update is one event, recorded in the order it happened.    *)
(* The trace is accepted iff                                                 *)
(*   - collectives behave as collectives (nobody leaves before all entered), *)
(*   - only rank 0 ever mutates the files,                                   *)
(*   - no rank reads the history or a checkpoint while rank 0 is between the *)
(*     first mutation and the end of an update (NoTornRead of TrainCtlDist), *)
(*   - a read sees every epoch the reader itself has finished,               *)
(*   - all ranks record the same row for an epoch and load the same, best,   *)
(*     epoch at the end.                                                     *)
(***************************************************************************)
EXTENDS Naturals, Integers, Sequences, FiniteSets, TLC, Json, IOUtils, TLCExt

Traces == JsonDeserialize(IOEnv.TRACE_FILE)
INF == 100000

VARIABLES i, pos,
          entered,   \* rank -> collectives entered
          inwrite,   \* rank 0 has mutated a file since it last finished an update
          written,   \* epochs completely written by rank 0
          mine,      \* rank -> epochs finished by that rank
          rows       \* epoch -> <<info, val>> as first recorded
vars == <<i, pos, entered, inwrite, written, mine, rows>>

T == Traces[i]
Ev == T.events[pos + 1]
Ranks == 0..(T.W - 1)
Mutations == {"makedirs", "mktemp", "write", "replace", "append", "remove"}

Init == /\ i \in 1..Len(Traces) /\ pos = 0
        /\ entered = [r \in 0..7 |-> 0] /\ inwrite = FALSE /\ written = 0
        /\ mine = [r \in 0..7 |-> 0] /\ rows = <<>>

BestEpoch == CHOOSE b \in 1..Len(rows) : /\ \A x \in 1..Len(rows) : rows[b][2] <= rows[x][2]
                                          /\ \A y \in 1..Len(rows) : rows[y][2] = rows[b][2] => b <= y

Enter == /\ Ev.op \in {"all_reduce_enter", "barrier_enter"}
         /\ Ev.idx = entered[Ev.rank]                       \* collectives are entered in order
         /\ entered' = [entered EXCEPT ![Ev.rank] = @ + 1]
         /\ UNCHANGED <<inwrite, written, mine, rows>>
Exit == /\ Ev.op \in {"all_reduce_exit", "barrier_exit"}
        /\ \A q \in Ranks : entered[q] >= Ev.idx + 1        \* nobody leaves before everybody has arrived
        /\ UNCHANGED <<entered, inwrite, written, mine, rows>>
Mutate == /\ Ev.op \in Mutations
          /\ Ev.rank = 0                                    \* only rank 0 writes
          /\ inwrite' = TRUE
          /\ UNCHANGED <<entered, written, mine, rows>>
ReadOK == /\ Ev.op \in {"load", "read"}
          /\ ~inwrite                                       \* NoTornRead
          /\ written >= mine[Ev.rank]                       \* ReadSeesOwnEpochs
          /\ UNCHANGED <<entered, inwrite, written, mine, rows>>
Updated == /\ Ev.op = "updated"
           /\ Ev.e = mine[Ev.rank] + 1
           /\ IF Ev.e <= Len(rows) THEN rows[Ev.e] = <<Ev.info, Ev.val>> /\ UNCHANGED rows     \* ranks agree
              ELSE Ev.e = Len(rows) + 1 /\ rows' = Append(rows, <<Ev.info, Ev.val>>)
           /\ mine' = [mine EXCEPT ![Ev.rank] = Ev.e]
           /\ IF Ev.rank = 0 THEN written' = Ev.e /\ inwrite' = FALSE ELSE UNCHANGED <<written, inwrite>>
           /\ UNCHANGED entered
LoadedBest == /\ Ev.op = "loaded_best"
              /\ Len(rows) > 0 /\ Ev.w = BestEpoch          \* every rank ends up with the best epoch's parameters
              /\ UNCHANGED <<entered, inwrite, written, mine, rows>>
Other == /\ Ev.op \in {"constructed"}
         /\ UNCHANGED <<entered, inwrite, written, mine, rows>>

Next == /\ pos < Len(T.events)
        /\ (Enter \/ Exit \/ Mutate \/ ReadOK \/ Updated \/ LoadedBest \/ Other)
        /\ pos' = pos + 1 /\ i' = i

Emit(rec) == PrintT(<<"VFJ", ToJson(rec)>>)
\* progress of every trace (the harness takes the maximum per trace: a rejected trace stops early)
Progress == Emit([tid |-> T.tid, upto |-> pos, total |-> Len(T.events)])
=============================================================================
