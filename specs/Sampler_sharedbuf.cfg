\* EXPECTED TO FAIL.  The rejected design "one index buffer per sampler object, refilled in place by every request for an
\* order, iterators read it at their cursor" (Features "sharedbuf") with two iterators of one object alive: an iterator of
\* epoch e partially consumed, another epoch requested, the first continued - its remaining elements come from the other
\* epoch's order.  TLC must find the counterexample (the driver requires it): the order of an epoch is then NOT a function
\* of (seed, epoch) alone, so every iterator has to own the order of the (seed, epoch) it was created for (YieldAt).
INIT Init
NEXT Next
CONSTANTS
  MaxN = 3
  MaxW = 1
  ModeSet <- OneMode
  KindSet <- RandomOnly
  RandomMaxN = 3
  Seeds = {1}
  MaxEpoch = 1
  MaxOps = 1000
  Schedule = "perrank"
  Features <- SharedBufLive
VIEW View
INVARIANT TypeOK
INVARIANT PathIndependent
INVARIANT LivePrefixes
INVARIANT WellFormedLists
INVARIANT SliceOfFull
CHECK_DEADLOCK FALSE
