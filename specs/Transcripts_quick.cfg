\* exhaustive quick universe (see the module header of Transcripts.tla for the meaning of the constants)
INIT Init
NEXT Next
CONSTANTS
  Fams <- AllFams
  NTok = 2
  TrnLeaves = 3
  TrnLeavesColl = 1
  TrnDepth = 2
  TrnBranch = 2
  TrnUtts = 2
  TrnExtra <- TrnExtraNested
  CtmStarts = {0, 5, 120}
  CtmDurs = {0, 5}
  CtmStarts2 = {0, 5}
  CtmDurs2 = {5}
  CtmItems = 2
  CtmItems2 = 1
  Waves = 2
  Chans = 2
  CtmFineUnits <- CtmFineUnitsAll
  CtmFineItems = 2
  TgFirst = {0, 1240, 9870}
  TgGaps = {0, 130, 8760}
  TgDurs = {0, 260, 1120}
  TgItems = 2
  Precisions = {0, 1, 2, 3, 5}
  Base = 3
  TgUTimes <- TgUTimesQuick
  TgUItems = 2
  TgUPrecisions = {1, 3}
  TrnIdCores <- TrnIdCoresQuick
  TrnIdPad = 2
  TrnIdPadColl = 1
  TrnIdUtts = 2
  TokTimes <- TokTimesQuick
  TokItems = 2
  Shifts <- ShiftsQuick
INVARIANT TypeOK
INVARIANT TrnRoundTrip
INVARIANT TrnNoDanglingAlt
INVARIANT TrnStackBounded
INVARIANT TrnDepthBounded
INVARIANT TrnLexShape
INVARIANT TrnFirstFlat
INVARIANT CtmRoundTrip
INVARIANT CtmLinesSorted
INVARIANT CtmOrdinaryPlain
INVARIANT TgNearest
INVARIANT TgMonotone
INVARIANT TgFillAgree
INVARIANT TgFillPartition
INVARIANT TokBound
INVARIANT TrnIdRoundTrip
INVARIANT TrnIdInjective
INVARIANT TguRoundTrip
INVARIANT TguBoundsNearest
INVARIANT TguFillAgree
INVARIANT TguExtendsTg
INVARIANT Export
CHECK_DEADLOCK FALSE
