---------------------------- MODULE SamplerInd ----------------------------
(***************************************************************************)
(* C13, unbounded data-set size: the per-rank share of an epoch.           *)
(* The sampler deals positions 0, 1, 2, ... of the epoch's order to ranks  *)
(* r = position mod W, up to the effective total (N, or N - N mod W when   *)
(* dropping).  Inductive invariant (checked by Apalache for a SYMBOLIC     *)
(* position counter, i.e. for every N): after i positions have been dealt  *)
(* rank r holds exactly (i - r + W - 1) div W of them - the formula of     *)
(* AbstractEpochSampler.__len__ - and the shares add up to i (disjoint     *)
(* cover).                                                                 *)
(***************************************************************************)
EXTENDS Integers

CONSTANT
  \* @type: Int;
  W

VARIABLES
  \* @type: Int;
  i,
  \* @type: Int -> Int;
  cnt

Ranks == 0..(W - 1)
LenFormula(n, r) == (n - r + W - 1) \div W

Init ==
  /\ i = 0
  /\ cnt = [r \in Ranks |-> 0]

Next ==
  /\ i' = i + 1
  /\ cnt' = [cnt EXCEPT ![i % W] = @ + 1]

\* the inductive invariant: constrains every variable
IndInv ==
  /\ i >= 0
  /\ cnt \in [Ranks -> Int]
  /\ \A r \in Ranks : cnt[r] = LenFormula(i, r)

\* any state satisfying the invariant (Apalache: --init=IndInit --inv=IndInv --length=1)
IndInit ==
  /\ i \in Int
  /\ cnt \in [Ranks -> Int]
  /\ IndInv

\* consequences used by the specification of C13 (checked on IndInv states)
Sum4 == cnt[0] + (IF W > 1 THEN cnt[1] ELSE 0) + (IF W > 2 THEN cnt[2] ELSE 0) + (IF W > 3 THEN cnt[3] ELSE 0)
Cover == Sum4 = i
EvenWhenDivisible == (i % W = 0) => \A r \in Ranks : cnt[r] = i \div W
UnevenByOne == \A a \in Ranks, b \in Ranks : a < b => (cnt[a] - cnt[b] = 0 \/ cnt[a] - cnt[b] = 1)
Consequences == Cover /\ EvenWhenDivisible /\ UnevenByOne
=============================================================================
