\* exhaustive: V = 2 (one label + blank), 1..5 frames, rows with a zero weight
INIT Init
NEXT Next
CONSTANTS
  V = 2
  T = 5
  D = 4
  Rows <- RowsCtc2
INVARIANT GreedyIsCollapse
INVARIANT NoBlankInOutput
INVARIANT OutputNoLongerThanValid
INVARIANT Export
CHECK_DEADLOCK FALSE
