---------------------------- MODULE FeatStatsMC ----------------------------
(* Model-checking instances for FeatStatsAcc: constants a .cfg cannot hold. *)
EXTENDS FeatStatsAcc
Neg1 == -1
Frames3 == {<<0, 1>>, <<2, Neg1>>, <<3, 3>>}
Frames4 == {<<0, 1>>, <<2, Neg1>>, <<3, 3>>, <<-2, 5>>}
Frames2 == {<<1, 0>>, <<4, -3>>}
=============================================================================
