\* exhaustive: every hyp of length 1..3 over {-1,0,1,2(oov)}, every weight row per position, eos unset/0/1
INIT Init
NEXT Next
CONSTANTS
  V = 2
  T = 3
  D = 4
  Rows <- Rows2Quick
  EosSet <- Eos2
INVARIANT TypeOK
INVARIANT ScoreIsDefinition
INVARIANT PackedIsPrefixDefinition
INVARIANT PaddedPackedAgree
INVARIANT Export
CHECK_DEADLOCK FALSE
