------------------------- MODULE EstimatorsMCthorough -------------------------
(* thorough-tier case universe of Estimators *)
EXTENDS EstimatorsMC
CasesThorough ==
  {c \in BernCases(4, K4, {1, 2, 3}, {1, 2}) \cup CatCases(4, KCat4, {1, 2, 3})
         \cup BernCases(8, K8, {1, 2}, {1, 2, 3}) \cup BernCases(8, K8, {3}, {1, 2})
         \cup CatCases(8, KCat8, {1, 2}) : WellFormed(c)}
  \cup {c \in MHCases(4, {1, 2, 3, 4}) : MHWell(c)}
=============================================================================
