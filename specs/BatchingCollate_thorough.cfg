\* every batch of 1..3 utterances (feature length 1..4, reference none/0..2, alignment present or
\* not), sort on/off, every legal row order; windows with left, right in 0..3, reversed or not
INIT Init
NEXT Next
CONSTANTS
  MaxItems = 3
  MinT = 1
  MaxT = 4
  MaxR = 2
  Kinds <- AllKinds
  MaxCtx = 3
INVARIANT IdsStay
INVARIANT OneEntryPerUtterance
INVARIANT EmptyUtterancesStay
INVARIANT CutIsLossless
INVARIANT PaddingIsPad
INVARIANT OptionalParts
INVARIANT SortedWhenAsked
INVARIANT OrderKeptOtherwise
INVARIANT WindowsSplitBack
INVARIANT ExportCase
CHECK_DEADLOCK FALSE
