\* bucket machine over arbitrary parameters: every idx2bucket over <= 5 indices and 3 buckets, every
\* bucket2size in 1..3, drop on/off; all flush orders
INIT Init
NEXT Next
CONSTANTS
  MaxN = 5
  MaxB = 3
  MaxSize = 3
  MaxLen = 1
  Sources <- Direct
INVARIANT TypeOK
INVARIANT Conservation
INVARIANT ExactlyOnceOrDropped
INVARIANT SingleBucketInOrder
INVARIANT SizesAndTrailing
INVARIANT PredictedIsActual
INVARIANT LengthClasses
INVARIANT DynamicSizes
INVARIANT BatchesArePure
CHECK_DEADLOCK FALSE
INVARIANT ExportCases
