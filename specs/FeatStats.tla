------------------------------ MODULE FeatStats ------------------------------
(***************************************************************************)
(* Feature statistics of pydrobert.torch (_feats.py, _rl.py): helpers and  *)
(* exact rational arithmetic shared by the machines of property C18        *)
(*   FeatStatsAcc    - MeanVarianceNormalization.accumulate / store        *)
(*   FeatStatsDelta  - feat_deltas (composite FIR filters, edge padding)   *)
(*   FeatStatsLayout - where feat_deltas puts the delta orders             *)
(*   FeatStatsReturn - time_distributed_return                             *)
(* Data are small integers; means, variances, deltas and returns are exact *)
(* rationals <<num, den>> (den > 0) compared by cross-multiplication.      *)
(***************************************************************************)
EXTENDS Naturals, Integers, Sequences, FiniteSets, TLC, Json

RECURSIVE Pow(_, _)
Pow(b, e) == IF e = 0 THEN 1 ELSE b * Pow(b, e - 1)
MinOf(S) == CHOOSE x \in S : \A y \in S : x <= y
MaxOf(S) == CHOOSE x \in S : \A y \in S : x >= y
Abs(x) == IF x < 0 THEN -x ELSE x

\* sum of f over a finite set of integers / a finite integer interval
SumSet(S, f(_)) ==
  LET RECURSIVE G(_)
      G(R) == IF R = {} THEN 0 ELSE LET t == MinOf(R) IN f(t) + G(R \ {t})
  IN G(S)
SumRange(lo, hi, f(_)) == SumSet(lo..hi, f)

\* rationals
RECURSIVE Gcd(_, _)
Gcd(a, b) == IF b = 0 THEN a ELSE Gcd(b, a % b)
Reduce(a) == LET g == Gcd(Abs(a[1]), a[2]) IN IF g <= 1 THEN a ELSE <<a[1] \div g, a[2] \div g>>
RatEq(a, b) == a[1] * b[2] = b[1] * a[2]
RatAdd(a, b) == Reduce(<<a[1] * b[2] + b[1] * a[2], a[2] * b[2]>>)
RatMul(a, b) == Reduce(<<a[1] * b[1], a[2] * b[2]>>)
RatInt(i) == <<i, 1>>
RatOK(a) == a[2] > 0 /\ Abs(a[1]) < 1000000 /\ a[2] < 1000000     \* 32-bit guard for cross products

RECURSIVE SetToSeq(_)
SetToSeq(S) == IF S = {} THEN <<>> ELSE LET x == MinOf(S) IN <<x>> \o SetToSeq(S \ {x})
Emit(rec) == PrintT(<<"VFJ", ToJson(rec)>>)
=============================================================================
