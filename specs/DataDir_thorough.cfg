\* 9 base directories (1-3 utterances), every single defect and every pair of 25 defects, every
\* history of 12 three-pass plans (strict / fix k / strict for k = 0..3, fix a / fix b / strict, ...)
INIT Init
NEXT Next
CONSTANTS
  Bases <- BasesThorough
  DefectSet <- DefectsThorough
  MaxDefects = 2
  Plans <- PlansThorough
INVARIANT BasesAreWellFormed
INVARIANT StrictIffWellFormed
INVARIANT FixIffRepairable
INVARIANT AcceptedIsWellFormed
INVARIANT RepairIdempotent
INVARIANT InfoIsRecount
INVARIANT Export
CHECK_DEADLOCK FALSE
