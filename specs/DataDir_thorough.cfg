\* 9 base directories (1-3 utterances), every single defect and every pair of 25 defects, every
\* history of 12 three-pass plans (strict / fix k / strict for k = 0..3, fix a / fix b / strict, ...);
\* 5 more views of the data set (sos / eos / both, tokens_only, tokens_only + both) with the plans
\* strict / fix 1 / strict and fix 2 / fix 0 / fix 1
INIT Init
NEXT Next
CONSTANTS
  Bases <- BasesThorough
  DefectSet <- DefectsThorough
  MaxDefects = 2
  Plans <- PlansThorough
  Views <- ViewsThorough
  ViewPlans <- ViewPlansThorough
INVARIANT BasesAreWellFormed
INVARIANT StrictIffWellFormed
INVARIANT FixIffRepairable
INVARIANT AcceptedIsWellFormed
INVARIANT RepairIdempotent
INVARIANT InfoIsRecount
INVARIANT RepairCommutesWithView
INVARIANT UndamagedUntouched
INVARIANT Export
CHECK_DEADLOCK FALSE
