\* exhaustive: every table Hist -> {4 rows} (16384), single walk; exports the support
INIT Init
NEXT Next
CONSTANTS
  V = 2
  T = 3
  D = 4
  Rows <- Rows2More
  EosSet <- Eos2
  NB = 1
INVARIANT TypeOK
INVARIANT ChainScores
INVARIANT WalkShape
INVARIANT TerminalInSupport
INVARIANT EosPadding
INVARIANT SupportSumsToOne
INVARIANT ExportSupport
CHECK_DEADLOCK FALSE
