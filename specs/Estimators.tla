----------------------------- MODULE Estimators -----------------------------
(***************************************************************************)
(* Estimators of pydrobert.torch (_mc.py: DirectEstimator,                 *)
(* ImportanceSamplingEstimator, IndependentMetropolisHastingsEstimator;    *)
(* _enumerate_estimator.py: EnumerateEstimator) over discrete proposals    *)
(* small enough to enumerate.                                              *)
(*                                                                         *)
(* The model is a WEIGHTED SAMPLE-SPACE GRAPH: a state holds the samples   *)
(* drawn so far; each Draw edge multiplies the path weight by the exact    *)
(* rational probability of the drawn outcome under the proposal.           *)
(*                                                                         *)
(*  - declarative side: the expectation E_P[f] as a finite sum, and its    *)
(*    gradient with respect to the LOGITS obtained without any score       *)
(*    function: for independent Bernoullis E is multilinear in the p_i, so *)
(*    dE/dp_i = E[p_i:=1] - E[p_i:=0] exactly, times dp_i/dtheta_i =       *)
(*    p_i(1-p_i); for a categorical (softmax) dE/dtheta_i = p_i(f(i) - E). *)
(*  - estimator-shaped side: what each estimator returns for ONE tuple of  *)
(*    samples (value, and the gradient autograd produces from its          *)
(*    surrogate): sample mean of f - c + mu_c plus the score-function      *)
(*    term; likelihood-ratio weights with nothing flowing to the           *)
(*    proposal; full enumeration.                                          *)
(* TLC checks, for every case, that the weighted sum over ALL tuples of    *)
(* the estimator-shaped value / gradient equals the declarative            *)
(* expectation / gradient, as exact rational identities (the design of the *)
(* estimators is unbiased), that the score has mean zero (why a control    *)
(* variate keeps the mean), that edge weights are a probability            *)
(* distribution, and for independent Metropolis-Hastings with proposal =   *)
(* target that the acceptance ratio is 1 at every step, so the result is   *)
(* the plain mean of the post-burn-in draws.                               *)
(*                                                                         *)
(* Probabilities are k/D (integers), functions are integer tables, hence   *)
(* every quantity is a rational with denominator dividing a power of D.    *)
(***************************************************************************)
EXTENDS Integers, Sequences, FiniteSets, TLC, Json, RatArith

CONSTANTS CaseSet   \* set of case records, see EstimatorsMC.tla

(***************************************************************************)
(* A case:  [est  : "direct" | "directcv" | "is" | "enum" | "mh",          *)
(*           dist : "bern" (n independent binary variables) | "cat" (one   *)
(*                  categorical variable with n classes),                  *)
(*           n, D, k  : target P:  bern p_i = k[i]/D;  cat p_v = k[v]/D,   *)
(*           kq       : proposal Q, same encoding (= k unless est = "is"), *)
(*           f, c     : integer tables indexed by outcome 1..Size,         *)
(*           M        : number of Monte Carlo samples (chain length for mh)*)
(*           burn     : mh only: burn-in,   given : mh only: TRUE when the *)
(*                      initial sample is handed over instead of drawn ]   *)
(* Outcome w in 1..Size; for bern, bit i of (w - 1) is the value of b_i.   *)
(***************************************************************************)
RECURSIVE Pow(_, _)
Pow(a, e) == IF e = 0 THEN 1 ELSE a * Pow(a, e - 1)

Size(c) == IF c.dist = "bern" THEN Pow(2, c.n) ELSE c.n
Omega(c) == 1..Size(c)
Bit(w, i) == ((w - 1) \div Pow(2, i - 1)) % 2
Params(c) == 1..c.n        \* one logit per binary variable / per class

\* probability of outcome w under numerators kk
Prob(c, kk, w) ==
  IF c.dist = "bern"
  THEN QProdSeq([i \in 1..c.n |-> QMk(IF Bit(w, i) = 1 THEN kk[i] ELSE c.D - kk[i], c.D)])
  ELSE QMk(kk[w], c.D)

\* d log Prob(w) / d theta_i   (theta = logits)
Score(c, kk, w, i) ==
  IF c.dist = "bern" THEN QMk(Bit(w, i) * c.D - kk[i], c.D)
  ELSE QMk((IF w = i THEN c.D ELSE 0) - kk[i], c.D)

\* sums over the sample space are written QSumSeq([w \in 1..Size(c) |-> ...]) (no operator
\* arguments: TLC's coverage bookkeeping mishandles them)

(***************************************************************************)
(* Declarative side                                                        *)
(***************************************************************************)
Expect(c, kk, g) == QSumSeq([w \in 1..Size(c) |-> QScale(g[w], Prob(c, kk, w))])

GradDecl(c, kk, g, i) ==
  IF c.dist = "bern"
  THEN LET hi == Expect(c, [kk EXCEPT ![i] = c.D], g)     \* p_i := 1
           lo == Expect(c, [kk EXCEPT ![i] = 0], g)        \* p_i := 0
       IN QMul(QMk(kk[i] * (c.D - kk[i]), c.D * c.D), QSub(hi, lo))
  ELSE QMul(QMk(kk[i], c.D), QSub(QInt(g[i]), Expect(c, kk, g)))

(***************************************************************************)
(* State of the graph                                                      *)
(***************************************************************************)
VARIABLES cs,      \* the case
          drawn,   \* outcomes drawn from the proposal so far
          wt,      \* probability of this path (rational)
          chain,   \* mh: the chain so far (chain[1] = initial sample)
          allacc,  \* mh: every proposal so far was accepted with ratio exactly 1
          phase,   \* "new" -> "root" (the case-level identities are checked at "root", i.e. on a
                   \* successor state, so that TLC's workers evaluate them in parallel)
          pt, qt,  \* tables of the outcome probabilities under target / proposal, and
          muc      \* the control variate's mean: computed once per case by Begin
vars == <<cs, drawn, wt, chain, allacc, phase, pt, qt, muc>>

(***************************************************************************)
(* Estimator-shaped side: one tuple t (sequence of outcomes) at a time.    *)
(* (These operators read the case and its tables from the state.)          *)
(***************************************************************************)
\* integrand of the direct estimator: f, or f - c + mu_c with a control variate
H(w) == IF cs.est = "directcv" THEN QAdd(QInt(cs.f[w] - cs.c[w]), muc) ELSE QInt(cs.f[w])
Ratio(w) == QDiv(pt[w], qt[w])
Sc(w, i) == Score(cs, cs.k, w, i)

\* mean over the samples of a tuple of per-outcome terms g (a function on outcomes)
MeanOver(t, g) == QMul(QMk(1, Len(t)), QSumSeq([m \in 1..Len(t) |-> g[t[m]]]))

TupleValue(t) ==
  CASE cs.est \in {"direct", "directcv"} -> MeanOver(t, [w \in Omega(cs) |-> H(w)])
    [] cs.est = "is" -> MeanOver(t, [w \in Omega(cs) |-> QScale(cs.f[w], Ratio(w))])
    [] OTHER -> QSumSeq([w \in 1..Size(cs) |-> QScale(cs.f[w], pt[w])])      \* enumeration

\* gradient of the returned surrogate w.r.t. the TARGET's logit i
TupleGrad(t, i) ==
  CASE cs.est = "direct" -> MeanOver(t, [w \in Omega(cs) |-> QMul(H(w), Sc(w, i))])
    [] cs.est = "directcv" ->   \* ... + d mu_c / d theta_i (mu_c is a function of the logits)
         QAdd(MeanOver(t, [w \in Omega(cs) |-> QMul(H(w), Sc(w, i))]), GradDecl(cs, cs.k, cs.c, i))
    [] cs.est = "is" ->         \* nothing flows to the proposal's parameters
         MeanOver(t, [w \in Omega(cs) |-> QMul(QScale(cs.f[w], Ratio(w)), Sc(w, i))])
    [] OTHER ->                 \* enumeration: sum_w f(w) dP(w)/dtheta_i
         QSumSeq([w \in 1..Size(cs) |-> QMul(QScale(cs.f[w], pt[w]), Sc(w, i))])

\* tuples are enumerated by index: tuple number j (1..Size^M) has sample m = digit m of j - 1
NTuples == IF cs.est = "enum" THEN 1 ELSE Pow(Size(cs), cs.M)
TupleNo(j) == IF cs.est = "enum" THEN <<>>
              ELSE [m \in 1..cs.M |-> (((j - 1) \div Pow(Size(cs), m - 1)) % Size(cs)) + 1]
TupleProb(t) == QProdSeq([m \in 1..Len(t) |-> qt[t[m]]])

(***************************************************************************)
(* The graph                                                               *)
(***************************************************************************)
IsMH == cs.est = "mh"
NDraws == IF cs.est = "enum" THEN 0 ELSE IF IsMH THEN cs.M + 1 ELSE cs.M

Init == /\ cs \in CaseSet
        /\ drawn = <<>> /\ wt = QOne /\ chain = <<>> /\ allacc = TRUE /\ phase = "new"
        /\ pt = <<>> /\ qt = <<>> /\ muc = QZero

Begin == /\ phase = "new" /\ phase' = "root"
         /\ pt' = SubSeq([w \in 1..Size(cs) |-> Prob(cs, cs.k, w)], 1, Size(cs))
         /\ qt' = SubSeq([w \in 1..Size(cs) |-> Prob(cs, cs.kq, w)], 1, Size(cs))
         /\ muc' = Expect(cs, cs.k, cs.c)
         /\ UNCHANGED <<cs, drawn, wt, chain, allacc>>

\* Metropolis-Hastings acceptance ratio  min(1, P(new) Q(last) / (P(last) Q(new)))
Alpha(last, new) ==
  LET r == QDiv(QMul(pt[new], qt[last]), QMul(pt[last], qt[new]))
  IN IF QLe(QOne, r) THEN QOne ELSE r

DrawSample(w) ==
  /\ ~IsMH /\ phase = "root"
  /\ Len(drawn) < NDraws
  /\ drawn' = Append(drawn, w)
  /\ wt' = QMul(wt, qt[w])
  /\ UNCHANGED <<cs, chain, allacc, phase, pt, qt, muc>>

\* mh: first the initial sample (drawn from the proposal, or handed over: then it carries no weight)
MHInitial(w) ==
  /\ IsMH /\ drawn = <<>> /\ phase = "root"
  /\ drawn' = <<w>> /\ chain' = <<w>>
  /\ wt' = IF cs.given THEN QOne ELSE qt[w]
  /\ UNCHANGED <<cs, allacc, phase, pt, qt, muc>>
\* mh: propose w; accept iff alpha > u for a uniform u in [0,1): accepting is possible iff
\* alpha > 0, rejecting iff alpha < 1
MHPropose(w, accept) ==
  /\ IsMH /\ drawn # <<>> /\ Len(drawn) < NDraws
  /\ LET a == Alpha(chain[Len(chain)], w)
     IN /\ (accept => QLt(QZero, a)) /\ (~accept => QLt(a, QOne))
        /\ allacc' = (allacc /\ accept /\ a = QOne)
  /\ drawn' = Append(drawn, w)
  /\ chain' = Append(chain, IF accept THEN w ELSE chain[Len(chain)])
  /\ wt' = QMul(wt, qt[w])
  /\ UNCHANGED <<cs, phase, pt, qt, muc>>

DrawAny == \E w \in Omega(cs) : DrawSample(w)
MHInitialAny == \E w \in Omega(cs) : MHInitial(w)
MHProposeAny == \E w \in Omega(cs), a \in BOOLEAN : MHPropose(w, a)
Next == Begin \/ DrawAny \/ MHInitialAny \/ MHProposeAny
Spec == Init /\ [][Next]_vars

Terminal == phase = "root" /\ Len(drawn) = NDraws

\* mh result: mean of f over chain positions burn+1 .. M (chain[1] is the initial sample)
MHResult == LET kept == [j \in 1..(cs.M - cs.burn) |-> QInt(cs.f[chain[1 + cs.burn + j]])]
            IN QMul(QMk(1, cs.M - cs.burn), QSumSeq(kept))
\* ... which is the plain average of the post-burn-in DRAWS when every step accepted
MHPlainMean == LET kept == [j \in 1..(cs.M - cs.burn) |-> QInt(cs.f[drawn[1 + cs.burn + j]])]
               IN QMul(QMk(1, cs.M - cs.burn), QSumSeq(kept))

(***************************************************************************)
(* Design invariants                                                       *)
(***************************************************************************)
AtRoot == phase = "root" /\ drawn = <<>>
TypeOK == /\ IsQ(wt) /\ Len(drawn) <= NDraws
          /\ cs.dist = "cat" => QSumSeq([v \in 1..cs.n |-> QMk(cs.k[v], cs.D)]) = QOne
\* the edges leaving a state carry a probability distribution
Normalised == AtRoot => QSumSeq(qt) = QOne /\ QSumSeq(pt) = QOne
\* E[d log P / d theta_i] = 0: subtracting c and adding mu_c does not move the mean
ScoreMeanZero == AtRoot => \A i \in Params(cs) :
  QSumSeq([w \in 1..Size(cs) |-> QMul(pt[w], Sc(w, i))]) = QZero
\* the score-function identity itself
ScoreFunctionIdentity == AtRoot => \A i \in Params(cs) :
  QSumSeq([w \in 1..Size(cs) |-> QMul(QScale(cs.f[w], pt[w]), Sc(w, i))]) = GradDecl(cs, cs.k, cs.f, i)
\* unbiasedness of each estimator's design, value and gradient, over the whole sample space
UnbiasedValue == (AtRoot /\ ~IsMH) =>
  QSumSeq([j \in 1..NTuples |-> QMul(TupleProb(TupleNo(j)), TupleValue(TupleNo(j)))])
    = Expect(cs, cs.k, cs.f)
UnbiasedGrad == (AtRoot /\ ~IsMH) => \A i \in Params(cs) :
  QSumSeq([j \in 1..NTuples |-> QMul(TupleProb(TupleNo(j)), TupleGrad(TupleNo(j), i))])
    = GradDecl(cs, cs.k, cs.f, i)
\* path weights: the terminal states of a case carry total mass one; the numbering is a bijection
TotalMass == (AtRoot /\ ~IsMH) =>
  /\ QSumSeq([j \in 1..NTuples |-> TupleProb(TupleNo(j))]) = QOne
  /\ Cardinality({TupleNo(j) : j \in 1..NTuples}) = NTuples
PathWeight == (phase = "root" /\ ~IsMH) => wt = TupleProb(drawn)
\* independent MH with proposal = target accepts everything and returns the plain mean
MHAcceptsAll == (IsMH /\ cs.k = cs.kq) => (allacc /\ chain = drawn)
MHIsPlainMean == (IsMH /\ cs.k = cs.kq /\ Terminal) => MHResult = MHPlainMean

(***************************************************************************)
(* Export: one record per case (root) and one per terminal state           *)
(***************************************************************************)
Emit(rec) == PrintT(<<"VFJ", ToJson(rec)>>)
Export ==
  /\ AtRoot => Emit([kind |-> "case", cs |-> cs,
                     E |-> Expect(cs, cs.k, cs.f),
                     G |-> [i \in 1..cs.n |-> GradDecl(cs, cs.k, cs.f, i)],
                     muc |-> muc, ntuples |-> NTuples])
  /\ (Terminal /\ ~IsMH) => Emit([kind |-> "tuple", cs |-> cs, t |-> drawn, w |-> wt,
                                  v |-> TupleValue(drawn),
                                  g |-> [i \in 1..cs.n |-> TupleGrad(drawn, i)]])
  /\ (Terminal /\ IsMH) => Emit([kind |-> "mh", cs |-> cs, t |-> drawn, w |-> wt,
                                 v |-> MHResult, allacc |-> allacc])
=============================================================================
