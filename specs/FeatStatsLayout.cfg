\* exhaustive: every (time_dim, dim, concatenate) of a 3-D input, negative forms included
INIT Init
NEXT Next
INVARIANT LayoutIsDocumented
INVARIANT RestoredInPlace
INVARIANT Export
CHECK_DEADLOCK FALSE
