-------------------------- MODULE FeatStatsDeltaMC --------------------------
EXTENDS FeatStatsDelta
Neg2 == -2
ValsQ == {0, 1, 3}
ValsT == {Neg2, 1, 3}
AllPads == {"replicate", "constant", "reflect", "circular"}
CValsQ == {0, 2}
=============================================================================
