----------------------------- MODULE WorkerPool -----------------------------
(***************************************************************************)
(* The scheduler of a multiprocessing.Pool as used by pydrobert.torch:     *)
(*   _parsing.py::read_trn_iter      torch.multiprocessing.Pool(p).imap     *)
(*   command_line.py::_multiprocessor_pattern_generator                     *)
(*          torch.multiprocessing.get_context("spawn").Pool(...)            *)
(*                                             .imap_unordered              *)
(*                                                                         *)
(* n items are cut into chunks of c consecutive items (the last one may be *)
(* shorter); W workers repeatedly Take the next chunk off the queue and    *)
(* later Finish it; the parent Delivers finished chunks to the consumer    *)
(* under one of two disciplines:                                           *)
(*   "ordered"   (imap): only the next chunk in task order may be          *)
(*               delivered (reorder buffer);                               *)
(*   "unordered" (imap_unordered): any finished chunk may be delivered.    *)
(* Result(i) of an item is abstract (the item number itself); the test     *)
(* double vf/doubles/fakepool.py replays the behaviours of this module and *)
(* obtains Result(i) by calling the library's real per-item function.      *)
(*                                                                         *)
(* Checked by TLC for EVERY interleaving:                                  *)
(*   OrderedOK    ordered discipline delivers the items in task order      *)
(*   UnorderedOK  unordered discipline delivers a permutation of the items *)
(*   (driver)     some unordered behaviour really is out of order, i.e. a  *)
(*                switch from imap to imap_unordered is observable         *)
(***************************************************************************)
EXTENDS Naturals, Sequences, FiniteSets, TLC, Json

CONSTANTS Ns,        \* set of item counts
          Cs,        \* set of chunk sizes
          Ws,        \* set of worker counts
          Modes,     \* subset of {"ordered", "unordered"}
          KeepHist   \* TRUE: record the event history (every behaviour is then a distinct state)

VARIABLES n, c, W, mode,   \* the case (fixed by Init)
          queue,           \* chunk numbers not yet taken, in task order
          busy,            \* worker -> chunk number or 0
          done,            \* set of finished chunks
          deliv,           \* chunk numbers in delivery order
          hist             \* events <<kind, chunk>> (workers are interchangeable: not recorded)
vars == <<n, c, W, mode, queue, busy, done, deliv, hist>>

NChunks(nn, cc) == (nn + cc - 1) \div cc
ChunkItems(k) == [i \in 1..(IF k * c <= n THEN c ELSE n - (k - 1) * c) |-> (k - 1) * c + i]
RECURSIVE Flat(_)
Flat(ks) == IF ks = <<>> THEN <<>> ELSE ChunkItems(Head(ks)) \o Flat(Tail(ks))
Out == Flat(deliv)         \* what the consumer of the iterator has seen so far

Log(e) == IF KeepHist THEN Append(hist, e) ELSE hist

Init ==
  /\ n \in Ns /\ c \in Cs /\ W \in Ws /\ mode \in Modes
  /\ queue = [k \in 1..NChunks(n, c) |-> k]
  /\ busy = [w \in 1..W |-> 0]
  /\ done = {}
  /\ deliv = <<>>
  /\ hist = <<>>

Take(w) ==
  /\ queue # <<>> /\ busy[w] = 0
  /\ busy' = [busy EXCEPT ![w] = Head(queue)]
  /\ queue' = Tail(queue)
  /\ hist' = Log(<<"take", Head(queue)>>)
  /\ UNCHANGED <<n, c, W, mode, done, deliv>>

Finish(w) ==
  /\ busy[w] # 0
  /\ done' = done \cup {busy[w]}
  /\ busy' = [busy EXCEPT ![w] = 0]
  /\ hist' = Log(<<"finish", busy[w]>>)
  /\ UNCHANGED <<n, c, W, mode, queue, deliv>>

Delivered == {deliv[i] : i \in 1..Len(deliv)}

DeliverOrdered ==
  /\ mode = "ordered"
  /\ (Len(deliv) + 1) \in done
  /\ deliv' = Append(deliv, Len(deliv) + 1)
  /\ hist' = Log(<<"deliver", Len(deliv) + 1>>)
  /\ UNCHANGED <<n, c, W, mode, queue, busy, done>>

DeliverUnordered ==
  /\ mode = "unordered"
  /\ \E k \in done \ Delivered :
        /\ deliv' = Append(deliv, k)
        /\ hist' = Log(<<"deliver", k>>)
  /\ UNCHANGED <<n, c, W, mode, queue, busy, done>>

TakeAny == \E w \in 1..W : Take(w)
FinishAny == \E w \in 1..W : Finish(w)
Next == TakeAny \/ FinishAny \/ DeliverOrdered \/ DeliverUnordered
Spec == Init /\ [][Next]_vars

\* workers are interchangeable: states that differ only in WHICH worker holds a chunk have the
\* same futures and the same history; the schedule-export configs identify them
InFlight == {busy[w] : w \in 1..W} \ {0}
Idle == Cardinality({w \in 1..W : busy[w] = 0})
AnonView == <<n, c, W, mode, queue, InFlight, Idle, done, deliv, hist>>

Terminated == Len(deliv) = NChunks(n, c)

(***************************************************************************)
(* Design invariants                                                       *)
(***************************************************************************)
TypeOK ==
  /\ \A w \in 1..W : busy[w] \in 0..NChunks(n, c)
  /\ done \subseteq 1..NChunks(n, c)
  /\ Delivered \subseteq done
  /\ Len(deliv) = Cardinality(Delivered)                  \* nothing delivered twice
  /\ \A w1, w2 \in 1..W : (w1 # w2 /\ busy[w1] # 0) => busy[w1] # busy[w2]   \* no chunk on two workers

OrderedOK == (mode = "ordered" /\ Terminated) => Out = [i \in 1..n |-> i]
\* ... and even before termination the consumer has seen a prefix of the task order
OrderedPrefix == mode = "ordered" => Out = [i \in 1..Len(Out) |-> i]
UnorderedOK ==
  (mode = "unordered" /\ Terminated) =>
     /\ Len(Out) = n
     /\ {Out[i] : i \in 1..n} = 1..n
\* a worker pool never leaves work behind: no deadlock before everything is delivered
Progress == ~Terminated => ENABLED Next

(***************************************************************************)
(* Export: one record per complete behaviour (KeepHist = TRUE)             *)
(***************************************************************************)
Emit(rec) == PrintT(<<"VFJ", ToJson(rec)>>)
Export ==
  (KeepHist /\ Terminated) =>
     Emit([n |-> n, c |-> c, W |-> W, mode |-> mode, nchunks |-> NChunks(n, c),
           events |-> hist, deliv |-> deliv, out |-> Out])
=============================================================================
