\* batched validation of implementation traces (run with -workers 1, TRACE_FILE / PROGRESS in the environment)
INIT TInit
NEXT TNext
CONSTANTS
  MaxN = 5
  ZVals <- ZTrace
  Dists = {"bern", "cat"}
INVARIANT Accept
INVARIANT Progress
POSTCONDITION Post
CHECK_DEADLOCK FALSE
