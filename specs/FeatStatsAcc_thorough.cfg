\* exhaustive: 1..4 frames over 4 frame values x every ordered partition
INIT Init
NEXT Next
CONSTANTS
  FrameVals <- Frames4
  MaxN = 4
  C = 2
INVARIANT AccIsPooled
INVARIANT StoreIsPooled
INVARIANT Normalised
INVARIANT ChunksPartition
INVARIANT Export
CHECK_DEADLOCK FALSE
