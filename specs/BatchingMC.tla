----------------------------- MODULE BatchingMC -----------------------------
(* Model-checking instances of Batching: constants a .cfg cannot hold. *)
EXTENDS Batching
Direct == {"direct"}
Lengths == {"lengths"}
Both == {"direct", "lengths"}
LengthsZero == {"lengths", "zero"}
=============================================================================
