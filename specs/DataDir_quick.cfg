\* 5 base directories (1-2 utterances, 1-D / 2-D references, without ali/ or ref/), every single
\* defect and every pair of 16 defects, histories strict / fix k / strict (k = 0, 1, 2), fix 0 / fix 2,
\* fix 1 / fix 1; all of it also through a data set with sos + eos, with eos only, with tokens_only
INIT Init
NEXT Next
CONSTANTS
  Bases <- BasesQuick
  DefectSet <- DefectsQuick
  MaxDefects = 2
  Plans <- PlansQuick
  Views <- ViewsQuick
  ViewPlans <- ViewPlansQuick
INVARIANT BasesAreWellFormed
INVARIANT StrictIffWellFormed
INVARIANT FixIffRepairable
INVARIANT AcceptedIsWellFormed
INVARIANT RepairIdempotent
INVARIANT InfoIsRecount
INVARIANT RepairCommutesWithView
INVARIANT UndamagedUntouched
INVARIANT Export
CHECK_DEADLOCK FALSE
