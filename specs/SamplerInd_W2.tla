---- MODULE SamplerInd_W2 ----
EXTENDS Integers
VARIABLES
  \* @type: Int;
  i,
  \* @type: Int -> Int;
  cnt
INSTANCE SamplerInd WITH W <- 2
====
