------------------------------ MODULE TrainCtlOpt ------------------------------
(***************************************************************************)
(* TrainCtl with the LIFE OF THE OPTIMIZER OBJECT written down (C15: "it    *)
(* multiplies the learning rate by the factor exactly when the reduction    *)
(* criterion fires ..., never otherwise, and writes the new rate into the   *)
(* optimizer").                                                             *)
(*                                                                         *)
(* The optimizer has several parameter groups, each with a rate of its own  *)
(* (TrainCtl!optlr).  An optimizer OBJECT lives from its construction (at   *)
(* the start, or at a restart: every Python object discarded, new ones made *)
(* on the same files) to the next restart.  `olog` records, in order, each  *)
(* start (after which epoch; the group rates once the controller's load     *)
(* call has returned) and each update (the group rates when                 *)
(* update_for_epoch has returned).                                          *)
(*                                                                         *)
(* Declarative reading, checked against the code-shaped actions of          *)
(* TrainCtl for every set-up (configured initial rate or the optimizer's    *)
(* default; a group constructed with its own rate; state directory or the   *)
(* history file alone), every metric history and restarts anywhere:         *)
(*   StartsAsPromised  a started optimizer holds what the documentation     *)
(*                     promises: the configured rate / its constructor      *)
(*                     rates at the very start; with a state directory the  *)
(*                     rates it held when the last epoch's states were      *)
(*                     saved; without one its constructor rates             *)
(*   FollowsReductions every group holds the rate recorded in the history   *)
(*                     as soon as a reduction fired (non-negligibly) in the *)
(*                     object's life, and until then what it started with   *)
(* Each maximal behaviour is exported with its log and replayed on the real *)
(* controller with a two-group optimizer (vf/props/c15.py).                 *)
(***************************************************************************)
EXTENDS TrainCtlMC

VARIABLE olog
ovars == <<p, hist, cache, conts, optlr, ckpt, decl, fresh, olog>>

OInit == Init /\ olog = << [op |-> "start", e |-> 0, lrs |-> optlr] >>
OUpdate(v) == UpdateForEpoch(v) /\ olog' = Append(olog, [op |-> "update", e |-> Len(hist'), lrs |-> optlr'])
ORestart == Restart /\ olog' = Append(olog, [op |-> "start", e |-> Len(hist), lrs |-> optlr'])
ONext == (\E v \in Levels : OUpdate(v)) \/ ORestart
OSpec == OInit /\ [][ONext]_ovars

(***************************************************************************)
(* declarative                                                             *)
(***************************************************************************)
\* the group rates the optimizer held when the states of epoch e were saved: those of the latest update of e
SavedWith(l, e) == l[CHOOSE i \in 1..Len(l) : l[i].op = "update" /\ l[i].e = e
                                                /\ \A j \in (i + 1)..Len(l) : ~(l[j].op = "update" /\ l[j].e = e)].lrs
\* what an optimizer started after epoch e holds, the log so far being l
Promised(l, e) == IF e = 0 THEN InitRates
                  ELSE IF p.SD = 1 THEN SavedWith(l, e)
                  ELSE Ctor
StartsAsPromised == \A i \in 1..Len(olog) :
                      olog[i].op = "start" => olog[i].lrs = Promised(SubSeq(olog, 1, i - 1), olog[i].e)
Birth == olog[CHOOSE i \in 1..Len(olog) : olog[i].op = "start" /\ \A j \in (i + 1)..Len(olog) : olog[j].op # "start"]
ReducedAt(e) == hist[e].lrk # (IF e = 1 THEN 0 ELSE hist[e - 1].lrk)
FollowsReductions == optlr = IF \E e \in (Birth.e + 1)..Len(hist) : ReducedAt(e)
                             THEN AllAt(hist[Len(hist)].lrk) ELSE Birth.lrs
\* the log is the optimizer's
LogIsCurrent == olog[Len(olog)].lrs = optlr /\ olog[Len(olog)].e = Len(hist)

(***************************************************************************)
(* export: one record per maximal behaviour, restarts included              *)
(***************************************************************************)
OExport == (Terminal /\ ~fresh) =>
             Emit([p |-> p, rows |-> hist, conts |-> conts,
                   best |-> [i \in 1..Len(hist) |-> BestOf(SubSeq(hist, 1, i))],
                   besttrn |-> [i \in 1..Len(hist) |-> BestTrnOf(SubSeq(hist, 1, i))],
                   ustr |-> [i \in 1..Len(hist) |-> UserStrOf(i, hist[i].val)],
                   olog |-> olog])
=============================================================================
