\* length-bucketed loaders over data with utterances that have NO frames / tokens: every length vector over
\* <= 5 utterances with lengths 0..3 holding at least one 0, 1..3 requested buckets, batch size 1..3, fixed
\* sizes (the dynamic size of a class of empty utterances is undefined), drop on/off; all flush orders
INIT Init
NEXT Next
CONSTANTS
  MaxN = 5
  MaxB = 3
  MaxSize = 3
  MaxLen = 3
  Sources <- LengthsZero
INVARIANT TypeOK
INVARIANT Conservation
INVARIANT ExactlyOnceOrDropped
INVARIANT SingleBucketInOrder
INVARIANT SizesAndTrailing
INVARIANT PredictedIsActual
INVARIANT LengthClasses
INVARIANT DynamicSizes
INVARIANT BatchesArePure
CHECK_DEADLOCK FALSE
INVARIANT ExportCases
INVARIANT ExportDone
