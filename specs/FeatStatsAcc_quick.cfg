\* exhaustive: 1..4 frames over 3 frame values x every ordered partition (chunking and order of accumulate calls)
INIT Init
NEXT Next
CONSTANTS
  FrameVals <- Frames3
  MaxN = 4
  C = 2
INVARIANT AccIsPooled
INVARIANT StoreIsPooled
INVARIANT Normalised
INVARIANT ChunksPartition
INVARIANT Export
CHECK_DEADLOCK FALSE
