---------------------------- MODULE RelaxedTrace ----------------------------
(***************************************************************************)
(* code -> spec: batched validation of what the real LogisticBernoulli /   *)
(* GumbelOneHotCategorical do against Relaxed.tla.  One trace = one        *)
(* distribution object and a sequence of events, one per method call:      *)
(*   rsample  {thr, finite}            z = dist.rsample();  thr = H(z)     *)
(*   set      {thr, finite}            z supplied by the harness (a grid   *)
(*                                     value: any real vector is a possible*)
(*                                     relaxed sample)                     *)
(*   csample  {b, thr, finite}         z = dist.csample(b); thr = H(z)     *)
(*   eval     {b, inf, lp, tlp, clp}   clog_prob(z, b) for the current z   *)
(*                                     (inf = it is -infinity), log_prob(z)*)
(*                                     tlog_prob(H(z)), quantised to 1e-6  *)
(* Sampling events also carry zq, the abstract image of the relaxed value  *)
(* (signs for bern, dense ranks for cat - all H may depend on); the trace  *)
(* spec binds z to it and requires the implementation's threshold to be    *)
(* H(z), so a wrong threshold function is rejected too.                    *)
(* Each event is consumed through the ORIGINAL action of Relaxed; the      *)
(* design invariants are part of the step relation.                        *)
(***************************************************************************)
EXTENDS Relaxed, IOUtils, TLCExt

Traces == JsonDeserialize(IOEnv.TRACE_FILE)
Tol == 3      \* three values rounded to the nearest unit: at most 1.5 units apart, plus float error

VARIABLES ti, pos, okv
tvars == <<vars, ti, pos, okv>>
Events == Traces[ti].events
Diag == IOEnv.PROGRESS = "1"

Bits(s) == [j \in 1..Len(s) |-> s[j]]
AllInv == TypeOK /\ ThresholdInSupport /\ SampleThresholdsBack /\ ExactlyOneBranch
FailedInvs ==
  (IF TypeOK THEN {} ELSE {"TypeOK"})
  \cup (IF ThresholdInSupport THEN {} ELSE {"ThresholdInSupport"})
  \cup (IF SampleThresholdsBack THEN {} ELSE {"SampleThresholdsBack"})
  \cup (IF ExactlyOneBranch THEN {} ELSE {"ExactlyOneBranch"})
  \cup (IF okv THEN {} ELSE {"DensityFactorises"})

TInit ==
  \E i \in 1..Len(Traces) :
    /\ ti = i /\ pos = 0 /\ okv = TRUE
    /\ dist = Traces[i].dist /\ n = Traces[i].n
    /\ z = [j \in 1..n |-> 0] /\ b = Thr(dist, z, n) /\ phase = "r"

\* the documented case split of clog_prob and the factorisation, for the CURRENT z and conditioning value
DensityFactorises(e) ==
  IF CondFinite(dist, z', b', n)
  THEN ~e.inf /\ FactorOK(e.lp, e.tlp, e.clp, Tol)
  ELSE e.inf

\* the abstract relaxed value logged with a sampling event: signs (bern) / dense ranks (cat); the
\* implementation's threshold of it must be H of it
Observed(e) ==
  /\ e.finite /\ Len(e.zq) = n /\ Len(e.thr) = n
  /\ Bits(e.zq) \in Vecs(n, ZVals)
  /\ Thr(dist, Bits(e.zq), n) = Bits(e.thr)

TNext ==
  /\ pos < Len(Events) /\ FailedInvs = {}
  /\ pos' = pos + 1 /\ ti' = ti
  /\ LET e == Events[pos + 1]
     IN CASE e.a \in {"rsample", "set"} ->
               /\ Observed(e)
               /\ z' = Bits(e.zq) /\ RSample /\ okv' = TRUE    \* z' bound first: the action then only TESTS it
          [] e.a = "csample" ->
               /\ Observed(e)
               /\ (Diag \/ Bits(e.thr) = Bits(e.b))
               /\ IF Bits(e.thr) = Bits(e.b)
                  THEN z' = Bits(e.zq) /\ CSample(Bits(e.b))
                  ELSE \* diagnosis run only: step into the state the implementation reached
                       /\ z' = Bits(e.zq) /\ b' = Bits(e.b) /\ phase' = "c"
                       /\ UNCHANGED <<dist, n>>
               /\ okv' = TRUE
          [] e.a = "eval" ->
               /\ ~e.bad
               /\ Recondition(Bits(e.b))
               /\ okv' = DensityFactorises(e)
               /\ (Diag \/ okv')
  /\ (Diag \/ AllInv')

Emit2(rec) == PrintT(<<"VFJ", ToJson(rec)>>)
Accept ==
  (pos = Len(Events) /\ FailedInvs = {}) =>
     /\ TLCSet(1, TLCGet(1) + 1)
     /\ Emit2([what |-> "accepted", tid |-> Traces[ti].tid])
Progress ==
  Diag => Emit2([what |-> "progress", tid |-> Traces[ti].tid, pos |-> pos, failed |-> FailedInvs])
ASSUME TLCSet(1, 0)
Post == TLCGet(1) = Len(Traces)
=============================================================================
