-------------------------- MODULE BatchingCollate --------------------------
(***************************************************************************)
(* Collation in pydrobert.torch (_dataloaders.py: spect_seq_to_batch,      *)
(* lang_seq_to_batch, context_window_seq_to_batch; _datasets.py:           *)
(* extract_window).                                                        *)
(*                                                                         *)
(* An utterance u (ids 1, 2, ...) has T feature frames, optionally a       *)
(* per-frame alignment, optionally a reference of R tokens (R = -1: none). *)
(* T = 0 (a feature file of shape (0, F), hence an empty alignment and no  *)
(* context window at all) and R = 0 (an empty transcript) are legal data:  *)
(* such an utterance contributes NO value to the padded / concatenated     *)
(* tensors, and still it is one of the N utterances of the batch - it      *)
(* keeps its row (all padding), its size entry 0 and its id                *)
(* (OneEntryPerUtterance, EmptyUtterancesStay).                            *)
(* Provenance is readable from every value: frame t of u is 100 u + t,     *)
(* token r of u is 100 u + r; 0 is the abstract padding value (the harness *)
(* maps the real padding constants to it, and F filters / (R, 3) rows to   *)
(* one value after checking that they agree).                              *)
(*                                                                         *)
(* Code-shaped: Out(ord) - sort (any order with non-increasing key; ties   *)
(* are left open), zip, pad every row on the right up to the longest one / *)
(* concatenate windows.  Declarative: the invariants - cutting every row   *)
(* back to its reported size returns the utterance the row's id names,     *)
(* every cell beyond the size is padding, ids are a permutation of the     *)
(* input's, optional parts are absent exactly when some utterance lacks    *)
(* them; a context window is the clamped index range (edge replication).   *)
(***************************************************************************)
EXTENDS Naturals, Integers, Sequences, FiniteSets, TLC, Json

CONSTANTS MaxItems,   \* batch of 1..MaxItems utterances
          MinT,       \* 1, or 0: the batches holding AT LEAST ONE utterance without frames (the others
                      \* are the MinT = 1 configurations'); kinds "spect" / "window" (a "lang" item has no frames)
          MaxT,       \* feature lengths MinT..MaxT
          MaxR,       \* reference lengths -1 (none), 0..MaxR
          Kinds,      \* subset of {"spect", "lang", "window"}
          MaxCtx      \* context: left, right in 0..MaxCtx

VARIABLES kind, items, sort, left, right, rev, out, done
vars == <<kind, items, sort, left, right, rev, out, done>>

Val(u, j) == 100 * u + j
Pad == 0
MaxOf(S) == CHOOSE x \in S : \A y \in S : x >= y
Perms(m) == {f \in [1..m -> 1..m] : \A a, b \in 1..m : a # b => f[a] # f[b]}
RECURSIVE Flatten(_)
Flatten(ss) == IF ss = <<>> THEN <<>> ELSE Head(ss) \o Flatten(Tail(ss))

(***************************************************************************)
(* extract_window(feat, frame_idx, left, right, reverse): frame indices    *)
(* (0-based) of the window around the centre frame c of a T-frame matrix.  *)
(***************************************************************************)
\* declarative: "any frames below zero / above T are edge-padded"
Clamp(x, T) == IF x < 0 THEN 0 ELSE IF x > T - 1 THEN T - 1 ELSE x
WindowDecl(T, c, l, r, rv) ==
  LET w == [j \in 1..(1 + l + r) |-> Clamp(c - l + j - 1, T)]
  IN IF rv THEN [j \in 1..(1 + l + r) |-> w[2 + l + r - j]] ELSE w
\* code-shaped: the slice, left_pad copies of frame 0, right_pad copies of frame T-1
WindowCode(T, c, l, r, rv) ==
  LET ws == 1 + l + r
      lp == IF l - c > 0 THEN l - c ELSE 0
      rp == IF c + r + 1 - T > 0 THEN c + r + 1 - T ELSE 0
      lo == IF c - l > 0 THEN c - l ELSE 0
      w == IF c - l < 0 \/ c + r + 1 > T
           THEN [j \in 1..ws |-> IF j <= lp THEN 0
                                 ELSE IF j > ws - rp THEN T - 1
                                 ELSE lo + (j - lp - 1)]
           ELSE [j \in 1..ws |-> c - l + j - 1]
  IN IF rv THEN [j \in 1..ws |-> w[ws + 1 - j]] ELSE w
WindowAgrees ==
  \A T \in 1..(MaxT + 1), l \in 0..MaxCtx, r \in 0..MaxCtx, rv \in BOOLEAN :
     \A c \in 0..(T - 1) : WindowCode(T, c, l, r, rv) = WindowDecl(T, c, l, r, rv)

(***************************************************************************)
(* Collation                                                               *)
(***************************************************************************)
N == Len(items)
Feat(it) == [t \in 1..it.T |-> Val(it.id, t)]
Ali(it) == [t \in 1..it.T |-> Val(it.id, t)]
Ref(it) == [r \in 1..it.R |-> Val(it.id, r)]
PadTo(s, m) == [j \in 1..m |-> IF j <= Len(s) THEN s[j] ELSE Pad]
Wins(it) == [c \in 1..it.T |->
               LET w == WindowCode(it.T, c - 1, left, right, rev)
               IN [j \in 1..Len(w) |-> Val(it.id, w[j] + 1)]]

SortKey(it) == IF kind = "lang" THEN it.R ELSE it.T
Legal(ord) == IF sort THEN \A a \in 1..(N - 1) : SortKey(items[ord[a]]) >= SortKey(items[ord[a + 1]])
              ELSE \A a \in 1..N : ord[a] = a
AllAli == \A a \in 1..N : items[a].A
AllRef == \A a \in 1..N : items[a].R >= 0

Out(ord) ==
  LET row(a) == items[ord[a]]
      ids == [a \in 1..N |-> row(a).id]
  IN IF kind = "window"
     THEN [ids |-> ids,
           wsz |-> [a \in 1..N |-> row(a).T],
           wins |-> Flatten([a \in 1..N |-> Wins(row(a))]),
           hasali |-> AllAli,
           alis |-> IF AllAli THEN Flatten([a \in 1..N |-> Ali(row(a))]) ELSE <<>>]
     ELSE IF kind = "lang"
     THEN LET mr == MaxOf({items[a].R : a \in 1..N})
          IN [ids |-> ids,
              rsz |-> [a \in 1..N |-> row(a).R],
              refs |-> [a \in 1..N |-> PadTo(Ref(row(a)), mr)]]
     ELSE LET mt == MaxOf({items[a].T : a \in 1..N})
              mr == MaxOf({items[a].R : a \in 1..N})
          IN [ids |-> ids,
              fsz |-> [a \in 1..N |-> row(a).T],
              feats |-> [a \in 1..N |-> PadTo(Feat(row(a)), mt)],
              hasali |-> AllAli,
              alis |-> IF AllAli THEN [a \in 1..N |-> PadTo(Ali(row(a)), mt)] ELSE <<>>,
              hasref |-> AllRef,
              rsz |-> IF AllRef THEN [a \in 1..N |-> row(a).R] ELSE <<>>,
              refs |-> IF AllRef THEN [a \in 1..N |-> PadTo(Ref(row(a)), mr)] ELSE <<>>]

Collate ==
  /\ ~done /\ kind # "wtable"
  /\ \E ord \in Perms(N) : Legal(ord) /\ out' = Out(ord)
  /\ done' = TRUE
  /\ UNCHANGED <<kind, items, sort, left, right, rev>>

ItemSpace(k) ==
  IF k = "lang" THEN [T : {1}, R : 0..MaxR, A : {FALSE}]
  ELSE IF k = "window" THEN [T : MinT..MaxT, R : {0 - 1}, A : BOOLEAN]
  ELSE [T : MinT..MaxT, R : (0 - 1)..MaxR, A : BOOLEAN]
Init ==
  /\ kind \in Kinds
  /\ \E m \in (IF kind = "wtable" THEN {0} ELSE 1..MaxItems) :
       \E raw \in [1..m -> ItemSpace(kind)] :
          /\ items = [a \in 1..m |-> [id |-> a, T |-> raw[a].T, R |-> raw[a].R, A |-> raw[a].A]]
          /\ (MinT = 0 => \E a \in 1..m : raw[a].T = 0)
  /\ sort \in (IF kind = "window" THEN {FALSE} ELSE BOOLEAN)
  /\ left \in (IF kind = "window" THEN 0..MaxCtx ELSE {0})
  /\ right \in (IF kind = "window" THEN 0..MaxCtx ELSE {0})
  /\ rev \in (IF kind = "window" THEN BOOLEAN ELSE {FALSE})
  /\ out = <<>> /\ done = FALSE
Next == Collate
Spec == Init /\ [][Next]_vars

(***************************************************************************)
(* Design invariants                                                       *)
(***************************************************************************)
ItemOfId(u) == items[CHOOSE a \in 1..N : items[a].id = u]
Cut(rows, sizes) == [a \in 1..Len(rows) |-> SubSeq(rows[a], 1, sizes[a])]

IdsStay == done => /\ Len(out.ids) = N
                   /\ {out.ids[a] : a \in 1..N} = {items[a].id : a \in 1..N}
\* every part of the batch that is "per utterance" has exactly one entry per utterance handed in
OneEntryPerUtterance ==
  done =>
     /\ Len(out.ids) = N
     /\ (kind = "window" => Len(out.wsz) = N)
     /\ (kind = "lang" => Len(out.rsz) = N /\ Len(out.refs) = N)
     /\ (kind = "spect" =>
           /\ Len(out.fsz) = N /\ Len(out.feats) = N
           /\ (out.hasali => Len(out.alis) = N)
           /\ (out.hasref => Len(out.rsz) = N /\ Len(out.refs) = N))
\* an utterance that contributes no value at all (no frames / no tokens) is still delivered: its id is
\* in the batch, at a row whose reported size is 0
EmptyUtterancesStay ==
  done =>
     \A b \in 1..N :
        /\ (kind # "lang" /\ items[b].T = 0) =>
              \E a \in 1..Len(out.ids) :
                 /\ out.ids[a] = items[b].id
                 /\ (IF kind = "window" THEN out.wsz ELSE out.fsz)[a] = 0
        /\ (kind = "lang" /\ items[b].R = 0) =>
              \E a \in 1..Len(out.ids) : out.ids[a] = items[b].id /\ out.rsz[a] = 0
\* cutting each padded entry back to its reported size returns the original tensors, row by row id
CutIsLossless ==
  (done /\ kind # "window") =>
     /\ (kind = "spect" =>
           /\ \A a \in 1..N : Cut(out.feats, out.fsz)[a] = Feat(ItemOfId(out.ids[a]))
           /\ (out.hasali => \A a \in 1..N : Cut(out.alis, out.fsz)[a] = Ali(ItemOfId(out.ids[a])))
           /\ (out.hasref => \A a \in 1..N : Cut(out.refs, out.rsz)[a] = Ref(ItemOfId(out.ids[a]))))
     /\ (kind = "lang" => \A a \in 1..N : Cut(out.refs, out.rsz)[a] = Ref(ItemOfId(out.ids[a])))
PaddingIsPad ==
  (done /\ kind # "window") =>
     LET padded(rows, sizes) == \A a \in 1..Len(rows) : \A j \in (sizes[a] + 1)..Len(rows[a]) : rows[a][j] = Pad
         rect(rows, sizes) == \A a \in 1..Len(rows) : Len(rows[a]) = MaxOf({sizes[b] : b \in 1..Len(sizes)})
     IN IF kind = "lang" THEN padded(out.refs, out.rsz) /\ rect(out.refs, out.rsz)
        ELSE /\ padded(out.feats, out.fsz) /\ rect(out.feats, out.fsz)
             /\ (out.hasali => padded(out.alis, out.fsz) /\ rect(out.alis, out.fsz))
             /\ (out.hasref => padded(out.refs, out.rsz) /\ rect(out.refs, out.rsz))
OptionalParts ==
  (done /\ kind = "spect") => (out.hasali <=> AllAli) /\ (out.hasref <=> AllRef)
SortedWhenAsked ==
  (done /\ sort) =>
     LET sz == IF kind = "lang" THEN out.rsz ELSE out.fsz
     IN \A a \in 1..(N - 1) : sz[a] >= sz[a + 1]
OrderKeptOtherwise == (done /\ ~sort) => \A a \in 1..N : out.ids[a] = items[a].id
\* windows: splitting the concatenation by the reported sizes gives, per utterance, one window per
\* centre frame holding the clamped frame range
WindowsSplitBack ==
  (done /\ kind = "window") =>
     LET off(a) == LET RECURSIVE S(_)
                       S(b) == IF b = 0 THEN 0 ELSE out.wsz[b] + S(b - 1)
                   IN S(a - 1)
     IN /\ Len(out.wins) = off(N + 1)
        /\ \A a \in 1..N :
             LET it == ItemOfId(out.ids[a])
             IN /\ out.wsz[a] = it.T
                /\ \A c \in 1..it.T :
                     out.wins[off(a) + c] =
                        LET w == WindowDecl(it.T, c - 1, left, right, rev)
                        IN [j \in 1..Len(w) |-> Val(it.id, w[j] + 1)]
                /\ (out.hasali => \A c \in 1..it.T : out.alis[off(a) + c] = Val(it.id, c))

(***************************************************************************)
(* Export                                                                  *)
(***************************************************************************)
Emit(rec) == PrintT(<<"VFJ", ToJson(rec)>>)
\* every (T, centre, left, right, reverse): the window's frame indices (spec -> code table)
WindowRows ==
  {q \in [T : 1..(MaxT + 1), c : 0..MaxT, l : 0..MaxCtx, r : 0..MaxCtx, rv : BOOLEAN] : q.c < q.T}
ExportCase ==
  (~done) =>
     IF kind = "wtable"
     THEN \A q \in WindowRows :
             Emit([what |-> "window", T |-> q.T, c |-> q.c, l |-> q.l, r |-> q.r, rv |-> q.rv,
                   w |-> WindowDecl(q.T, q.c, q.l, q.r, q.rv)])
     ELSE Emit([what |-> "collate", kind |-> kind, items |-> items, sort |-> sort,
                left |-> left, right |-> right, rev |-> rev])
=============================================================================
