\* exhaustive: sequences of length 1..5 over {-2,1,3}, orders 0..3, widths 1..3
INIT Init
NEXT Next
CONSTANTS
  MaxLen = 5
  Vals <- ValsT
  Orders = {0, 1, 2, 3}
  Widths = {1, 2, 3}
  PadModes <- AllPads
  CVals <- CValsQ
INVARIANT DeltasAreRecursion
INVARIANT FilterShape
INVARIANT Export
CHECK_DEADLOCK FALSE
