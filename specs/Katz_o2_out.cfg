\* order 2, V=2, start symbol outside the vocabulary (3 symbols): all 2^12 presence patterns
INIT Init
NEXT Next
CONSTANTS
  V = 2
  N = 2
  SosIn = FALSE
  T = 3
  Tables <- AllPresence
INVARIANT WellFormed
INVARIANT IterIsRecursion
INVARIANT Export
CHECK_DEADLOCK FALSE
