\* exhaustive: lengths 1..4, F 1..3, limits {0,1,3}, proportions {0,1/4,1/2,1}, counts {0,1,2},
\* max warps {0, 0.5, 1, 2.5, 10} frames; applications on T <= 3, F <= 2 with <= 2 masks per axis;
\* resampler reads of a 2 x 2 plane with cells in {-3, 0, 5} at every position in thirds of a cell from -1 to 2
INIT Init
NEXT Next
CONSTANTS
  MaxT = 4
  MaxF = 3
  MaskWs = {0, 1, 3}
  Props4 = {0, 1, 2, 4}
  Nums = {0, 1, 2}
  Warps2 = {0, 1, 2, 5, 20}
  ApplyT = 3
  ApplyF = 2
  ApplyMasks = 2
  HullVals = {0, 3, 8}
  HullOff = 3
  HullDen = 3
INVARIANT TimeDrawInBounds
INVARIANT FreqDrawInBounds
INVARIANT WarpDrawInBounds
INVARIANT Tight
INVARIANT ApplyIsMasked
INVARIANT GridAbstraction
INVARIANT HullAbstraction
INVARIANT Export
CHECK_DEADLOCK FALSE
