\* batched validation of implementation traces (run with -workers 1)
INIT TInit
NEXT TNext
CONSTANTS
  MaxN = 64
  MaxW = 8
  ModeSet <- AllModes
  KindSet <- BothKinds
  RandomMaxN = 64
  Seeds = {1, 2, 3}
  MaxEpoch = 4
  MaxOps = 100000
  Schedule = "free"
  Features <- AllLiveFeatures
INVARIANT Accept
INVARIANT Progress
POSTCONDITION Post
CHECK_DEADLOCK FALSE
