---------------------------- MODULE TrainCtlDist ----------------------------
(***************************************************************************)
(* Distributed use of TrainingStateController (beyond the listed           *)
(* properties; extends TrainCtl / TrainCtlFs to several processes).        *)
(*                                                                         *)
(* W ranks run the same program on the same files:                         *)
(*   for each epoch e:  all_reduce of the metrics (a collective: nobody    *)
(*                      leaves before everybody has arrived), then         *)
(*                      update_for_epoch -- every rank updates its own      *)
(*                      memory, ONLY rank 0 writes checkpoint + history     *)
(*                      (several file-system steps, not atomic);            *)
(*   finally:           load the best model: barrier, read files, barrier.  *)
(* The library's rule ("barriers on entry and exit of reads; modification   *)
(* of disk isn't fenced") is the constant Fenced.  TLC checks, for every    *)
(* interleaving, that a rank never reads while rank 0 is in the middle of   *)
(* writing (NoTornRead), that a read sees every epoch the reader has itself *)
(* finished (ReadSeesOwnEpochs) and that the run cannot deadlock.  With     *)
(* Fenced = FALSE the same model violates NoTornRead (kept as a config to   *)
(* show the invariant is not vacuous).                                      *)
(***************************************************************************)
EXTENDS Naturals, Sequences, FiniteSets, TLC

CONSTANTS W,        \* number of ranks 0..W-1
          E,        \* epochs
          Fenced    \* TRUE: reads are preceded and followed by a barrier

Ranks == 0..(W - 1)
\* the program of a rank: a sequence of operations
Prog == LET ep(e) == <<[op |-> "reduce", e |-> e], [op |-> "update", e |-> e]>>
            RECURSIVE Eps(_)
            Eps(e) == IF e > E THEN <<>> ELSE ep(e) \o Eps(e + 1)
            tail == IF Fenced THEN <<[op |-> "barrier", e |-> 1], [op |-> "read", e |-> 0], [op |-> "barrier", e |-> 2]>>
                    ELSE <<[op |-> "read", e |-> 0]>>
        IN Eps(1) \o tail

VARIABLES pc,       \* rank -> index of the next operation (Len(Prog) + 1 = finished)
          phase,    \* rank -> "run" | "wait" (inside a collective, waiting for the others) | "write" (rank 0 mid-update)
          arrived,  \* rank -> number of collectives entered
          written,  \* epochs completely written by rank 0
          mine,     \* rank -> epochs the rank itself has finished
          saw,      \* rank -> what a read saw: 0 = not read yet, else written + 1
          torn      \* rank -> the read overlapped a write
vars == <<pc, phase, arrived, written, mine, saw, torn>>

Init == /\ pc = [r \in Ranks |-> 1] /\ phase = [r \in Ranks |-> "run"]
        /\ arrived = [r \in Ranks |-> 0] /\ written = 0 /\ mine = [r \in Ranks |-> 0]
        /\ saw = [r \in Ranks |-> 0] /\ torn = [r \in Ranks |-> FALSE]

Op(r) == Prog[pc[r]]
Live(r) == pc[r] <= Len(Prog)
IsColl(o) == o.op \in {"reduce", "barrier"}

\* enter a collective
Enter(r) == /\ Live(r) /\ phase[r] = "run" /\ IsColl(Op(r))
            /\ arrived' = [arrived EXCEPT ![r] = @ + 1]
            /\ phase' = [phase EXCEPT ![r] = "wait"]
            /\ UNCHANGED <<pc, written, mine, saw, torn>>
\* leave it once every rank has entered it
Leave(r) == /\ Live(r) /\ phase[r] = "wait"
            /\ \A q \in Ranks : arrived[q] >= arrived[r]
            /\ phase' = [phase EXCEPT ![r] = "run"]
            /\ pc' = [pc EXCEPT ![r] = @ + 1]
            /\ UNCHANGED <<arrived, written, mine, saw, torn>>
\* update_for_epoch: rank 0 starts writing ... finishes; the others only touch their memory
BeginWrite == /\ Live(0) /\ phase[0] = "run" /\ Op(0).op = "update"
              /\ phase' = [phase EXCEPT ![0] = "write"]
              /\ UNCHANGED <<pc, arrived, written, mine, saw, torn>>
EndWrite == /\ phase[0] = "write"
            /\ written' = written + 1
            /\ mine' = [mine EXCEPT ![0] = @ + 1]
            /\ phase' = [phase EXCEPT ![0] = "run"]
            /\ pc' = [pc EXCEPT ![0] = @ + 1]
            /\ UNCHANGED <<arrived, saw, torn>>
LocalUpdate(r) == /\ r # 0 /\ Live(r) /\ phase[r] = "run" /\ Op(r).op = "update"
                  /\ mine' = [mine EXCEPT ![r] = @ + 1]
                  /\ pc' = [pc EXCEPT ![r] = @ + 1]
                  /\ UNCHANGED <<phase, arrived, written, saw, torn>>
Read(r) == /\ Live(r) /\ phase[r] = "run" /\ Op(r).op = "read"
           /\ saw' = [saw EXCEPT ![r] = written + 1]
           /\ torn' = [torn EXCEPT ![r] = (phase[0] = "write")]
           /\ pc' = [pc EXCEPT ![r] = @ + 1]
           /\ UNCHANGED <<phase, arrived, written, mine>>

Next == BeginWrite \/ EndWrite \/ \E r \in Ranks : Enter(r) \/ Leave(r) \/ LocalUpdate(r) \/ Read(r)
Spec == Init /\ [][Next]_vars /\ WF_vars(Next)

NoTornRead == \A r \in Ranks : ~torn[r]
ReadSeesOwnEpochs == \A r \in Ranks : saw[r] > 0 => saw[r] - 1 >= mine[r]
\* no deadlock: if nothing can move, everybody has finished
NoDeadlock == (~ENABLED Next) => \A r \in Ranks : ~Live(r)
Termination == <>(\A r \in Ranks : ~Live(r))
TypeOK == /\ written \in 0..E /\ \A r \in Ranks : pc[r] \in 1..(Len(Prog) + 1)
=============================================================================
