\* design check: epoch budgets and epsilon guard
INIT Init
NEXT Next
CONSTANTS
  ParamSpace <- ParamsBudget
  Levels <- L3
  MaxLen = 5
INVARIANT TypeOK
INVARIANT StopRule
INVARIANT ReduceRule
INVARIANT ReduceOnlyOnFire
INVARIANT OptimizerHasRate
INVARIANT RestartTransparent
INVARIANT DeclIsChain

CHECK_DEADLOCK FALSE
