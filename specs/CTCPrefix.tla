----------------------------- MODULE CTCPrefix -----------------------------
(***************************************************************************)
(* CTC prefix (beam) search with optional shallow fusion (C05):            *)
(* pydrobert.torch CTCPrefixSearch / ctc_prefix_search_advance.            *)
(*                                                                         *)
(*  - code-shaped: `Frame` is the standard prefix-beam recursion of one     *)
(*    frame -- every beam prefix continues as itself (blank, or a repeat    *)
(*    of its last label after a non-blank ending) and is extended by every  *)
(*    label; an extension that equals a prefix already in the beam is        *)
(*    merged into it -- followed by pruning to the beam width by total      *)
(*    mass with ties broken ARBITRARILY (every choice is a behaviour).      *)
(*  - declarative: PathMass(y, t) = sum over ALL (V+1)^t alignments of the  *)
(*    first t frames that collapse to y of the product of their frame       *)
(*    weights (an alignment step that appends a label to the collapsed      *)
(*    prefix is weighted with the fused extension weight).                  *)
(* TLC checks: nothing pruned so far => beam mass = PathMass (exact);       *)
(* always beam mass <= PathMass; prefixes blank-free, distinct, no longer   *)
(* than t.                                                                  *)
(*                                                                         *)
(* Weights are integers: frame t gives label v weight P[t][v], blank        *)
(* P[t][Blank], summing to D.  Masses are numerators: a prefix of length n  *)
(* at frame t has denominator D^t * E^n, where E is the extra denominator   *)
(* of the fused extension weight (E = 1 without a language model).          *)
(***************************************************************************)
EXTENDS Naturals, Integers, Sequences, FiniteSets, TLC, Json, FiniteSetsExt, SequencesExt

CONSTANTS V,        \* labels 1..V, blank = V + 1
          T,        \* frames
          Ws,       \* beam widths explored (the width is fixed per behaviour)
          D,        \* frame weights sum to D
          Mode,     \* "none" | "fusion" (beta = 1) | "mix_half" | "mix_one" (valid mixture, beta = 1/2, 1)
          Dists,    \* set of frame distributions [1..V+1 -> 0..D]
          LMVars    \* language-model variants explored (subset of {0, 1}); {0} without a model

Blank == V + 1
L == 3               \* language-model weights sum to L
E == CASE Mode = "none" -> 1 [] Mode = "fusion" -> L [] Mode = "mix_half" -> 2 * L [] Mode = "mix_one" -> L

VARIABLES W,        \* beam width of this behaviour
          lmv,      \* which language-model variant this behaviour uses
          P,        \* 1..T -> frame distribution
          t,        \* frames consumed
          beam,     \* prefix -> <<nb, b>> numerators (paths ending in a label / in blank)
          prevbeam, \* the beam before the last Frame (history variable, exported for single-step replay)
          pruned    \* has any positive-mass candidate been dropped so far?
vars == <<W, lmv, P, t, beam, prevbeam, pruned>>

\* the language model: next-label weights depend on the WHOLE prefix
RECURSIVE Code(_)
Code(y) == IF y = <<>> THEN 0 ELSE Code(Front(y)) * (V + 1) + Last(y)
LMW(y, v) == IF V = 1 THEN L
             ELSE IF v = 1 THEN 1 + ((Code(y) + lmv) % 2)
             ELSE L - (1 + ((Code(y) + lmv) % 2))
ASSUME Mode = "none" \/ V \in {1, 2}
\* fused weight (numerator over D * E) of extending prefix y by label v at a frame with weights p
ExtW(p, y, v) ==
  CASE Mode = "none"     -> p[v]
    [] Mode = "fusion"   -> p[v] * LMW(y, v)
    [] Mode = "mix_half" -> p[v] * L + LMW(y, v) * (D - p[Blank])
    [] Mode = "mix_one"  -> LMW(y, v) * (D - p[Blank])


RECURSIVE Pow(_, _)
Pow(x, n) == IF n = 0 THEN 1 ELSE x * Pow(x, n - 1)
Total(bm, y) == bm[y][1] + bm[y][2]
\* comparable mass of candidates of different lengths (common denominator E^MaxLen)
Scaled(m, y, maxlen) == m * Pow(E, maxlen - Len(y))

Init == /\ W \in Ws
        /\ lmv \in LMVars
        /\ P \in [1..T -> Dists]
        /\ t = 0
        /\ beam = (<<>> :> <<0, 1>>)
        /\ prevbeam = (<<>> :> <<0, 1>>)
        /\ pruned = FALSE

Cands(bm) == DOMAIN bm \cup {Append(y, v) : y \in DOMAIN bm, v \in 1..V}
\* mass of candidate z ending in a label: repeat of its own last label, plus its parent extended
NB(bm, p, z) ==
   (IF z \in DOMAIN bm /\ z # <<>> THEN bm[z][1] * p[Last(z)] ELSE 0)
 + (IF z # <<>> /\ Front(z) \in DOMAIN bm
    THEN LET y == Front(z) v == Last(z)
         IN (IF y # <<>> /\ Last(y) = v THEN bm[y][2] ELSE bm[y][1] + bm[y][2]) * ExtW(p, y, v)
    ELSE 0)
\* note on denominators: a continuing prefix keeps its length (factor p/D), an extension grows by one
\* (factor ExtW/(D*E)); both contributions to z therefore share the denominator D^(t+1) * E^Len(z)
BL(bm, p, z) == IF z \in DOMAIN bm THEN (bm[z][1] + bm[z][2]) * p[Blank] ELSE 0

Frame ==
  /\ t < T
  \* (TLC re-evaluates a LET definition at every use; binding through a singleton set evaluates it once)
  /\ \E full \in {[z \in Cands(beam) |-> <<NB(beam, P[t + 1], z), BL(beam, P[t + 1], z)>>]} :
     \E tot \in {[z \in {x \in DOMAIN full : full[x][1] + full[x][2] > 0} |->
                   Scaled(full[z][1] + full[z][2], z, t + 1)]} :       \* positive-mass candidates, comparable masses
       LET pos == DOMAIN tot
           k == IF Cardinality(pos) < W THEN Cardinality(pos) ELSE W
       IN \E thr \in {IF k = 0 THEN 0
                        ELSE Max({s \in {tot[z] : z \in pos} : Cardinality({z \in pos : tot[z] >= s}) >= k})} :
            LET must == {z \in pos : tot[z] > thr}
                tied == {z \in pos : tot[z] = thr}
            IN \E X \in kSubset(k - Cardinality(must), tied) :      \* ties at the k-th mass are free
                 /\ beam' = [z \in must \cup X |-> full[z]]
                 /\ pruned' = (pruned \/ (must \cup X) # pos)
  /\ t' = t + 1
  /\ prevbeam' = beam
  /\ UNCHANGED <<P, lmv, W>>

Next == Frame
Spec == Init /\ [][Next]_vars

(***************************************************************************)
(* declarative: all alignments                                             *)
(***************************************************************************)
\* collapse an alignment (repeats merged, blanks dropped)
RECURSIVE CollapseFrom(_, _, _, _)
CollapseFrom(a, i, prev, acc) ==
  IF i > Len(a) THEN acc
  ELSE IF a[i] = Blank THEN CollapseFrom(a, i + 1, Blank, acc)
  ELSE IF a[i] = prev THEN CollapseFrom(a, i + 1, prev, acc)
  ELSE CollapseFrom(a, i + 1, a[i], Append(acc, a[i]))
Collapse(a) == CollapseFrom(a, 1, Blank, <<>>)
\* weight of an alignment: numerator over D^n * E^Len(Collapse(a))
RECURSIVE AlignW(_, _, _, _)
AlignW(a, i, prev, acc) ==
  IF i > Len(a) THEN 1
  ELSE IF a[i] = Blank THEN P[i][Blank] * AlignW(a, i + 1, Blank, acc)
  ELSE IF a[i] = prev THEN P[i][a[i]] * AlignW(a, i + 1, prev, acc)
  ELSE ExtW(P[i], acc, a[i]) * AlignW(a, i + 1, a[i], Append(acc, a[i]))
PathMass(y, n) == LET S == {a \in [1..n -> 1..Blank] : Collapse(a) = y}
                  IN FoldSet(LAMBDA a, acc : acc + AlignW(a, 1, Blank, <<>>), 0, S)

(***************************************************************************)
(* C05 design invariants                                                   *)
(***************************************************************************)
NoPruneIsExact == ~pruned => \A y \in DOMAIN beam : Total(beam, y) = PathMass(y, t)
NeverMore == \A y \in DOMAIN beam : Total(beam, y) <= PathMass(y, t)
Shape == /\ Cardinality(DOMAIN beam) <= W
         /\ \A y \in DOMAIN beam : Len(y) <= t /\ \A i \in 1..Len(y) : y[i] \in 1..V
Positive == \A y \in DOMAIN beam : Total(beam, y) > 0
\* without pruning the whole probability mass is accounted for (mode "none" only)
MassConserved == (~pruned /\ Mode = "none") =>
                    FoldSet(LAMBDA y, acc : acc + Total(beam, y), 0, DOMAIN beam) = Pow(D, t)

(***************************************************************************)
(* export: every terminal beam (one per tie resolution)                    *)
(***************************************************************************)
Emit(rec) == PrintT(<<"VFJ", ToJson(rec)>>)
\* one Frame transition, for the single-step replay of ctc_prefix_search_advance
ExportStep ==
  t > 0 =>
    LET ps == SetToSeq(DOMAIN prevbeam)
        ys == SetToSeq(DOMAIN beam)
    IN Emit([kind |-> "step", p |-> P[t], lmv |-> lmv, W |-> W, t |-> t, mode |-> Mode,
             prev |-> [i \in 1..Len(ps) |-> [y |-> ps[i], nb |-> prevbeam[ps[i]][1], b |-> prevbeam[ps[i]][2]]],
             beam |-> [i \in 1..Len(ys) |-> [y |-> ys[i], nb |-> beam[ys[i]][1], b |-> beam[ys[i]][2]]]])
Export ==
  t = T =>
    LET ys == SetToSeq(DOMAIN beam)
    IN Emit([kind |-> "final", P |-> P, lmv |-> lmv, W |-> W, T |-> T, mode |-> Mode, pruned |-> pruned,
             beam |-> [i \in 1..Len(ys) |-> [y |-> ys[i], nb |-> beam[ys[i]][1], b |-> beam[ys[i]][2]]]])
=============================================================================
