------------------------------- MODULE ArgCheck -------------------------------
(***************************************************************************)
(* X05 -- the argument-checking combinators of pydrobert.torch.argcheck as *)
(* a DECISION TABLE.                                                       *)
(*                                                                         *)
(* Documentation used (the functions have no docstrings; the declarative   *)
(* side is written from the module docstring, the public names, the        *)
(* parameter names and the annotated signatures):                          *)
(*  D1 "is_* check if the passed value satisfies some requirement, usually *)
(*     being of some type"; the value is returned.                         *)
(*  D2 "Some accept other types (e.g. is_float accepts int, np.integer and *)
(*     np.floating in addition to float) which will quietly be cast to the *)
(*     expected type before returning."  Only is_float's extra types are   *)
(*     named; for every other type check the extra types are NOT stated.   *)
(*  D3 "Most other is_* functions check whether the value satisfies some   *)
(*     condition (being a member of a collection, is_in, or being          *)
(*     positive, is_pos)" -- conditions are read with their mathematical   *)
(*     meaning from the names: pos, neg, nonpos, nonneg, lt, lte, gt, gte, *)
(*     equal, btw (left/right, left_inclusive/right_inclusive default      *)
(*     False), btw_open, btw_closed, open01 = (0,1), closed01 = [0,1]      *)
(*     (as_closed01 announces itself as "float within [0, 1]"); the        *)
(*     annotated domain is NumLike = Tensor | float | int | np.floating |  *)
(*     np.integer; a tensor satisfies a condition when all elements do.    *)
(*  D4 "Some, e.g. is_nat, combine type checks with conditions (is_int and *)
(*     is_pos)": is_<cond><i|f|t> = type check (int|float|Tensor), then    *)
(*     the condition, returning the (cast) value of the type check.        *)
(*  D5 allow_none (annotated: Optional[V] in, Optional[V] out): None is    *)
(*     returned for None when allow_none is true; nothing else changes.    *)
(*  D6 "as_* ... casting their first argument to the type immediately,     *)
(*     then possibly checking a condition": cast = the Python constructor  *)
(*     (int, float, bool, str, torch.as_tensor).                           *)
(*  D7 name / other_name / left_name / right_name only label the message:  *)
(*     the table has no such argument.                                     *)
(* What the documentation does NOT say is left out of the judged table     *)
(* (verdict "free"): bool where a number is expected, numeric-looking      *)
(* strings given to is_*, nan under an order condition, empty tensors,     *)
(* np.integer / integral floats given to is_int, numbers given to is_str / *)
(* is_bool / is_tensor, tensors given to is_float / as_int..., a fresh     *)
(* equal object given to is_exactly, cross-type membership in is_in,       *)
(* isinstance subtleties of is_a (bool/int, numpy scalars), non-tensors    *)
(* given to has_ndim / is_nonempty.  For those cells the code-shaped       *)
(* machine still says what the code as written does (informational).       *)
(*                                                                         *)
(* Two sides:                                                              *)
(*  - declarative: Doc(fn, v, a) = [vd |-> "acc" | "rej" | "free", res],   *)
(*    Accepts / Judged / Result;                                           *)
(*  - code-shaped: the composition the module uses, one action per stage   *)
(*    of the pipeline a value is threaded through: NoneShortCut /          *)
(*    PassWrapper (_is_check_allow_none, _compare_allow_none and the       *)
(*    hand-written "if allow_none and val is None"), Cast (_cast_factory), *)
(*    TypeStage (_type_check_factory: isinstance, then t(val) unless the   *)
(*    type is exact), NumlikeStage (is_numlike), ConditionStage ("raise if *)
(*    any element satisfies the negated comparison"), LeftBound /          *)
(*    RightBound (is_btw: is_gt|is_gte then is_lt|is_lte), PredicateStage  *)
(*    (membership, isinstance, identity, token, ndim, numel), Return.       *)
(* fault = "none": the composition the documentation describes.            *)
(* fault = "closed01": _numlike_special_factory._closed01_check as written *)
(*   (calls is_nonneg);  fault = "btwnone": the typed is_btw* as written   *)
(*   (type check BEFORE the allow_none shortcut); "aswritten" = both.      *)
(* TLC checks ComposedIsTable (machine = table on every judged cell),      *)
(* AllowNoneOnlyAddsNone, IntervalDuality, ClosedIsNotOpenAtEnds,          *)
(* Idempotent, Aliases, AsIsCastThenCheck; the fault configurations must   *)
(* violate ComposedIsTable.                                                *)
(***************************************************************************)
EXTENDS Integers, Sequences, FiniteSets, TLC, Json

CONSTANTS Vals,        \* the value universe (records made by the constructors below)
          Others,      \* `other` arguments of the comparisons (numbers / 0-dim tensors, no nan)
          Bounds,      \* <<left, right>> pairs of the interval checks
          Colls,       \* collections of is_in (sequences of values)
          Faults,      \* faults the machine is run with ("none" always judged)
          JudgeFaulty  \* TRUE: ComposedIsTable is also demanded of faulty compositions (must fail)

(***************************************************************************)
(* Abstract values.  k: python type; numbers are sp = "fin" with n/d       *)
(* (d in {1, 2}, reduced) or sp in {"nan", "inf", "ninf"}; tensors carry   *)
(* dt ("i" integer / "f" floating dtype), nd (ndim), el (sequence of       *)
(* <<n, d>>, row-major).                                                    *)
(***************************************************************************)
Mk(id, k, sp, n, d, s, dt, nd, el) ==
  [id |-> id, k |-> k, sp |-> sp, n |-> n, d |-> d, s |-> s, dt |-> dt, nd |-> nd, el |-> el]
RatStr(n, d) == IF d = 1 THEN ToString(n) ELSE ToString(n) \o "/" \o ToString(d)
NumV(k, sp, n, d) ==
  IF sp # "fin" THEN Mk(k \o ":" \o sp, k, sp, 0, 1, "", "", 0, <<>>)
  ELSE IF d = 2 /\ n % 2 = 0 THEN Mk(k \o ":" \o RatStr(n \div 2, 1), k, "fin", n \div 2, 1, "", "", 0, <<>>)
  ELSE Mk(k \o ":" \o RatStr(n, d), k, "fin", n, d, "", "", 0, <<>>)
IntV(n) == NumV("int", "fin", n, 1)
NpIntV(n) == NumV("npint", "fin", n, 1)
FloatV(n, d) == NumV("float", "fin", n, d)
FloatS(sp) == NumV("float", sp, 0, 1)
NpFloatV(n, d) == NumV("npfloat", "fin", n, d)
NpFloatS(sp) == NumV("npfloat", sp, 0, 1)
BoolV(b) == Mk(IF b THEN "bool:True" ELSE "bool:False", "bool", "fin", IF b THEN 1 ELSE 0, 1, "", "", 0, <<>>)
StrV(s) == Mk("str:" \o s, "str", "fin", 0, 1, s, "", 0, <<>>)
NoneV == Mk("none", "none", "fin", 0, 1, "", "", 0, <<>>)
RECURSIVE ElStr(_, _)
ElStr(el, i) == IF i > Len(el) THEN ""
                ELSE (IF i > 1 THEN "," ELSE "") \o RatStr(el[i][1], el[i][2]) \o ElStr(el, i + 1)
TensorV(dt, nd, el) ==
  Mk("tensor:" \o dt \o ToString(nd) \o "[" \o ElStr(el, 1) \o "]", "tensor", "fin", 0, 1, "", dt, nd, el)

IsNone(v) == v.k = "none"
IsStr(v) == v.k = "str"
IsT(v) == v.k = "tensor"
IsNumK(v) == v.k \in {"int", "float", "npint", "npfloat"}
IsIntK(v) == v.k \in {"int", "npint"}

(***************************************************************************)
(* What python's int() / float() make of the strings of the universe       *)
(***************************************************************************)
StrNum(s) ==
  CASE s = "-1"   -> [cls |-> "int", sp |-> "fin", n |-> -1, d |-> 1]
    [] s = "0"    -> [cls |-> "int", sp |-> "fin", n |-> 0, d |-> 1]
    [] s = "1"    -> [cls |-> "int", sp |-> "fin", n |-> 1, d |-> 1]
    [] s = "2"    -> [cls |-> "int", sp |-> "fin", n |-> 2, d |-> 1]
    [] s = "3"    -> [cls |-> "int", sp |-> "fin", n |-> 3, d |-> 1]
    [] s = "0.5"  -> [cls |-> "float", sp |-> "fin", n |-> 1, d |-> 2]
    [] s = "-0.5" -> [cls |-> "float", sp |-> "fin", n |-> -1, d |-> 2]
    [] s = "1.0"  -> [cls |-> "float", sp |-> "fin", n |-> 1, d |-> 1]
    [] s = "2.5"  -> [cls |-> "float", sp |-> "fin", n |-> 5, d |-> 2]
    [] s = "nan"  -> [cls |-> "float", sp |-> "nan", n |-> 0, d |-> 1]
    [] s = "inf"  -> [cls |-> "float", sp |-> "inf", n |-> 0, d |-> 1]
    [] s = "-inf" -> [cls |-> "float", sp |-> "ninf", n |-> 0, d |-> 1]
    [] OTHER      -> [cls |-> "no", sp |-> "fin", n |-> 0, d |-> 1]
NumLooking(s) == StrNum(s).cls # "no"
BoolLooking(s) == s \in {"True", "False"}
HasDefaultWhitespace(s) == s \in {"a b"}           \* string.whitespace
HasLetterB(s) == s \in {"abc", "a b"}              \* whitespace = "b"
\* a string the documentation cannot possibly want a numeric / boolean check to accept
PlainStr(v) == IsStr(v) /\ ~NumLooking(v.s) /\ ~BoolLooking(v.s)

\* python's str() of a number of the grid
AbsI(n) == IF n < 0 THEN -n ELSE n
NumStr(k, sp, n, d) ==
  IF sp = "nan" THEN "nan" ELSE IF sp = "inf" THEN "inf" ELSE IF sp = "ninf" THEN "-inf"
  ELSE IF k \in {"int", "npint"} THEN ToString(n)
  ELSE IF d = 1 THEN ToString(n) \o ".0"
  ELSE (IF n < 0 THEN "-" ELSE "") \o ToString(AbsI(n) \div 2) \o ".5"

(***************************************************************************)
(* Extended rationals and IEEE comparisons                                 *)
(***************************************************************************)
X(sp, n, d) == [sp |-> sp, n |-> n, d |-> d]
XInt(n) == X("fin", n, 1)
XOf(v) == IF IsT(v) THEN X("fin", v.el[1][1], v.el[1][2]) ELSE X(v.sp, v.n, v.d)   \* scalars, 1-element tensors
XS(v) == IF IsT(v) THEN [i \in 1..Len(v.el) |-> X("fin", v.el[i][1], v.el[i][2])] ELSE <<X(v.sp, v.n, v.d)>>
LtX(x, y) ==
  IF x.sp = "nan" \/ y.sp = "nan" THEN FALSE
  ELSE IF x.sp = "inf" \/ y.sp = "ninf" THEN FALSE
  ELSE IF x.sp = "ninf" \/ y.sp = "inf" THEN TRUE
  ELSE x.n * y.d < y.n * x.d
EqX(x, y) ==
  IF x.sp = "nan" \/ y.sp = "nan" THEN FALSE
  ELSE IF x.sp # "fin" \/ y.sp # "fin" THEN x.sp = y.sp
  ELSE x.n * y.d = y.n * x.d
Rel(op, x, y) ==
  CASE op = "lt" -> LtX(x, y)
    [] op = "le" -> LtX(x, y) \/ EqX(x, y)
    [] op = "gt" -> LtX(y, x)
    [] op = "ge" -> LtX(y, x) \/ EqX(x, y)
    [] op = "eq" -> EqX(x, y)
    [] op = "ne" -> ~EqX(x, y)                       \* IEEE: nan != anything
NegOp(op) == CASE op = "lt" -> "ge" [] op = "le" -> "gt" [] op = "gt" -> "le"
               [] op = "ge" -> "lt" [] op = "eq" -> "ne" [] op = "ne" -> "eq"
HasNan(v) == ~IsT(v) /\ v.sp = "nan"
Integral(v) == v.sp = "fin" /\ v.d = 1
TruncI(n, d) == IF n >= 0 THEN n \div d ELSE -((-n) \div d)    \* python int(): toward zero

(***************************************************************************)
(* Functions and their arguments                                           *)
(***************************************************************************)
Fn(name, fam, ty, cond) == [name |-> name, fam |-> fam, ty |-> ty, cond |-> cond]
TypeNames == {"int", "float", "bool", "str", "tensor"}
CondNames == {"pos", "neg", "nonpos", "nonneg", "open01", "closed01"}
CmpNames == {"equal", "lt", "lte", "gt", "gte"}
BtwNames == {"btw", "btw_open", "btw_closed"}
Suffixes == {"", "i", "f", "t"}
TypeOfSuffix(s) == CASE s = "i" -> "int" [] s = "f" -> "float" [] s = "t" -> "tensor" [] OTHER -> ""
CondFn(c, s) == Fn("is_" \o c \o s, "cond", s, c)
CmpFn(c, s) == Fn("is_" \o c \o s, "cmp", s, c)
BtwFn(c, s) == Fn("is_" \o c \o s, "btw", s, c)
TypeFn(t) == Fn("is_" \o t, "type", t, "")
NatFn == Fn("is_nat", "cond", "i", "pos")
AsFn(name, t, c) == Fn(name, "as", t, c)
AsFns == {AsFn("as_str", "str", ""), AsFn("as_int", "int", ""), AsFn("as_bool", "bool", ""),
          AsFn("as_float", "float", ""), AsFn("as_tensor", "tensor", ""),
          AsFn("as_posf", "float", "pos"), AsFn("as_nat", "int", "pos"), AsFn("as_posi", "int", "pos"),
          AsFn("as_nonnegf", "float", "nonneg"), AsFn("as_nonnegi", "int", "nonneg"),
          AsFn("as_negf", "float", "neg"), AsFn("as_negi", "int", "neg"),
          AsFn("as_nonposf", "float", "nonpos"), AsFn("as_nonposi", "int", "nonpos"),
          AsFn("as_open01", "float", "open01"), AsFn("as_closed01", "float", "closed01")}
Fns == {TypeFn(t) : t \in TypeNames}
       \cup {Fn("is_numlike", "numlike", "", ""), NatFn}
       \cup {CondFn(c, s) : c \in CondNames, s \in Suffixes}
       \cup {CmpFn(c, s) : c \in CmpNames, s \in Suffixes}
       \cup {BtwFn(c, s) : c \in BtwNames, s \in Suffixes}
       \cup {Fn("is_in", "in", "", ""), Fn("is_a", "a", "", ""), Fn("is_exactly", "exactly", "", ""),
             Fn("is_token", "token", "", ""), Fn("has_ndim", "ndim", "", ""),
             Fn("is_nonempty", "nonempty", "", "")}
       \cup AsFns

ATypes == {"int", "float", "str", "bool", "tensor"}
DefArgs == [an |-> FALSE, o |-> NoneV, l |-> NoneV, r |-> NoneV, li |-> FALSE, ri |-> FALSE,
            coll |-> <<>>, t |-> "", eo |-> FALSE, ws |-> "", nd |-> 0, ex |-> ""]
ArgsOf(fn) ==
  CASE fn.fam \in {"type", "numlike", "cond", "nonempty"} -> {[DefArgs EXCEPT !.an = b] : b \in BOOLEAN}
    [] fn.fam = "cmp" -> {[DefArgs EXCEPT !.an = b, !.o = o] : b \in BOOLEAN, o \in Others}
    [] fn.fam = "btw" ->
         IF fn.cond = "btw"
         THEN {[DefArgs EXCEPT !.an = b, !.l = p[1], !.r = p[2], !.li = x, !.ri = y] :
                  b \in BOOLEAN, p \in Bounds, x \in BOOLEAN, y \in BOOLEAN}
         ELSE {[DefArgs EXCEPT !.an = b, !.l = p[1], !.r = p[2], !.li = (fn.cond = "btw_closed"),
                               !.ri = (fn.cond = "btw_closed")] : b \in BOOLEAN, p \in Bounds}
    [] fn.fam = "in" -> {[DefArgs EXCEPT !.an = b, !.coll = c] : b \in BOOLEAN, c \in Colls}
    [] fn.fam = "a" -> {[DefArgs EXCEPT !.an = b, !.t = t] : b \in BOOLEAN, t \in ATypes}
    [] fn.fam = "exactly" -> {[DefArgs EXCEPT !.an = b, !.ex = e] : b \in BOOLEAN, e \in {"same", "copy", "diff"}}
    [] fn.fam = "token" -> {[DefArgs EXCEPT !.an = b, !.eo = e, !.ws = w] :
                               b \in BOOLEAN, e \in BOOLEAN, w \in {"default", "b"}}
    [] fn.fam = "ndim" -> {[DefArgs EXCEPT !.an = b, !.nd = k] : b \in BOOLEAN, k \in 0..2}
    [] fn.fam = "as" -> {DefArgs}

(***************************************************************************)
(* DECLARATIVE SIDE: the documentation table                               *)
(***************************************************************************)
V3(vd, res) == [vd |-> vd, res |-> res]
AsFloatV(v) == NumV("float", v.sp, v.n, v.d)

\* D1/D2: "is a value of type t" (+ the documented extra types of is_float)
TypeDoc(t, v) ==
  CASE t = "int" ->
         IF v.k = "int" THEN V3("acc", v)
         ELSE IF IsNone(v) \/ PlainStr(v) THEN V3("rej", v)
         ELSE IF v.k \in {"float", "npfloat"} /\ ~Integral(v) THEN V3("rej", v)   \* no int "is" 1/2, nan, inf
         ELSE V3("free", v)
    [] t = "float" ->
         IF IsNumK(v) THEN V3("acc", AsFloatV(v))
         ELSE IF IsNone(v) \/ PlainStr(v) THEN V3("rej", v)
         ELSE V3("free", v)
    [] t = "bool" ->
         IF v.k = "bool" THEN V3("acc", v)
         ELSE IF IsNone(v) \/ PlainStr(v) THEN V3("rej", v)
         ELSE V3("free", v)
    [] t = "str" ->
         IF IsStr(v) THEN V3("acc", v) ELSE IF IsNone(v) THEN V3("rej", v) ELSE V3("free", v)
    [] t = "tensor" ->
         IF IsT(v) THEN V3("acc", v) ELSE IF IsNone(v) \/ PlainStr(v) THEN V3("rej", v) ELSE V3("free", v)

\* D3: the conditions, element by element
InInterval(x, l, r, li, ri) ==
  /\ IF li THEN ~LtX(x, l) ELSE LtX(l, x)
  /\ IF ri THEN ~LtX(r, x) ELSE LtX(x, r)
DocHolds(c, x, a) ==
  CASE c = "pos" -> LtX(XInt(0), x)
    [] c = "neg" -> LtX(x, XInt(0))
    [] c = "nonpos" -> ~LtX(XInt(0), x)
    [] c = "nonneg" -> ~LtX(x, XInt(0))
    [] c = "open01" -> InInterval(x, XInt(0), XInt(1), FALSE, FALSE)
    [] c = "closed01" -> InInterval(x, XInt(0), XInt(1), TRUE, TRUE)
    [] c = "equal" -> EqX(x, XOf(a.o))
    [] c = "lt" -> LtX(x, XOf(a.o))
    [] c = "lte" -> ~LtX(XOf(a.o), x)
    [] c = "gt" -> LtX(XOf(a.o), x)
    [] c = "gte" -> ~LtX(x, XOf(a.o))
    [] c \in BtwNames -> InInterval(x, XOf(a.l), XOf(a.r), a.li, a.ri)
CondDoc(c, v, a) ==
  IF IsNone(v) \/ PlainStr(v) THEN "rej"
  ELSE IF ~(IsNumK(v) \/ IsT(v)) THEN "free"                   \* bool, numeric-looking / boolean-looking strings
  ELSE IF HasNan(v) \/ Len(XS(v)) = 0 THEN "free"              \* nan, empty tensor
  ELSE IF \A i \in 1..Len(XS(v)) : DocHolds(c, XS(v)[i], a) THEN "acc" ELSE "rej"

\* D6: the python constructors on the universe
Cst(ok, v) == [ok |-> ok, v |-> v]
PyCast(t, v) ==
  CASE t = "int" ->
         IF v.k \in {"int", "bool", "npint"} THEN Cst(TRUE, IntV(v.n))
         ELSE IF v.k \in {"float", "npfloat"}
              THEN (IF v.sp = "fin" THEN Cst(TRUE, IntV(TruncI(v.n, v.d))) ELSE Cst(FALSE, v))
         ELSE IF IsStr(v) THEN (IF StrNum(v.s).cls = "int" THEN Cst(TRUE, IntV(StrNum(v.s).n)) ELSE Cst(FALSE, v))
         ELSE IF IsT(v) /\ Len(v.el) = 1 THEN Cst(TRUE, IntV(TruncI(v.el[1][1], v.el[1][2])))
         ELSE Cst(FALSE, v)
    [] t = "float" ->
         IF v.k \in {"int", "bool", "npint", "float", "npfloat"} THEN Cst(TRUE, AsFloatV(v))
         ELSE IF IsStr(v) THEN (IF NumLooking(v.s)
                                THEN Cst(TRUE, NumV("float", StrNum(v.s).sp, StrNum(v.s).n, StrNum(v.s).d))
                                ELSE Cst(FALSE, v))
         ELSE IF IsT(v) /\ Len(v.el) = 1 THEN Cst(TRUE, NumV("float", "fin", v.el[1][1], v.el[1][2]))
         ELSE Cst(FALSE, v)
    [] t = "bool" ->
         IF v.k \in {"int", "bool", "npint", "float", "npfloat"} THEN Cst(TRUE, BoolV(v.sp # "fin" \/ v.n # 0))
         ELSE IF IsStr(v) THEN Cst(TRUE, BoolV(v.s # ""))
         ELSE IF IsNone(v) THEN Cst(TRUE, BoolV(FALSE))
         ELSE IF Len(v.el) = 1 THEN Cst(TRUE, BoolV(v.el[1][1] # 0)) ELSE Cst(FALSE, v)
    [] t = "str" ->
         IF IsStr(v) THEN Cst(TRUE, v)
         ELSE IF v.k = "bool" THEN Cst(TRUE, StrV(IF v.n = 1 THEN "True" ELSE "False"))
         ELSE IF IsNone(v) THEN Cst(TRUE, StrV("None"))
         ELSE IF IsT(v) THEN Cst(TRUE, StrV("tensor(...)"))        \* text not modelled
         ELSE Cst(TRUE, StrV(NumStr(v.k, v.sp, v.n, v.d)))
    [] t = "tensor" ->
         IF IsT(v) THEN Cst(TRUE, v)
         ELSE IF IsNumK(v) \/ v.k = "bool"
              THEN (IF v.sp = "fin" THEN Cst(TRUE, TensorV(IF IsIntK(v) THEN "i" ELSE IF v.k = "bool" THEN "b" ELSE "f", 0, <<<<v.n, v.d>>>>))
                    ELSE Cst(TRUE, Mk("tensor:f0[" \o v.sp \o "]", "tensor", v.sp, 0, 1, "", "f", 0, <<>>)))
         ELSE Cst(FALSE, v)
\* where "cast with the constructor" is something the documentation can be held to
CastJudged(t, v) ==
  CASE t = "bool" -> ~IsT(v)
    [] t = "str" -> ~IsT(v)
    [] t = "tensor" -> IsT(v) \/ (IsNumK(v) /\ v.sp = "fin") \/ PlainStr(v)
    [] OTHER -> IsNumK(v) \/ IsStr(v) \/ IsNone(v)           \* int / float: bool and tensors left free

SameKindColl(v, coll) == \A i \in 1..Len(coll) : coll[i].k = v.k
Member(v, coll) == \E i \in 1..Len(coll) : coll[i] = v

DocBody(fn, v, a) ==
  CASE fn.fam = "type" -> TypeDoc(fn.ty, v)
    [] fn.fam = "numlike" ->
         IF IsNumK(v) \/ IsT(v) THEN V3("acc", v)
         ELSE IF IsNone(v) \/ PlainStr(v) THEN V3("rej", v) ELSE V3("free", v)
    [] fn.fam \in {"cond", "cmp", "btw"} ->
         IF fn.ty = "" THEN V3(CondDoc(fn.cond, v, a), v)
         ELSE LET td == TypeDoc(TypeOfSuffix(fn.ty), v)
              IN IF td.vd = "acc" THEN V3(CondDoc(fn.cond, td.res, a), td.res) ELSE td       \* D4
    [] fn.fam = "in" ->
         IF Len(a.coll) = 0 THEN V3("rej", v)
         ELSE IF SameKindColl(v, a.coll) \/ IsNone(v) THEN V3(IF Member(v, a.coll) THEN "acc" ELSE "rej", v)
         ELSE V3("free", v)
    [] fn.fam = "a" ->
         IF v.k \in {"npint", "npfloat", "none"} \/ (v.k = "bool" /\ a.t = "int") THEN V3("free", v)
         ELSE V3(IF v.k = a.t THEN "acc" ELSE "rej", v)
    [] fn.fam = "exactly" ->
         IF a.ex = "same" THEN V3("acc", v) ELSE IF a.ex = "diff" THEN V3("rej", v) ELSE V3("free", v)
    [] fn.fam = "token" ->
         IF IsNone(v) THEN V3("rej", v)
         ELSE IF ~IsStr(v) THEN V3("free", v)
         ELSE IF (v.s = "" /\ ~a.eo) \/ (a.ws = "default" /\ HasDefaultWhitespace(v.s)) \/ (a.ws = "b" /\ HasLetterB(v.s))
              THEN V3("rej", v) ELSE V3("acc", v)
    [] fn.fam = "ndim" -> IF IsT(v) THEN V3(IF v.nd = a.nd THEN "acc" ELSE "rej", v) ELSE V3("free", v)
    [] fn.fam = "nonempty" -> IF IsT(v) THEN V3(IF Len(v.el) > 0 THEN "acc" ELSE "rej", v) ELSE V3("free", v)
    [] fn.fam = "as" ->
         IF ~CastJudged(fn.ty, v) THEN V3("free", v)
         ELSE LET c == PyCast(fn.ty, v)
              IN IF ~c.ok THEN V3("rej", v)
                 ELSE IF fn.cond = "" THEN V3("acc", c.v)
                 ELSE V3(CondDoc(fn.cond, c.v, a), c.v)

\* D5
Doc(fn, v, a) == IF a.an /\ IsNone(v) /\ fn.fam # "as" THEN V3("acc", NoneV) ELSE DocBody(fn, v, a)
Judged(fn, v, a) == Doc(fn, v, a).vd # "free"
Accepts(fn, v, a) == Doc(fn, v, a).vd = "acc"
Result(fn, v, a) == Doc(fn, v, a).res

(***************************************************************************)
(* CODE-SHAPED SIDE                                                        *)
(***************************************************************************)
VARIABLES cs,      \* the case: [fn, v, a]
          fault,
          pc,      \* index into the pipeline
          cur,     \* the value being threaded through the stages
          out      \* "run" | "acc" | "rej"
vars == <<cs, fault, pc, cur, out>>

HasF(f, x) == f = x \/ f = "aswritten"
Typed(fn) == fn.fam \in {"cond", "cmp", "btw"} /\ fn.ty # ""
Affected(fn) == Typed(fn) /\ (fn.cond = "closed01" \/ fn.fam = "btw")

Pipe(fn, f) ==
  CASE fn.fam = "type" -> <<"wrap", "type", "ret">>
    [] fn.fam = "numlike" -> <<"wrap", "numlike", "ret">>
    [] fn.fam \in {"cond", "cmp"} ->
         IF fn.ty = "" THEN <<"wrap", "numlike", "cond", "ret">>
         ELSE <<"wrap", "type", "numlike", "cond", "ret">>
    [] fn.fam = "btw" ->
         IF fn.ty = "" THEN <<"wrap", "numlike", "left", "right", "ret">>
         ELSE IF HasF(f, "btwnone") THEN <<"type", "wrap", "numlike", "left", "right", "ret">>
         ELSE <<"wrap", "type", "numlike", "left", "right", "ret">>
    [] fn.fam = "token" -> <<"wrap", "type", "pred", "ret">>
    [] fn.fam \in {"in", "a", "exactly", "ndim", "nonempty"} -> <<"wrap", "pred", "ret">>
    [] fn.fam = "as" ->
         IF fn.cond = "" THEN <<"cast", "ret">> ELSE <<"cast", "numlike", "cond", "ret">>

\* isinstance(val, (t,) + ts) of _type_check_factory
StageType(fn) == IF fn.fam = "token" THEN "str" ELSE IF fn.fam = "type" THEN fn.ty ELSE TypeOfSuffix(fn.ty)
PyIsInstance(t, v) ==
  CASE t = "int" -> v.k \in {"int", "bool", "npint"}
    [] t = "float" -> v.k \in {"float", "int", "bool", "npint", "npfloat"}
    [] t = "bool" -> v.k = "bool"
    [] t = "str" -> v.k = "str"
    [] t = "tensor" -> v.k = "tensor"
Coerce(t, v) ==                                   \* val if type(val) is t else t(val)
  CASE t = "int" -> IntV(v.n)
    [] t = "float" -> AsFloatV(v)
    [] OTHER -> v
NumlikeOK(v) == v.k \in {"int", "bool", "float", "npint", "npfloat", "tensor"}

\* the comparisons a condition makes: the code raises iff ANY element satisfies the NEGATED comparison
Req(op, y) == [op |-> op, y |-> y]
Reqs(c, a) ==
  CASE c = "pos" -> <<Req("gt", XInt(0))>>
    [] c = "neg" -> <<Req("lt", XInt(0))>>
    [] c = "nonpos" -> <<Req("le", XInt(0))>>
    [] c = "nonneg" -> <<Req("ge", XInt(0))>>
    [] c = "open01" -> <<Req("gt", XInt(0)), Req("lt", XInt(1))>>
    [] c = "closed01" -> <<Req("ge", XInt(0)), Req("le", XInt(1))>>
    [] c = "equal" -> <<Req("eq", XOf(a.o))>>
    [] c = "lt" -> <<Req("lt", XOf(a.o))>>
    [] c = "lte" -> <<Req("le", XOf(a.o))>>
    [] c = "gt" -> <<Req("gt", XOf(a.o))>>
    [] c = "gte" -> <<Req("ge", XOf(a.o))>>
LeftReq(a) == Req(IF a.li THEN "ge" ELSE "gt", XOf(a.l))
RightReq(a) == Req(IF a.ri THEN "le" ELSE "lt", XOf(a.r))
CodeOK(reqs, v) == \A i \in 1..Len(XS(v)) : \A j \in 1..Len(reqs) : ~Rel(NegOp(reqs[j].op), XS(v)[i], reqs[j].y)
CodeCond(fn, f) == IF Typed(fn) /\ fn.cond = "closed01" /\ HasF(f, "closed01") THEN "nonneg" ELSE fn.cond

\* the remaining predicates, as the code evaluates them
PyIsA(t, v) == v.k = t \/ (t = "int" /\ v.k = "bool") \/ (t = "float" /\ v.k = "npfloat")   \* np.float64 subclasses float
Scalarish(x) == IsNumK(x) \/ x.k = "bool" \/ (IsT(x) /\ Len(x.el) = 1)      \* bool(tensor == y) needs one element
PyEq(x, y) ==                                                                              \* python's == inside `in`
  IF Scalarish(x) /\ Scalarish(y) THEN EqX(XOf(x), XOf(y)) ELSE x = y
PredOK(fn, v, a) ==
  CASE fn.fam = "in" -> \E i \in 1..Len(a.coll) : PyEq(v, a.coll[i])
    [] fn.fam = "a" -> PyIsA(a.t, v)
    [] fn.fam = "exactly" -> a.ex = "same" \/ (a.ex = "copy" /\ v.k \in {"none", "bool", "int", "str"})   \* singletons, cached small ints, str(s) is s
    [] fn.fam = "token" -> /\ (a.eo \/ v.s # "")
                           /\ ~(a.ws = "default" /\ HasDefaultWhitespace(v.s))
                           /\ ~(a.ws = "b" /\ HasLetterB(v.s))
    [] fn.fam = "ndim" -> (IsT(v) /\ v.nd = a.nd) \/ (v.k \in {"npint", "npfloat"} /\ a.nd = 0)   \* numpy scalars have .ndim = 0; anything else has no .ndim: raises
    [] fn.fam = "nonempty" -> IsT(v) /\ Len(v.el) > 0

\* one initial state per (function, value, arguments) -- and per fault where the fault can matter.
\* (no constant-level set of all cases: TLC precomputes such definitions and its UNION is quadratic)
Init ==
  /\ fault \in Faults
  /\ \E fn \in Fns : \E v \in Vals : \E a \in ArgsOf(fn) :
        /\ (fault # "none" => Affected(fn))
        /\ cs = [fn |-> fn, v |-> v, a |-> a]
  /\ pc = 1 /\ cur = cs.v /\ out = "run"

Stage == Pipe(cs.fn, fault)[pc]
Running(st) == out = "run" /\ Stage = st
Advance == pc' = pc + 1 /\ UNCHANGED <<cs, fault, cur, out>>
Reject == out' = "rej" /\ UNCHANGED <<cs, fault, pc, cur>>

NoneShortCut == Running("wrap") /\ cs.a.an /\ IsNone(cur) /\ out' = "acc" /\ UNCHANGED <<cs, fault, pc, cur>>
PassWrapper == Running("wrap") /\ ~(cs.a.an /\ IsNone(cur)) /\ Advance
Cast == /\ Running("cast")
        /\ LET c == PyCast(cs.fn.ty, cur)
           IN IF c.ok THEN cur' = c.v /\ pc' = pc + 1 /\ UNCHANGED <<cs, fault, out>> ELSE Reject
TypeStage == /\ Running("type")
             /\ IF PyIsInstance(StageType(cs.fn), cur)
                THEN cur' = Coerce(StageType(cs.fn), cur) /\ pc' = pc + 1 /\ UNCHANGED <<cs, fault, out>>
                ELSE Reject
NumlikeStage == Running("numlike") /\ (IF NumlikeOK(cur) THEN Advance ELSE Reject)
ConditionStage == Running("cond") /\ (IF CodeOK(Reqs(CodeCond(cs.fn, fault), cs.a), cur) THEN Advance ELSE Reject)
LeftBound == Running("left") /\ (IF CodeOK(<<LeftReq(cs.a)>>, cur) THEN Advance ELSE Reject)
RightBound == Running("right") /\ (IF CodeOK(<<RightReq(cs.a)>>, cur) THEN Advance ELSE Reject)
PredicateStage == Running("pred") /\ (IF PredOK(cs.fn, cur, cs.a) THEN Advance ELSE Reject)
Return == Running("ret") /\ out' = "acc" /\ UNCHANGED <<cs, fault, pc, cur>>

Next == \/ NoneShortCut \/ PassWrapper \/ Cast \/ TypeStage \/ NumlikeStage \/ ConditionStage
        \/ LeftBound \/ RightBound \/ PredicateStage \/ Return
Spec == Init /\ [][Next]_vars

(***************************************************************************)
(* Design invariants                                                       *)
(***************************************************************************)
Done == out # "run"
First == out = "run" /\ pc = 1 /\ fault = "none"      \* one state per case: table-only laws are checked here

ShapeOK == /\ out \in {"run", "acc", "rej"}
           /\ pc \in 1..Len(Pipe(cs.fn, fault))
           /\ fault \in {"none", "closed01", "btwnone", "aswritten"}

\* the composition the module is documented to be IS the table, on every cell the documentation decides
ComposedIsTable ==
  (Done /\ (fault = "none" \/ JudgeFaulty) /\ Judged(cs.fn, cs.v, cs.a)) =>
     /\ (out = "acc") = Accepts(cs.fn, cs.v, cs.a)
     /\ (out = "acc" => cur = Result(cs.fn, cs.v, cs.a))

AllowNoneOnlyAddsNone ==
  (First /\ cs.fn.fam # "as") =>
     LET off == [cs.a EXCEPT !.an = FALSE]
         on == [cs.a EXCEPT !.an = TRUE]
     IN IF IsNone(cs.v)
        THEN Accepts(cs.fn, cs.v, on) /\ Result(cs.fn, cs.v, on) = NoneV
        ELSE Doc(cs.fn, cs.v, on) = Doc(cs.fn, cs.v, off)

\* is_btw(v, l, r, li, ri)  <=>  is_gt|is_gte(v, l) /\ is_lt|is_lte(v, r), suffix by suffix
IntervalDuality ==
  (First /\ cs.fn.fam = "btw" /\ Judged(cs.fn, cs.v, cs.a)) =>
     LET lo == CmpFn(IF cs.a.li THEN "gte" ELSE "gt", cs.fn.ty)
         hi == CmpFn(IF cs.a.ri THEN "lte" ELSE "lt", cs.fn.ty)
         al == [DefArgs EXCEPT !.an = cs.a.an, !.o = cs.a.l]
         ar == [DefArgs EXCEPT !.an = cs.a.an, !.o = cs.a.r]
     IN /\ Judged(lo, cs.v, al) /\ Judged(hi, cs.v, ar)
        /\ Accepts(cs.fn, cs.v, cs.a) <=> (Accepts(lo, cs.v, al) /\ Accepts(hi, cs.v, ar))

\* at an end point of a non-empty interval the closed check accepts and the open one rejects
ClosedIsNotOpenAtEnds ==
  (First /\ cs.fn.fam = "btw" /\ cs.fn.cond = "btw_closed" /\ (IsNumK(cs.v) \/ (IsT(cs.v) /\ Len(cs.v.el) = 1))
     /\ ~HasNan(cs.v) /\ ~LtX(XOf(cs.a.r), XOf(cs.a.l))
     /\ (EqX(XOf(cs.v), XOf(cs.a.l)) \/ EqX(XOf(cs.v), XOf(cs.a.r)))
     /\ (cs.fn.ty = "" \/ TypeDoc(TypeOfSuffix(cs.fn.ty), cs.v).vd = "acc")) =>
     /\ Accepts(cs.fn, cs.v, cs.a)
     /\ Judged(BtwFn("btw_open", cs.fn.ty), cs.v, [cs.a EXCEPT !.li = FALSE, !.ri = FALSE])
     /\ ~Accepts(BtwFn("btw_open", cs.fn.ty), cs.v, [cs.a EXCEPT !.li = FALSE, !.ri = FALSE])

\* a checker accepts its own result and returns it unchanged
Idempotent ==
  (First /\ Accepts(cs.fn, cs.v, cs.a)) =>
     LET r == Result(cs.fn, cs.v, cs.a)
     IN Accepts(cs.fn, r, cs.a) /\ Result(cs.fn, r, cs.a) = r

\* is_nat = is_posi; open01 / closed01 are the unit intervals; open / closed are the two extreme is_btw
Aliases ==
  First =>
     /\ (cs.fn = NatFn => Doc(cs.fn, cs.v, cs.a) = Doc(CondFn("pos", "i"), cs.v, cs.a))
     /\ (cs.fn.fam = "cond" /\ cs.fn.cond \in {"open01", "closed01"} =>
           LET b == cs.fn.cond = "closed01"
           IN Doc(cs.fn, cs.v, cs.a) = Doc(BtwFn("btw", cs.fn.ty), cs.v,
                                           [cs.a EXCEPT !.l = IntV(0), !.r = IntV(1), !.li = b, !.ri = b]))
     /\ (cs.fn.fam = "btw" /\ cs.fn.cond # "btw" => Doc(cs.fn, cs.v, cs.a) = Doc(BtwFn("btw", cs.fn.ty), cs.v, cs.a))

\* as_<cond><i|f>: what it returns is accepted unchanged by the is_ checker of the same name
AsIsCastThenCheck ==
  (First /\ cs.fn.fam = "as" /\ cs.fn.cond # "" /\ Accepts(cs.fn, cs.v, cs.a)) =>
     LET suf == IF cs.fn.ty = "int" THEN "i" ELSE "f"
         r == Result(cs.fn, cs.v, cs.a)
     IN Accepts(CondFn(cs.fn.cond, suf), r, DefArgs) /\ Result(CondFn(cs.fn.cond, suf), r, DefArgs) = r

(***************************************************************************)
(* Export: one record per terminal state = one implementation test         *)
(***************************************************************************)
Emit(rec) == PrintT(<<"VFJ", ToJson(rec)>>)
RECURSIVE SetToSeq(_)
SetToSeq(S) == IF S = {} THEN <<>> ELSE LET x == CHOOSE y \in S : TRUE IN <<x>> \o SetToSeq(S \ {x})
Ids(seq) == [i \in 1..Len(seq) |-> seq[i].id]
UniverseState == First /\ cs.fn = TypeFn("int") /\ cs.v = NoneV /\ ~cs.a.an
AllValues == Vals \cup Others \cup UNION {{p[1], p[2]} : p \in Bounds} \cup UNION {{c[i] : i \in 1..Len(c)} : c \in Colls}
Export ==
  /\ UniverseState => Emit([kind |-> "universe", vals |-> SetToSeq(AllValues), nfns |-> Cardinality(Fns)])
  /\ Done =>
       LET d == Doc(cs.fn, cs.v, cs.a)
       IN Emit([kind |-> IF fault = "none" THEN "case" ELSE "aswritten",
                fn |-> cs.fn.name, fam |-> cs.fn.fam, ty |-> cs.fn.ty, cond |-> cs.fn.cond,
                v |-> cs.v.id, an |-> cs.a.an, o |-> cs.a.o.id, l |-> cs.a.l.id, r |-> cs.a.r.id,
                li |-> cs.a.li, ri |-> cs.a.ri, coll |-> Ids(cs.a.coll), t |-> cs.a.t, eo |-> cs.a.eo,
                ws |-> cs.a.ws, nd |-> cs.a.nd, ex |-> cs.a.ex,
                doc |-> d.vd, res |-> IF d.vd = "acc" THEN d.res ELSE NoneV,
                m |-> out, st |-> Stage, mres |-> IF out = "acc" THEN cur ELSE NoneV])
=============================================================================
