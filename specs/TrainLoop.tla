------------------------------ MODULE TrainLoop ------------------------------
(***************************************************************************)
(* X04 (extra coverage): a WHOLE TRAINING JOB - the canonical loop of the   *)
(* pydrobert.torch documentation, with crashes and restarts:                *)
(*                                                                         *)
(*   ctl = TrainingStateController(params, csv, dir)                        *)
(*   epoch = ctl.get_last_epoch()                                           *)
(*   loader = SpectDataLoader(data, dlp, init_epoch=epoch, seed=S,          *)
(*                            shuffle=True)                                 *)
(*   ctl.load_model_and_optimizer_for_epoch(model, optim, epoch)   (Start)  *)
(*   while ctl.continue_training():                       (BeginEpoch/Finish)*)
(*       for batch in loader: train on batch                        (Batch) *)
(*       ctl.update_for_epoch(model, optim, trn, val)   (BeginUpdate ... Return)*)
(*                                                                         *)
(* DISK: `rows` (the history file, rows of TrainCtl), `fs` (checkpoint      *)
(* files, name -> content).  PROCESS: `proc` (controller memory, loader     *)
(* epoch counter, live iterator, position, model weight, optimizer rate) and*)
(* `plan` (the in-flight update_for_epoch).  A Crash discards proc and plan;*)
(* Start builds a new process image from the disk.                          *)
(*                                                                         *)
(* The data order of loader epoch k is Perm(S, k), UNINTERPRETED: the model *)
(* weight is the sequence of <<k, j>> (key of the epoch order, position of  *)
(* the batch) applied so far, so two weights are equal iff the same batches *)
(* of the same epoch orders were applied in the same order.  (The trace     *)
(* specification TrainLoopTrace interprets <<k, j>> through the order it    *)
(* infers from the implementation.)                                         *)
(*                                                                         *)
(* Decisions (row arithmetic, continue_training, best epoch) are those of   *)
(* TrainCtl, INSTANTIATED, not restated.  update_for_epoch is refined into  *)
(* its file-system calls in the code's order, following TrainCtlFs (formats *)
(* with the epoch field): TrainCtlFs itself cannot be instantiated because  *)
(* its history is a sequence of metrics and its file content an epoch       *)
(* number - a substitution would put a prime on an expression - so the step *)
(* list is restated here with `content = weight + rate`; kept split (not    *)
(* atomic) because crash (c) of the job is "at any file-system call".       *)
(***************************************************************************)
EXTENDS Naturals, Integers, Sequences, FiniteSets, TLC, Json

CONSTANTS ParamSpace,         \* set of TrainCtl parameter records; 1 <= ne <= MaxE (the job ends by itself)
          KeepModes,          \* subset of BOOLEAN: keep_last_and_best_only
          Levels,             \* validation metric values
          MaxE,               \* longest job (epochs)
          NBs,                \* batches per epoch (set of choices)
          MaxCrash,           \* crashes per behaviour
          MaxFsCrash,         \* of which inside update_for_epoch (1: the two-crash window of C16 is out of scope)
          InitEpochFromDisk   \* TRUE: loader constructed with init_epoch = get_last_epoch() (documented);
                              \* FALSE: the classic mistake, init_epoch = 0 after a restart

VARIABLES p,      \* TrainCtl parameters
          keep,   \* keep_last_and_best_only
          M,      \* 1..MaxE -> validation metric of each epoch (a re-run epoch measures the same)
          nb,     \* batches per epoch
          ref,    \* the history of the UNINTERRUPTED job (computed in Init from p and M)
          rows,   \* DISK: history file
          fs,     \* DISK: <<kind, epoch>> -> [w |-> weight, lrk |-> rate]
          proc,   \* PROCESS image
          plan,   \* PROCESS: in-flight update_for_epoch
          log,    \* epoch -> the batches the recorded run of that epoch was trained on
          sched   \* crashes so far (exported: where to kill the real job)
vars == <<p, keep, M, nb, ref, rows, fs, proc, plan, log, sched>>

\* TrainCtl with its history file bound to h; only its state-level operators are used
TC(h) == INSTANCE TrainCtl WITH MaxLen <- MaxE, hist <- h,
                                cache <- <<>>, conts <- <<>>, optlr <- 0, ckpt <- <<>>, decl <- <<>>, fresh <- FALSE

Put(f, n, c) == [x \in DOMAIN f \cup {n} |-> IF x = n THEN c ELSE f[x]]
Drop(f, n) == [x \in DOMAIN f \ {n} |-> f[x]]
Nm(kind, e) == <<kind, e>>
Names(e) == {Nm("m", e), Nm("o", e)}
LastE(mem) == CHOOSE e \in DOMAIN mem : \A x \in DOMAIN mem : x <= e          \* get_last_epoch()
HistOf(mem) == [i \in 1..LastE(mem) |-> mem[i]]
Loadable(e) == Nm("m", e) \in DOMAIN fs /\ Nm("o", e) \in DOMAIN fs

(***************************************************************************)
(* the uninterrupted job                                                   *)
(***************************************************************************)
EpochProv(k) == [j \in 1..nb |-> <<k, j>>]            \* the batches of Perm(S, k), in order
RECURSIVE RefW(_)
RefW(e) == IF e = 0 THEN <<>> ELSE RefW(e - 1) \o EpochProv(e - 1)     \* weight after epoch e
\* its history: by induction on the number of epochs (n = the history after at most n epochs)
RefStep(h) == IF TC(h)!ContOf(TC(h)!FromHist(h)[Len(h)])
              THEN Append(h, TC(h)!Update(TC(h)!FromHist(h), M[Len(h) + 1])) ELSE h
RefRun == LET f[n \in 0..MaxE] == IF n = 0 THEN <<>>
                                  ELSE IF Len(f[n - 1]) < n - 1 THEN f[n - 1] ELSE RefStep(f[n - 1])
          IN f[MaxE]

ASSUME \A q \in ParamSpace : q.ne \in 1..MaxE

Dead == [phase |-> "dead", mem |-> <<>>, lep |-> 0, itk |-> 0, pos |-> 0, w |-> <<>>, lrk |-> 0]
NoPlan == [e |-> 0]

Init ==
  /\ p \in ParamSpace /\ keep \in KeepModes /\ M \in [1..MaxE -> Levels] /\ nb \in NBs
  /\ rows = <<>> /\ fs = <<>> /\ proc = Dead /\ plan = NoPlan /\ log = <<>> /\ sched = <<>>
  /\ ref = RefRun

(***************************************************************************)
(* process                                                                 *)
(***************************************************************************)
\* a new process image: controller (reads the history), loader, load_model_and_optimizer_for_epoch
Start ==
  /\ proc.phase = "dead"
  /\ LET mem == TC(rows)!FromHist(rows)
         last == LastE(mem)
         le == IF InitEpochFromDisk THEN last ELSE 0
     IN proc' = IF last = 0
                THEN [phase |-> "check", mem |-> mem, lep |-> le, itk |-> 0, pos |-> 0, w |-> <<>>, lrk |-> 0]
                ELSE IF Loadable(last)
                THEN [phase |-> "check", mem |-> mem, lep |-> le, itk |-> 0, pos |-> 0,
                      w |-> fs[Nm("m", last)].w, lrk |-> fs[Nm("o", last)].lrk]
                ELSE [Dead EXCEPT !.phase = "broken"]          \* torch.load raises
  /\ UNCHANGED <<p, keep, M, nb, ref, rows, fs, plan, log, sched>>

Cont == TC(HistOf(proc.mem))!ContOf(proc.mem[LastE(proc.mem)])        \* continue_training()

\* `while ctl.continue_training():` true, `for batch in loader:` creates the epoch's iterator
BeginEpoch ==
  /\ proc.phase = "check" /\ Cont
  /\ proc' = [proc EXCEPT !.phase = "iter", !.itk = proc.lep, !.lep = proc.lep + 1, !.pos = 0]
  /\ UNCHANGED <<p, keep, M, nb, ref, rows, fs, plan, log, sched>>

\* continue_training() false: the job is over
Finish ==
  /\ proc.phase = "check" /\ ~Cont
  /\ proc' = [proc EXCEPT !.phase = "done"]
  /\ UNCHANGED <<p, keep, M, nb, ref, rows, fs, plan, log, sched>>

\* the next batch of the live iterator is consumed; the weight becomes a function of the order
Batch ==
  /\ proc.phase = "iter" /\ proc.pos < nb
  /\ proc' = [proc EXCEPT !.pos = proc.pos + 1, !.w = Append(proc.w, <<proc.itk, proc.pos + 1>>)]
  /\ UNCHANGED <<p, keep, M, nb, ref, rows, fs, plan, log, sched>>

(***************************************************************************)
(* update_for_epoch, call by call (cf. TrainCtlFs; formats with the epoch)  *)
(***************************************************************************)
SaveSteps == <<"mkdM", "tmpM", "wrM", "mkdO", "tmpO", "wrO", "replM", "replO">>

BeginUpdate ==
  /\ proc.phase = "iter" /\ proc.pos = nb
  /\ LET mem == proc.mem
         e == LastE(mem) + 1
         h == HistOf(mem)
     IN \E row \in {TC(h)!Update(mem, M[e])} :
        LET lastbest == TC(h)!BestOf(h)
            curbest == TC(h)!BestOf(Append(h, row))
            new == Names(e)
            last == Names(e - 1)
            lb == Names(lastbest)
            branchA == keep /\ curbest = e - 1
            first == IF keep THEN ~branchA /\ (new \cap (last \cup lb)) # {}
                     ELSE (new \cap DOMAIN fs) # {}
            clean == IF ~keep \/ branchA THEN {}
                     ELSE (last \cup (IF lastbest # curbest THEN lb ELSE {})) \ new
        IN /\ plan' = [e |-> e, row |-> row, first |-> first, clean |-> clean, s |-> 0,
                       todo |-> (IF first THEN <<"append">> ELSE <<>>) \o SaveSteps
                                \o (IF first THEN <<>> ELSE <<"append">>),
                       w |-> proc.w, prov |-> SubSeq(proc.w, Len(proc.w) - nb + 1, Len(proc.w))]
           /\ proc' = [proc EXCEPT !.phase = "update", !.lrk = row.lrk]
  /\ UNCHANGED <<p, keep, M, nb, ref, rows, fs, log, sched>>

InUpdate == proc.phase = "update"
NextCall == plan.todo[1]
Pop == [plan EXCEPT !.todo = Tail(plan.todo), !.s = plan.s + 1]

\* os.makedirs / NamedTemporaryFile / torch.save into the temporary file: nothing durable that matters
FsQuiet ==
  /\ InUpdate /\ plan.todo # <<>> /\ NextCall \in {"mkdM", "tmpM", "wrM", "mkdO", "tmpO", "wrO"}
  /\ plan' = Pop
  /\ UNCHANGED <<p, keep, M, nb, ref, rows, fs, proc, log, sched>>

\* os.replace(tmp, checkpoint)
Replace ==
  /\ InUpdate /\ plan.todo # <<>> /\ NextCall \in {"replM", "replO"}
  /\ fs' = Put(fs, Nm(IF NextCall = "replM" THEN "m" ELSE "o", plan.e), [w |-> plan.w, lrk |-> plan.row.lrk])
  /\ plan' = Pop
  /\ UNCHANGED <<p, keep, M, nb, ref, rows, proc, log, sched>>

\* save_info_to_hist: the row reaches the file (and the controller's memory)
AppendRow ==
  /\ InUpdate /\ plan.todo # <<>> /\ NextCall = "append"
  /\ rows' = Append(rows, plan.row)
  /\ log' = Put(log, plan.e, plan.prov)
  /\ proc' = [proc EXCEPT !.mem = Put(proc.mem, plan.e, plan.row)]
  /\ plan' = Pop
  /\ UNCHANGED <<p, keep, M, nb, ref, fs, sched>>

\* _clean_up_files: existing files only, in any order
Remove ==
  /\ InUpdate /\ plan.todo = <<>>
  /\ \E n \in plan.clean \cap DOMAIN fs :
        /\ fs' = Drop(fs, n)
        /\ plan' = [plan EXCEPT !.s = plan.s + 1]
  /\ UNCHANGED <<p, keep, M, nb, ref, rows, proc, log, sched>>

UpdateFinished == InUpdate /\ plan.todo = <<>> /\ plan.clean \cap DOMAIN fs = {}

\* update_for_epoch returns
Return ==
  /\ UpdateFinished
  /\ proc' = [proc EXCEPT !.phase = "check"]
  /\ plan' = NoPlan
  /\ UNCHANGED <<p, keep, M, nb, ref, rows, fs, log, sched>>

(***************************************************************************)
(* crash: (a) between epochs, (b) mid-epoch, (c) inside update_for_epoch    *)
(***************************************************************************)
FsCrashes == Cardinality({i \in 1..Len(sched) : sched[i].at = "fs"})

CrashPoint ==
  CASE proc.phase = "check" -> [at |-> "check", e |-> LastE(proc.mem), j |-> 0]          \* (a)
    [] proc.phase = "iter"  -> [at |-> "iter", e |-> LastE(proc.mem) + 1, j |-> proc.pos] \* (b) after j batches
    [] OTHER                -> [at |-> "fs", e |-> plan.e, j |-> plan.s]                   \* (c) after j calls

CrashGuard ==
  /\ Len(sched) < MaxCrash
  /\ \/ proc.phase = "check"
     \/ proc.phase = "iter" /\ proc.pos >= 1      \* (no batch consumed = (a))
     \/ InUpdate /\ plan.s >= 1 /\ ~UpdateFinished /\ FsCrashes < MaxFsCrash   \* (no call made = (b) with j = nb)

Crash ==
  /\ CrashGuard
  /\ sched' = Append(sched, CrashPoint)
  /\ proc' = Dead /\ plan' = NoPlan
  /\ UNCHANGED <<p, keep, M, nb, ref, rows, fs, log>>

Terminated == proc.phase \in {"done", "broken"} /\ UNCHANGED vars

Progress == Start \/ BeginEpoch \/ Finish \/ Batch \/ BeginUpdate \/ FsQuiet \/ Replace \/ AppendRow \/ Remove \/ Return
Next == Progress \/ Crash \/ Terminated
Spec == Init /\ [][Next]_vars /\ WF_vars(Progress)

(***************************************************************************)
(* design invariants                                                       *)
(***************************************************************************)
IsPrefixOf(a, b) == Len(a) <= Len(b) /\ \A i \in 1..Len(a) : a[i] = b[i]

TypeOK ==
  /\ proc.phase \in {"dead", "check", "iter", "update", "done", "broken"}
  /\ (plan.e # 0) <=> proc.phase = "update"
  /\ proc.phase \in {"check", "iter", "update", "done"} => DOMAIN proc.mem = 0..LastE(proc.mem)

\* load_model_and_optimizer_for_epoch never fails at a restart
NeverBroken == proc.phase # "broken"

\* (1) every checkpoint on disk - of a recorded epoch or of one whose row is not there yet - holds exactly
\* the weight (and rate) of the uninterrupted job after that epoch; every recorded epoch was trained on
\* Perm(S, e - 1), whole and in order; the last recorded epoch can be loaded wherever the process may die; at the
\* end of the job the last and the best epoch are there (every epoch when everything is kept)
MayDieHere == proc.phase # "update" \/ CrashGuard
ResumeIsTransparent ==
  /\ \A n \in DOMAIN fs : /\ n[2] \in 1..Len(ref)
                          /\ fs[n].w = RefW(n[2])
                          /\ fs[n].lrk = ref[n[2]].lrk
  /\ \A e \in 1..Len(rows) : e \in DOMAIN log /\ log[e] = EpochProv(e - 1)
  /\ (MayDieHere /\ Len(rows) > 0) => Loadable(Len(rows))
  /\ proc.phase = "done" =>
        /\ Loadable(TC(rows)!BestOf(rows))
        /\ ~keep => \A e \in 1..Len(rows) : Loadable(e)
\* the weight in memory is never ahead of / different from the uninterrupted job's
MemoryIsReference ==
  /\ proc.phase = "check" => proc.w = RefW(LastE(proc.mem))
  /\ proc.phase = "iter" => proc.w = RefW(LastE(proc.mem)) \o SubSeq(EpochProv(LastE(proc.mem)), 1, proc.pos)

\* (2) the history has every epoch once, in order, and is the uninterrupted one as far as it goes
NoEpochTwiceNoEpochSkipped ==
  /\ \A i \in 1..Len(rows) : rows[i].epoch = i
  /\ IsPrefixOf(rows, ref)

\* (3) at every epoch start the loader is at the controller's epoch
LoaderEpochMatchesController ==
  /\ proc.phase = "check" => proc.lep = LastE(proc.mem)
  /\ proc.phase = "iter" => proc.itk = LastE(proc.mem) /\ proc.lep = proc.itk + 1

\* (4) the job stops exactly where the uninterrupted job stops
SameStopDecision ==
  /\ (proc.phase = "done") => (rows = ref)
  /\ (proc.phase = "iter") => (LastE(proc.mem) < Len(ref))
  /\ (proc.phase = "update") => (plan.e <= Len(ref))

\* the controller's memory is what a fresh controller would read; the optimizer carries the recorded rate
MemoryIsDisk ==
  proc.phase \in {"check", "iter"} =>
     /\ proc.mem = TC(rows)!FromHist(rows)
     /\ proc.lrk = (IF Len(rows) = 0 THEN 0 ELSE rows[Len(rows)].lrk)

\* (5) with boundedly many crashes the job ends
Termination == <>(proc.phase = "done")

(***************************************************************************)
(* export: one record per maximal behaviour                                *)
(***************************************************************************)
Emit(rec) == PrintT(<<"VFJ", ToJson(rec)>>)
Export == proc.phase = "done" =>
             Emit([p |-> p, keep |-> keep, M |-> M, nb |-> nb, sched |-> sched, rows |-> rows,
                   best |-> TC(rows)!BestOf(rows)])
=============================================================================
