---------------------------- MODULE FeatStatsAcc ----------------------------
(***************************************************************************)
(* MeanVarianceNormalization.accumulate / store (_feats.py) and the        *)
(* directory command compute-mvn-stats-for-torch-feat-data-dir, which      *)
(* accumulates one file after the other.                                   *)
(*                                                                         *)
(* Code-shaped machine: the running triple (count, sum, sumsq); action     *)
(* Acc(S) = one call of accumulate() on a chunk made of the not yet        *)
(* consumed frames S -- ANY non-empty subset, so the behaviours are all    *)
(* ordered partitions of the data ("any partition, in any order").  store  *)
(* computes mean = sum/count, var = sumsq/count - mean^2, times            *)
(* count/(count-1) with Bessel's correction.                               *)
(* Declarative side: the pooled population statistics of all frames.       *)
(***************************************************************************)
EXTENDS FeatStats

CONSTANTS FrameVals,   \* admissible frames: sequences of C integers
          MaxN,        \* at most MaxN frames
          C            \* coefficients per frame

VARIABLES data,        \* 1..n -> frame
          remaining,   \* indices of frames not yet accumulated
          chunks,      \* history: the chunks in the order they were accumulated (sorted index lists)
          count, sum, sumsq
vars == <<data, remaining, chunks, count, sum, sumsq>>

NFr == Len(data)
Coef == 1..C
Consumed == (1..NFr) \ remaining

Init ==
  /\ \E n \in 1..MaxN : data \in [1..n -> FrameVals]
  /\ remaining = 1..Len(data)
  /\ chunks = <<>>
  /\ count = 0
  /\ sum = [i \in Coef |-> 0]
  /\ sumsq = [i \in Coef |-> 0]

Acc(S) ==
  /\ S # {} /\ S \subseteq remaining
  /\ count' = count + Cardinality(S)
  /\ sum' = [i \in Coef |-> sum[i] + SumSet(S, LAMBDA t : data[t][i])]
  /\ sumsq' = [i \in Coef |-> sumsq[i] + SumSet(S, LAMBDA t : data[t][i] * data[t][i])]
  /\ remaining' = remaining \ S
  /\ chunks' = Append(chunks, SetToSeq(S))
  /\ UNCHANGED data

Next == \E S \in SUBSET remaining : Acc(S)
Spec == Init /\ [][Next]_vars

(***************************************************************************)
(* store(), code-shaped, as exact rationals                                *)
(***************************************************************************)
MeanCode(i) == <<sum[i], count>>
VarCode(i, bessel) ==
  LET msq == RatMul(MeanCode(i), MeanCode(i))
      v == RatAdd(<<sumsq[i], count>>, <<-msq[1], msq[2]>>)      \* sumsq / count - mean^2
  IN IF bessel THEN RatMul(v, <<count, count - 1>>) ELSE v

(***************************************************************************)
(* Declarative side                                                        *)
(***************************************************************************)
PSum(S, i) == SumSet(S, LAMBDA t : data[t][i])
PSq(S, i) == SumSet(S, LAMBDA t : data[t][i] * data[t][i])
\* population mean of coefficient i over ALL frames, and the variance as the mean squared deviation:
\* with n frames and total Tt, n * (x - mean) = n*x - Tt, so  var = Sum (n*x - Tt)^2 / n^3
PoolMean(i) == <<PSum(1..NFr, i), NFr>>
Dev(t, i) == NFr * data[t][i] - PSum(1..NFr, i)
PoolVar(i, bessel) ==
  LET ss == SumSet(1..NFr, LAMBDA t : Dev(t, i) * Dev(t, i))
  IN IF bessel THEN <<ss, NFr * NFr * (NFr - 1)>> ELSE <<ss, NFr * NFr * NFr>>

\* the accumulated triple depends only on WHICH frames were consumed, not on how they were chunked
\* or ordered
AccIsPooled ==
  /\ count = Cardinality(Consumed)
  /\ \A i \in Coef : sum[i] = PSum(Consumed, i) /\ sumsq[i] = PSq(Consumed, i)

Done == remaining = {}
\* store() yields the pooled population statistics
StoreIsPooled ==
  Done => \A i \in Coef :
            /\ RatEq(MeanCode(i), PoolMean(i))
            /\ RatEq(VarCode(i, FALSE), PoolVar(i, FALSE))
            /\ (NFr >= 2 => RatEq(VarCode(i, TRUE), PoolVar(i, TRUE)))
\* normalising the pooled data: with Dev = n * (x - mean), the deviations sum to zero and their squares
\* sum to n^3 * var = n * (n * sumsq - sum^2): zero mean and unit variance of (x - mean) / std
Normalised ==
  Done => \A i \in Coef :
            /\ SumSet(1..NFr, LAMBDA t : Dev(t, i)) = 0
            /\ SumSet(1..NFr, LAMBDA t : Dev(t, i) * Dev(t, i)) = NFr * (NFr * sumsq[i] - sum[i] * sum[i])
            /\ NFr * sumsq[i] - sum[i] * sum[i] >= 0
ChunksPartition ==
  /\ \A a, b \in 1..Len(chunks) : a # b => {chunks[a][j] : j \in 1..Len(chunks[a])} \cap {chunks[b][j] : j \in 1..Len(chunks[b])} = {}
  /\ UNION {{chunks[a][j] : j \in 1..Len(chunks[a])} : a \in 1..Len(chunks)} = Consumed

(***************************************************************************)
(* Export: one record per complete behaviour (= ordered partition).        *)
(* The documented outcome of store: "at least one accumulated sample is    *)
(* necessary with bessel False; two if True" -- otherwise RuntimeError.    *)
(* varnum / n^2 is the biased variance, varnum / (n (n-1)) Bessel's.       *)
(***************************************************************************)
Export ==
  Done => Emit([data |-> data, chunks |-> chunks, n |-> NFr,
                sum |-> sum, varnum |-> [i \in Coef |-> NFr * sumsq[i] - sum[i] * sum[i]],
                store_ok |-> [biased |-> NFr >= 1, bessel |-> NFr >= 2]])
=============================================================================
