\* exhaustive: V = 3, every table over 13 histories -> {2 rows} (8192), single walk; exports the support
INIT Init
NEXT Next
CONSTANTS
  V = 3
  T = 3
  D = 4
  Rows <- RowsW3
  EosSet <- Eos3
  NB = 1
INVARIANT TypeOK
INVARIANT ChainScores
INVARIANT WalkShape
INVARIANT TerminalInSupport
INVARIANT EosPadding
INVARIANT SupportSumsToOne
INVARIANT ExportSupport
CHECK_DEADLOCK FALSE
