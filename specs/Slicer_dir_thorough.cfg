\* dir_thorough: exhaustive model of the Slicer kinds KDir
INIT Init
NEXT Next
CONSTANTS
  Kinds <- KDir
  WTypes <- AllWTypes
  Lobes = {0}
  FixedMaxLen = 0
  AliMaxLen = 0
  Labels = {1,2}
  RefMaxSegs = 0
  RefVals <- RefValsQuick
  RefOthers = {0}
  TokMaxSegs = 0
  TokSegs <- TokSegsQuick
  TokStarts <- TokStartsQuick
  TokEnds <- TokEndsQuick
  Pool <- ThePool
  Dirs <- DirsThorough
  DirLobes = {0,1,2,3}
  PadModes <- AllPadModes
INVARIANT TypeOK
INVARIANT ScanAgrees
INVARIANT FixedOK
INVARIANT AliOK
INVARIANT RefOK
INVARIANT TokOK
INVARIANT DirOK
INVARIANT TokConcat
INVARIANT FilesOK
INVARIANT Export
CHECK_DEADLOCK FALSE
