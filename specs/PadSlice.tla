------------------------------ MODULE PadSlice ------------------------------
(***************************************************************************)
(* C09 -- variable-length padding, chunking, compaction, random shift      *)
(* (pydrobert.torch _pad.py: pad_variable, chunk_by_slices,                *)
(* pad_masked_sequence; _img.py: random_shift).                            *)
(*                                                                         *)
(* The declarative definitions live in PadSliceOps (concatenation form and *)
(* virtual-index form, from the class documentation).  This module adds a  *)
(* small machine that produces the output of ONE sequence cell by cell,    *)
(* shaped like the documented layout / the code's regions:                 *)
(*    pad   : [0,l) left padding | [l, l+len) the sequence | right padding *)
(*    slice : bounds clamped into the sequence, head of the left buffer,   *)
(*            clamped slice, right buffer read from an offset              *)
(*    mask  : left-to-right scan keeping selected cells, then fill         *)
(*    shift : draw left/right amounts within the proportion, then pad      *)
(* TLC checks that machine, concatenation form and virtual-index form      *)
(* agree for every case, that lengths are the requested ones, and that     *)
(* reflect is defined exactly when the pads are shorter than the sequence. *)
(* Every finished behaviour is exported and replayed into the real code;   *)
(* the shift part is used by PadSliceTrace to validate recorded draws.     *)
(*                                                                         *)
(* Cells are abstract: a sequence of length n is <<1, ..., n>> (the source *)
(* position of each element) and 0 (PadV) is "the padding value"; the      *)
(* harness substitutes distinct concrete numbers.                          *)
(***************************************************************************)
EXTENDS PadSliceOps, TLC, Json

CONSTANTS Ops,          \* subset of {"pad", "slice", "mask", "shift"}
          Modes,        \* subset of {"constant", "reflect", "replicate"}
          MaxLen,       \* sequence lengths 0..MaxLen
          MaxPad,       \* pad amounts 0..MaxPad per side (beyond MaxLen on purpose)
          SMin, SMax,   \* slice starts
          EMin, EMax,   \* slice ends
          MaxMaskT,     \* masks over 0..MaxMaskT positions
          Props,        \* proportions <<num, den>> for the shift layer
          MaxShiftLen

ASSUME MaxLen \in Nat /\ MaxPad \in Nat /\ MaxMaskT \in Nat /\ MaxShiftLen \in Nat
ASSUME \A p \in Props : p[1] \in Nat /\ p[2] \in Nat \ {0} /\ p[1] * MaxShiftLen < 100000

NoProp == <<0, 1>>
Case(op, len, a, b, mode, mask, pl, pr, tr) ==
  [op |-> op, len |-> len, a |-> a, b |-> b, mode |-> mode, mask |-> mask,
   pl |-> pl, pr |-> pr, training |-> tr]

PadCases ==
  {Case("pad", n, l, r, m, <<>>, NoProp, NoProp, TRUE) :
     n \in 0..MaxLen, l \in 0..MaxPad, r \in 0..MaxPad, m \in Modes}
SliceCases ==
  {Case("slice", n, s, e, m, <<>>, NoProp, NoProp, TRUE) :
     n \in 0..MaxLen, s \in SMin..SMax, e \in EMin..EMax, m \in Modes}
MaskCases ==
  UNION {{Case("mask", n, 0, 0, "constant", mk, NoProp, NoProp, TRUE) : mk \in [1..n -> BOOLEAN]} :
           n \in 0..MaxMaskT}
ShiftCases ==
  {Case("shift", n, 0, 0, m, <<>>, pl, pr, tr) :
     n \in 0..MaxShiftLen, m \in Modes, pl \in Props, pr \in Props, tr \in BOOLEAN}

\* the property's quantifier: pads legal for the mode (documented exceptions otherwise)
LegalCase(cs) ==
  CASE cs.op = "pad"   -> LegalPad(cs.len, cs.a, cs.b, cs.mode)
    [] cs.op = "slice" -> LegalSlice(cs.len, cs.a, cs.b, cs.mode)
    [] cs.op = "mask"  -> TRUE
    [] cs.op = "shift" -> /\ (cs.mode = "replicate" => cs.len >= 1)
                          /\ (cs.mode = "reflect" =>
                                cs.len >= 1 /\ cs.pl[1] <= cs.pl[2] /\ cs.pr[1] <= cs.pr[2])
Cases ==
  {cs \in (IF "pad" \in Ops THEN PadCases ELSE {}) \cup (IF "slice" \in Ops THEN SliceCases ELSE {})
          \cup (IF "mask" \in Ops THEN MaskCases ELSE {}) \cup (IF "shift" \in Ops THEN ShiftCases ELSE {}) :
     LegalCase(cs)}

VARIABLES c,     \* the case
          l, r,  \* pad amounts in effect (pad: given; slice: derived; shift: drawn); mask: l = kept so far
          k,     \* cells written (pad/slice/shift) or positions scanned (mask)
          out,   \* output cells so far
          pc     \* "draw", "write", "scan", "fill", "done"
vars == <<c, l, r, k, out, pc>>

Seq0 == Id(c.len)
Total == IF c.op = "slice" THEN SliceLen(c.a, c.b) ELSE l + c.len + r

\* documented layout of PadVariable's return value
PadCell(seq, ll, rr, mode, i) ==
  IF i <= ll THEN LeftPad(seq, ll, mode)[i]
  ELSE IF i <= ll + Len(seq) THEN seq[i - ll]
  ELSE RightPad(seq, rr, mode)[i - ll - Len(seq)]

StartPc(cs, ll, rr) ==
  CASE cs.op = "pad"   -> IF ll + cs.len + rr = 0 THEN "done" ELSE "write"
    [] cs.op = "slice" -> IF SliceLen(cs.a, cs.b) = 0 THEN "done" ELSE "write"
    [] cs.op = "mask"  -> IF cs.len = 0 THEN "done" ELSE "scan"
    [] cs.op = "shift" -> "draw"

Start(cs) ==
  /\ c = cs
  /\ l = CASE cs.op = "pad" -> cs.a [] cs.op = "slice" -> SlicePads(cs.len, cs.a, cs.b)[1] [] OTHER -> 0
  /\ r = CASE cs.op = "pad" -> cs.b [] cs.op = "slice" -> SlicePads(cs.len, cs.a, cs.b)[2] [] OTHER -> 0
  /\ k = 0
  /\ out = <<>>
  /\ pc = StartPc(cs, l, r)

Init == \E cs \in Cases : Start(cs)

\* the random-shift layer: any whole amounts within the proportion; none in evaluation mode
Draw ==
  /\ pc = "draw"
  /\ \E ll \in 0..ShiftBound(c.pl, c.len), rr \in 0..ShiftBound(c.pr, c.len) :
       /\ (~c.training => ll = 0 /\ rr = 0)
       /\ LegalPad(c.len, ll, rr, c.mode)     \* e.g. proportion 1 under reflect: pad < len
       /\ l' = ll /\ r' = rr
       /\ pc' = IF ll + c.len + rr = 0 THEN "done" ELSE "write"
  /\ UNCHANGED <<c, k, out>>

WriteCell ==
  /\ pc = "write"
  /\ k < Total
  /\ out' = Append(out, IF c.op = "slice" THEN SliceCell(Seq0, c.a, c.b, c.mode, k + 1)
                        ELSE PadCell(Seq0, l, r, c.mode, k + 1))
  /\ k' = k + 1
  /\ pc' = IF k + 1 = Total THEN "done" ELSE "write"
  /\ UNCHANGED <<c, l, r>>

Scan ==
  /\ pc = "scan"
  /\ k < c.len
  /\ out' = IF c.mask[k + 1] THEN Append(out, Seq0[k + 1]) ELSE out
  /\ l' = IF c.mask[k + 1] THEN l + 1 ELSE l
  /\ k' = k + 1
  /\ pc' = IF k + 1 < c.len THEN "scan" ELSE IF Len(out') = c.len THEN "done" ELSE "fill"
  /\ UNCHANGED <<c, r>>

Fill ==
  /\ pc = "fill"
  /\ out' = Append(out, PadV)
  /\ pc' = IF Len(out') = c.len THEN "done" ELSE "fill"
  /\ UNCHANGED <<c, l, r, k>>

Next == Draw \/ WriteCell \/ Scan \/ Fill
Spec == Init /\ [][Next]_vars

(***************************************************************************)
(* Design invariants                                                       *)
(***************************************************************************)
TypeOK == /\ pc \in {"draw", "write", "scan", "fill", "done"}
          /\ l \in Nat /\ r \in Nat /\ k \in Nat
          /\ c.op \in {"mask"} \/ Len(out) = k

PadAgree ==
  c.op = "pad" =>
    /\ PadOne(Seq0, l, r, c.mode) = PadIdx(Seq0, l, r, c.mode)        \* two formulations
    /\ Len(PadOne(Seq0, l, r, c.mode)) = c.len + l + r                \* requested length
    /\ out = SubSeq(PadOne(Seq0, l, r, c.mode), 1, k)                 \* the machine follows it
    /\ (pc = "done" => k = c.len + l + r)

SliceAgree ==
  c.op = "slice" =>
    /\ SliceOne(Seq0, c.a, c.b, c.mode) = SliceIdx(Seq0, c.a, c.b, c.mode)
    /\ SliceOne(Seq0, c.a, c.b, c.mode) = SliceClamp(Seq0, c.a, c.b, c.mode)
    /\ Len(SliceOne(Seq0, c.a, c.b, c.mode)) = SliceLen(c.a, c.b)     \* empty/inverted -> 0
    /\ out = SubSeq(SliceOne(Seq0, c.a, c.b, c.mode), 1, k)
    /\ (pc = "done" => k = SliceLen(c.a, c.b))
    \* a slice inside the sequence is the plain sub-sequence
    /\ (0 <= c.a /\ c.a <= c.b /\ c.b <= c.len =>
          SliceOne(Seq0, c.a, c.b, c.mode) = SubSeq(Seq0, c.a + 1, c.b))

MaskAgree ==
  c.op = "mask" =>
    /\ Compact(Seq0, c.mask) = CompactNth(Seq0, c.mask)
    /\ l = TrueCount(c.mask, k)
    /\ (pc \in {"scan", "fill"} => SubSeq(out, 1, l) = Compact(SubSeq(Seq0, 1, k), SubSeq(c.mask, 1, k)))
    /\ (pc = "done" => /\ out = CompactRow(Seq0, c.mask)
                       /\ Len(out) = c.len
                       /\ l = TrueCount(c.mask, c.len)
                       /\ \A i \in 1..Len(out) : i > l => out[i] = PadV)

ShiftOK ==
  (c.op = "shift" /\ pc \in {"write", "done"}) =>
    /\ l * c.pl[2] <= c.pl[1] * c.len            \* whole numbers not exceeding the proportion
    /\ r * c.pr[2] <= c.pr[1] * c.len
    /\ out = SubSeq(PadOne(Seq0, l, r, c.mode), 1, k)
    /\ (pc = "done" => /\ Len(out) = l + c.len + r
                       /\ SubSeq(out, l + 1, l + c.len) = Seq0     \* original embedded unchanged
                       /\ (~c.training => out = Seq0))             \* identity in evaluation mode

\* reflect padding is defined exactly when both pads are shorter than the sequence
ReflectExact ==
  \A n \in 0..MaxLen, ll \in 0..MaxPad, rr \in 0..MaxPad :
     /\ LegalPad(n, ll, rr, "reflect") => ReflectDefined(n, ll, rr)
     /\ (n >= 1 /\ ~LegalPad(n, ll, rr, "reflect")) => ~ReflectDefined(n, ll, rr)
ASSUME ReflectExact

(***************************************************************************)
(* Worked examples of the PadVariable / PadMaskedSequence docstrings       *)
(* (values shifted by +100 so that 0 stays the abstract padding value).    *)
(***************************************************************************)
ASSUME PadOne(<<100, 101, 102>>, 0, 2, "constant") = <<100, 101, 102, PadV, PadV>>
ASSUME PadOne(<<105, 106, 107, 108>>, 1, 3, "constant") = <<PadV, 105, 106, 107, 108, PadV, PadV, PadV>>
ASSUME PadOne(<<100, 101, 102>>, 0, 2, "reflect") = <<100, 101, 102, 101, 100>>
ASSUME PadOne(<<105, 106, 107, 108>>, 1, 3, "reflect") = <<106, 105, 106, 107, 108, 107, 106, 105>>
ASSUME PadOne(<<100, 101, 102>>, 0, 2, "replicate") = <<100, 101, 102, 102, 102>>
ASSUME PadOne(<<105, 106, 107, 108>>, 1, 3, "replicate") = <<105, 105, 106, 107, 108, 108, 108, 108>>
ASSUME LET x == [i \in 1..10 |-> 109 + i]          \* row 1 of arange(100).view(10, 10), +100
           m == [i \in 1..10 |-> (9 + i) % 3 = 0]
       IN CompactRow(x, m) = <<112, 115, 118>> \o Rep(7, PadV)

(***************************************************************************)
(* Export: one record per finished behaviour (spec -> code replay)         *)
(***************************************************************************)
Emit(rec) == PrintT(<<"VFJ", ToJson(rec)>>)
Export ==
  (pc = "done" /\ c.op # "shift") =>
    Emit([op |-> c.op, len |-> c.len, a |-> c.a, b |-> c.b, mode |-> c.mode,
          mask |-> c.mask, out |-> out, n |-> IF c.op = "mask" THEN l ELSE Len(out)])
=============================================================================
