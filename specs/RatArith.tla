------------------------------ MODULE RatArith ------------------------------
(***************************************************************************)
(* Exact rationals for the specs of C19 (Estimators) and C20 (Attention).  *)
(* A rational is a pair <<num, den>> with den > 0, always kept in lowest   *)
(* terms by the constructors below, so that equality of rationals is       *)
(* equality of pairs.  TLC's integers are 32-bit and TLC *raises an error* *)
(* on overflow of + and *, so an overflow can never pass silently; the     *)
(* model constants are chosen so that it does not happen.                  *)
(***************************************************************************)
EXTENDS Integers, Sequences

QAbs(x) == IF x < 0 THEN -x ELSE x

RECURSIVE QGcd(_, _)
QGcd(a, b) == IF b = 0 THEN a ELSE QGcd(b, a % b)

\* lowest terms, positive denominator (d # 0)
QMk(n, d) ==
  LET s == IF d < 0 THEN -1 ELSE 1
      g == QGcd(QAbs(n), QAbs(d))
  IN <<(s * n) \div g, (s * d) \div g>>

QInt(n) == <<n, 1>>
QZero == <<0, 1>>
QOne == <<1, 1>>

IsQ(r) == /\ r \in Seq(Int) /\ Len(r) = 2 /\ r[2] > 0 /\ QGcd(QAbs(r[1]), r[2]) = 1

QAdd(a, b) == LET g == QGcd(a[2], b[2])        \* keep intermediate products small
              IN QMk(a[1] * (b[2] \div g) + b[1] * (a[2] \div g), (a[2] \div g) * b[2])
QNeg(a) == <<-a[1], a[2]>>
QSub(a, b) == QAdd(a, QNeg(b))
QMul(a, b) == LET g1 == QGcd(QAbs(a[1]), b[2])   \* cross-cancel before multiplying
                  g2 == QGcd(QAbs(b[1]), a[2])
              IN QMk((a[1] \div g1) * (b[1] \div g2), (a[2] \div g2) * (b[2] \div g1))
QInv(a) == QMk(a[2], a[1])                       \* a # 0
QDiv(a, b) == QMul(a, QInv(b))
QScale(k, a) == QMul(QInt(k), a)

\* order by cross-multiplication
QLe(a, b) == a[1] * b[2] <= b[1] * a[2]
QLt(a, b) == a[1] * b[2] < b[1] * a[2]
QEq(a, b) == a = b                               \* both in lowest terms

RECURSIVE QPow(_, _)
QPow(a, e) == IF e = 0 THEN QOne
              ELSE IF e < 0 THEN QPow(QInv(a), -e)
              ELSE QMul(a, QPow(a, e - 1))

\* sum / product of the rationals s[1..Len(s)] (s a sequence or a function with domain 1..n), by
\* halving so that the recursion depth is logarithmic; the argument is materialised once with
\* SubSeq because TLC's function constructor is lazy
RECURSIVE QSumRange(_, _, _)
QSumRange(s, lo, hi) ==
  IF lo > hi THEN QZero
  ELSE IF lo = hi THEN s[lo]
  ELSE QAdd(QSumRange(s, lo, (lo + hi) \div 2), QSumRange(s, (lo + hi) \div 2 + 1, hi))
QSumSeq(s) == QSumRange(SubSeq(s, 1, Len(s)), 1, Len(s))
RECURSIVE QProdRange(_, _, _)
QProdRange(s, lo, hi) ==
  IF lo > hi THEN QOne
  ELSE IF lo = hi THEN s[lo]
  ELSE QMul(QProdRange(s, lo, (lo + hi) \div 2), QProdRange(s, (lo + hi) \div 2 + 1, hi))
QProdSeq(s) == QProdRange(SubSeq(s, 1, Len(s)), 1, Len(s))
=============================================================================
