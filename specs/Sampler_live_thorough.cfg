\* SEVERAL live iterators of one sampler object: iter() / get_samples_for_epoch(e) while an earlier iterator of the same object is partially consumed; their Yield steps interleave (one rank at a time), two ranks, every mode; epochs 0..1; all permutations (lazily) for N <= 3
INIT Init
NEXT Next
CONSTANTS
  MaxN = 3
  MaxW = 2
  ModeSet <- AllModes
  KindSet <- BothKinds
  RandomMaxN = 3
  Seeds = {1}
  MaxEpoch = 1
  MaxOps = 1000
  Schedule = "perrank"
  Features <- LiveFeatures
VIEW View
INVARIANT TypeOK
INVARIANT RefusesExactly
INVARIANT CoordinatesAgree
INVARIANT LenIsYielded
INVARIANT PathIndependent
INVARIANT LivePrefixes
INVARIANT WellFormedLists
INVARIANT Disjoint
INVARIANT Cover
INVARIANT IgnoreGivesAll
INVARIANT SliceOfFull
INVARIANT SequentialIsIdentity
CHECK_DEADLOCK FALSE
