\* exhaustive: 1..4 frames
INIT Init
NEXT Next
CONSTANTS
  V = 3
  T = 4
  D = 8
  Rows <- RowsCtc3
INVARIANT GreedyIsCollapse
INVARIANT NoBlankInOutput
INVARIANT OutputNoLongerThanValid
INVARIANT Export
CHECK_DEADLOCK FALSE
