INIT Init
NEXT Next
INVARIANT Progress
CHECK_DEADLOCK FALSE
