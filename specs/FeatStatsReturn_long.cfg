\* exhaustive: reward sequences of length 1..3 over {-1,0,2}, gamma in {0, 1/2, 7/8, 31/32, 1, 33/32, 2}: the cases the
\* harness embeds into long sequences (ConcatLemma / EmbedLemma / SuperposeLemma)
INIT Init
NEXT Next
CONSTANTS
  MaxLen = 3
  RVals <- RValsQ
  Gammas <- GammasL
  PadMax = 2
INVARIANT ReturnIsRecurrence
INVARIANT ClosedFormIsRecurrence
INVARIANT ConcatLemma
INVARIANT EmbedLemma
INVARIANT SuperposeLemma
INVARIANT Export
CHECK_DEADLOCK FALSE
