------------------------------ MODULE Batching ------------------------------
(***************************************************************************)
(* Batching in pydrobert.torch (_dataloaders.py): BucketBatchSampler,      *)
(* _get_bucket_batch_sampler_params, _get_batch_sampler_len.               *)
(*                                                                         *)
(* Code-shaped part                                                        *)
(*  - the bucket machine, one action per critical section of               *)
(*    BucketBatchSampler.__iter__: Feed (pull the next index from the      *)
(*    sampler, append it to its bucket's partial batch), EmitFull (the     *)
(*    partial batch has reached the bucket's size: yield, forget),         *)
(*    EndFeed, Flush (an incomplete batch is yielded after the sampler is  *)
(*    exhausted - in ANY order, the property leaves it open), Finish;      *)
(*  - Boundaries: the length-bucket assignment of the loaders, transcribed *)
(*    with python's indexing (quantile bounds over the sorted lengths, last*)
(*    bound = maximum, duplicate bounds collapsed, bucket = number of      *)
(*    bounds below the length, dynamic size = (Y * batch) div bound);      *)
(*  - PredictedLen: the loaders' __len__ (sum over occupied buckets of     *)
(*    count div size, or its ceiling when incomplete batches are kept).    *)
(* Declarative part: the invariants at the end (every index exactly once   *)
(* or dropped with its incomplete batch, single-bucket batches in feed     *)
(* order, full except trailing ones, predicted = actual number of batches, *)
(* length classes never mixed, dynamic sizes maximal).                     *)
(*                                                                         *)
(* Indices are fed in the order 0, 1, ..., n-1: a different sampler order  *)
(* is a relabelling (the harness applies one).                             *)
(***************************************************************************)
EXTENDS Naturals, Integers, Sequences, FiniteSets, TLC, Json

CONSTANTS MaxN,      \* number of indices fed: 0..MaxN
          MaxB,      \* bucket ids 0..MaxB-1 ("direct") / requested number of buckets 1..MaxB ("lengths")
          MaxSize,   \* batch sizes 1..MaxSize
          MaxLen,    \* utterance lengths 1..MaxLen ("lengths")
          Sources    \* subset of {"direct", "lengths"}; the modifier "zero" next to "lengths": the length
                     \* vectors over 0..MaxLen that hold AT LEAST ONE utterance without frames / tokens (a
                     \* (0, F) feature file, an empty transcript - legal data), fixed batch sizes only

VARIABLES n, src,
          lens, nbreq, bsz, dyn,   \* "lengths": utterance lengths, requested buckets, batch size, dynamic sizing
          i2b, size, drop,         \* the bucket machine's parameters (idx2bucket, bucket2size, drop_incomplete)
          k, partial, yielded, phase
vars == <<n, src, lens, nbreq, bsz, dyn, i2b, size, drop, k, partial, yielded, phase>>

Idx == 0..(n - 1)
Buckets == DOMAIN size

MaxOf(S) == CHOOSE x \in S : \A y \in S : x >= y
MinOf(S) == CHOOSE x \in S : \A y \in S : x <= y
SetToSeq(S) == LET RECURSIVE F(_)
                   F(T) == IF T = {} THEN <<>> ELSE LET x == MinOf(T) IN <<x>> \o F(T \ {x})
               IN F(S)

(***************************************************************************)
(* Boundaries: _get_bucket_batch_sampler_params(dataset, num_buckets,      *)
(* batch_size, dynamic), for a non-empty data set                          *)
(***************************************************************************)
\* sorted((len, i)): only the lengths matter for the bounds
RECURSIVE SortedLens(_, _)
SortedLens(ls, S) == IF S = {} THEN <<>>
                     ELSE LET m == MinOf({ls[i] : i \in S})
                              j == MinOf({i \in S : ls[i] = m})
                          IN <<m>> \o SortedLens(ls, S \ {j})
PyAt(s, j) == IF j < 0 THEN s[Len(s) + j + 1] ELSE s[j + 1]        \* python's s[j]
BoundsOf(ls, nn, B) ==
  LET sl == SortedLens(ls, 0..(nn - 1))
      epb == nn \div B                                              \* elem_per_bucket
      raw == [j \in 0..(B - 1) |-> IF j = B - 1 THEN sl[nn] ELSE PyAt(sl, (j + 1) * epb - 1)]
  IN SetToSeq({raw[j] : j \in 0..(B - 1)})                          \* sorted(set(len_bounds))
BucketOfLen(bounds, l) == Cardinality({j \in 1..Len(bounds) : l > bounds[j]})
DynSize(bounds, j, batch, dynamic) ==
  IF dynamic THEN (bounds[Len(bounds)] * batch) \div bounds[j + 1] ELSE batch

(***************************************************************************)
(* The bucket machine                                                      *)
(***************************************************************************)
NoneFull == \A b \in Buckets : Len(partial[b]) < size[b]

Feed ==
  /\ phase = "feed" /\ k < n /\ NoneFull
  /\ partial' = [partial EXCEPT ![i2b[k]] = Append(@, k)]
  /\ k' = k + 1
  /\ UNCHANGED <<n, src, lens, nbreq, bsz, dyn, i2b, size, drop, yielded, phase>>

EmitFull(b) ==
  /\ phase = "feed" /\ Len(partial[b]) = size[b]
  /\ yielded' = Append(yielded, [bucket |-> b, items |-> partial[b], full |-> TRUE])
  /\ partial' = [partial EXCEPT ![b] = <<>>]
  /\ UNCHANGED <<n, src, lens, nbreq, bsz, dyn, i2b, size, drop, k, phase>>

\* the sampler is exhausted
EndFeed ==
  /\ phase = "feed" /\ k = n /\ NoneFull
  /\ phase' = "flush"
  /\ UNCHANGED <<n, src, lens, nbreq, bsz, dyn, i2b, size, drop, k, partial, yielded>>

\* "if not self.drop_incomplete": the incomplete batches, in any order
Flush(b) ==
  /\ phase = "flush" /\ ~drop /\ partial[b] # <<>>
  /\ yielded' = Append(yielded, [bucket |-> b, items |-> partial[b], full |-> FALSE])
  /\ partial' = [partial EXCEPT ![b] = <<>>]
  /\ UNCHANGED <<n, src, lens, nbreq, bsz, dyn, i2b, size, drop, k, phase>>

Finish ==
  /\ phase = "flush" /\ (drop \/ \A b \in Buckets : partial[b] = <<>>)
  /\ phase' = "done"
  /\ UNCHANGED <<n, src, lens, nbreq, bsz, dyn, i2b, size, drop, k, partial, yielded>>

Start ==
  /\ k = 0 /\ yielded = <<>> /\ phase = "feed"
  /\ partial = [b \in Buckets |-> <<>>]

InitDirect ==
  /\ src = "direct"
  /\ n \in 0..MaxN
  /\ lens = <<>> /\ nbreq = 0 /\ bsz = 0 /\ dyn = FALSE
  /\ i2b \in [Idx -> 0..(MaxB - 1)]
  /\ size \in [0..(MaxB - 1) -> 1..MaxSize]
  /\ drop \in BOOLEAN
  /\ Start

\* Zero-length utterances.  The bounds, the assignment and the bucket machine are indifferent to a
\* length 0 (it is the smallest length: class 0).  The DYNAMIC size of a class whose bound is 0 is
\* undefined - "the greatest x with x * 0 <= Y * batch_size" does not exist, the code divides by the
\* bound - so zero-length utterances are explored with fixed batch sizes only.
ZeroLens == "zero" \in Sources
InitLengths ==
  /\ src = "lengths"
  /\ n \in 0..MaxN
  /\ lens \in [Idx -> (IF ZeroLens THEN 0 ELSE 1)..MaxLen]
  /\ (ZeroLens => \E i \in Idx : lens[i] = 0)    \* (the vectors without one: the configurations without "zero")
  /\ nbreq \in 1..MaxB /\ bsz \in 1..MaxSize /\ dyn \in (IF ZeroLens THEN {FALSE} ELSE BOOLEAN)
  /\ LET bounds == IF n = 0 THEN <<>> ELSE BoundsOf(lens, n, nbreq)   \* empty data set: no buckets
     IN /\ i2b = [i \in Idx |-> BucketOfLen(bounds, lens[i])]
        /\ size = [j \in 0..(Len(bounds) - 1) |-> DynSize(bounds, j, bsz, dyn)]
  /\ drop \in BOOLEAN
  /\ Start

Init == \/ "direct" \in Sources /\ InitDirect
        \/ "lengths" \in Sources /\ InitLengths

DoEmitFull == \E b \in Buckets : EmitFull(b)
DoFlush == \E b \in Buckets : Flush(b)
Next == Feed \/ DoEmitFull \/ EndFeed \/ DoFlush \/ Finish
Spec == Init /\ [][Next]_vars

(***************************************************************************)
(* _get_batch_sampler_len                                                  *)
(***************************************************************************)
CountOf(b) == Cardinality({i \in Idx : i2b[i] = b})
Occupied == {b \in Buckets : CountOf(b) > 0}
PredOne(b) == IF drop THEN CountOf(b) \div size[b] ELSE (CountOf(b) + size[b] - 1) \div size[b]
RECURSIVE PredSum(_)
PredSum(S) == IF S = {} THEN 0 ELSE LET b == CHOOSE y \in S : TRUE IN PredOne(b) + PredSum(S \ {b})
PredictedLen == PredSum(Occupied)

(***************************************************************************)
(* Design invariants (the clauses of the property)                         *)
(***************************************************************************)
ItemsOf(y) == {y.items[j] : j \in 1..Len(y.items)}
YieldedIdx == UNION {ItemsOf(yielded[j]) : j \in 1..Len(yielded)}
PartialIdx == UNION {{partial[b][j] : j \in 1..Len(partial[b])} : b \in Buckets}
\* the indices of bucket b that never complete a batch: the last (count mod size) of them
Leftover(b) == LET mine == SetToSeq({i \in Idx : i2b[i] = b})
                   r == Len(mine) % size[b]
               IN {mine[j] : j \in (Len(mine) - r + 1)..Len(mine)}

TypeOK ==
  /\ k \in 0..n /\ phase \in {"feed", "flush", "done"}
  /\ \A b \in Buckets : Len(partial[b]) <= size[b]

\* nothing is lost or duplicated on the way
Conservation ==
  /\ \A a, b \in 1..Len(yielded) : a # b => ItemsOf(yielded[a]) \cap ItemsOf(yielded[b]) = {}
  /\ \A j \in 1..Len(yielded) : Cardinality(ItemsOf(yielded[j])) = Len(yielded[j].items)
  /\ YieldedIdx \cap PartialIdx = {}
  /\ phase # "done" => YieldedIdx \cup PartialIdx = 0..(k - 1)
\* "every index ... appears in exactly one batch - or in none only when its incomplete batch was dropped"
ExactlyOnceOrDropped ==
  phase = "done" =>
     /\ (~drop => YieldedIdx = Idx)
     /\ (drop => Idx \ YieldedIdx = UNION {Leftover(b) : b \in Buckets})
\* "indices of a single bucket in sampler order"
SingleBucketInOrder ==
  \A j \in 1..Len(yielded) :
     /\ \A i \in ItemsOf(yielded[j]) : i2b[i] = yielded[j].bucket
     /\ \A a, b \in 1..Len(yielded[j].items) : a < b => yielded[j].items[a] < yielded[j].items[b]
\* "has that bucket's size (only trailing batches may be short, and only if incomplete batches are kept)"
SizesAndTrailing ==
  \A j \in 1..Len(yielded) :
     LET y == yielded[j]
     IN IF y.full THEN Len(y.items) = size[y.bucket]
        ELSE /\ ~drop /\ 0 < Len(y.items) /\ Len(y.items) < size[y.bucket]
             /\ \A q \in (j + 1)..Len(yielded) : ~yielded[q].full /\ yielded[q].bucket # y.bucket
\* the loaders' length is the number of batches actually yielded
PredictedIsActual == phase = "done" => Len(yielded) = PredictedLen

\* "length-bucketed loaders never mix utterances from different length classes": the classes are
\* intervals of lengths (equal lengths together, order preserved), at most as many as requested,
\* none empty; a dynamic size is the greatest x with x * y <= Y * batch_size
\* (what the property states: classes are ordered by length - a shorter utterance is never in a
\*  later class than a longer one; whether equal lengths may be split is left open)
LengthMonotone ==
  src = "lengths" => \A i, j \in Idx : lens[i] < lens[j] => i2b[i] <= i2b[j]
\* a length CLASS is a set of lengths: two utterances of one length are never in different classes (with the
\* monotonicity above: the classes are disjoint length ranges, whatever the boundaries are)
SameLengthSameClass ==
  src = "lengths" => \A i, j \in Idx : lens[i] = lens[j] => i2b[i] = i2b[j]
\* the specification's own assignment additionally keeps equal lengths together, uses at most the
\* requested number of classes and leaves none empty
LengthClasses ==
  src = "lengths" =>
     /\ LengthMonotone
     /\ \A i, j \in Idx : lens[i] = lens[j] => i2b[i] = i2b[j]
     /\ Cardinality(Buckets) <= nbreq
     /\ \A b \in Buckets : CountOf(b) > 0
DynamicSizes ==
  src = "lengths" =>
     \A b \in Buckets :
        LET y == MaxOf({lens[i] : i \in {q \in Idx : i2b[q] = b}})
            Y == MaxOf({lens[i] : i \in Idx})
        IN IF dyn THEN size[b] * y <= Y * bsz /\ (size[b] + 1) * y > Y * bsz
           ELSE size[b] = bsz
BatchesArePure ==
  src = "lengths" =>
     \A a, b \in 1..Len(yielded) :
        yielded[a].bucket # yielded[b].bucket =>
           \/ \A i \in ItemsOf(yielded[a]), j \in ItemsOf(yielded[b]) : lens[i] <= lens[j]
           \/ \A i \in ItemsOf(yielded[a]), j \in ItemsOf(yielded[b]) : lens[i] >= lens[j]

(***************************************************************************)
(* Export                                                                  *)
(***************************************************************************)
Emit(rec) == PrintT(<<"VFJ", ToJson(rec)>>)
FunSeq(f, m) == [j \in 1..m |-> f[j - 1]]          \* function on 0..m-1 as a sequence
CaseRec == [n |-> n, src |-> src, lens |-> FunSeq(lens, IF src = "lengths" THEN n ELSE 0),
            nbreq |-> nbreq, bsz |-> bsz, dyn |-> dyn,
            i2b |-> FunSeq(i2b, n), size |-> FunSeq(size, Cardinality(Buckets)), drop |-> drop]
\* one record per case (initial state): parameters and predicted length
ExportCases ==
  (k = 0 /\ phase = "feed" /\ yielded = <<>>) =>
     Emit([what |-> "case", c |-> CaseRec, plen |-> PredictedLen])
\* one record per terminal state: an acceptable batch sequence of the case
ExportDone ==
  (phase = "done") =>
     Emit([what |-> "done", c |-> CaseRec,
           batches |-> [j \in 1..Len(yielded) |-> yielded[j].items]])
=============================================================================
