\* C03 lemma: row minima == declarative distance-preserving tokens (expensive; smaller universe)
INIT Init
NEXT Next
CONSTANTS
  MaxR = 3
  MaxH = 2
  Tokens = {1, 2}
  CostSet <- CostsDecl
  Modes <- AllModes
  CheckDecl = TRUE
  Given <- NoGiven
  WithRange = TRUE
INVARIANT OptimalNextIsDecl
CHECK_DEADLOCK FALSE
