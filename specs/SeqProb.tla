------------------------------ MODULE SeqProb ------------------------------
(***************************************************************************)
(* Sequence scores of pydrobert.torch (_decoding.py): the DECLARATIVE side *)
(* shared by the three machines of property C07                            *)
(*   SeqProbScore  - sequence_log_probs, padded and packed                 *)
(*   SeqProbWalk   - RandomWalk / SequentialLanguageModelDistribution      *)
(*   SeqProbCTC    - ctc_greedy_search                                     *)
(* and by the trace specification SeqProbTrace (code -> spec).             *)
(*                                                                         *)
(* Probabilities are exact: every categorical distribution is a "row" of   *)
(* V natural weights that sum to D, token v has probability row[v+1]/D, a  *)
(* sequence score is an integer numerator over D^(number of counted        *)
(* positions).  The harness feeds the implementation log(w) + shift and    *)
(* converts reported log-probabilities back to integer numerators.         *)
(***************************************************************************)
EXTENDS Naturals, Integers, Sequences, FiniteSets, TLC, Json

CONSTANTS V,      \* vocabulary size; tokens are 0..V-1
          T,      \* longest sequence / step limit / number of frames
          D,      \* common denominator of every weight row
          Rows    \* admissible weight rows: sequences of V naturals summing to D

Tok == 0..(V - 1)
NoEos == -100      \* "eos unset"

RECURSIVE Pow(_, _)
Pow(b, e) == IF e = 0 THEN 1 ELSE b * Pow(b, e - 1)
RECURSIVE SumSeq(_)
SumSeq(s) == IF s = <<>> THEN 0 ELSE Head(s) + SumSeq(Tail(s))
RowOK(r) == Len(r) = V /\ SumSeq(r) = D /\ \A i \in 1..V : r[i] \in 0..D

\* 32-bit guard: the largest number formed anywhere is D^(T+1)
ASSUME /\ V \in 1..5 /\ T \in 1..6 /\ D \in 1..8
       /\ Pow(D, T) <= 300000
       /\ \A r \in Rows : RowOK(r)

MinOf(S) == CHOOSE x \in S : \A y \in S : x <= y
MaxOf(S) == CHOOSE x \in S : \A y \in S : x >= y

(***************************************************************************)
(* (a) The definition of a sequence score.                                 *)
(* w: one row per position; hyp: token ids, possibly out of vocabulary.    *)
(* A position counts iff its token is in the vocabulary and no eos occurs  *)
(* strictly before it ("up to and including the first eos, ignoring        *)
(* out-of-vocabulary positions").                                          *)
(***************************************************************************)
InVocab(x) == x \in Tok
Counted(hyp, eos) ==
  {t \in 1..Len(hyp) : /\ InVocab(hyp[t])
                       /\ (eos = NoEos \/ \A s \in 1..(t - 1) : hyp[s] # eos)}
RECURSIVE ProdAt(_, _, _)
ProdAt(w, hyp, S) ==
  IF S = {} THEN 1
  ELSE LET t == CHOOSE x \in S : TRUE IN w[t][hyp[t] + 1] * ProdAt(w, hyp, S \ {t})
Num(w, hyp, eos) == ProdAt(w, hyp, Counted(hyp, eos))     \* probability = Num / D^Cnt
Cnt(hyp, eos) == Cardinality(Counted(hyp, eos))

\* number of positions up to and including the first eos (all of them if there is none)
EffLen(hyp, eos) ==
  IF eos # NoEos /\ \E t \in 1..Len(hyp) : hyp[t] = eos
  THEN MinOf({t \in 1..Len(hyp) : hyp[t] = eos}) ELSE Len(hyp)
Trunc(hyp, eos) == SubSeq(hyp, 1, EffLen(hyp, eos))

(***************************************************************************)
(* (b) A sequential language model is a table: history -> row.  The score  *)
(* of a path is definition (a) applied to the rows the model emits along   *)
(* the path.                                                               *)
(***************************************************************************)
Hist == UNION {[1..n -> Tok] : n \in 0..(T - 1)}
ChainW(tb, p) == [t \in 1..Len(p) |-> tb[SubSeq(p, 1, t - 1)]]
SeqNum(tb, p, eos) == Num(ChainW(tb, p), p, eos)

\* the support of the distribution over complete sequences: every sequence of T tokens, cut
\* after its first eos (and thereby de-duplicated)
Support(eos) == {Trunc(s, eos) : s \in [1..T -> Tok]}
RECURSIVE SumOver(_, _, _)
SumOver(S, tb, eos) ==
  IF S = {} THEN 0
  ELSE LET p == CHOOSE x \in S : TRUE
       IN SeqNum(tb, p, eos) * Pow(D, T - Len(p)) + SumOver(S \ {p}, tb, eos)
SupportSum(tb, eos) == SumOver(Support(eos), tb, eos)       \* must equal D^T

(***************************************************************************)
(* (c) The CTC collapse map B: merge repeats, then delete blanks.          *)
(***************************************************************************)
RECURSIVE Merge(_)
Merge(s) == IF Len(s) <= 1 THEN s
            ELSE IF s[1] = s[2] THEN Merge(Tail(s)) ELSE <<s[1]>> \o Merge(Tail(s))
Collapse(s, blank) == SelectSeq(Merge(s), LAMBDA x : x # blank)

\* sets -> sorted sequences of sequences for export (lexicographic by length then content is
\* not needed; any fixed order will do)
RECURSIVE SetToSeq(_)
SetToSeq(S) == IF S = {} THEN <<>> ELSE LET x == CHOOSE y \in S : TRUE IN <<x>> \o SetToSeq(S \ {x})
Emit(rec) == PrintT(<<"VFJ", ToJson(rec)>>)

(***************************************************************************)
(* Model-checking instances (constants a .cfg cannot hold).                *)
(***************************************************************************)
Rows2Quick == {<<1, 3>>, <<2, 2>>, <<4, 0>>}                    \* V = 2, D = 4 (one zero weight)
Rows2Small == {<<1, 3>>, <<3, 1>>}                               \* V = 2, D = 4, batch machine
Rows2More  == {<<1, 3>>, <<2, 2>>, <<4, 0>>, <<3, 1>>}          \* V = 2, D = 4
Rows3      == {<<1, 1, 2>>, <<2, 1, 1>>, <<0, 3, 1>>, <<1, 2, 1>>} \* V = 3, D = 4
RowsW3     == {<<1, 1, 2>>, <<0, 3, 1>>}                         \* V = 3, D = 4, table universe
\* greedy CTC needs rows without ties: permutations of (1, 2, 5), D = 8
RowsCtc3   == {<<1, 2, 5>>, <<1, 5, 2>>, <<2, 1, 5>>, <<2, 5, 1>>, <<5, 1, 2>>, <<5, 2, 1>>}
RowsCtc2   == {<<1, 3>>, <<3, 1>>, <<0, 4>>}                     \* V = 2, D = 4
EosNone    == {NoEos}
Eos2       == {NoEos, 0, 1}
Eos3       == {NoEos, 0, 2}
=============================================================================
