\* core: T <= 3, weights 1..2, values {-1,0,2}, long-sequence lemmas (EmbedInvariant, ReplicaInvariant) on up to 4 positions; layouts: <= 2 leading dims of size 1..2, T in {1,2,3};
\* table: ItemsQuick (AttentionMC)
INIT Init
NEXT Next
CONSTANTS
  CoreT = 3
  EmbedT = 4
  CoreW = {1, 2}
  CoreV <- CoreVals
  MaxRank = 2
  LayoutT = {1, 2, 3}
  ParamSeq <- Params
  QuerySeq <- QuerySq
  KeySeq <- Keys
  TableIdx <- Idx
INVARIANT MachineIsDeclarative
INVARIANT WeightsAreDistribution
INVARIANT Convex
INVARIANT MaskBlind
INVARIANT PermutationInvariant
INVARIANT ScaleInvariant
INVARIANT EmbedInvariant
INVARIANT ReplicaInvariant
INVARIANT LayoutIsLegal
INVARIANT LayoutOutShape
INVARIANT LegalIsLayout
INVARIANT IllegalRejected
INVARIANT BroadcastIsExpand
INVARIANT TableConvexSingle
INVARIANT KeyBiasInvisible
INVARIANT Export
CHECK_DEADLOCK FALSE
