\* batched validation of implementation traces of whole jobs (run with -workers 1); the scope of the design
\* configurations: at most 2 crashes per job, at most one of them inside update_for_epoch
INIT TInit
NEXT TNext
CONSTANTS
  ParamSpace <- ParamsThorough
  KeepModes <- Both
  Levels <- L3
  MaxE = 3
  NBs = {1, 2, 3}
  MaxCrash = 2
  MaxFsCrash = 1
  InitEpochFromDisk = TRUE
INVARIANT Accept
INVARIANT TraceProgress
POSTCONDITION Post
CHECK_DEADLOCK FALSE
