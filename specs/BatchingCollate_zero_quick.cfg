\* utterances WITHOUT FRAMES in the batch: every batch of 1..3 utterances (feature length 0..2, reference
\* none/0..1, alignment present or not) that holds at least one utterance of length 0 - including the batches
\* made of such utterances only -, sort on/off, every legal row order; windows with left, right in 0..2
INIT Init
NEXT Next
CONSTANTS
  MaxItems = 3
  MinT = 0
  MaxT = 2
  MaxR = 1
  Kinds <- FrameKinds
  MaxCtx = 2
INVARIANT IdsStay
INVARIANT OneEntryPerUtterance
INVARIANT EmptyUtterancesStay
INVARIANT CutIsLossless
INVARIANT PaddingIsPad
INVARIANT OptionalParts
INVARIANT SortedWhenAsked
INVARIANT OrderKeptOtherwise
INVARIANT WindowsSplitBack
INVARIANT ExportCase
CHECK_DEADLOCK FALSE
