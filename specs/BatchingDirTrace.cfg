\* batched validation of recorded loader histories (run with -workers 1)
INIT TInit
NEXT TNext
CONSTANTS
  MaxN = 64
  MaxB = 8
  MaxSize = 64
  MaxLen = 64
  Sources = {"lengths"}
  Renditions = {"a", "b"}
  MaxLoaders = 8
  DynSet = {TRUE, FALSE}
  SameParams = FALSE
INVARIANT Accept
INVARIANT Progress
POSTCONDITION Post
CHECK_DEADLOCK FALSE
