----------------------------- MODULE SamplerMC -----------------------------
(* Model-checking instances of Sampler: constants a .cfg cannot hold. *)
EXTENDS Sampler
AllModes == {"raise", "drop", "uneven", "ignore"}
BothKinds == {"random", "seq"}
NoFeatures == {}
AllFeatures == {"reconstruct", "get", "full", "abandon"}
PathFeatures == {"reconstruct", "get", "abandon"}
FullFeatures == {"full"}
\* several iterators of one sampler object alive at once
LiveFeatures == {"get", "live2"}
LiveAbandonFeatures == {"get", "abandon", "live2"}
LiveFullFeatures == {"get", "full", "abandon", "live2"}
AllLiveFeatures == {"reconstruct", "get", "full", "abandon", "live3"}
\* the rejected shared-buffer design: two live iterators (must be refuted) / one at a time (cannot be told apart)
SharedBufLive == {"get", "live2", "sharedbuf"}
SharedBufSerial == {"reconstruct", "get", "abandon", "sharedbuf"}
RandomOnly == {"random"}
OneMode == {"uneven"}
TwoModes == {"drop", "ignore"}
=============================================================================
