----------------------------- MODULE SamplerMC -----------------------------
(* Model-checking instances of Sampler: constants a .cfg cannot hold. *)
EXTENDS Sampler
AllModes == {"raise", "drop", "uneven", "ignore"}
BothKinds == {"random", "seq"}
NoFeatures == {}
AllFeatures == {"reconstruct", "get", "full", "abandon"}
PathFeatures == {"reconstruct", "get", "abandon"}
FullFeatures == {"full"}
=============================================================================
