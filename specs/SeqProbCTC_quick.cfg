\* exhaustive: 1..3 frames over the 6 tie-free rows of (1,2,5), every valid length 0..n, every blank
INIT Init
NEXT Next
CONSTANTS
  V = 3
  T = 3
  D = 8
  Rows <- RowsCtc3
INVARIANT GreedyIsCollapse
INVARIANT NoBlankInOutput
INVARIANT OutputNoLongerThanValid
INVARIANT Export
CHECK_DEADLOCK FALSE
