---- MODULE SamplerInd_W4 ----
EXTENDS Integers
VARIABLES
  \* @type: Int;
  i,
  \* @type: Int -> Int;
  cnt
INSTANCE SamplerInd WITH W <- 4
====
