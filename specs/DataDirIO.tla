----------------------------- MODULE DataDirIO -----------------------------
(***************************************************************************)
(* Reading and writing token sequences and discovering utterances in       *)
(* pydrobert.torch (_datasets.py: _load_ref, _write_hyp,                   *)
(* SpectDataSet.find_utt_ids / _utts_in_dir).                              *)
(*                                                                         *)
(* kind "ref":  a stored reference is read (sos / eos put around it, an    *)
(*              empty one included; 2-D rows get -1 boundaries) and the    *)
(*              result is written back as a hypothesis: what is then on    *)
(*              disk must be the bare transcript again.                    *)
(*              The ROUTE by which the symbols reach the data set is part  *)
(*              of the case: through the parameter object ("params"),      *)
(*              through the sos= / eos= keyword arguments of SpectDataSet  *)
(*              ("kwarg": they override the parameter object), or through  *)
(*              a parameter object that is changed after the data set was  *)
(*              built ("mutated").  In the last case the property does not *)
(*              say whether the data set follows the object or keeps what  *)
(*              it was built with (Bindings: both are accepted), but       *)
(*              whichever symbols the read put around the transcript, the  *)
(*              write takes off again (RoundTripAnyBinding).               *)
(* kind "hyp":  an arbitrary hypothesis (sos / eos anywhere, repeatedly) is*)
(*              written: everything up to and including the LAST sos and   *)
(*              from the FIRST eos on is removed (code-shaped index search  *)
(*              vs. the declarative "longest clean middle part").          *)
(* kind "disc": files <<subdir, family, utt>> (two prefix/suffix families) *)
(*              in feat/, ali/, ref/: an utterance is listed iff its       *)
(*              feature file exists and so does its file in every optional *)
(*              sub-directory that takes part (it holds at least one file  *)
(*              of the family; ali/ only when alignments are not           *)
(*              suppressed).                                               *)
(***************************************************************************)
EXTENDS Naturals, Integers, Sequences, FiniteSets, TLC, Json

CONSTANTS Toks,      \* ordinary token ids
          MaxR,      \* transcripts of 0..MaxR tokens
          Sos, Eos,  \* the start / end symbols when configured (not in Toks, different)
          MaxH,      \* hypotheses of 0..MaxH symbols over Toks + {Sos, Eos}
          Utts, Fams \* utterance names, prefix/suffix families

None == 0 - 1
VARIABLES kind, c, stage, out
vars == <<kind, c, stage, out>>

(***************************************************************************)
(* _load_ref                                                               *)
(***************************************************************************)
\* a stored reference: nd = 1: sequence of tokens; nd = 2: sequence of <<tok, start, end>>
TokOf(nd, x) == IF nd = 2 THEN x[1] ELSE x
Sym(nd, s) == IF nd = 2 THEN <<s, None, None>> ELSE s
ReadRef(rows, nd, tokens_only, sos, eos) ==
  LET D == IF tokens_only THEN 1 ELSE nd
      r0 == IF tokens_only /\ nd = 2 THEN [j \in 1..Len(rows) |-> rows[j][1]] ELSE rows
      r1 == IF sos # None THEN <<Sym(D, sos)>> \o r0 ELSE r0
      r2 == IF eos # None THEN r1 \o <<Sym(D, eos)>> ELSE r1
  IN [nd |-> D, rows |-> r2]

(***************************************************************************)
(* _write_hyp                                                              *)
(***************************************************************************)
MaxOfS(S) == CHOOSE x \in S : \A y \in S : x >= y
MinOfS(S) == CHOOSE x \in S : \A y \in S : x <= y
\* code-shaped: nonzero(hyp == sos)[-1], nonzero(hyp == eos)[0] on what is left
WriteHyp(rows, nd, sos, eos) ==
  LET at(h, s) == {j \in 1..Len(h) : TokOf(nd, h[j]) = s}
      h1 == IF sos # None /\ at(rows, sos) # {} THEN SubSeq(rows, MaxOfS(at(rows, sos)) + 1, Len(rows)) ELSE rows
      h2 == IF eos # None /\ at(h1, eos) # {} THEN SubSeq(h1, 1, MinOfS(at(h1, eos)) - 1) ELSE h1
  IN h2
\* declarative: the part after every sos, up to (excluding) the first eos that follows
WriteDecl(rows, nd, sos, eos) ==
  LET lo == IF sos = None THEN 0
            ELSE MaxOfS({0} \cup {j \in 1..Len(rows) : TokOf(nd, rows[j]) = sos})
      hi == IF eos = None THEN Len(rows) + 1
            ELSE MinOfS({Len(rows) + 1} \cup {j \in (lo + 1)..Len(rows) : TokOf(nd, rows[j]) = eos})
  IN SubSeq(rows, lo + 1, hi - 1)

(***************************************************************************)
(* How the symbols reach the data set                                      *)
(***************************************************************************)
Routes == {"params", "kwarg", "mutated"}
Flip(x, sym) == IF x = None THEN sym ELSE None
\* p: the parameter object when the data set is built; k: the keyword arguments; m: the parameter
\* object when the data set is used
Config(route, sos, eos) ==
  CASE route = "params"  -> [psos |-> sos, peos |-> eos, ksos |-> None, keos |-> None, msos |-> sos, meos |-> eos]
    [] route = "kwarg"   -> [psos |-> None, peos |-> None, ksos |-> sos, keos |-> eos, msos |-> None, meos |-> None]
    [] route = "mutated" -> [psos |-> sos, peos |-> eos, ksos |-> None, keos |-> None,
                             msos |-> Flip(sos, Sos), meos |-> Flip(eos, Eos)]
Over(k, p) == IF k # None THEN k ELSE p        \* a keyword argument overrides the parameter object
Built(g) == [sos |-> Over(g.ksos, g.psos), eos |-> Over(g.keos, g.peos)]   \* the configured symbols
Live(g) == [sos |-> Over(g.ksos, g.msos), eos |-> Over(g.keos, g.meos)]    \* following the object
Bindings(g) == {Built(g), Live(g)}

(***************************************************************************)
(* find_utt_ids                                                            *)
(***************************************************************************)
InDir(files, sub, fam) == {u \in Utts : <<sub, fam, u>> \in files}        \* _utts_in_dir
\* code-shaped: has_ali / has_ref = the directory holds any matching file; intersections
Discover(files, fam, suppress_alis) ==
  LET has_ali == ~suppress_alis /\ InDir(files, "ali", fam) # {}
      has_ref == InDir(files, "ref", fam) # {}
      u0 == InDir(files, "feat", fam)
      u1 == IF has_ali THEN u0 \cap InDir(files, "ali", fam) ELSE u0
  IN IF has_ref THEN u1 \cap InDir(files, "ref", fam) ELSE u1
DiscoverDecl(files, fam, suppress_alis) ==
  {u \in Utts :
     /\ <<"feat", fam, u>> \in files
     /\ (~suppress_alis /\ (\E v \in Utts : <<"ali", fam, v>> \in files)) => <<"ali", fam, u>> \in files
     /\ (\E v \in Utts : <<"ref", fam, v>> \in files) => <<"ref", fam, u>> \in files}

(***************************************************************************)
(* Cases                                                                   *)
(***************************************************************************)
Rows1(m) == UNION {[1..q -> Toks] : q \in 0..m}
Bnds == {<<None, None>>, <<0, 1>>, <<Sos, Eos>>}   \* the last pair: boundary values that coincide with the sos / eos ids
Rows2(m) == UNION {[1..q -> {<<t, b[1], b[2]>> : t \in Toks, b \in Bnds}] : q \in 0..m}
HypSyms == Toks \cup {Sos, Eos}
Hyps1(m) == UNION {[1..q -> HypSyms] : q \in 0..m}
SetToSeq(S) == LET RECURSIVE F(_)
                   F(T) == IF T = {} THEN <<>> ELSE LET x == CHOOSE y \in T : TRUE IN <<x>> \o F(T \ {x})
               IN F(S)

InitRef ==
  /\ kind = "ref"
  /\ \E nd \in {1, 2}, to \in BOOLEAN, sos \in {None, Sos}, eos \in {None, Eos}, route \in Routes :
       \E rows \in (IF nd = 1 THEN Rows1(MaxR) ELSE Rows2(MaxR)) :
          /\ route = "kwarg" => (sos # None \/ eos # None)       \* else it is the "params" case
          /\ c = [nd |-> nd, rows |-> rows, tokens_only |-> to, sos |-> sos, eos |-> eos,
                  route |-> route, cfg |-> Config(route, sos, eos)]
InitHyp ==
  /\ kind = "hyp"
  \* (an arbitrary hypothesis is not the result of a read: with a "mutated" object nothing is claimed)
  /\ \E nd \in {1, 2}, sos \in {None, Sos}, eos \in {None, Eos}, route \in {"params", "kwarg"} :
       \E h \in Hyps1(MaxH) :
          /\ route = "kwarg" => (sos # None \/ eos # None)
          /\ c = [nd |-> nd, rows |-> [j \in 1..Len(h) |-> Sym(nd, h[j])], tokens_only |-> FALSE,
                  sos |-> sos, eos |-> eos, route |-> route, cfg |-> Config(route, sos, eos)]
AllFiles == {"feat", "ali", "ref"} \X Fams \X Utts
InitDisc ==
  /\ kind = "disc"
  /\ \E files \in SUBSET AllFiles, fam \in Fams, sa \in BOOLEAN :
       c = [files |-> files, fam |-> fam, suppress_alis |-> sa]
Init == /\ (InitRef \/ InitHyp \/ InitDisc)
        /\ stage = 0 /\ out = <<>>

Read ==
  /\ kind = "ref" /\ stage = 0
  /\ out' = <<ReadRef(c.rows, c.nd, c.tokens_only, Built(c.cfg).sos, Built(c.cfg).eos)>>
  /\ stage' = 1 /\ UNCHANGED <<kind, c>>
Write ==
  /\ \/ kind = "ref" /\ stage = 1
        /\ out' = Append(out, WriteHyp(out[1].rows, out[1].nd, Built(c.cfg).sos, Built(c.cfg).eos))
     \/ kind = "hyp" /\ stage = 0 /\ out' = <<WriteHyp(c.rows, c.nd, Built(c.cfg).sos, Built(c.cfg).eos)>>
  /\ stage' = 2 /\ UNCHANGED <<kind, c>>
Disc ==
  /\ kind = "disc" /\ stage = 0
  /\ out' = <<Discover(c.files, c.fam, c.suppress_alis)>>
  /\ stage' = 2 /\ UNCHANGED <<kind, c>>
Next == Read \/ Write \/ Disc
Spec == Init /\ [][Next]_vars

(***************************************************************************)
(* Design invariants                                                       *)
(***************************************************************************)
\* "puts the configured start and end symbols around every transcript, an empty one included"
ReadIsWrapped ==
  (kind = "ref" /\ stage >= 1) =>
     LET r == out[1].rows
         n0 == Len(c.rows)
         off == IF c.sos # None THEN 1 ELSE 0
     IN /\ Len(r) = n0 + off + (IF c.eos # None THEN 1 ELSE 0)
        /\ (c.sos # None => r[1] = Sym(out[1].nd, c.sos))
        /\ (c.eos # None => r[Len(r)] = Sym(out[1].nd, c.eos))
        /\ \A j \in 1..n0 : TokOf(out[1].nd, r[off + j]) = TokOf(c.nd, c.rows[j])
        /\ (~c.tokens_only => \A j \in 1..n0 : r[off + j] = c.rows[j])
        /\ out[1].nd = (IF c.tokens_only THEN 1 ELSE c.nd)
\* "writing a hypothesis strips them again, so loading what was written returns the bare tokens"
RoundTrip ==
  (kind = "ref" /\ stage = 2) =>
     /\ Len(out[2]) = Len(c.rows)
     /\ \A j \in 1..Len(c.rows) : TokOf(out[1].nd, out[2][j]) = TokOf(c.nd, c.rows[j])
     /\ (~c.tokens_only => out[2] = c.rows)
\* the configured symbols are the ones given, by whichever route
RouteIsTransparent == (kind \in {"ref", "hyp"}) => Built(c.cfg) = [sos |-> c.sos, eos |-> c.eos]
\* whichever of the accepted symbol pairs the read used, the write that uses the same pair gives the
\* same bare transcript
ReadsOf(cc) == {ReadRef(cc.rows, cc.nd, cc.tokens_only, b.sos, b.eos) : b \in Bindings(cc.cfg)}
RoundTripAnyBinding ==
  (kind = "ref" /\ stage = 2) =>
     \A b \in Bindings(c.cfg) :
        LET rd == ReadRef(c.rows, c.nd, c.tokens_only, b.sos, b.eos)
        IN WriteHyp(rd.rows, rd.nd, b.sos, b.eos) = out[2]
StripIsDeclared ==
  (kind = "hyp" /\ stage = 2) => out[1] = WriteDecl(c.rows, c.nd, c.sos, c.eos)
DiscoveryIsDeclared ==
  (kind = "disc" /\ stage = 2) => out[1] = DiscoverDecl(c.files, c.fam, c.suppress_alis)

(***************************************************************************)
(* Export                                                                  *)
(***************************************************************************)
Emit(rec) == PrintT(<<"VFJ", ToJson(rec)>>)
Export ==
  (stage = 2) =>
     IF kind = "disc"
     THEN Emit([what |-> "disc", files |-> SetToSeq(c.files), fam |-> c.fam, suppress_alis |-> c.suppress_alis,
                listed |-> SetToSeq(out[1])])
     ELSE IF kind = "hyp"
     THEN Emit([what |-> "hyp", c |-> c, written |-> out[1]])
     ELSE Emit([what |-> "ref", c |-> c, read |-> out[1], reads |-> SetToSeq(ReadsOf(c)), written |-> out[2]])
=============================================================================
