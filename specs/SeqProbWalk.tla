---------------------------- MODULE SeqProbWalk ----------------------------
(***************************************************************************)
(* Code-shaped machine for modules.RandomWalk.forward (+ the step function *)
(* random_walk_advance) on a batch, and the facts the distribution wrapper *)
(* SequentialLanguageModelDistribution relies on.                          *)
(*                                                                         *)
(* One action per iteration of the loop `for t in range(max_iters)`:       *)
(*   - stop when every element has emitted eos (eos_mask.all());           *)
(*   - an unfinished element draws any token of positive weight from the   *)
(*     row its language model emits for the first t entries of its column; *)
(*     a finished element can only draw eos (all mass moved onto eos) and  *)
(*     its score does not change;                                          *)
(*   - the buffer y grows by one row when the longest path fills it, the   *)
(*     draw of element n is then scattered to row index lens[n];           *)
(*   - lens += ~eos_mask; eos_mask = (y[lens - 1] == eos).                 *)
(* Declarative side (SeqProb): the path of element n is the first lens[n]  *)
(* entries of its column, its score is SeqNum of that path, complete paths *)
(* lie in Support(eos), and the support carries total mass D^T.            *)
(***************************************************************************)
EXTENDS SeqProb

CONSTANTS EosSet,    \* subset of Tok \cup {NoEos}
          NB         \* batch size of the exhaustive model

VARIABLES tabs,      \* element -> table (Hist -> row)
          eos,
          t,         \* loop counter
          y,         \* buffer: sequence of rows, a row is a function element -> token
          lens,      \* element -> path length (y_lens)
          fin,       \* element -> has emitted eos (eos_mask)
          nums       \* element -> numerator of the reported probability (over D^lens)
vars == <<tabs, eos, t, y, lens, fin, nums>>

Elems == DOMAIN lens
Col(n, m) == [s \in 1..m |-> y[s][n]]
Path(n) == Col(n, lens[n])
Terminal == t = T \/ \A n \in Elems : fin[n]

InitWith(tbs, e) ==
  /\ tabs = tbs
  /\ eos = e
  /\ t = 0
  /\ y = <<>>
  /\ lens = [n \in DOMAIN tbs |-> 0]
  /\ fin = [n \in DOMAIN tbs |-> FALSE]
  /\ nums = [n \in DOMAIN tbs |-> 1]

Init == \E e \in EosSet, tb \in [Hist -> Rows] : InitWith([n \in 1..NB |-> tb], e)

StepWith(draw) ==
  /\ t < T
  /\ \E n \in Elems : ~fin[n]
  /\ \A n \in Elems : IF fin[n] THEN draw[n] = eos
                      ELSE draw[n] \in Tok /\ tabs[n][Col(n, t)][draw[n] + 1] > 0
  /\ LET grown == IF MaxOf({lens[n] : n \in Elems}) >= Len(y) THEN Append(y, draw) ELSE y
         ynew == [s \in 1..Len(grown) |->
                    [n \in Elems |-> IF s = lens[n] + 1 THEN draw[n] ELSE grown[s][n]]]
         lnew == [n \in Elems |-> IF fin[n] THEN lens[n] ELSE lens[n] + 1]
     IN /\ y' = ynew
        /\ lens' = lnew
        /\ fin' = [n \in Elems |-> eos # NoEos /\ ynew[lnew[n]][n] = eos]
        /\ nums' = [n \in Elems |->
                      IF fin[n] THEN nums[n] ELSE nums[n] * tabs[n][Col(n, t)][draw[n] + 1]]
  /\ t' = t + 1
  /\ UNCHANGED <<tabs, eos>>

Step == \E draw \in [Elems -> Tok] : StepWith(draw)

Next == Step
Spec == Init /\ [][Next]_vars

(***************************************************************************)
(* Design invariants                                                       *)
(***************************************************************************)
TypeOK == /\ Len(y) = t
          /\ \A n \in Elems : lens[n] \in 0..t

\* the reported score is the definition applied to the model's outputs along the path
ChainScores == \A n \in Elems : nums[n] = SeqNum(tabs[n], Path(n), eos)

\* a path holds eos at most once, at its end; unfinished paths have one token per iteration
WalkShape ==
  \A n \in Elems :
     /\ \A s \in 1..(lens[n] - 1) : Path(n)[s] # eos
     /\ fin[n] <=> (eos # NoEos /\ lens[n] > 0 /\ Path(n)[lens[n]] = eos)
     /\ ~fin[n] => lens[n] = t

\* every path ends at its first eos or at the step limit, i.e. lies in the support, with mass > 0
TerminalInSupport ==
  Terminal => \A n \in Elems : Path(n) \in Support(eos) /\ nums[n] > 0

\* beyond its end a column holds eos only (what sample() relies on when it stacks)
EosPadding == \A n \in Elems : \A s \in (lens[n] + 1)..Len(y) : y[s][n] = eos

\* the support carries probability one
SupportSumsToOne == t = 0 => \A n \in Elems : SupportSum(tabs[n], eos) = Pow(D, T)

(***************************************************************************)
(* Export (NB = 1): per table and eos, the support with the numerator of   *)
(* every member -- replayed into enumerate_support / log_prob.             *)
(***************************************************************************)
TabSeq(tb) == LET hs == SetToSeq(Hist) IN [j \in 1..Len(hs) |-> [h |-> hs[j], row |-> tb[hs[j]]]]
SupportSeq(tb, e) ==
  LET ps == SetToSeq(Support(e)) IN [j \in 1..Len(ps) |-> [p |-> ps[j], num |-> SeqNum(tb, ps[j], e)]]
ExportSupport ==
  t = 0 => Emit([tab |-> TabSeq(tabs[1]), eos |-> eos, support |-> SupportSeq(tabs[1], eos)])
=============================================================================
