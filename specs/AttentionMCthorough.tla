------------------------- MODULE AttentionMCthorough -------------------------
(* thorough-tier table universe of Attention *)
EXTENDS AttentionMC
Params == SeqOfSet(Singles) \o SeqOfSet(Mhas)
QuerySq == <<<<1, 1>>, <<2, -1>>, <<1, 0>>, <<0, 1>>>>
KeysSingle == SeqOfSet(KeysOf(1, 1) \cup KeysOf(2, 1) \cup KeysOf(3, 2))
KeysMha == SeqOfSet(KeysOf(1, 1) \cup KeysOf(2, 4) \cup KeysOf(3, 20))
Keys == KeysSingle \o KeysMha
Idx == {<<p, q, k>> : p \in 1..5, q \in 1..4, k \in 1..Len(KeysSingle)}
       \cup {<<p, q, k>> : p \in 6..37, q \in 1..3, k \in (Len(KeysSingle) + 1)..Len(Keys)}
=============================================================================
