---------------------------- MODULE BatchingDir ----------------------------
(***************************************************************************)
(* A HISTORY of length-bucketed loaders in one process over ONE data       *)
(* directory (pydrobert.torch _dataloaders.py: SpectDataLoader /           *)
(* LangDataLoader with num_length_buckets > 1, _get_bucket_batch_sampler_  *)
(* params).                                                                *)
(*                                                                         *)
(* The directory is STATE: it holds several renditions of the same         *)
(* utterance ids (feature sub-directories feat/ and feat_b/, references    *)
(* told apart by file_prefix, ...), `dir[r][i]` = the length of utterance  *)
(* i in rendition r, and its files may be regenerated between loaders      *)
(* (Write).  Constructing a loader is an ACTION that READS the directory   *)
(* (Open): the loader serves the rendition it was pointed at as it is at   *)
(* that moment, and its bucket assignment is computed from THOSE lengths - *)
(* whatever loaders were built before it, over whatever rendition.  Every  *)
(* loader then runs the bucket machine of Batching.tla (this module        *)
(* EXTENDS it: Feed / EmitFull / EndFeed / Flush / Finish unchanged), and  *)
(* all design invariants of Batching are required of every loader of the   *)
(* history, `lens` being what Open read.                                   *)
(*                                                                         *)
(* Open(r, ord, ..., asg, sz) takes the assignment as a parameter: the     *)
(* design run passes the specification's own (BoundsOf / BucketOfLen /     *)
(* DynSize), the trace specification the REAL idx2bucket / bucket2size of  *)
(* the loader; `ord` is the order in which the epoch feeds the utterances   *)
(* (position -> utterance; the bucket machine works on feed positions):    *)
(* the identity in the design run, the logged order in a trace.            *)
(*                                                                         *)
(* Assumption: the directory is not rewritten while a loader is running an *)
(* epoch (Write only between loaders).                                     *)
(***************************************************************************)
EXTENDS Batching

CONSTANTS Renditions,   \* names of the renditions of the data the directory holds
          MaxLoaders,   \* loaders constructed in one history
          DynSet,       \* values of size_batch_by_length
          SameParams    \* TRUE: the loaders of a history share (buckets, batch size, dynamic, drop)

VARIABLES dir,          \* [Renditions -> [Idx -> 1..MaxLen]]: the directory as it is now
          dir0,         \* the directory at the beginning (export)
          opened,       \* number of loaders constructed so far
          cur,          \* rendition the running loader serves
          feedord,      \* order in which the running loader's epoch feeds the utterances
          hist          \* the history: Write and Open steps
hvars == <<dir, dir0, opened, cur, feedord, hist>>
dvars == <<vars, hvars>>

IdSeq == [p \in 1..n |-> p - 1]
IsOrder(ord) == /\ DOMAIN ord = 1..n
                /\ \A p \in 1..n : ord[p] \in Idx
                /\ \A p, q \in 1..n : p # q => ord[p] # ord[q]
\* what a loader over rendition r sees at feed position p
Served(r, ord) == [p \in Idx |-> dir[r][ord[p + 1]]]

Step(op, r, ls, nb, bs, dy, dr, asg, sz) ==
  [op |-> op, r |-> r, lens |-> ls, nbreq |-> nb, bsz |-> bs, dyn |-> dy, drop |-> dr, i2b |-> asg, size |-> sz]

(***************************************************************************)
(* Actions                                                                 *)
(***************************************************************************)
Between == phase \in {"idle", "done"}

\* the files of rendition r are regenerated with other lengths
Write(r, ls) ==
  /\ Between
  /\ r \in Renditions /\ ls \in [Idx -> 1..MaxLen]
  /\ dir' = [dir EXCEPT ![r] = ls]
  /\ hist' = Append(hist, Step("write", r, FunSeq(ls, n), 0, 0, FALSE, FALSE, <<>>, <<>>))
  /\ UNCHANGED <<vars, dir0, opened, cur, feedord>>

\* Loader constructor over rendition r: READS the directory
Open(r, ord, nb, bs, dy, dr, asg, sz) ==
  /\ Between /\ opened < MaxLoaders /\ r \in Renditions /\ IsOrder(ord)
  /\ lens' = Served(r, ord)
  /\ nbreq' = nb /\ bsz' = bs /\ dyn' = dy /\ drop' = dr
  /\ i2b' = asg /\ size' = sz
  /\ k' = 0 /\ yielded' = <<>> /\ phase' = "feed"
  /\ partial' = [b \in DOMAIN sz |-> <<>>]
  /\ opened' = opened + 1 /\ cur' = r /\ feedord' = ord
  /\ hist' = Append(hist, Step("open", r, FunSeq(Served(r, ord), n), nb, bs, dy, dr,
                               FunSeq(asg, n), FunSeq(sz, Cardinality(DOMAIN sz))))
  /\ UNCHANGED <<n, src, dir, dir0>>

\* the specification's own assignment: _get_bucket_batch_sampler_params on what the loader serves
SpecOpen(r, nb, bs, dy, dr) ==
  \E ls \in {Served(r, IdSeq)} :
  \E bounds \in {IF n = 0 THEN <<>> ELSE BoundsOf(ls, n, nb)} :
     Open(r, IdSeq, nb, bs, dy, dr,
          [i \in Idx |-> BucketOfLen(bounds, ls[i])],
          [j \in 0..(Len(bounds) - 1) |-> DynSize(bounds, j, bs, dy)])

Machine(A) == A /\ UNCHANGED hvars

DInit ==
  /\ src = "lengths"
  /\ n \in 0..MaxN
  /\ dir \in [Renditions -> [Idx -> 1..MaxLen]]
  /\ dir0 = dir
  /\ opened = 0 /\ cur = "" /\ feedord = <<>> /\ hist = <<>>
  /\ lens = <<>> /\ nbreq = 0 /\ bsz = 0 /\ dyn = FALSE /\ drop = FALSE
  /\ i2b = <<>> /\ size = <<>>
  /\ k = 0 /\ yielded = <<>> /\ partial = <<>> /\ phase = "idle"

\* Exhaustive runs, without loss: at most one regeneration between two loaders, none after the last, and
\* only of the rendition the previous loader served (regenerating another one before it is read for the
\* first time is a different initial directory); the first loader serves the first rendition (the
\* renditions are interchangeable, the initial directory ranges over everything).
FirstRendition == CHOOSE x \in Renditions : TRUE
DoWrite ==
  /\ opened > 0 /\ opened < MaxLoaders /\ hist[Len(hist)].op = "open"
  /\ \E ls \in [Idx -> 1..MaxLen] : ls # dir[cur] /\ Write(cur, ls)
DoOpen ==
  \E r \in Renditions, nb \in 1..MaxB, bs \in 1..MaxSize, dy \in DynSet, dr \in BOOLEAN :
     /\ (SameParams /\ opened > 0) => (nb = nbreq /\ bs = bsz /\ dy = dyn /\ dr = drop)
     /\ (opened = 0) => r = FirstRendition
     /\ SpecOpen(r, nb, bs, dy, dr)
HFeed == Feed /\ UNCHANGED hvars
HEmitFull == DoEmitFull /\ UNCHANGED hvars
HEndFeed == EndFeed /\ UNCHANGED hvars
HFlush == DoFlush /\ UNCHANGED hvars
HFinish == Finish /\ UNCHANGED hvars
DNext == DoWrite \/ DoOpen \/ HFeed \/ HEmitFull \/ HEndFeed \/ HFlush \/ HFinish
DSpec == DInit /\ [][DNext]_dvars

(***************************************************************************)
(* Design invariants: those of Batching for EVERY loader of the history,   *)
(* and the statement about the directory                                   *)
(***************************************************************************)
Running == opened > 0
HTypeOK ==
  /\ phase \in {"idle", "feed", "flush", "done"}
  /\ opened \in 0..MaxLoaders
  /\ Running => (TypeOK /\ cur \in Renditions /\ IsOrder(feedord))
HConservation == Running => Conservation
HExactlyOnceOrDropped == Running => ExactlyOnceOrDropped
HSingleBucketInOrder == Running => SingleBucketInOrder
HSizesAndTrailing == Running => SizesAndTrailing
HPredictedIsActual == Running => PredictedIsActual
HLengthMonotone == Running => LengthMonotone
HLengthClasses == Running => LengthClasses
HDynamicSizes == Running => DynamicSizes
HBatchesArePure == Running => BatchesArePure
\* "length-bucketed loaders never mix utterances from different length classes" - in terms of the
\* DIRECTORY: while a loader runs, its classes are ordered by the lengths of the rendition it serves,
\* as that rendition is on disk now (not as another rendition is, not as it was for an earlier loader)
ClassesOfServedData ==
  phase \in {"feed", "flush"} =>
     /\ lens = Served(cur, feedord)
     /\ \A p, q \in Idx : dir[cur][feedord[p + 1]] < dir[cur][feedord[q + 1]] => i2b[p] <= i2b[q]
\* no batch of the running loader holds a longer utterance of the served rendition than a batch of a
\* later class does a shorter one
BatchesPureOnDisk ==
  phase \in {"feed", "flush"} =>
     \A a, b \in 1..Len(yielded) :
        yielded[a].bucket < yielded[b].bucket =>
           \A p \in ItemsOf(yielded[a]), q \in ItemsOf(yielded[b]) :
              dir[cur][feedord[p + 1]] <= dir[cur][feedord[q + 1]]

(***************************************************************************)
(* Export: complete histories (the last loader has finished its epoch)     *)
(***************************************************************************)
Opens == {j \in 1..Len(hist) : hist[j].op = "open"}
\* does the history make the last loader's data differ from what an earlier loader read?
ExportHist ==
  (opened = MaxLoaders /\ phase = "done") =>
     Emit([what |-> "hist", n |-> n,
           dir0 |-> [r \in Renditions |-> FunSeq(dir0[r], n)],
           steps |-> hist,
           plen |-> PredictedLen,
           batches |-> [j \in 1..Len(yielded) |-> yielded[j].items]])
=============================================================================
