---------------------------- MODULE TranscriptsMC ----------------------------
(* Model-checking instances of Transcripts: constants that a .cfg cannot hold. *)
EXTENDS Transcripts
AllFams == {"trn", "trnid", "ctm", "tg", "tgu", "tok"}
\* <<start, dur>> in ms; <<-1, 0>> = a bare token.  Multiples of 125 ms are dyadic in seconds (float
\* arithmetic of the implementation is exact); 570 / 290 ms are not (only the one-frame bound is judged)
TokTimesQuick == {<<-1, 0>>, <<0, 0>>, <<0, 125>>, <<125, 250>>, <<1375, 0>>, <<1375, 125>>, <<570, 290>>}
TokTimesThorough == TokTimesQuick \cup {<<0, 1>>, <<9, 1>>, <<250, 125>>, <<1000, 1375>>, <<290, 570>>, <<10125, 250>>}
\* frame shifts in ms (0 = times are already frames)
ShiftsQuick == {0, 10, 25, 125}
ShiftsThorough == {0, 1, 10, 20, 25, 125, 1000}
\* a sub-millisecond universe: base unit = 1/8 ms (raw audio at 8 kHz has frame_shift_ms = 1/8); start times and
\* durations that are not whole milliseconds; the driver divides every number by 8 (records marked upm = 8)
TokTimesSubMs == {<<-1, 0>>, <<0, 0>>, <<19, 9>>, <<20, 3>>, <<4, 0>>, <<83, 17>>, <<1003, 5>>}
ShiftsSubMs == {1, 2}
\* TextGrid entries listed in any order: <<start, dur>> in ms.  <<0, 3000>> encloses most of the others (a phrase
\* listed with the words it spans); 10400 crosses 10 s; 1240 / 260 with length 0 are points; none of the values
\* is half way between two multiples of 0.1 s or 0.01 s
TgUTimesQuick == {<<0, 3000>>, <<260, 740>>, <<1500, 500>>, <<2000, 740>>, <<520, 740>>, <<10400, 260>>,
                  <<1240, 0>>, <<260, 0>>}
TgUTimesThorough == TgUTimesQuick \cup {<<2740, 260>>, <<9870, 1120>>}
\* id bodies: one letter; two letters around a space ("spk1 utt1")
TrnIdCoresQuick == {<<1>>, <<1, 0, 2>>}
TrnIdCoresThorough == TrnIdCoresQuick \cup {<<2, 0, 0, 1>>}
\* ctm: units <<base, exponent>> of start / duration for the cases that leave positional notation
\*   2^-16 s        sample-level alignment (65536 Hz): a 5-sample token lasts 7.62939453125e-05 s, starts 5 -> sci, 120 -> plain
\*   1/8 s, 2^-48 s a "tick": start on a coarse grid, the end a few last bits later (what accumulating 0.1 + 0.2 against
\*                  0.3 produces); start + duration is exact in binary floating point for starts below 16 s
\*   10^-7 s        decimal and tiny: 5e-07, 1.2e-05
\*   10^16 s        absurdly late: 5e+16, 1.2e+18
CtmFineUnitsAll == {[s |-> <<2, -16>>, d |-> <<2, -16>>], [s |-> <<2, -3>>, d |-> <<2, -48>>],
                    [s |-> <<10, -7>>, d |-> <<10, -7>>], [s |-> <<10, 16>>, d |-> <<10, 16>>]}
\* trn: transcripts outside the generic bounds (TrnExtra).  Widening TrnBranch / TrnDepth / TrnLeaves far enough to
\* reach them generically (3 branches at depth 3, 4+ leaves) multiplies the enumerated universe beyond what a quick
\* run can bear, so the shapes are listed: an alternate with THREE (and with four) branches
\*     { a / MID / b }      MID: empty | one token | two tokens | another alternate | another 3-way alternate
\* placed at top level, alone inside an enclosing alternate "{ { a / MID / b } }", between the tokens of the first
\* branch of an enclosing 2-way alternate "{ a { a / MID / b } b / a }" (sclite's  { well { um / you know / uh } ok /
\* right }), in the second branch of one after a plain token, and two alternates deep.
TrnMids == {<<>>, <<Tok(NTok)>>, <<Tok(1), Tok(NTok)>>, <<Alt(<<<<Tok(NTok)>>>>)>>, <<Alt(<<<<Tok(1)>>, <<>>, <<Tok(NTok)>>>>)>>}
TrnThree(mid) == Alt(<<<<Tok(1)>>, mid, <<Tok(NTok)>>>>)
TrnFour(mid) == Alt(<<<<Tok(1)>>, mid, <<>>, <<Tok(NTok)>>>>)
TrnWraps(x) ==
  {<<x>>,
   <<Alt(<<<<x>>>>)>>,
   <<Alt(<<<<Tok(1), x, Tok(NTok)>>, <<Tok(1)>>>>)>>,
   <<Tok(NTok), Alt(<<<<Tok(1)>>, <<x>>>>)>>,
   <<Alt(<<<<Alt(<<<<>>, <<x>>>>)>>>>)>>}
TrnExtraNested == UNION {TrnWraps(TrnThree(mid)) \cup TrnWraps(TrnFour(mid)) : mid \in TrnMids}
\* Deliberately wrong variants (substituted through a cfg: `TguLo <- TguLoFirstListed` ...) that the invariants
\* of the two families must reject -- otherwise the universes could not tell them from the right ones
TguLoFirstListed(tr, p) == RoundTo(tr[1].s, p)                                  \* "the tier starts with the first entry listed"
TguHiLastListed(tr, p) == RoundTo(tr[Len(tr)].s + tr[Len(tr)].d, p)              \* "... and ends with the last one"
CtmFieldPlainOnly(note) == note = "plain"                                      \* "a time field is digits with at most one point"
ReadIdStripping(line) ==                                                        \* "the id is stripped like the rest of the line"
  LET t == StripW(line) IN StripW(SubSeq(t, RIndex(t, ChLP) + 1, RIndex(t, ChRP) - 1))
=============================================================================
