---------------------------- MODULE TranscriptsMC ----------------------------
(* Model-checking instances of Transcripts: constants that a .cfg cannot hold. *)
EXTENDS Transcripts
AllFams == {"trn", "ctm", "tg", "tok"}
\* <<start, dur>> in ms; <<-1, 0>> = a bare token.  Multiples of 125 ms are dyadic in seconds (float
\* arithmetic of the implementation is exact); 570 / 290 ms are not (only the one-frame bound is judged)
TokTimesQuick == {<<-1, 0>>, <<0, 0>>, <<0, 125>>, <<125, 250>>, <<1375, 0>>, <<1375, 125>>, <<570, 290>>}
TokTimesThorough == TokTimesQuick \cup {<<0, 1>>, <<9, 1>>, <<250, 125>>, <<1000, 1375>>, <<290, 570>>, <<10125, 250>>}
\* frame shifts in ms (0 = times are already frames)
ShiftsQuick == {0, 10, 25, 125}
ShiftsThorough == {0, 1, 10, 20, 25, 125, 1000}
\* a sub-millisecond universe: base unit = 1/8 ms (raw audio at 8 kHz has frame_shift_ms = 1/8); start times and
\* durations that are not whole milliseconds; the driver divides every number by 8 (records marked upm = 8)
TokTimesSubMs == {<<-1, 0>>, <<0, 0>>, <<19, 9>>, <<20, 3>>, <<4, 0>>, <<83, 17>>, <<1003, 5>>}
ShiftsSubMs == {1, 2}
=============================================================================
