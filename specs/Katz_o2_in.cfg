\* order 2, V=2, start symbol inside the vocabulary: all 3^6 finite/-inf/absent splits of the 6 n-grams
INIT Init
NEXT Next
CONSTANTS
  V = 2
  N = 2
  SosIn = TRUE
  T = 3
  Tables <- AllDisjointSplits
INVARIANT WellFormed
INVARIANT IterIsRecursion
INVARIANT Export
CHECK_DEADLOCK FALSE
