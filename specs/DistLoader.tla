----------------------------- MODULE DistLoader -----------------------------
(***************************************************************************)
(* X03 - data loaders across the ranks of a distributed job.               *)
(*                                                                         *)
(* W processes of one torch.distributed job each construct THE SAME loader *)
(* (SpectDataLoader / LangDataLoader: class "spect"; ContextWindowData-    *)
(* Loader: class "window") over the same directory of N utterances with    *)
(* the same parameters and the same seed, and iterate epochs 0..MaxEpoch.  *)
(*                                                                         *)
(* REUSE: the utterance sampler of every rank is the sampler object of     *)
(* Sampler.tla (this module EXTENDS it: Construct / BeginIter / Yield /    *)
(* End over the UNINTERPRETED, lazily bound epoch order perm[seed, epoch]  *)
(* that all ranks share - same seed + same epoch => same permutation);     *)
(* the length-bucket assignment and bucket sizes are the operators of      *)
(* Batching.tla (instance B: BoundsOf / BucketOfLen / DynSize).  New here: *)
(* one bucket machine PER RANK (Batching.tla has a single one) fed by the  *)
(* rank's sampler, the loader-level rules of _dataloaders.py               *)
(*   - drop_last forces on_uneven_distributed = "drop" ("spect" class),    *)
(*   - the "window" class always passes "ignore",                          *)
(*   - len(loader) = _get_batch_sampler_len, cached at the first call,     *)
(* and the invariants about the JOB as a whole.                            *)
(*                                                                         *)
(* Code-shaped actions (one per critical section, per rank; ranks share no *)
(* state but the epoch order and interleave freely under Schedule="free"): *)
(*   LConstruct  loader constructor (may raise: mode "raise", W does not divide N)       *)
(*   BeginEpoch  iter(sampler): the epoch counter moves on                 *)
(*   Pull        the batch sampler pulls the next utterance of the rank's  *)
(*               shard, appends it to its bucket and yields the batch when *)
(*               it has become full                                        *)
(*   Exhaust     the rank's shard is exhausted                             *)
(*   Flush       an incomplete batch is yielded (any bucket order)         *)
(*   Finish      StopIteration: the epoch of the rank is logged in `done`  *)
(*               next to the value len(loader) had before the epoch        *)
(* Declarative part: the invariants at the end, from the documentation of  *)
(* on_uneven_distributed (EpochRandomSampler / EpochSequentialSampler /    *)
(* SpectDataLoader / LangDataLoader), drop_last, init_epoch / seed and the *)
(* warning of ContextWindowDataLoader.                                     *)
(***************************************************************************)
EXTENDS SamplerMC

CONSTANTS MaxSize,    \* batch sizes 1..MaxSize
          MaxB,       \* requested numbers of length buckets 1..MaxB
          MaxLen,     \* utterance lengths 1..MaxLen (only with more than one requested bucket)
          ClsSet,     \* subset of {"spect", "window"}
          DropSet,    \* values of drop_last
          DynSet      \* values of size_batch_by_length

VARIABLES cls,        \* loader class
          lmode,      \* the loader's on_uneven_distributed ARGUMENT (Sampler's `mode` is the effective one)
          dropLast, bsz, nbreq, dyn, lens,
          i2b, size,  \* idx2bucket / bucket2size of every rank's batch sampler (a function of the directory)
          bm,         \* per rank: the bucket machine of the running epoch
          lenc,       \* per rank: the loader's cached length (-1: none yet)
          done        \* finished epochs: [rank, epoch, fed, batches, len, fresh]
cvars == <<cls, lmode, dropLast, bsz, nbreq, dyn, lens, i2b, size>>
dvars == <<vars, cvars, bm, lenc, done>>
DView == <<View, cvars, bm, lenc, done>>

JobSeed == 1          \* every rank is given the same seed
Neg1 == 0 - 1

B == INSTANCE Batching WITH Sources <- {"lengths"}, n <- N, src <- "lengths", drop <- dropLast,
                            k <- 0, partial <- <<>>, yielded <- <<>>, phase <- "feed"

Buckets == DOMAIN size

\* SpectDataLoader / LangDataLoader: `if params.drop_last: on_uneven_distributed = "drop"`;
\* ContextWindowDataLoader: Epoch*Sampler(dataset, init_epoch, [seed,] "ignore")
EffModeOf(c, m, d) == IF c = "window" THEN "ignore" ELSE IF d THEN "drop" ELSE m

SumRanks(F(_)) == LET s[i \in 0..W] == IF i = 0 THEN 0 ELSE s[i - 1] + F(i - 1) IN s[W]
SumBuckets(F(_)) ==
  LET nbk == Cardinality(Buckets)
      s[i \in 0..nbk] == IF i = 0 THEN 0 ELSE s[i - 1] + F(i - 1)
  IN s[nbk]
SeqItems(s) == {s[j] : j \in 1..Len(s)}
BatchItems(bs) == UNION {SeqItems(bs[j]) : j \in 1..Len(bs)}
BatchCount(bs) == LET s[i \in 0..Len(bs)] == IF i = 0 THEN 0 ELSE s[i - 1] + Len(bs[i]) IN s[Len(bs)]

(***************************************************************************)
(* Code-shaped actions                                                     *)
(***************************************************************************)
Idle == [phase |-> "idle", epoch |-> 0, partial |-> [b \in Buckets |-> <<>>], out |-> <<>>, fed |-> <<>>]
Quiet == \A q \in Ranks : bm[q].phase = "idle"
MayAct == Schedule = "free" \/ Quiet

\* the loader's constructor on rank r (resuming from epoch e0)
LConstruct(r, e0) ==
  /\ MayAct /\ bm[r].phase = "idle"
  /\ Construct(r, JobSeed, e0)
  /\ lenc' = [lenc EXCEPT ![r] = Neg1]
  /\ UNCHANGED <<cvars, bm, done>>

BeginEpoch(r) ==
  /\ MayAct /\ bm[r].phase = "idle"
  /\ BeginIter(r)
  /\ bm' = [bm EXCEPT ![r] = [phase |-> "feed", epoch |-> smp[r].epoch,
                              partial |-> [b \in Buckets |-> <<>>], out |-> <<>>, fed |-> <<>>]]
  /\ UNCHANGED <<cvars, lenc, done>>

\* BucketBatchSampler.__iter__ / torch BatchSampler.__iter__ (= a single bucket), one pulled index
Pull(r, x) ==
  /\ bm[r].phase = "feed"
  /\ Yield(r, x)
  /\ LET b == i2b[x]
         p == Append(bm[r].partial[b], x)
         full == Len(p) = size[b]
     IN bm' = [bm EXCEPT ![r].fed = Append(@, x),
                         ![r].partial[b] = IF full THEN <<>> ELSE p,
                         ![r].out = IF full THEN Append(@, p) ELSE @]
  /\ UNCHANGED <<cvars, lenc, done>>

Exhaust(r) ==
  /\ bm[r].phase = "feed"
  /\ End(r)
  /\ bm' = [bm EXCEPT ![r].phase = "flush"]
  /\ UNCHANGED <<cvars, lenc, done>>

\* "if not self.drop_incomplete": the incomplete batches (the order among buckets is left open)
Flush(r, b) ==
  /\ bm[r].phase = "flush" /\ ~dropLast /\ bm[r].partial[b] # <<>>
  /\ bm' = [bm EXCEPT ![r].out = Append(@, bm[r].partial[b]), ![r].partial[b] = <<>>]
  /\ UNCHANGED <<vars, cvars, lenc, done>>

\* _get_batch_sampler_len on the shard `fed` of the rank: Counter of buckets, count // size or its ceiling
LenFormula(fed) ==
  SumBuckets(LAMBDA b : LET c == Cardinality({j \in 1..Len(fed) : i2b[fed[j]] = b})
                        IN IF dropLast THEN c \div size[b] ELSE (c + size[b] - 1) \div size[b])

\* The driver asks len(loader) before every epoch.  The first call on a loader object computes the
\* value for the shard of the epoch about to be iterated and CACHES it (`self._len`); every later
\* call returns the cache.  (The value materialises here, when the shard has been revealed.)
LenReported(r) == IF lenc[r] < 0 THEN LenFormula(bm[r].fed) ELSE lenc[r]

Finish(r) ==
  /\ bm[r].phase = "flush" /\ (dropLast \/ \A b \in Buckets : bm[r].partial[b] = <<>>)
  /\ done' = done \cup {[rank |-> r, epoch |-> bm[r].epoch, fed |-> bm[r].fed, batches |-> bm[r].out,
                         len |-> LenReported(r), fresh |-> lenc[r] < 0]}
  /\ lenc' = [lenc EXCEPT ![r] = LenReported(r)]
  /\ bm' = [bm EXCEPT ![r] = Idle]
  /\ UNCHANGED <<vars, cvars>>

SamplerInit ==
  /\ perm = [k \in Keys |-> IF kind = "seq" THEN [p \in 0..(N - 1) |-> p] ELSE <<>>]
  /\ smp = [r \in Ranks |-> NoSmp]
  /\ it = [r \in Ranks |-> NoIt]
  /\ refused = {}
  /\ log = {}
  /\ ops = <<>>
MachineInit ==
  /\ bm = [r \in Ranks |-> Idle]
  /\ lenc = [r \in Ranks |-> Neg1]
  /\ done = {}

DInit ==
  /\ N \in 0..MaxN /\ W \in 1..MaxW /\ kind \in KindSet
  /\ (kind = "random" => N <= RandomMaxN)
  /\ cls \in ClsSet /\ dropLast \in DropSet /\ lmode \in ModeSet
  /\ (cls = "window" => lmode = "ignore")               \* the class has no such argument
  /\ (cls = "spect" /\ dropLast => lmode = "raise")     \* overridden argument: one representative
  /\ mode = EffModeOf(cls, lmode, dropLast)
  /\ bsz \in 1..MaxSize /\ nbreq \in 1..MaxB /\ dyn \in DynSet
  /\ (nbreq = 1 => ~dyn) /\ (cls = "window" => nbreq = 1)
  /\ lens \in [0..(N - 1) -> 1..MaxLen]
  /\ (nbreq = 1 => \A i \in 0..(N - 1) : lens[i] = 1)   \* lengths matter through the buckets only
  /\ IF nbreq = 1
     THEN /\ i2b = [i \in 0..(N - 1) |-> 0]              \* torch BatchSampler = one bucket
          /\ size = [j \in {0} |-> bsz]
     ELSE \E bounds \in {IF N = 0 THEN <<>> ELSE B!BoundsOf(lens, N, nbreq)} :
          /\ i2b = [i \in 0..(N - 1) |-> B!BucketOfLen(bounds, lens[i])]
          /\ size = [j \in 0..(Len(bounds) - 1) |-> B!DynSize(bounds, j, bsz, dyn)]
  /\ SamplerInit /\ MachineInit

E0Set == IF "reconstruct" \in Features THEN 0..MaxEpoch ELSE {0}
DoLConstruct == \E r \in Ranks, e0 \in E0Set : LConstruct(r, e0)
DoBeginEpoch == \E r \in Ranks : BeginEpoch(r)
DoPull == \E r \in Ranks, x \in 0..(N - 1) : Pull(r, x)
DoExhaust == \E r \in Ranks : Exhaust(r)
DoFlush == \E r \in Ranks, b \in Buckets : Flush(r, b)
DoFinish == \E r \in Ranks : Finish(r)
DNext == DoLConstruct \/ DoBeginEpoch \/ DoPull \/ DoExhaust \/ DoFlush \/ DoFinish
DSpec == DInit /\ [][DNext]_dvars

(***************************************************************************)
(* Declarative vocabulary                                                  *)
(***************************************************************************)
EKey(e) == <<JobSeed, e>>
Recs(e) == {d \in done : d.epoch = e}
Complete(e) == \A r \in Ranks : \E d \in Recs(e) : d.rank = r
RankRec(e, r) == CHOOSE d \in Recs(e) : d.rank = r
Yielded(d) == BatchItems(d.batches)
\* position in the order of the epoch of the j-th utterance a rank pulls
PosOf(r, j) == ERank(r) + (j - 1) * EWorld
\* drop_last: "Whether to drop a batch when there are too few samples to match its size" - of the
\* utterances of its share that fall into bucket b, a rank loses (count mod size) to the dropped batch
LostDecl(r, e) ==
  IF ~dropLast THEN 0
  ELSE SumBuckets(LAMBDA b : Cardinality({p \in PositionsOf(r) : i2b[perm[EKey(e)][p]] = b}) % size[b])
OneBucket == Cardinality(Buckets) <= 1

(***************************************************************************)
(* Design invariants                                                       *)
(***************************************************************************)
DTypeOK ==
  /\ \A r \in Ranks : bm[r].phase \in {"idle", "feed", "flush"}
  /\ \A r \in Ranks : \A b \in Buckets : Len(bm[r].partial[b]) < size[b]
  /\ \A d \in done : d.epoch \in 0..MaxEpoch /\ d.rank \in Ranks
  /\ mode = EffModeOf(cls, lmode, dropLast)

\* (1) what the job as a whole delivers in one epoch
JobCover ==
  \A e \in 0..MaxEpoch : Complete(e) =>
    LET U == UNION {Yielded(RankRec(e, r)) : r \in Ranks}
        total == SumRanks(LAMBDA r : BatchCount(RankRec(e, r).batches))
    IN CASE mode \in {"raise", "uneven"} ->
              \* "all samples are yielded by exactly one process" (raise: N divisible by W, else the
              \* constructor raises; uneven: "all samples will be yielded by exactly one process")
              /\ U = 0..(N - 1) /\ total = N
         [] mode = "drop" ->
              \* "the last N % W samples are dropped" / "drop the remainder"; nothing twice; beyond
              \* the remainder only what drop_last removes within a rank is missing
              /\ total = Cardinality(U)
              /\ N - Cardinality(U) = (N % W) + SumRanks(LAMBDA r : LostDecl(r, e))
         [] mode = "ignore" ->
              \* "ignore the distributed context. Each process will yield all samples."
              \A r \in Ranks :
                 LET d == RankRec(e, r)
                 IN /\ BatchCount(d.batches) = Cardinality(Yielded(d))
                    /\ N - Cardinality(Yielded(d)) = LostDecl(r, e)
\* every rank gets its documented share of the epoch: r, r + W, r + 2W, ... (below the effective total)
SharesAsDocumented ==
  \A d \in done : Len(d.fed) = Cardinality(PositionsOf(d.rank))
\* (2) outside "ignore" no utterance is yielded by two ranks in the same epoch
RankDisjoint ==
  mode # "ignore" =>
    \A a, b \in done : (a.epoch = b.epoch /\ a.rank # b.rank) => Yielded(a) \cap Yielded(b) = {}
\* (3) len(loader) is the number of batches the rank yields.  The loaders cache the length; that is
\* justified when it cannot change from epoch to epoch: one rank, "ignore", one bucket, sequential
\* order.  Elsewhere (shuffled + length buckets + a real split) the shard's bucket counts, hence
\* the number of batches, change with the epoch: only a FRESH value can be expected to agree.
LenStablePromised == W = 1 \/ mode = "ignore" \/ OneBucket \/ kind = "seq"
LenAgrees == \A d \in done : (d.fresh \/ LenStablePromised) => d.len = Len(d.batches)
LenNeverStale == \A d \in done : d.len = Len(d.batches)     \* NOT an invariant (cfg *_stale: expected to fail)
StaleRecs == {d \in done : d.len # Len(d.batches)}
\* (4) ranks take the same number of steps per epoch where that follows from the documentation:
\* "each process sees the same number of samples" (raise with N divisible, drop) + one bucket, or
\* every rank doing the same thing (ignore)
StepsPromised == mode = "ignore" \/ (mode \in {"raise", "drop"} /\ OneBucket)
StepsEqual == \A a, b \in done : a.epoch = b.epoch => Len(a.batches) = Len(b.batches)
SameStepsWhenPromised == StepsPromised => StepsEqual
SameSamplesWhenPromised ==
  mode \in {"raise", "drop", "ignore"} => \A a, b \in done : a.epoch = b.epoch => Len(a.fed) = Len(b.fed)
\* "uneven": "allow some processes to yield fewer samples" - by at most one, the low ranks get the extras
UnevenByOne ==
  mode = "uneven" =>
    \A a, b \in done : (a.epoch = b.epoch /\ a.rank < b.rank) =>
       Len(a.fed) - Len(b.fed) \in {0, 1}
\* (5) the ranks shard ONE order of the epoch: the same utterance never at two positions, one
\* position never two utterances - across ranks and across loader objects (init_epoch: "When combined
\* with a fixed seed, ensures the same batches are always delivered for a given epoch")
EpochPermutationShared ==
  \A a, b \in done : a.epoch = b.epoch =>
     \A j \in 1..Len(a.fed), q \in 1..Len(b.fed) :
        (a.fed[j] = b.fed[q]) <=> (PosOf(a.rank, j) = PosOf(b.rank, q))
FedIsSharedOrder ==
  \A d \in done : \A j \in 1..Len(d.fed) :
     PosOf(d.rank, j) \in Bound(EKey(d.epoch)) /\ perm[EKey(d.epoch)][PosOf(d.rank, j)] = d.fed[j]
IgnoreSameBatches ==
  mode = "ignore" => \A a, b \in done : a.epoch = b.epoch => a.fed = b.fed
\* the batches of a rank are its shard cut up: single bucket, feed order, bucket's size, short ones
\* only at the end and only when kept
BatchesWellFormed ==
  \A d \in done :
     /\ Yielded(d) \subseteq SeqItems(d.fed) /\ BatchCount(d.batches) = Cardinality(Yielded(d))
     /\ (~dropLast => Yielded(d) = SeqItems(d.fed))
     /\ \A j \in 1..Len(d.batches) :
          LET bt == d.batches[j]
          IN /\ bt # <<>> /\ \A x \in SeqItems(bt) : i2b[x] = i2b[bt[1]]
             /\ Len(bt) <= size[i2b[bt[1]]]
             /\ (dropLast => Len(bt) = size[i2b[bt[1]]])
\* W = 1 or "ignore": the per-rank length is the whole-data-set prediction of Batching.tla
LenIsBatchingLen ==
  (W = 1 \/ mode = "ignore") => \A d \in done : d.fresh => d.len = B!PredictedLen

(***************************************************************************)
(* Export                                                                  *)
(***************************************************************************)
RankDone(r) == r \in refused \/ (smp[r].alive /\ smp[r].epoch = MaxEpoch + 1 /\ bm[r].phase = "idle")
AllDone == \A r \in Ranks : RankDone(r)
FunSeq(f, m) == [j \in 1..m |-> f[j - 1]]
DCase == [N |-> N, W |-> W, kind |-> kind, cls |-> cls, lmode |-> lmode, dropLast |-> dropLast,
          mode |-> mode, bsz |-> bsz, nbreq |-> nbreq, dyn |-> dyn, lens |-> FunSeq(lens, N),
          i2b |-> FunSeq(i2b, N), size |-> FunSeq(size, Cardinality(Buckets))]
\* full job of a sequential loader (the order is the identity: everything is determined but the
\* order of the trailing incomplete batches)
ExportJob ==
  (AllDone /\ kind = "seq") =>
     Emit([what |-> "job", c |-> DCase, refuses |-> Refuses,
           ranks |-> [r1 \in 1..W |->
                        IF Refuses THEN <<>>
                        ELSE [e1 \in 1..(MaxEpoch + 1) |->
                                LET d == RankRec(e1 - 1, r1 - 1)
                                IN [batches |-> d.batches, len |-> d.len, fed |-> d.fed]]]])
\* what is NOT promised, as information: terminal behaviours in which ranks take different numbers
\* of steps / report different lengths / report a stale length
ExportInfo ==
  AllDone =>
     Emit([what |-> "info", mode |-> mode, W |-> W, N |-> N, kind |-> kind, oneBucket |-> OneBucket,
           refuses |-> Refuses, stepsPromised |-> StepsPromised, stepsEqual |-> StepsEqual,
           lensEqual |-> (\A a, b \in done : a.epoch = b.epoch => a.len = b.len),
           stale |-> Cardinality(StaleRecs)])
=============================================================================
