\* roll-back behaviours replayed into the real controller (quick)
INIT RbInit
NEXT RbNext
CONSTANTS
  ParamSpace <- ParamsRbReplay
  Levels <- L3
  MaxLen = 3
  MaxRb = 1
INVARIANT RbTypeOK
INVARIANT RbStopRule
INVARIANT TargetStopRule
INVARIANT RbReduceRule
INVARIANT RbReduceOnlyOnFire
INVARIANT RbOptimizerHasRate
INVARIANT RbRestartTransparent
INVARIANT RbExport
CHECK_DEADLOCK FALSE
