----------------------------- MODULE BeamSearch -----------------------------
(***************************************************************************)
(* Beam search over a sequential language model (pydrobert.torch           *)
(* BeamSearch, C04), one batch element.                                    *)
(*                                                                         *)
(* The language model is STATEFUL: the weight of the next token depends on  *)
(* the whole path so far (Wt(path, v)); the implementation must thread the  *)
(* model state along the surviving paths.                                   *)
(*                                                                         *)
(* Machine: the beam is a set of distinct paths with their chain            *)
(* numerators.  `Extend` extends every unfinished path by every token; a    *)
(* finished path (ending in eos) only re-emits eos with probability one and *)
(* does not grow.  Pruning keeps the Width best candidates, ties free.      *)
(* The element stops when its best path has finished (or all have, with     *)
(* FinishAll), or after MaxIters steps; a stopped element is frozen while   *)
(* other batch elements go on, so each element is an independent machine.   *)
(*                                                                         *)
(* A path's probability is an exact rational <<num, den>>.                  *)
(***************************************************************************)
EXTENDS Naturals, Integers, Sequences, FiniteSets, TLC, Json, FiniteSetsExt, SequencesExt

CONSTANTS Vs,        \* vocabulary sizes explored
          TVs,       \* table variants explored (0..2 separated weights, 3 = uniform: maximal ties)
          Widths,    \* beam widths explored
          MaxItersS, \* step limits explored
          NoEos      \* model value: eos unset

VARIABLES V, tv, eos, fa, mi, width,   \* the case (fixed per behaviour)
          t,                            \* steps taken
          beam,                         \* path -> numerator (paths over 0..V-1)
          prevbeam,                     \* the beam before the last Extend (history variable, for export)
          stopped
vars == <<V, tv, eos, fa, mi, width, t, beam, prevbeam, stopped>>

D == IF V = 2 THEN 4 ELSE 6
RECURSIVE Code(_)
Code(y) == IF y = <<>> THEN 0 ELSE Code(Front(y)) * (V + 1) + Last(y) + 1
\* next-token weights given the WHOLE path, all positive.  Variants 0..2: separated weights summing to D;
\* 3: uniform (maximal ties); 4..6: SHALLOW FUSION of two separated tables (a, b) = (0,1), (1,2), (2,0) with
\* beta = 1, i.e. the product of their weights -- the normaliser then depends on the path
\* a hash of the WHOLE path whose residue mod 3 depends on every token and on their order (base 2: the
\* coefficients 2^i mod 3 alternate 1, 2); Code alone would not do for V = 2, where Code mod 3 is the last token
RECURSIVE PH(_)
PH(y) == IF y = <<>> THEN 0 ELSE PH(Front(y)) * 2 + Last(y) + 1
Base(y, v, q) ==
  IF V = 2 THEN (IF v = 0 THEN 1 + ((PH(y) + q) % 3) ELSE 3 - ((PH(y) + q) % 3))
  ELSE LET w0 == 1 + ((PH(y) + q) % 3)
           w1 == 1 + ((PH(y) * 2 + Len(y) + q) % 2)
       IN IF v = 0 THEN w0 ELSE IF v = 1 THEN w1 ELSE 6 - w0 - w1
Wt(y, v) ==
  IF tv = 3 THEN D \div V
  ELSE IF tv <= 2 THEN Base(y, v, tv)
  ELSE Base(y, v, tv - 4) * Base(y, v, (tv - 3) % 3)
\* the normaliser the search applies (log_softmax) at context y
RECURSIVE SumW(_, _)
SumW(y, v) == IF v < 0 THEN 0 ELSE Wt(y, v) + SumW(y, v - 1)
Zt(y) == SumW(y, V - 1)

RECURSIVE Pow(_, _)
Pow(x, n) == IF n = 0 THEN 1 ELSE x * Pow(x, n - 1)
Fin(y) == eos # NoEos /\ y # <<>> /\ Last(y) = eos
\* a path's probability is the rational bm[y] = <<num, den>>; comparisons by cross-multiplication
Geq(a, b) == a[1] * b[2] >= b[1] * a[2]
Gt(a, b) == a[1] * b[2] > b[1] * a[2]

Init ==
  /\ V \in Vs /\ tv \in TVs /\ width \in Widths /\ mi \in MaxItersS
  /\ eos \in (0..(V - 1)) \cup {NoEos}
  /\ fa \in BOOLEAN
  /\ (eos = NoEos => fa = FALSE)              \* finish_all_paths only matters with an eos
  /\ t = 0 /\ beam = (<<>> :> <<1, 1>>) /\ prevbeam = (<<>> :> <<1, 1>>) /\ stopped = FALSE

\* candidates after one step: finished paths persist unchanged, others are extended by every token
Cands(bm) == [z \in {y \in DOMAIN bm : Fin(y)} \cup {Append(y, v) : y \in {x \in DOMAIN bm : ~Fin(x)}, v \in 0..(V - 1)} |->
                IF z \in DOMAIN bm /\ Fin(z) THEN bm[z]
                ELSE <<bm[Front(z)][1] * Wt(Front(z), Last(z)), bm[Front(z)][2] * Zt(Front(z))>>]

TopSet(bm) == {y \in DOMAIN bm : \A z \in DOMAIN bm : Geq(bm[y], bm[z])}
\* the stopping rule is evaluated before each step except the first
MayStop == /\ eos # NoEos /\ t > 0
           /\ IF fa THEN \A y \in DOMAIN beam : Fin(y)
              ELSE \E y \in TopSet(beam) : Fin(y)           \* some best path (ties: whichever is listed first) ended
MayGoOn == \/ eos = NoEos \/ t = 0
           \/ IF fa THEN \E y \in DOMAIN beam : ~Fin(y)
              ELSE \E y \in TopSet(beam) : ~Fin(y)

Stop == /\ ~stopped /\ (t = mi \/ MayStop)
        /\ stopped' = TRUE
        /\ UNCHANGED <<V, tv, eos, fa, mi, width, t, beam, prevbeam>>

Extend ==
  /\ ~stopped /\ t < mi /\ MayGoOn
  \* (TLC re-evaluates a LET definition at every use; binding through a singleton set evaluates it once)
  /\ \E c \in {Cands(beam)} :
       LET k == IF Cardinality(DOMAIN c) < width THEN Cardinality(DOMAIN c) ELSE width
       IN \* a candidate with the k-th largest score: everything strictly above it must be kept, ties at it are free
          \E kth \in {CHOOSE z \in DOMAIN c : /\ Cardinality({x \in DOMAIN c : Geq(c[x], c[z])}) >= k
                                                /\ Cardinality({x \in DOMAIN c : Gt(c[x], c[z])}) < k} :
            LET must == {z \in DOMAIN c : Gt(c[z], c[kth])}
                tied == {z \in DOMAIN c : Geq(c[z], c[kth]) /\ Geq(c[kth], c[z])}
            IN \E X \in kSubset(k - Cardinality(must), tied) :
                 beam' = [z \in must \cup X |-> c[z]]
  /\ t' = t + 1
  /\ prevbeam' = beam
  /\ UNCHANGED <<V, tv, eos, fa, mi, width, stopped>>

Next == Extend \/ Stop
Spec == Init /\ [][Next]_vars

(***************************************************************************)
(* C04 design invariants                                                   *)
(***************************************************************************)
RECURSIVE ChainNum(_)
ChainNum(y) == IF y = <<>> THEN 1 ELSE ChainNum(Front(y)) * Wt(Front(y), Last(y))
RECURSIVE ChainDen(_)
ChainDen(y) == IF y = <<>> THEN 1 ELSE ChainDen(Front(y)) * Zt(Front(y))
ScoreIsChain == \A y \in DOMAIN beam : beam[y] = <<ChainNum(y), ChainDen(y)>>
StopsAtFirstEos == \A y \in DOMAIN beam : \A i \in 1..(Len(y) - 1) : eos = NoEos \/ y[i] # eos
Shape == /\ Cardinality(DOMAIN beam) <= width
         /\ \A y \in DOMAIN beam : Len(y) <= t /\ \A i \in 1..Len(y) : y[i] \in 0..(V - 1)
\* all complete sequences: end at their first eos, or have the maximal length without any eos
Seqs(n) == UNION {[1..m -> 0..(V - 1)] : m \in 0..n}
Complete == {y \in Seqs(mi) : /\ \A i \in 1..(Len(y) - 1) : eos = NoEos \/ y[i] # eos
                              /\ (Fin(y) \/ Len(y) = mi)}
FullSetWhenWide ==
  (stopped /\ width >= Cardinality(Complete) /\ (fa \/ eos = NoEos)) =>
      /\ DOMAIN beam = Complete
      /\ \A y \in Complete : beam[y] = <<ChainNum(y), ChainDen(y)>>

(***************************************************************************)
(* export: every terminal beam (one per tie resolution)                    *)
(***************************************************************************)
Emit(rec) == PrintT(<<"VFJ", ToJson(rec)>>)
\* one Extend transition (for the single-step replay of beam_search_advance)
ExportStep ==
  (~stopped /\ t > 0) =>
    LET ps == SetToSeq(DOMAIN prevbeam)
        ys == SetToSeq(DOMAIN beam)
    IN Emit([kind |-> "step", V |-> V, tv |-> tv, eos |-> IF eos = NoEos THEN -1 ELSE eos, width |-> width, t |-> t,
             prev |-> [i \in 1..Len(ps) |-> [y |-> ps[i], num |-> prevbeam[ps[i]][1], den |-> prevbeam[ps[i]][2]]],
             beam |-> [i \in 1..Len(ys) |-> [y |-> ys[i], num |-> beam[ys[i]][1], den |-> beam[ys[i]][2]]]])
Export ==
  stopped =>
    LET ys == SetToSeq(DOMAIN beam)
    IN Emit([kind |-> "final", V |-> V, tv |-> tv, eos |-> IF eos = NoEos THEN -1 ELSE eos, fa |-> fa, mi |-> mi, width |-> width, t |-> t,
             ncomplete |-> Cardinality(Complete),
             beam |-> [i \in 1..Len(ys) |-> [y |-> ys[i], num |-> beam[ys[i]][1], den |-> beam[ys[i]][2]]]])
=============================================================================
