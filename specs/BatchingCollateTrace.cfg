\* batched validation of collation outputs (run with -workers 1)
INIT TInit
NEXT TNext
CONSTANTS
  MaxItems = 8
  MinT = 0
  MaxT = 8
  MaxR = 8
  Kinds <- AllKinds
  MaxCtx = 4
INVARIANT Accept
INVARIANT Progress
POSTCONDITION Post
CHECK_DEADLOCK FALSE
