------------------------------ MODULE TrainCtlRb ------------------------------
(***************************************************************************)
(* TrainCtl with ROLL-BACK (C15): update_for_epoch has a documented         *)
(* `epoch` argument ("the epoch that just finished").  A run that has       *)
(* reached epoch n may be resumed from an earlier epoch j (the states of j  *)
(* are loaded, on the same controller or on one rebuilt from the history    *)
(* file) and epochs j+1, j+2, ... are reported AGAIN.  The history FILE is  *)
(* append-only: `log` holds every row ever written; a reader keeps, per     *)
(* epoch, the row written last; rows of epochs beyond the reported one are  *)
(* left-overs of the abandoned run.                                         *)
(*                                                                         *)
(* The stated rules speak of "every sequence of per-epoch metrics": for the *)
(* reported epoch e that sequence is the CHAIN of epochs 1..e it was        *)
(* reached through.  The declarative tracker is therefore recomputed from   *)
(* nothing over that chain (DeclOver), with no access to countdown columns  *)
(* or to the left-over rows, and TLC checks that the code-shaped update     *)
(* (UpdateAt: countdowns and reference values read through the cache, which *)
(* still holds the left-overs) takes the same decisions.                    *)
(***************************************************************************)
EXTENDS TrainCtlMC

CONSTANT MaxRb          \* roll-backs per behaviour

VARIABLES log,   \* the history file: every row ever appended, in order
          cur,   \* the epoch whose states the training loop holds (last reported / rolled back to)
          rbs    \* roll-backs so far
rbvars == <<p, hist, cache, conts, optlr, ckpt, decl, fresh, log, cur, rbs>>

(***************************************************************************)
(* what a reader of the file sees (update_cache): rows in file order, a     *)
(* later row of an epoch replaces the earlier one                           *)
(***************************************************************************)
EpochsIn(l) == {l[i].epoch : i \in 1..Len(l)}
MaxEpochIn(l) == IF l = <<>> THEN 0 ELSE CHOOSE m \in EpochsIn(l) : \A x \in EpochsIn(l) : x <= m
LastRowOf(l, e) == l[CHOOSE i \in 1..Len(l) : l[i].epoch = e /\ \A j \in (i + 1)..Len(l) : l[j].epoch # e]
HistOfLog(l) == [e \in 1..MaxEpochIn(l) |-> LastRowOf(l, e)]
FromLog(l) == FromHist(HistOfLog(l))

RbInit == Init /\ log = <<>> /\ cur = 0 /\ rbs = 0

\* continue_training(cur): the decision recorded for the epoch the loop stands at
MayContinue == cur = 0 \/ ContOf(cache[cur])

\* update_for_epoch(..., epoch = cur + 1)
Report(v) ==
  /\ cur < MaxLen /\ MayContinue
  /\ LET e == cur + 1 IN
     \E row \in {UpdateAt(cache, e, v)} :
       \E newlr \in {IF row.lrk # cache[cur].lrk THEN AllAt(row.lrk) ELSE optlr} :   \* written (every group) only when reduced
        /\ hist' = IF e <= Len(hist) THEN [hist EXCEPT ![e] = row] ELSE Append(hist, row)
        /\ cache' = [x \in DOMAIN cache \cup {e} |-> IF x = e THEN row ELSE cache[x]]
        /\ log' = Append(log, row)
        /\ conts' = Append(conts, ContOf(row))
        /\ optlr' = newlr
        /\ ckpt' = [x \in DOMAIN ckpt \cup {e} |-> IF x = e THEN newlr ELSE ckpt[x]]
        /\ decl' = DeclStep(DeclOver(hist, cur), hist, e, v)      \* over the chain 1..cur, then e
        /\ cur' = e
  /\ fresh' = FALSE
  /\ UNCHANGED <<p, rbs>>

\* resume from epoch j < cur: load_model_and_optimizer_for_epoch(model, optimizer, j), on the same
\* controller or on a new one constructed from the history file
Rollback(j) ==
  /\ rbs < MaxRb /\ ~fresh /\ j \in 0..(cur - 1)
  /\ cur' = j /\ rbs' = rbs + 1
  /\ cache' \in {cache, FromLog(log)}
  /\ optlr' = IF j = 0 THEN InitRates ELSE ckpt[j]
  /\ fresh' = TRUE
  /\ UNCHANGED <<p, hist, conts, ckpt, decl, log>>

RbNext == (\E v \in Levels : Report(v)) \/ (\E j \in 0..MaxLen : Rollback(j))
RbSpec == RbInit /\ [][RbNext]_rbvars

(***************************************************************************)
(* design invariants                                                       *)
(***************************************************************************)
Reported == ~fresh /\ cur > 0            \* the last step was the report of epoch cur
\* the returned decision is the stated rule's for the reported epoch and its chain
RbStopRule == Reported => (conts[Len(conts)] = FALSE <=> ((p.ne > 0 /\ cur >= p.ne) \/ DeclStop))
\* ... and so is the decision recorded for the epoch rolled back to (continue_training(j)); every epoch
\* of a chain was itself reported through that chain, so this covers all of them
TargetStopRule == (fresh /\ cur > 0) =>
                   (ContOf(cache[cur]) <=> ~((p.ne > 0 /\ cur >= p.ne) \/ (p.TH > 0 /\ DeclOver(hist, cur).escnt >= p.P)))
RbReduceRule == Reported => hist[cur].lrk = decl.lrk
RbReduceOnlyOnFire ==
  Reported => LET prevk == IF cur = 1 THEN 0 ELSE hist[cur - 1].lrk
              IN (hist[cur].lrk # prevk) <=> (decl.fired /\ NotNegligible(prevk))
\* the optimizer holds the rate recorded for the epoch the loop stands at (also right after a roll-back)
RbOptimizerHasRate == cur > 0 => optlr = AllAt(hist[cur].lrk)
\* memory of the controller = what a new controller reads from the file; hist is that reading
RbRestartTransparent == \E h \in {HistOfLog(log)} : hist = h /\ cache = FromHist(h)
RbTypeOK == /\ cur \in 0..Len(hist) /\ rbs \in 0..MaxRb /\ Len(conts) = Len(log)
            /\ \A e \in 1..Len(hist) : hist[e].epoch = e

(***************************************************************************)
(* export: behaviours with a roll-back, carried to their end                *)
(***************************************************************************)
RbTerminal == rbs = MaxRb /\ ~fresh /\ (cur = MaxLen \/ ~MayContinue)
RbExport == RbTerminal =>
              Emit([p |-> p, log |-> log, conts |-> conts,
                    ustr |-> [i \in 1..Len(log) |-> UserStrOf(log[i].epoch, log[i].val)]])
=============================================================================
