------------------------- MODULE BatchingCollateMC -------------------------
(* Model-checking instances of BatchingCollate: constants a .cfg cannot hold. *)
EXTENDS BatchingCollate
AllKinds == {"spect", "lang", "window", "wtable"}
FrameKinds == {"spect", "window"}
ASSUME WindowAgrees
=============================================================================
