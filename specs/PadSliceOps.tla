---------------------------- MODULE PadSliceOps ----------------------------
(***************************************************************************)
(* Per-sequence padding, slicing and compaction, written from the          *)
(* documentation of pydrobert.torch (PadVariable, ChunkBySlices,           *)
(* PadMaskedSequence in _pad.py).  Pure operators only (no constants, no   *)
(* variables) so that PadSlice.tla (C09) and Slicer.tla (C10) can share    *)
(* them.                                                                   *)
(*                                                                         *)
(* A sequence is a TLA+ sequence of arbitrary values; PadV is the abstract *)
(* "padding value" (mode constant / compaction filler).  Frame positions   *)
(* in the documentation are 0-based; TLA+ sequences are 1-based, so the    *)
(* documented element x[j] is seq[j + 1].                                  *)
(***************************************************************************)
EXTENDS Naturals, Integers, Sequences, FiniteSets

PadV == 0
Id(n) == [i \in 1..n |-> i]
Rep(n, v) == [i \in 1..n |-> v]
Max0(x) == IF x > 0 THEN x ELSE 0
Lesser(a, b) == IF a < b THEN a ELSE b
Greater(a, b) == IF a > b THEN a ELSE b

(***************************************************************************)
(* PadVariable.  "Raises NotImplementedError if any value in pad[:, n]     *)
(* equals or exceeds lens[n] when mode == 'reflect'; RuntimeError if any   *)
(* element in lens is less than 1 when mode == 'replicate'".               *)
(***************************************************************************)
LegalPad(len, l, r, mode) ==
  CASE mode = "constant"  -> TRUE
    [] mode = "reflect"   -> l < len /\ r < len
    [] mode = "replicate" -> len >= 1

\* Formulation A: concatenation  left padding \o x[:len] \o right padding
\*  reflect   : x[l], ..., x[1] | x | x[len-2], x[len-3], ...
\*  replicate : x[0], ..., x[0] | x | x[len-1], ...
LeftPad(seq, l, mode) ==
  CASE mode = "constant"  -> Rep(l, PadV)
    [] mode = "reflect"   -> [i \in 1..l |-> seq[l - i + 2]]
    [] mode = "replicate" -> [i \in 1..l |-> seq[1]]
RightPad(seq, r, mode) ==
  CASE mode = "constant"  -> Rep(r, PadV)
    [] mode = "reflect"   -> [i \in 1..r |-> seq[Len(seq) - i]]
    [] mode = "replicate" -> [i \in 1..r |-> seq[Len(seq)]]
PadOne(seq, l, r, mode) == LeftPad(seq, l, mode) \o seq \o RightPad(seq, r, mode)

\* Formulation B: the value at the virtual 0-based position j of the sequence extended to
\* both sides by the mode's rule (torch.nn.functional.pad semantics)
At(seq, j, mode) ==
  LET n == Len(seq) IN
  IF 0 <= j /\ j < n THEN seq[j + 1]
  ELSE CASE mode = "constant"  -> PadV
         [] mode = "reflect"   -> IF j < 0 THEN seq[1 - j] ELSE seq[2 * n - 1 - j]
         [] mode = "replicate" -> IF j < 0 THEN seq[1] ELSE seq[n]
PadIdx(seq, l, r, mode) == [i \in 1..(l + Len(seq) + r) |-> At(seq, i - 1 - l, mode)]

\* every index the reflect rule touches exists
ReflectDefined(len, l, r) ==
  /\ \A i \in 1..l : (l - i + 2) \in 1..len
  /\ \A i \in 1..r : (len - i) \in 1..len

(***************************************************************************)
(* ChunkBySlices.  "Any slices exceeding segment boundaries will be padded *)
(* according to the mode"; negative indices are offsets LEFT of the start. *)
(* Empty and inverted slices have length 0 and need no padding.            *)
(***************************************************************************)
SliceLen(s, e) == Max0(e - s)
SlicePads(len, s, e) == IF e <= s THEN <<0, 0>> ELSE <<Max0(-s), Max0(e - len)>>
LegalSlice(len, s, e, mode) ==
  LET p == SlicePads(len, s, e) IN LegalPad(len, p[1], p[2], mode)

\* Formulation A: pad just enough, then take [s, e)
SliceOne(seq, s, e, mode) ==
  IF e <= s THEN <<>>
  ELSE LET p == SlicePads(Len(seq), s, e)
       IN SubSeq(PadOne(seq, p[1], p[2], mode), s + p[1] + 1, e + p[1])
\* Formulation B: cell by cell through the virtual index
SliceIdx(seq, s, e, mode) == [i \in 1..SliceLen(s, e) |-> At(seq, s + i - 1, mode)]
\* Formulation C (shaped like the code): clamp the bounds into the sequence, then three
\* regions -- head of the left buffer, the clamped slice, the right buffer read from an offset
\* when the slice starts inside the right padding
SliceCell(seq, s, e, mode, k) ==
  LET len == Len(seq)
      p   == SlicePads(len, s, e)
      s0  == Max0(s)
      e0  == Lesser(e, len)
      sl  == Max0(e0 - s0)
      off == Max0(s0 - len)
  IN IF k <= p[1] THEN LeftPad(seq, p[1], mode)[k]
     ELSE IF k <= p[1] + sl THEN seq[s0 + k - p[1]]
     ELSE RightPad(seq, p[2], mode)[k - p[1] - sl + off]
SliceClamp(seq, s, e, mode) == [k \in 1..SliceLen(s, e) |-> SliceCell(seq, s, e, mode, k)]

(***************************************************************************)
(* PadMaskedSequence: "supposing i indexes the j-th True element of mask   *)
(* for batch index n:  x_[j, n] = x[i, n], with the remaining values of x_ *)
(* being padding_value"; lens counts the elements stored.                  *)
(***************************************************************************)
RECURSIVE CompactFrom(_, _, _)
CompactFrom(seq, mask, i) ==      \* Formulation A: left-to-right filter
  IF i > Len(seq) THEN <<>>
  ELSE (IF mask[i] THEN <<seq[i]>> ELSE <<>>) \o CompactFrom(seq, mask, i + 1)
Compact(seq, mask) == CompactFrom(seq, mask, 1)
TrueCount(mask, i) == Cardinality({q \in 1..i : mask[q]})
NthTrue(mask, j) == CHOOSE i \in 1..Len(mask) : mask[i] /\ TrueCount(mask, i) = j
CompactNth(seq, mask) ==          \* Formulation B: the documented indexing
  [j \in 1..TrueCount(mask, Len(mask)) |-> seq[NthTrue(mask, j)]]
CompactRow(seq, mask) ==
  LET cc == Compact(seq, mask) IN cc \o Rep(Len(seq) - Len(cc), PadV)

(***************************************************************************)
(* RandomShift: "pads each input sequence with some number of elements at  *)
(* its beginning and end ... bounded above by some proportion of the input *)
(* length".  p = <<num, den>>; the largest whole number not exceeding      *)
(* p * len.                                                                *)
(***************************************************************************)
ShiftBound(p, len) == (p[1] * len) \div p[2]
=============================================================================
