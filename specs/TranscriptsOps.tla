--------------------------- MODULE TranscriptsOps ---------------------------
(***************************************************************************)
(* Constant-free operators shared by Transcripts.tla (C11) and             *)
(* Commands.tla (C17): ordering helpers, the abstract syntax of trn        *)
(* transcripts with its lexeme stream, timed items, and the documented     *)
(* seconds -> frames formulas of transcript_to_token.                      *)
(***************************************************************************)
EXTENDS Naturals, Integers, Sequences, FiniteSets

MinOf(S) == CHOOSE x \in S : \A y \in S : x <= y
MaxOf(S) == CHOOSE x \in S : \A y \in S : x >= y
Abs(x) == IF x < 0 THEN -x ELSE x
RECURSIVE Pow10(_)
Pow10(k) == IF k = 0 THEN 1 ELSE 10 * Pow10(k - 1)

RECURSIVE LexLess(_, _)      \* lexicographic order on integer tuples
LexLess(a, b) ==
  IF a = <<>> THEN b # <<>>
  ELSE IF b = <<>> THEN FALSE
  ELSE IF Head(a) < Head(b) THEN TRUE
  ELSE IF Head(a) > Head(b) THEN FALSE
  ELSE LexLess(Tail(a), Tail(b))

\* stable insertion sort of a sequence of <<key tuple, value>> pairs by key
RECURSIVE InsertStable(_, _), StableSort(_)
InsertStable(p, s) ==
  IF s = <<>> THEN <<p>>
  ELSE IF LexLess(p[1], Head(s)[1]) THEN <<p>> \o s
  ELSE <<Head(s)>> \o InsertStable(p, Tail(s))
StableSort(ps) ==
  IF ps = <<>> THEN <<>>
  ELSE InsertStable(ps[Len(ps)], StableSort(SubSeq(ps, 1, Len(ps) - 1)))
Values(ps) == [i \in 1..Len(ps) |-> ps[i][2]]
SeqsUpTo(S, k) == UNION {[1..m -> S] : m \in 0..k}
Bag(s) == [x \in {s[i] : i \in 1..Len(s)} |-> Cardinality({i \in 1..Len(s) : s[i] = x})]


\* trn items: [tok |-> t] or [alt |-> <<branch, ..., branch>>]; branch, transcript = sequence of items
Tok(t) == [tok |-> t]
Alt(bs) == [alt |-> bs]
IsTok(x) == "tok" \in DOMAIN x


RECURSIVE Leaves(_), Depth(_), FirstBranch(_)
Leaves(seq) ==     \* tokens in reading order
  IF seq = <<>> THEN <<>>
  ELSE LET x == Head(seq)
       IN (IF IsTok(x) THEN <<x.tok>>
           ELSE LET RECURSIVE LB(_)
                    LB(bs) == IF bs = <<>> THEN <<>> ELSE Leaves(Head(bs)) \o LB(Tail(bs))
                IN LB(x.alt)) \o Leaves(Tail(seq))
Depth(seq) ==
  IF seq = <<>> THEN 0
  ELSE LET x == Head(seq)
           dx == IF IsTok(x) THEN 0 ELSE 1 + MaxOf({Depth(x.alt[i]) : i \in 1..Len(x.alt)})
           dr == Depth(Tail(seq))
       IN IF dx > dr THEN dx ELSE dr
\* "treat the first alternate as canon" (trn-to-torch-token-data-dir --alt-handler first)
FirstBranch(seq) ==
  IF seq = <<>> THEN <<>>
  ELSE LET x == Head(seq)
       IN (IF IsTok(x) THEN <<x>> ELSE FirstBranch(x.alt[1])) \o FirstBranch(Tail(seq))

(***************************************************************************)
(* trn: the file.  A line is the lexeme stream of the transcript followed  *)
(* by "(utt)".  Lexemes are tokens (positive) and the three delimiters;    *)
(* the writer separates lexemes by single spaces.                          *)
(***************************************************************************)
LBrace == -1
Slash == -2
RBrace == -3
RECURSIVE Lex(_), LexBranches(_)
Lex(seq) ==
  IF seq = <<>> THEN <<>>
  ELSE LET x == Head(seq)
       IN (IF IsTok(x) THEN <<x.tok>> ELSE <<LBrace>> \o LexBranches(x.alt) \o <<RBrace>>) \o Lex(Tail(seq))
LexBranches(bs) ==
  IF Len(bs) = 1 THEN Lex(bs[1]) ELSE Lex(bs[1]) \o <<Slash>> \o LexBranches(Tail(bs))


\* timed item
TItem(t, s, d) == [tok |-> t, s |-> s, d |-> d]

\* seconds -> frames (transcript_to_token), times and shift in the same base unit:
\*   s_f = floor(s / shift);  e_f = s_f if s = e, else max(s_f + 1, floor(e / shift + 1/2))
StartFrame(t, sh) == t \div sh
EndFrame(s, e, sh) ==
  IF s = e THEN s \div sh
  ELSE LET r == (2 * e + sh) \div (2 * sh) IN IF r > s \div sh + 1 THEN r ELSE s \div sh + 1
=============================================================================
