------------------------------ MODULE Commands ------------------------------
(***************************************************************************)
(* The command-line conversions of pydrobert.torch (command_line.py) as    *)
(* compositions of the other models:                                       *)
(*   TranscriptsOps  trn syntax, first-alternate flattening, frame formulas*)
(*   EditDistance    the set of all alignments (edits of a minimum-cost    *)
(*                   alignment, C02)                                       *)
(*   WorkerPool      Take / Finish / Deliver scheduler                     *)
(*                                                                         *)
(* A data directory is a map  file name -> tensor; a file name is          *)
(* prefix \o utterance \o suffix (sequences of characters), and a command  *)
(* selects the files that START with the prefix and END with the suffix.   *)
(* Every command is described by its list of work items; an item writes    *)
(* files (when a worker Finishes it) and/or returns a triple that the      *)
(* parent adds up (when it is Delivered).  The module is the product of    *)
(* that with WorkerPool: TLC checks, for every interleaving, that the      *)
(* directory and the accumulator at the end are the declaratively defined  *)
(* ones and that no file is written twice (names are injective).           *)
(*                                                                         *)
(* Families (fam):                                                         *)
(*   "ali"  torch-ali-data-dir-to-torch-token-data-dir and back            *)
(*   "trn"  trn-to-torch-token-data-dir and torch-token-data-dir-to-trn    *)
(*   "ctm"  ctm-to-torch-token-data-dir and torch-token-data-dir-to-ctm    *)
(*   "tg"   textgrids-to-torch-token-data-dir and ...-to-textgrids         *)
(*   "er"   compute-torch-token-data-dir-error-rates                       *)
(*   "sub"  subset-torch-spect-data-dir                                    *)
(*   "subrun"  the same command run two or three times into the SAME       *)
(*          destination while the source data change in between            *)
(*   "mom", "momr"  print-torch-{ali,ref}-data-dir-length-moments          *)
(***************************************************************************)
EXTENDS TranscriptsOps, TLC, Json

CONSTANTS
  Fams,
  Namings,     \* set of [pre |-> chars, suf |-> chars]
  UttNames,    \* sequence of utterance ids (chars), increasing as strings
  \* WorkerPool
  Cs, Ws, PModes, KeepHist,
  \* universes (sets defined in CommandsMC)
  AliSeqs, AliSeqs2, AliUtts,   \* alignments of single-utterance corpora / of larger corpora
  TrnSet, TrnUtts, Sizings,
  CtmSet, CtmUtts, CtmShifts,
  TgSet, TgUtts, TgShifts,
  ErPairs, ErPairsSmall, ErPairsTiny, ErCostsAll, ErBatches,
  SubLens, SubUtts,
  SubRunData, SubRunCrits, SubRunStyles, SubRunMax,   \* corpus (lengths), criteria, link styles, max number of runs
  SubRunFault,   \* TRUE: the deliberately wrong writer that leaves an existing destination file alone
  MomAli, MomRef, MomUtts,
  BigUtts,     \* size of the larger corpora (built from the *Tiny sets) used for the schedule sweep
  AliTiny, TrnTiny, CtmTiny, TgTiny, MomRefTiny

VARIABLES fam, cs,                                     \* family and case
          work,                                        \* Work(fam, cs), computed once
          n, c, W, mode, queue, busy, done, deliv, hist,  \* WorkerPool
          fs,        \* output files written so far: set of <<dir tag, name, content>>
          acc,       \* accumulated <<sum, sum of squares, count>>
          clobber,   \* some file was written twice
          dst        \* "subrun": sources, destination directory and log of the runs so far
vars == <<fam, cs, work, n, c, W, mode, queue, busy, done, deliv, hist, fs, acc, clobber, dst>>

WP == INSTANCE WorkerPool WITH Modes <- PModes, Ns <- {}
ED == INSTANCE EditDistance WITH MaxR <- 0, MaxH <- 0, Tokens <- {}, CostSet <- {}, Modes <- {}, CheckDecl <- FALSE, Given <- <<>>, WithRange <- TRUE,
        ref <- <<>>, hyp <- <<>>, mode <- "none", c <- <<1, 1, 1>>, k <- 0,
        row <- <<>>, crow <- <<>>, mrow <- <<>>, out <- <<>>

(***************************************************************************)
(* File names and selection                                                *)
(***************************************************************************)
Name(nm, i) == nm.pre \o UttNames[i] \o nm.suf
StartsWith(f, p) == Len(f) >= Len(p) /\ SubSeq(f, 1, Len(p)) = p
EndsWith(f, s) == Len(f) >= Len(s) /\ SubSeq(f, Len(f) - Len(s) + 1, Len(f)) = s
Selects(nm, f) == StartsWith(f, nm.pre) /\ EndsWith(f, nm.suf)
UttOf(nm, f) == SubSeq(f, Len(nm.pre) + 1, Len(f) - Len(nm.suf))
\* files that sit in the input directory but do not belong to the data set
Distractors(nm) ==
  (IF nm.pre # <<>> THEN {<<"q">> \o UttNames[1] \o nm.suf} ELSE {})        \* lacks the prefix
  \cup {nm.pre \o UttNames[2] \o <<".", "b", "a", "k">>}                       \* lacks the suffix
NonDefaultNaming == CHOOSE nm \in Namings : nm.pre # <<>> /\ \A o \in Namings : Len(o.suf) <= Len(nm.suf)
NamesOK(nm, m) ==
  /\ \A i, j \in 1..m : i # j => Name(nm, i) # Name(nm, j)                     \* injective
  /\ \A i \in 1..m : Selects(nm, Name(nm, i)) /\ UttOf(nm, Name(nm, i)) = UttNames[i]
  /\ \A f \in Distractors(nm) : ~Selects(nm, f) /\ \A i \in 1..m : f # Name(nm, i)

(***************************************************************************)
(* ali <-> ref                                                             *)
(***************************************************************************)
\* code-shaped: unique_consecutive + cumulative sums
RECURSIVE RunsFrom(_, _)
RunsFrom(a, start) ==      \* maximal runs of a[start..], as <<id, start0, end0>> with 0-based frames
  IF start > Len(a) THEN <<>>
  ELSE LET stop == IF \E j \in start..Len(a) : a[j] # a[start]
                   THEN MinOf({j \in start..Len(a) : a[j] # a[start]}) ELSE Len(a) + 1
       IN <<<<a[start], start - 1, stop - 1>>>> \o RunsFrom(a, stop)
AliToRef(a) == RunsFrom(a, 1)
\* a token sequence partitions T frames
Partitions(r, T) ==
  /\ Len(r) >= 1 /\ r[1][2] = 0 /\ r[Len(r)][3] = T
  /\ \A j \in 1..Len(r) : r[j][2] >= 0 /\ r[j][2] < r[j][3]
  /\ \A j \in 1..(Len(r) - 1) : r[j][3] = r[j + 1][2]
RECURSIVE RefToAli(_)
RefToAli(r) == IF r = <<>> THEN <<>> ELSE [t \in 1..(r[1][3] - r[1][2]) |-> r[1][1]] \o RefToAli(Tail(r))
\* declarative: the unique partition into maximal constant runs
IsRunLength(r, a) ==
  /\ Partitions(r, Len(a))
  /\ \A j \in 1..Len(r) : \A t \in (r[j][2] + 1)..r[j][3] : a[t] = r[j][1]
  /\ \A j \in 1..(Len(r) - 1) : r[j][1] # r[j + 1][1]

AliCorpora(S) == {<<a>> : a \in S} \cup UNION {[1..m -> AliSeqs2] : m \in 2..AliUtts} \cup [1..BigUtts -> AliTiny]
AliCases ==
  IF "ali" \notin Fams THEN {}
  ELSE {[nm |-> nm, data |-> d] : nm \in Namings, d \in AliCorpora(AliSeqs)}
AliDistractor == <<2, 1, 1>>

(***************************************************************************)
(* trn <-> token directory                                                 *)
(* tokens 1, 2 are in the vocabulary, token 3 is not (needs --unk-symbol)  *)
(***************************************************************************)
OOV == 3
UnkTok == 0
HasAlt(tr) == \E i \in 1..Len(tr) : ~IsTok(tr[i])
TrnToks(tr) == [i \in 1..Len(Leaves(FirstBranch(tr))) |->
                  IF Leaves(FirstBranch(tr))[i] = OOV THEN UnkTok ELSE Leaves(FirstBranch(tr))[i]]
Content(toks, sizing) ==
  CASE sizing = "skip" -> toks
    [] sizing = "feat" -> [i \in 1..Len(toks) |-> <<toks[i]>>]
    [] OTHER -> [i \in 1..Len(toks) |-> <<toks[i], -1, -1>>]
NamingSizing(nm) == IF nm.pre = <<>> THEN "none" ELSE IF nm = NonDefaultNaming THEN "feat" ELSE "skip"
TrnCases ==
  IF "trn" \notin Fams THEN {}
  ELSE {[nm |-> nm, data |-> <<d>>, sizing |-> sz] : nm \in Namings, d \in TrnSet, sz \in Sizings}
       \cup UNION {{[nm |-> nm, data |-> d, sizing |-> sz] :
                      d \in UNION {[1..m -> TrnSet] : m \in 2..TrnUtts} \cup [1..BigUtts -> TrnTiny],
                      sz \in {z \in Sizings : z = NamingSizing(nm)}} : nm \in Namings}
TrnNeedsUnk(cs0) == \E i \in 1..Len(cs0.data) : \E k \in 1..Len(Leaves(cs0.data[i])) : Leaves(cs0.data[i])[k] = OOV
TrnNeedsFirst(cs0) == \E i \in 1..Len(cs0.data) : HasAlt(cs0.data[i])

(***************************************************************************)
(* ctm / TextGrid <-> token directory (times in ms, frame shift in ms)     *)
(***************************************************************************)
SortByStart(tr) == Values(StableSort([k \in 1..Len(tr) |-> <<<<tr[k].s>>, tr[k]>>]))
Rows(tr, sh) == [k \in 1..Len(tr) |-> <<tr[k].tok, StartFrame(tr[k].s, sh), EndFrame(tr[k].s, tr[k].s + tr[k].d, sh)>>]
BackTimes(rows, sh) == [k \in 1..Len(rows) |-> <<rows[k][1], rows[k][2] * sh, rows[k][3] * sh>>]   \* <<tok, start, end>> ms
WithinOneFrame(tr, back, sh) ==
  /\ Len(back) = Len(tr)
  /\ \A k \in 1..Len(tr) :
       /\ back[k][1] = tr[k].tok
       /\ Abs(back[k][2] - tr[k].s) <= sh
       /\ Abs(back[k][3] - (tr[k].s + tr[k].d)) <= sh
\* tokens that start in the same frame come back with equal start times: their order in a ctm is then free
DistinctStartFrames(tr, sh) == \A i, j \in 1..Len(tr) : i # j => StartFrame(tr[i].s, sh) # StartFrame(tr[j].s, sh)
CtmKinds == {"default", "chan", "wc2utt", "utt2wc"}
CtmCases ==
  IF "ctm" \notin Fams THEN {}
  ELSE UNION {{[nm |-> nm, data |-> d, shift |-> sh, kind |-> kd] :
                 d \in UNION {[1..m -> CtmSet] : m \in 1..CtmUtts} \cup [1..BigUtts -> CtmTiny],
                 sh \in CtmShifts, kd \in {k \in CtmKinds : nm = NonDefaultNaming \/ k = "default"}} : nm \in Namings}
\* TextGrid tiers: an interval tier whose entries all have positive length (method 1 of the writer
\* command) or a point tier (method 2)
TgKind(tr) == IF \A k \in 1..Len(tr) : tr[k].d = 0 THEN "point" ELSE "interval"
TgCases ==
  IF "tg" \notin Fams THEN {}
  ELSE {[nm |-> nm, data |-> <<d>>, shift |-> sh] : nm \in Namings, d \in TgSet, sh \in TgShifts}
       \cup UNION {{[nm |-> nm, data |-> d, shift |-> sh] :
                      d \in UNION {[1..m -> TgSet] : m \in 2..TgUtts} \cup [1..BigUtts -> TgTiny],
                      sh \in {z \in TgShifts : (z = MinOf(TgShifts)) = (nm.pre = <<>>)}} : nm \in Namings}
\* what the token directory -> TextGrid command writes for rows r (methods 1 and 2)
TgMethod(rows) == IF \A k \in 1..Len(rows) : rows[k][3] > rows[k][2] THEN 1 ELSE 2
TgBackRows(rows) ==
  IF TgMethod(rows) = 1 THEN rows
  ELSE [k \in 1..Len(rows) |-> <<rows[k][1], IF rows[k][3] > rows[k][2] THEN rows[k][3] ELSE rows[k][2],
                                 IF rows[k][3] > rows[k][2] THEN rows[k][3] ELSE rows[k][2]>>]

(***************************************************************************)
(* error rates                                                             *)
(***************************************************************************)
ApplyRI(s, rep, ign) ==      \* --replace then --ignore
  LET r == [i \in 1..Len(s) |-> IF rep # <<>> /\ s[i] = rep[1] THEN rep[2] ELSE s[i]]
  IN SelectSeq(r, LAMBDA x : x \notin ign)
ErOptsAll == {[costs |-> co, bs |-> b, rep |-> rp, ign |-> ig, dist |-> di, perutt |-> pu] :
                co \in ErCostsAll, b \in ErBatches, rp \in {<<>>, <<2, 1>>}, ig \in {{}, {2}},
                di \in BOOLEAN, pu \in BOOLEAN}
ErOptsFew == {o \in ErOptsAll : o.rep = <<>> /\ o.ign = {} /\ ~o.dist /\ ~o.perutt}
ErCases ==     \* every pair alone; small corpora x every naming; tiny corpora x every option
  IF "er" \notin Fams THEN {}
  ELSE {[nm |-> NonDefaultNaming, data |-> <<d>>, opt |-> o] : d \in ErPairs, o \in ErOptsFew}
       \cup {[nm |-> nm, data |-> d, opt |-> o] : nm \in Namings, d \in [1..2 -> ErPairsSmall], o \in ErOptsFew}
       \cup {[nm |-> NonDefaultNaming, data |-> d, opt |-> o] : d \in [1..2 -> ErPairsTiny], o \in ErOptsAll}
ErRef(cs0, i) == ApplyRI(cs0.data[i][1], cs0.opt.rep, cs0.opt.ign)
ErHyp(cs0, i) == ApplyRI(cs0.data[i][2], cs0.opt.rep, cs0.opt.ign)
ErRange(cs0, i) == ED!EditRange(ErRef(cs0, i), ErHyp(cs0, i), cs0.opt.costs)     \* <<fewest, most>> edits
RECURSIVE SumSeq(_)
SumSeq(s) == IF s = <<>> THEN 0 ELSE Head(s) + SumSeq(Tail(s))
\* declarative totals
ErTotLo(cs0) == SumSeq([i \in 1..Len(cs0.data) |-> ErRange(cs0, i)[1]])
ErTotHi(cs0) == SumSeq([i \in 1..Len(cs0.data) |-> ErRange(cs0, i)[2]])
ErTotLen(cs0) == SumSeq([i \in 1..Len(cs0.data) |-> Len(ErRef(cs0, i))])
\* code-shaped: batches of bs utterances, running totals <<errs lo, errs hi, ref tokens>>
RECURSIVE ErBatched(_, _, _)
ErBatched(cs0, from, tot) ==
  IF from > Len(cs0.data) THEN tot
  ELSE LET to == IF from + cs0.opt.bs - 1 > Len(cs0.data) THEN Len(cs0.data) ELSE from + cs0.opt.bs - 1
           batch == [j \in 1..(to - from + 1) |-> from + j - 1]
       IN ErBatched(cs0, to + 1,
                    <<tot[1] + SumSeq([j \in 1..Len(batch) |-> ErRange(cs0, batch[j])[1]]),
                      tot[2] + SumSeq([j \in 1..Len(batch) |-> ErRange(cs0, batch[j])[2]]),
                      tot[3] + SumSeq([j \in 1..Len(batch) |-> Len(ErRef(cs0, batch[j]))])>>)
\* the figure is defined only if its denominator is not zero
ErDefined(cs0) ==
  IF cs0.opt.perutt THEN cs0.opt.dist \/ \A i \in 1..Len(cs0.data) : Len(ErRef(cs0, i)) > 0
  ELSE cs0.opt.dist \/ ErTotLen(cs0) > 0

(***************************************************************************)
(* subsets                                                                 *)
(***************************************************************************)
SubCrits ==
  {[kind |-> k, num |-> x, den |-> 1] : k \in {"first-n", "last-n", "shortest-n", "longest-n"}, x \in 0..(SubUtts + 1)}
  \cup {[kind |-> k, num |-> x[1], den |-> x[2]] :
          k \in {"first-ratio", "last-ratio", "shortest-ratio", "longest-ratio"}, x \in {<<0, 1>>, <<1, 2>>, <<3, 4>>, <<1, 1>>}}
  \cup {[kind |-> "utt-list", num |-> x, den |-> 1] : x \in 0..3}
\* explicit lists (indices into UttNames; SubUtts + 1 is an id that is not in the directory)
UttList(x, m) == CASE x = 0 -> <<1>> [] x = 1 -> (IF m >= 2 THEN <<m, 1>> ELSE <<1>>) [] x = 2 -> <<m + 1, m>>
                   [] OTHER -> [i \in 1..m |-> i]
Mod3(x) == x - 3 * (x \div 3)
SubAux == <<"ali+ref", "none", "ref-partial">>
SubCases ==     \* (which of ali/ and ref/ exist varies together with the naming)
  IF "sub" \notin Fams THEN {}
  ELSE {[nm |-> nm, data |-> d, crit |-> cr, aux |-> SubAux[1 + Mod3(Len(nm.pre) + Len(nm.suf))]] :
          nm \in Namings, d \in UNION {[1..m -> SubLens] : m \in 1..SubUtts}, cr \in SubCrits}
\* order in which utterances are listed: by id / by (length, id) / by (-length, id)
SubOrder(cs0) ==
  LET m == Len(cs0.data)
      k == cs0.crit.kind
      key(i) == CASE k \in {"first-n", "first-ratio"} -> <<i>>
                  [] k \in {"last-n", "last-ratio"} -> <<0 - i>>
                  [] k \in {"shortest-n", "shortest-ratio"} -> <<cs0.data[i], i>>
                  [] OTHER -> <<0 - cs0.data[i], i>>
  IN Values(StableSort([i \in 1..m |-> <<key(i), i>>]))
SubCount(cs0) ==
  LET m == Len(cs0.data)
      want == IF cs0.crit.den = 1 /\ cs0.crit.kind \notin {"first-ratio", "last-ratio", "shortest-ratio", "longest-ratio"}
              THEN cs0.crit.num ELSE (cs0.crit.num * m) \div cs0.crit.den
  IN IF want > m THEN m ELSE want
SubChosen(cs0) ==      \* set of utterance indices
  IF cs0.crit.kind = "utt-list"
  THEN {i \in 1..Len(cs0.data) : \E j \in 1..Len(UttList(cs0.crit.num, Len(cs0.data))) : UttList(cs0.crit.num, Len(cs0.data))[j] = i}
  ELSE {SubOrder(cs0)[j] : j \in 1..SubCount(cs0)}
\* which utterances have ali / ref files in the source
SubHas(cs0, sub, i) ==
  CASE sub = "feat" -> TRUE
    [] cs0.aux = "none" -> FALSE
    [] cs0.aux = "ali+ref" -> TRUE
    [] OTHER -> sub = "ref" /\ i = 1

(***************************************************************************)
(* subsets, run repeatedly into the same destination ("subrun")            *)
(* Two source directories hold the same utterances; between two runs a     *)
(* source may be re-generated: "inplace" (its files are overwritten: same  *)
(* inode, new contents) or "replace" (removed and written anew: new        *)
(* inode).  A file's contents are <<source, version>>.  The destination is *)
(* a map  <<subdirectory, name>> -> entry:                                 *)
(*   copy     its own contents, those of the source file when it was made  *)
(*   symlink  names the source file: reads as whatever that file holds now *)
(*   link     a second name of the source's inode of that time             *)
(* A run handles its utterances in any order, one at a time: --copy writes *)
(* over what is there; os.symlink / os.link refuse an existing name        *)
(* (FileExistsError: the run ends, outcome "raises").  After every run     *)
(* that did not raise, the files of the utterances it requested read the   *)
(* same as the source files do NOW, and the destination holds nothing that *)
(* no run requested.                                                       *)
(***************************************************************************)
SubRunSteps == {<<1, "none">>, <<1, "inplace">>, <<1, "replace">>, <<2, "none">>}
SubRunFirst == {[src |-> 1, regen |-> "none", crit |-> cr] : cr \in SubRunCrits}
SubRunLater == {[src |-> st[1], regen |-> st[2], crit |-> cr] : st \in SubRunSteps, cr \in SubRunCrits}
SubRunHists == UNION {{<<r1>> \o rest : r1 \in SubRunFirst, rest \in [1..(m - 1) -> SubRunLater]} : m \in 2..SubRunMax}
SubRunCases ==
  IF "subrun" \notin Fams THEN {}
  ELSE {[nm |-> nm, data |-> SubRunData, aux |-> SubAux[1 + Mod3(Len(nm.pre) + Len(nm.suf))], style |-> st, runs |-> h] :
          nm \in Namings, st \in SubRunStyles, h \in SubRunHists}
RunCase(cs0, k) == [nm |-> cs0.nm, data |-> cs0.data, aux |-> cs0.aux, crit |-> cs0.runs[k].crit]
RunKeys(cs0, k, i) == {<<sub, Name(cs0.nm, i)>> : sub \in {s \in {"feat", "ali", "ref"} : SubHas(RunCase(cs0, k), s, i)}}
RunAllKeys(cs0, k) == UNION {RunKeys(cs0, k, i) : i \in SubChosen(RunCase(cs0, k))}
Dst0 == [files |-> <<>>, gen |-> <<0, 0>>, ver |-> (<<1, 0>> :> 1) @@ (<<2, 0>> :> 2), clock |-> 2,
         run |-> 0, busy |-> FALSE, todo |-> {}, log |-> <<>>]
CurSrc(d, s) == <<s, d.ver[<<s, d.gen[s]>>]>>
NewEntry(d, style, s) ==
  CASE style = "copy" -> [kind |-> "copy", val |-> CurSrc(d, s), src |-> s, ino |-> <<s, d.gen[s]>>]
    [] style = "symlink" -> [kind |-> "symlink", val |-> <<0, 0>>, src |-> s, ino |-> <<s, d.gen[s]>>]
    [] OTHER -> [kind |-> "link", val |-> <<0, 0>>, src |-> s, ino |-> <<s, d.gen[s]>>]
ReadEntry(d, e) ==
  CASE e.kind = "copy" -> e.val
    [] e.kind = "symlink" -> CurSrc(d, e.src)
    [] OTHER -> <<e.ino[1], d.ver[e.ino]>>

(***************************************************************************)
(* length moments                                                          *)
(***************************************************************************)
MomOpts == {[excl |-> e, bessel |-> b, std |-> s] : e \in {{}, {2}}, b \in BOOLEAN, s \in BOOLEAN}
MomOptsFew == {o \in MomOpts : ~o.bessel /\ ~o.std}
MomCases ==       \* print-torch-ali-data-dir-length-moments
  IF "mom" \notin Fams THEN {}
  ELSE {[nm |-> NonDefaultNaming, kind |-> "ali", data |-> d, opt |-> o] :
          d \in AliCorpora(MomAli), o \in MomOptsFew}
       \cup {[nm |-> nm, kind |-> "ali", data |-> <<d>>, opt |-> o] : nm \in Namings, d \in MomAli, o \in MomOpts}
MomRCases ==      \* print-torch-ref-data-dir-length-moments
  IF "momr" \notin Fams THEN {}
  ELSE {[nm |-> NonDefaultNaming, kind |-> "ref", data |-> d, opt |-> o] :
          d \in UNION {[1..m -> MomRef] : m \in 1..MomUtts} \cup [1..BigUtts -> MomRefTiny], o \in MomOptsFew}
       \cup {[nm |-> nm, kind |-> "ref", data |-> <<d>>, opt |-> o] : nm \in Namings, d \in MomRef, o \in MomOpts}
\* lengths that count, per file
MomLens(cs0, i) ==
  IF cs0.kind = "ali"
  THEN LET r == AliToRef(cs0.data[i])
       IN [k \in 1..Len(SelectSeq(r, LAMBDA x : x[1] \notin cs0.opt.excl)) |->
             LET x == SelectSeq(r, LAMBDA y : y[1] \notin cs0.opt.excl)[k] IN x[3] - x[2]]
  ELSE LET ok == SelectSeq(cs0.data[i], LAMBDA x : x[1] \notin cs0.opt.excl /\ 0 <= x[2] /\ x[2] <= x[3])
       IN [k \in 1..Len(ok) |-> ok[k][3] - ok[k][2]]
Triple(ls) == <<SumSeq(ls), SumSeq([k \in 1..Len(ls) |-> ls[k] * ls[k]]), Len(ls)>>
\* declarative: pooled over all files at once
RECURSIVE ConcatAll(_, _)
ConcatAll(cs0, i) == IF i > Len(cs0.data) THEN <<>> ELSE MomLens(cs0, i) \o ConcatAll(cs0, i + 1)
MomPooled(cs0) == Triple(ConcatAll(cs0, 1))

(***************************************************************************)
(* Work items of the (first) command of every family                       *)
(*   [files |-> set of <<dir, name, content>>, ret |-> <<s, ss, c>>]       *)
(***************************************************************************)
Item(files, ret) == [files |-> files, ret |-> ret]
Zero3 == <<0, 0, 0>>
Work(f, cs0) ==
  CASE f = "ali" -> [i \in 1..Len(cs0.data) |-> Item({<<"ref", Name(cs0.nm, i), AliToRef(cs0.data[i])>>}, Zero3)]
    [] f = "trn" -> [i \in 1..Len(cs0.data) |->
                       Item({<<"dir", Name(cs0.nm, i), Content(TrnToks(cs0.data[i]), cs0.sizing)>>}, Zero3)]
    [] f = "ctm" -> [i \in 1..Len(cs0.data) |->
                       Item({<<"dir", Name(cs0.nm, i), Rows(SortByStart(cs0.data[i]), cs0.shift)>>}, Zero3)]
    [] f = "tg" -> [i \in 1..Len(cs0.data) |-> Item({<<"dir", Name(cs0.nm, i), Rows(cs0.data[i], cs0.shift)>>}, Zero3)]
    [] f = "sub" -> LET sel == SelectSeq([i \in 1..Len(cs0.data) |-> i], LAMBDA i : i \in SubChosen(cs0))
                    IN [j \in 1..Len(sel) |->
                          Item({<<sub, Name(cs0.nm, sel[j]), <<sub, sel[j]>>>> : sub \in {s \in {"feat", "ali", "ref"} : SubHas(cs0, s, sel[j])}},
                               Zero3)]
    [] f \in {"mom", "momr"} -> [i \in 1..Len(cs0.data) |-> Item({}, Triple(MomLens(cs0, i)))]
    [] OTHER -> <<>>
\* declarative result: all files of all items, the pooled triple
ExpectedFiles(f, cs0) == UNION {Work(f, cs0)[i].files : i \in 1..Len(Work(f, cs0))}
ExpectedAcc(f, cs0) == IF f \in {"mom", "momr"} THEN MomPooled(cs0) ELSE Zero3

(***************************************************************************)
(* Product with the worker pool                                            *)
(***************************************************************************)
Init ==
  /\ fam \in Fams
  /\ cs \in (CASE fam = "ali" -> AliCases [] fam = "trn" -> TrnCases [] fam = "ctm" -> CtmCases
               [] fam = "tg" -> TgCases [] fam = "er" -> ErCases [] fam = "sub" -> SubCases
               [] fam = "subrun" -> SubRunCases
               [] fam = "mom" -> MomCases [] fam = "momr" -> MomRCases)
  /\ work = Work(fam, cs)
  /\ n = Len(work)
  /\ c \in (IF fam = "subrun" THEN {MinOf(Cs)} ELSE Cs) /\ W \in (IF fam = "subrun" THEN {MinOf(Ws)} ELSE Ws)
  /\ mode \in (IF fam = "subrun" THEN {CHOOSE m \in PModes : TRUE} ELSE PModes)
  /\ dst = Dst0
  /\ queue = [k \in 1..WP!NChunks(n, c) |-> k]
  /\ busy = [w \in 1..W |-> 0]
  /\ done = {} /\ deliv = <<>> /\ hist = <<>>
  /\ fs = {} /\ acc = Zero3 /\ clobber = FALSE

ItemsOf(k) == WP!ChunkItems(k)         \* item numbers of chunk k
Take == WP!TakeAny /\ UNCHANGED <<fam, cs, work, fs, acc, clobber, dst>>
Finish ==       \* a worker runs the per-item function on its chunk: files appear
  \E w \in 1..W :
     /\ WP!Finish(w)
     /\ LET new == UNION {work[ItemsOf(busy[w])[j]].files : j \in 1..Len(ItemsOf(busy[w]))}
        IN /\ fs' = fs \cup new
           /\ clobber' = (clobber \/ \E x \in new : \E y \in fs : x[1] = y[1] /\ x[2] = y[2])
     /\ UNCHANGED <<fam, cs, work, acc, dst>>
Deliver ==      \* the parent receives the chunk's return values and adds them up
  /\ (WP!DeliverOrdered \/ WP!DeliverUnordered)
  /\ LET k == deliv'[Len(deliv')]
         RECURSIVE Add(_, _)
         Add(j, a) == IF j > Len(ItemsOf(k)) THEN a
                      ELSE LET r == work[ItemsOf(k)[j]].ret
                           IN Add(j + 1, <<a[1] + r[1], a[2] + r[2], a[3] + r[3]>>)
     IN acc' = Add(1, acc)
  /\ UNCHANGED <<fam, cs, work, fs, clobber, dst>>

\* "subrun": the runs, one after the other (the pool variables stay at rest)
PoolVars == <<fam, cs, work, n, c, W, mode, queue, busy, done, deliv, hist, fs, acc, clobber>>
SubRaised == dst.log # <<>> /\ dst.log[Len(dst.log)].outcome = "raises"
SubLog(d, k, outcome) ==
  [run |-> k, outcome |-> outcome, src |-> cs.runs[k].src, regen |-> cs.runs[k].regen, crit |-> cs.runs[k].crit,
   cur |-> CurSrc(d, cs.runs[k].src),
   chosen |-> RunAllKeys(cs, k),
   requested |-> UNION {RunAllKeys(cs, j) : j \in 1..k},
   dest |-> IF outcome = "ok" THEN {<<key, ReadEntry(d, d.files[key])>> : key \in DOMAIN d.files} ELSE {}]
BeginRun ==     \* (the source named by the run is re-generated first, if the history says so)
  /\ fam = "subrun" /\ ~dst.busy /\ ~SubRaised /\ dst.run < Len(cs.runs)
  /\ LET k == dst.run + 1
         s == cs.runs[k].src
         g == dst.gen[s]
         d1 == CASE cs.runs[k].regen = "inplace" ->
                      [dst EXCEPT !.clock = dst.clock + 1, !.ver = [dst.ver EXCEPT ![<<s, g>>] = dst.clock + 1]]
                 [] cs.runs[k].regen = "replace" ->
                      [dst EXCEPT !.clock = dst.clock + 1, !.gen = [dst.gen EXCEPT ![s] = g + 1],
                                  !.ver = (<<s, g + 1>> :> (dst.clock + 1)) @@ dst.ver]
                 [] OTHER -> dst
     IN dst' = [d1 EXCEPT !.run = k, !.busy = TRUE, !.todo = SubChosen(RunCase(cs, k))]
  /\ UNCHANGED PoolVars
DoItem ==       \* one utterance of the current run: its feat / ali / ref files
  /\ fam = "subrun" /\ dst.busy /\ dst.todo # {}
  /\ \E i \in dst.todo :
       LET k == dst.run
           keys == RunKeys(cs, k, i)
           there == {key \in keys : key \in DOMAIN dst.files}
           put(ks) == [key \in ks |-> NewEntry(dst, cs.style, cs.runs[k].src)]
       IN IF SubRunFault
          THEN dst' = [dst EXCEPT !.todo = dst.todo \ {i}, !.files = put(keys \ there) @@ dst.files]
          ELSE IF there # {} /\ cs.style # "copy"
          THEN dst' = [dst EXCEPT !.busy = FALSE, !.todo = {}, !.log = Append(dst.log, SubLog(dst, k, "raises"))]
          ELSE dst' = [dst EXCEPT !.todo = dst.todo \ {i}, !.files = put(keys) @@ dst.files]
  /\ UNCHANGED PoolVars
EndRun ==
  /\ fam = "subrun" /\ dst.busy /\ dst.todo = {}
  /\ dst' = [dst EXCEPT !.busy = FALSE, !.log = Append(dst.log, SubLog(dst, dst.run, "ok"))]
  /\ UNCHANGED PoolVars
SubRunDone == fam = "subrun" /\ ~dst.busy /\ (SubRaised \/ dst.run = Len(cs.runs))

Next == Take \/ Finish \/ Deliver \/ BeginRun \/ DoItem \/ EndRun
Spec == Init /\ [][Next]_vars
Terminated == WP!Terminated

(***************************************************************************)
(* Design invariants                                                       *)
(***************************************************************************)
First == deliv = <<>> /\ done = {} /\ \A w \in 1..W : busy[w] = 0 /\ Len(queue) = WP!NChunks(n, c)
\* every schedule ends with the same directory and the same totals
ScheduleFree == Terminated => (fs = ExpectedFiles(fam, cs) /\ acc = ExpectedAcc(fam, cs) /\ ~clobber)
NoClobber == ~clobber
Naming == First => NamesOK(cs.nm, Len(cs.data))
\* ali: run-length encoding is THE partition into maximal runs, and expansion inverts it
AliInverse == (fam = "ali" /\ First) =>
  \A i \in 1..Len(cs.data) : IsRunLength(AliToRef(cs.data[i]), cs.data[i]) /\ RefToAli(AliToRef(cs.data[i])) = cs.data[i]
\* trn: the directory -> trn direction reads the first column back: tokens of the first alternates
TrnInverse == (fam = "trn" /\ First) =>
  \A i \in 1..Len(cs.data) : \A k \in 1..Len(TrnToks(cs.data[i])) :
     LET row == Content(TrnToks(cs.data[i]), cs.sizing)[k]
     IN (IF cs.sizing = "skip" THEN row ELSE row[1]) = TrnToks(cs.data[i])[k]
\* ctm / TextGrid: frames times shift are within one frame of what was written
CtmInverse == (fam = "ctm" /\ First) =>
  \A i \in 1..Len(cs.data) :
     LET tr == SortByStart(cs.data[i]) IN WithinOneFrame(tr, BackTimes(Rows(tr, cs.shift), cs.shift), cs.shift)
TgInverse == (fam = "tg" /\ First) =>
  \A i \in 1..Len(cs.data) :
     LET tr == cs.data[i]
         rows == Rows(tr, cs.shift)
     IN /\ WithinOneFrame(tr, BackTimes(TgBackRows(rows), cs.shift), cs.shift)
        /\ (TgKind(tr) = "interval" /\ \A k \in 1..Len(tr) : tr[k].d > 0) => TgMethod(rows) = 1
        /\ TgKind(tr) = "point" => TgMethod(rows) = 2
\* error rate: batching changes nothing
ErBatchFree == (fam = "er" /\ First) => ErBatched(cs, 1, Zero3) = <<ErTotLo(cs), ErTotHi(cs), ErTotLen(cs)>>
ErUniformExact == (fam = "er" /\ First /\ cs.opt.costs[1] = cs.opt.costs[2] /\ cs.opt.costs[2] = cs.opt.costs[3]) =>
  ErTotLo(cs) = ErTotHi(cs)
\* subsets: the right number of distinct utterances, all from the source
SubOK == (fam = "sub" /\ First) =>
  /\ SubChosen(cs) \subseteq 1..Len(cs.data)
  /\ cs.crit.kind # "utt-list" => Cardinality(SubChosen(cs)) = SubCount(cs)
  /\ cs.crit.kind \in {"shortest-n", "shortest-ratio"} =>
       \A i \in SubChosen(cs) : \A j \in (1..Len(cs.data)) \ SubChosen(cs) : cs.data[i] <= cs.data[j]
  /\ cs.crit.kind \in {"longest-n", "longest-ratio"} =>
       \A i \in SubChosen(cs) : \A j \in (1..Len(cs.data)) \ SubChosen(cs) : cs.data[i] >= cs.data[j]
\* subrun: after every run that did not raise, whatever the order of its utterances: the requested files are
\* there and read as the source does now; nothing is there that no run requested
SubRunAtRest == fam = "subrun" /\ ~dst.busy /\ dst.run > 0 /\ ~SubRaised
SubRunIdentical == SubRunAtRest =>
  \A key \in RunAllKeys(cs, dst.run) :
     key \in DOMAIN dst.files /\ ReadEntry(dst, dst.files[key]) = CurSrc(dst, cs.runs[dst.run].src)
SubRunExact == SubRunAtRest =>
  /\ DOMAIN dst.files = UNION {RunAllKeys(cs, j) : j \in 1..dst.run}
  /\ (\A j \in 1..dst.run : RunAllKeys(cs, j) \subseteq RunAllKeys(cs, dst.run)) => DOMAIN dst.files = RunAllKeys(cs, dst.run)
\* a run raises only under a link style and only when it requests a file an earlier run has made; --copy never does
SubRunRaises == (fam = "subrun" /\ SubRaised) =>
  /\ cs.style # "copy"
  /\ RunAllKeys(cs, dst.run) \cap UNION {RunAllKeys(cs, j) : j \in 1..(dst.run - 1)} # {}
SubRunMustRaise == (SubRunAtRest /\ cs.style # "copy") =>
  RunAllKeys(cs, dst.run) \cap UNION {RunAllKeys(cs, j) : j \in 1..(dst.run - 1)} = {}
\* the log of a finished history does not depend on the order in which the utterances were handled
SubRunLogFree == SubRunDone =>
  \A j \in 1..Len(dst.log) :
     /\ dst.log[j].run = j /\ dst.log[j].chosen = RunAllKeys(cs, j)
     /\ dst.log[j].outcome = "ok" => \A p \in dst.log[j].dest : p[1] \in dst.log[j].requested
TypeOK == fam \in Fams /\ clobber \in BOOLEAN

(***************************************************************************)
(* Export (once per case: at the first state)                              *)
(***************************************************************************)
Emit(rec) == PrintT(<<"VFJ", ToJson(rec)>>)
SetToSeq(S) == LET RECURSIVE F(_) F(T) == IF T = {} THEN <<>> ELSE LET x == CHOOSE y \in T : TRUE IN <<x>> \o F(T \ {x}) IN F(S)
Names(m) == [i \in 1..m |-> Name(cs.nm, i)]
Common == [fam |-> fam, pre |-> cs.nm.pre, suf |-> cs.nm.suf, utts |-> [i \in 1..Len(cs.data) |-> UttNames[i]],
           names |-> Names(Len(cs.data)), distractors |-> SetToSeq(Distractors(cs.nm)), data |-> cs.data]
Export ==
  (First /\ c = MinOf(Cs) /\ W = MinOf(Ws) /\ mode = CHOOSE m \in PModes : TRUE) =>
    CASE fam = "ali" ->
           Emit(Common @@ [ref |-> [i \in 1..Len(cs.data) |-> AliToRef(cs.data[i])], distractor |-> AliDistractor,
                           distractor_ref |-> AliToRef(AliDistractor)])
      [] fam = "trn" ->
           Emit(Common @@ [sizing |-> cs.sizing, unk |-> TrnNeedsUnk(cs), first |-> TrnNeedsFirst(cs),
                           lex |-> [i \in 1..Len(cs.data) |-> Lex(cs.data[i])],
                           toks |-> [i \in 1..Len(cs.data) |-> TrnToks(cs.data[i])],
                           content |-> [i \in 1..Len(cs.data) |-> Content(TrnToks(cs.data[i]), cs.sizing)]])
      [] fam = "ctm" ->
           Emit(Common @@ [shift |-> cs.shift, kind |-> cs.kind,
                           sorted |-> [i \in 1..Len(cs.data) |-> SortByStart(cs.data[i])],
                           ordered |-> [i \in 1..Len(cs.data) |-> DistinctStartFrames(cs.data[i], cs.shift)],
                           rows |-> [i \in 1..Len(cs.data) |-> Rows(SortByStart(cs.data[i]), cs.shift)],
                           back |-> [i \in 1..Len(cs.data) |-> BackTimes(Rows(SortByStart(cs.data[i]), cs.shift), cs.shift)]])
      [] fam = "tg" ->
           Emit(Common @@ [shift |-> cs.shift,
                           tier |-> [i \in 1..Len(cs.data) |-> TgKind(cs.data[i])],
                           rows |-> [i \in 1..Len(cs.data) |-> Rows(cs.data[i], cs.shift)],
                           method |-> [i \in 1..Len(cs.data) |-> TgMethod(Rows(cs.data[i], cs.shift))],
                           back |-> [i \in 1..Len(cs.data) |-> BackTimes(TgBackRows(Rows(cs.data[i], cs.shift)), cs.shift)]])
      [] fam = "er" ->
           Emit(Common @@ [costs |-> cs.opt.costs, bs |-> cs.opt.bs, rep |-> cs.opt.rep, ign |-> SetToSeq(cs.opt.ign),
                           dist |-> cs.opt.dist, perutt |-> cs.opt.perutt, defined |-> ErDefined(cs),
                           lo |-> [i \in 1..Len(cs.data) |-> ErRange(cs, i)[1]],
                           hi |-> [i \in 1..Len(cs.data) |-> ErRange(cs, i)[2]],
                           reflen |-> [i \in 1..Len(cs.data) |-> Len(ErRef(cs, i))],
                           totlo |-> ErTotLo(cs), tothi |-> ErTotHi(cs), totlen |-> ErTotLen(cs)])
      [] fam = "sub" ->
           Emit(Common @@ [crit |-> cs.crit, aux |-> cs.aux, list |-> UttList(cs.crit.num, Len(cs.data)),
                           listnames |-> [j \in 1..Len(UttList(cs.crit.num, Len(cs.data))) |-> UttNames[UttList(cs.crit.num, Len(cs.data))[j]]],
                           chosen |-> SetToSeq(SubChosen(cs)),
                           files |-> SetToSeq({<<x[1], x[2]>> : x \in ExpectedFiles(fam, cs)}),
                           has |-> [i \in 1..Len(cs.data) |-> [s \in {"feat", "ali", "ref"} |-> SubHas(cs, s, i)]]])
      [] fam = "subrun" ->
           (SubRunDone =>
              Emit(Common @@ [style |-> cs.style, aux |-> cs.aux,
                              has |-> [i \in 1..Len(cs.data) |-> [s \in {"feat", "ali", "ref"} |-> SubHas(RunCase(cs, 1), s, i)]],
                              runs |-> [j \in 1..Len(dst.log) |->
                                          [outcome |-> dst.log[j].outcome, src |-> dst.log[j].src, regen |-> dst.log[j].regen,
                                           crit |-> dst.log[j].crit, cur |-> dst.log[j].cur,
                                           chosen |-> SetToSeq(dst.log[j].chosen),
                                           requested |-> SetToSeq(dst.log[j].requested),
                                           dest |-> SetToSeq(dst.log[j].dest)]],
                              nruns |-> Len(cs.runs)]))
      [] fam \in {"mom", "momr"} ->
           Emit(Common @@ [kind |-> cs.kind, excl |-> SetToSeq(cs.opt.excl), bessel |-> cs.opt.bessel, std |-> cs.opt.std,
                           triple |-> MomPooled(cs)])
=============================================================================
