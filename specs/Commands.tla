------------------------------ MODULE Commands ------------------------------
(***************************************************************************)
(* The command-line conversions of pydrobert.torch (command_line.py) as    *)
(* compositions of the other models:                                       *)
(*   TranscriptsOps  trn syntax, first-alternate flattening, frame formulas*)
(*   EditDistance    the set of all alignments (edits of a minimum-cost    *)
(*                   alignment, C02)                                       *)
(*   WorkerPool      Take / Finish / Deliver scheduler                     *)
(*                                                                         *)
(* A data directory is a map  file name -> tensor; a file name is          *)
(* prefix \o utterance \o suffix (sequences of characters), and a command  *)
(* selects the files that START with the prefix and END with the suffix.   *)
(* Prefix, suffix and the name of the directory are LITERAL strings: "[",  *)
(* "]", "*", "?" stand for themselves (GlobNamings; a selection that read  *)
(* them as a shell pattern is the deliberately wrong SelectsGlob of        *)
(* CommandsMC, which the invariant Naming must reject).                    *)
(* Utterances are ORDERED BY THEIR IDS, as strings (code point by code     *)
(* point, a proper prefix first): "listed first / last by id" of the subset*)
(* command, the tie-break of its length criteria and the ascending lists   *)
(* the error-rate command merges all mean that order.  It is not the order *)
(* of the file names: "r" < "r-a" but "r-a.pt" < "r.pt" (IdNamings; a      *)
(* listing by file name is the deliberately wrong ListKeyFileName, which   *)
(* SubOK and ErMergeOK must reject).                                       *)
(* Every command is described by its list of work items; an item writes    *)
(* files (when a worker Finishes it) and/or returns a triple that the      *)
(* parent adds up (when it is Delivered).  The module is the product of    *)
(* that with WorkerPool: TLC checks, for every interleaving, that the      *)
(* directory and the accumulator at the end are the declaratively defined  *)
(* ones and that no file is written twice (names are injective).           *)
(*                                                                         *)
(* Families (fam):                                                         *)
(*   "ali"  torch-ali-data-dir-to-torch-token-data-dir and back            *)
(*   "trn"  trn-to-torch-token-data-dir and torch-token-data-dir-to-trn    *)
(*   "ctm"  ctm-to-torch-token-data-dir and torch-token-data-dir-to-ctm    *)
(*   "tg"   textgrids-to-torch-token-data-dir and ...-to-textgrids         *)
(*   "er"   compute-torch-token-data-dir-error-rates                       *)
(*   "sub"  subset-torch-spect-data-dir                                    *)
(*   "subrun"  the same command run two or three times into the SAME       *)
(*          destination while the source data change in between            *)
(*   "mom", "momr"  print-torch-{ali,ref}-data-dir-length-moments          *)
(***************************************************************************)
EXTENDS TranscriptsOps, TLC, Json

CONSTANTS
  Fams,
  Namings,     \* set of [pre |-> chars, suf |-> chars, utts |-> sequence of utterance ids (chars), dir |-> chars]:
               \* prefix, suffix, the ids of the corpus (utterance i of a case is utts[i]) and the name of the directory
               \* the case's directories live in (<<>>: directly in the scratch directory)
  GlobNamings, \* namings whose prefix / suffix / directory hold the characters [ ] * ?  (conversion commands)
  IdNamings,   \* namings under which the order of the ids differs from the order of the file names (subset, error rate)
  \* WorkerPool
  Cs, Ws, PModes, KeepHist,
  \* universes (sets defined in CommandsMC)
  AliSeqs, AliSeqs2, AliUtts,   \* alignments of single-utterance corpora / of larger corpora
  TrnSet, TrnUtts, Sizings,
  CtmSet, CtmUtts, CtmShifts,
  TgSet, TgUtts, TgShifts,
  ErPairs, ErPairsSmall, ErPairsTiny, ErCostsAll, ErBatches,
  ErMissUtts,  \* size of the corpora of which the reference or the hypothesis directory lacks utterances (--warn-missing)
  SubLens, SubUtts,
  SubRunData, SubRunCrits, SubRunStyles, SubRunMax,   \* corpus (lengths), criteria, link styles, max number of runs
  SubRunFault,   \* TRUE: the deliberately wrong writer that leaves an existing destination file alone
  MomAli, MomRef, MomUtts,
  BigUtts,     \* size of the larger corpora (built from the *Tiny sets) used for the schedule sweep
  AliTiny, TrnTiny, CtmTiny, TgTiny, MomRefTiny

VARIABLES fam, cs,                                     \* family and case
          work,                                        \* Work(fam, cs), computed once
          n, c, W, mode, queue, busy, done, deliv, hist,  \* WorkerPool
          fs,        \* output files written so far: set of <<dir tag, name, content>>
          acc,       \* accumulated <<sum, sum of squares, count>>
          clobber,   \* some file was written twice
          dst        \* "subrun": sources, destination directory and log of the runs so far
vars == <<fam, cs, work, n, c, W, mode, queue, busy, done, deliv, hist, fs, acc, clobber, dst>>

WP == INSTANCE WorkerPool WITH Modes <- PModes, Ns <- {}
ED == INSTANCE EditDistance WITH MaxR <- 0, MaxH <- 0, Tokens <- {}, CostSet <- {}, Modes <- {}, CheckDecl <- FALSE, Given <- <<>>, WithRange <- TRUE,
        ref <- <<>>, hyp <- <<>>, mode <- "none", c <- <<1, 1, 1>>, k <- 0,
        row <- <<>>, crow <- <<>>, mrow <- <<>>, out <- <<>>

(***************************************************************************)
(* File names and selection                                                *)
(***************************************************************************)
Name(nm, i) == nm.pre \o nm.utts[i] \o nm.suf
StartsWith(f, p) == Len(f) >= Len(p) /\ SubSeq(f, 1, Len(p)) = p
EndsWith(f, s) == Len(f) >= Len(s) /\ SubSeq(f, Len(f) - Len(s) + 1, Len(f)) = s
Selects(nm, f) == StartsWith(f, nm.pre) /\ EndsWith(f, nm.suf)
UttOf(nm, f) == SubSeq(f, Len(nm.pre) + 1, Len(f) - Len(nm.suf))
\* a string that a reading of s as a shell pattern would match although it is not s: "?" and "*" replaced by a letter, a
\* bracketed class by its first member
RECURSIVE Deglob(_)
Deglob(s) ==
  IF s = <<>> THEN <<>>
  ELSE IF Head(s) \in {"?", "*"} THEN <<"z">> \o Deglob(Tail(s))
  ELSE IF Head(s) = "[" /\ \E k \in 3..Len(s) : s[k] = "]"
       THEN <<s[2]>> \o Deglob(SubSeq(s, 1 + MinOf({k \in 3..Len(s) : s[k] = "]"}), Len(s)))
  ELSE <<Head(s)>> \o Deglob(Tail(s))
\* files that sit in the input directory but do not belong to the data set
Distractors(nm) ==
  (IF nm.pre # <<>> THEN {<<"q">> \o nm.utts[1] \o nm.suf} ELSE {})        \* lacks the prefix
  \cup {nm.pre \o nm.utts[2] \o <<".", "b", "a", "k">>}                       \* lacks the suffix
  \cup (IF Deglob(nm.pre) # nm.pre \/ Deglob(nm.suf) # nm.suf                  \* matches prefix*suffix as a pattern only
        THEN {Deglob(nm.pre) \o nm.utts[1] \o Deglob(nm.suf)} ELSE {})
NonDefaultNaming == CHOOSE nm \in Namings : nm.pre # <<>> /\ \A o \in Namings : Len(o.suf) <= Len(nm.suf)
NamesOK(nm, m) ==
  /\ \A i, j \in 1..m : i # j => Name(nm, i) # Name(nm, j)                     \* injective
  /\ \A i \in 1..m : Selects(nm, Name(nm, i)) /\ UttOf(nm, Name(nm, i)) = nm.utts[i]
  /\ \A f \in Distractors(nm) : ~Selects(nm, f) /\ \A i \in 1..m : f # Name(nm, i)

(***************************************************************************)
(* The order of strings: code point by code point, a proper prefix first   *)
(* (python's, and sort(1)'s in the C locale).  Printable ASCII.            *)
(***************************************************************************)
Printable == <<" ", "!", "\"", "#", "$", "%", "&", "'", "(", ")", "*", "+", ",", "-", ".", "/",
               "0", "1", "2", "3", "4", "5", "6", "7", "8", "9", ":", ";", "<", "=", ">", "?", "@",
               "A", "B", "C", "D", "E", "F", "G", "H", "I", "J", "K", "L", "M", "N", "O", "P", "Q", "R", "S", "T", "U", "V",
               "W", "X", "Y", "Z", "[", "\\", "]", "^", "_", "`",
               "a", "b", "c", "d", "e", "f", "g", "h", "i", "j", "k", "l", "m", "n", "o", "p", "q", "r", "s", "t", "u", "v",
               "w", "x", "y", "z", "{", "|", "}", "~">>
CodeTable == [ch \in {Printable[i] : i \in 1..Len(Printable)} |-> 31 + CHOOSE i \in 1..Len(Printable) : Printable[i] = ch]
Codes(s) == [i \in 1..Len(s) |-> CodeTable[s[i]]]
StrLess(a, b) == LexLess(Codes(a), Codes(b))
\* the key by which a command lists the utterances of a directory: the id
ListKey(nm, i) == Codes(nm.utts[i])
\* the indices in S, ascending by key K
SortedBy(nm, S, K(_, _)) ==
  LET RECURSIVE F(_)
      F(T) == IF T = {} THEN <<>>
              ELSE LET x == CHOOSE y \in T : \A z \in T : ~LexLess(K(nm, z), K(nm, y)) IN <<x>> \o F(T \ {x})
  IN F(S)
IdKey(nm, i) == Codes(nm.utts[i])
FileKey(nm, i) == Codes(Name(nm, i))
\* Tables (constants: TLC computes them once per run): all utterances of a naming in the order of their ids, of their
\* file names and of the commands' listing; the position of an utterance in the latter
AllNamings == Namings \cup GlobNamings \cup IdNamings
IdOrderT == [nm \in AllNamings |-> SortedBy(nm, 1..Len(nm.utts), IdKey)]
FileOrderT == [nm \in AllNamings |-> SortedBy(nm, 1..Len(nm.utts), FileKey)]
ListOrderT == [nm \in AllNamings |-> SortedBy(nm, 1..Len(nm.utts), ListKey)]
ListPosT == [nm \in AllNamings |-> [i \in 1..Len(nm.utts) |-> CHOOSE k \in 1..Len(nm.utts) : ListOrderT[nm][k] = i]]
Restrict(order, S) == SelectSeq(order, LAMBDA i : i \in S)        \* the members of S in that order
\* position of utterance i among the m utterances of a directory as the commands list them
ListRank(nm, m, i) == 1 + Cardinality({j \in 1..m : ListPosT[nm][j] < ListPosT[nm][i]})
OrdersDiffer(nm) == IdOrderT[nm] # FileOrderT[nm]
\* a function on 1..n as a sequence of VALUES (TLC keeps [i \in S |-> e] unevaluated and evaluates e at every application)
RECURSIVE Strict(_, _)
Strict(f, len) == IF len = 0 THEN <<>> ELSE Append(Strict(f, len - 1), f[len])

(***************************************************************************)
(* ali <-> ref                                                             *)
(***************************************************************************)
\* code-shaped: unique_consecutive + cumulative sums
RECURSIVE RunsFrom(_, _)
RunsFrom(a, start) ==      \* maximal runs of a[start..], as <<id, start0, end0>> with 0-based frames
  IF start > Len(a) THEN <<>>
  ELSE LET stop == IF \E j \in start..Len(a) : a[j] # a[start]
                   THEN MinOf({j \in start..Len(a) : a[j] # a[start]}) ELSE Len(a) + 1
       IN <<<<a[start], start - 1, stop - 1>>>> \o RunsFrom(a, stop)
AliToRef(a) == RunsFrom(a, 1)
\* a token sequence partitions T frames
Partitions(r, T) ==
  /\ Len(r) >= 1 /\ r[1][2] = 0 /\ r[Len(r)][3] = T
  /\ \A j \in 1..Len(r) : r[j][2] >= 0 /\ r[j][2] < r[j][3]
  /\ \A j \in 1..(Len(r) - 1) : r[j][3] = r[j + 1][2]
RECURSIVE RefToAli(_)
RefToAli(r) == IF r = <<>> THEN <<>> ELSE [t \in 1..(r[1][3] - r[1][2]) |-> r[1][1]] \o RefToAli(Tail(r))
\* declarative: the unique partition into maximal constant runs
IsRunLength(r, a) ==
  /\ Partitions(r, Len(a))
  /\ \A j \in 1..Len(r) : \A t \in (r[j][2] + 1)..r[j][3] : a[t] = r[j][1]
  /\ \A j \in 1..(Len(r) - 1) : r[j][1] # r[j + 1][1]

AliCorpora(S) == {<<a>> : a \in S} \cup UNION {[1..m -> AliSeqs2] : m \in 2..AliUtts} \cup [1..BigUtts -> AliTiny]
AliCases ==
  IF "ali" \notin Fams THEN {}
  ELSE {[nm |-> nm, data |-> d] : nm \in Namings, d \in AliCorpora(AliSeqs)}
       \cup {[nm |-> nm, data |-> d] : nm \in GlobNamings, d \in {<<a>> : a \in AliSeqs2} \cup [1..BigUtts -> AliTiny]}
AliDistractor == <<2, 1, 1>>

(***************************************************************************)
(* trn <-> token directory                                                 *)
(* tokens 1, 2 are in the vocabulary, token 3 is not (needs --unk-symbol)  *)
(***************************************************************************)
OOV == 3
UnkTok == 0
HasAlt(tr) == \E i \in 1..Len(tr) : ~IsTok(tr[i])
TrnToks(tr) == [i \in 1..Len(Leaves(FirstBranch(tr))) |->
                  IF Leaves(FirstBranch(tr))[i] = OOV THEN UnkTok ELSE Leaves(FirstBranch(tr))[i]]
Content(toks, sizing) ==
  CASE sizing = "skip" -> toks
    [] sizing = "feat" -> [i \in 1..Len(toks) |-> <<toks[i]>>]
    [] OTHER -> [i \in 1..Len(toks) |-> <<toks[i], -1, -1>>]
NamingSizing(nm) == IF nm.pre = <<>> THEN "none" ELSE IF nm = NonDefaultNaming THEN "feat" ELSE "skip"
TrnCases ==
  IF "trn" \notin Fams THEN {}
  ELSE {[nm |-> nm, data |-> <<d>>, sizing |-> sz] : nm \in Namings, d \in TrnSet, sz \in Sizings}
       \cup UNION {{[nm |-> nm, data |-> d, sizing |-> sz] :
                      d \in UNION {[1..m -> TrnSet] : m \in 2..TrnUtts} \cup [1..BigUtts -> TrnTiny],
                      sz \in {z \in Sizings : z = NamingSizing(nm)}} : nm \in Namings}
       \cup {[nm |-> nm, data |-> d, sizing |-> NamingSizing(nm)] : nm \in GlobNamings, d \in [1..BigUtts -> TrnTiny]}
TrnNeedsUnk(cs0) == \E i \in 1..Len(cs0.data) : \E k \in 1..Len(Leaves(cs0.data[i])) : Leaves(cs0.data[i])[k] = OOV
TrnNeedsFirst(cs0) == \E i \in 1..Len(cs0.data) : HasAlt(cs0.data[i])

(***************************************************************************)
(* ctm / TextGrid <-> token directory (times in ms, frame shift in ms)     *)
(***************************************************************************)
SortByStart(tr) == Values(StableSort([k \in 1..Len(tr) |-> <<<<tr[k].s>>, tr[k]>>]))
Rows(tr, sh) == [k \in 1..Len(tr) |-> <<tr[k].tok, StartFrame(tr[k].s, sh), EndFrame(tr[k].s, tr[k].s + tr[k].d, sh)>>]
BackTimes(rows, sh) == [k \in 1..Len(rows) |-> <<rows[k][1], rows[k][2] * sh, rows[k][3] * sh>>]   \* <<tok, start, end>> ms
WithinOneFrame(tr, back, sh) ==
  /\ Len(back) = Len(tr)
  /\ \A k \in 1..Len(tr) :
       /\ back[k][1] = tr[k].tok
       /\ Abs(back[k][2] - tr[k].s) <= sh
       /\ Abs(back[k][3] - (tr[k].s + tr[k].d)) <= sh
\* tokens that start in the same frame come back with equal start times: their order in a ctm is then free
DistinctStartFrames(tr, sh) == \A i, j \in 1..Len(tr) : i # j => StartFrame(tr[i].s, sh) # StartFrame(tr[j].s, sh)
CtmKinds == {"default", "chan", "wc2utt", "utt2wc"}
\* A ctm FILE is a sequence of LINES; a line names its utterance (through waveform and channel, or through the map
\* of --wc2utt / --utt2wc: two channels of one recording may be two utterances) and holds one segment.  The format
\* puts no constraint on the order of the lines: the MEANING of a file is  utterance -> its segments sorted by
\* start,  whatever that order (CtmOrderFree).  Line orders of the universe: "grouped" (utterance after utterance,
\* as the writer command lists them), "interleaved" (first segments of all utterances, then the second ones, ...),
\* "reversed" (the grouped file backwards) and "bytime" (all lines by start time: a two-channel recording in time
\* order).  A case holds the FILE: orders that give the same sequence of lines are one case.
RECURSIVE CtmFlat(_, _)
CtmFlat(d, i) == IF i > Len(d) THEN <<>> ELSE [k \in 1..Len(d[i]) |-> [u |-> i, k |-> k, x |-> d[i][k]]] \o CtmFlat(d, i + 1)
CtmLineOrders == {"grouped", "interleaved", "reversed", "bytime"}
CtmLineKey(l, o) ==
  CASE o = "interleaved" -> <<l.k, l.u>>
    [] o = "reversed" -> <<0 - l.u, 0 - l.k>>
    [] o = "bytime" -> <<l.x.s, l.u, l.k>>
    [] OTHER -> <<l.u, l.k>>
CtmFile(d, o) == LET g == CtmFlat(d, 1) IN Values(StableSort([j \in 1..Len(g) |-> <<CtmLineKey(g[j], o), g[j]>>]))
\* the segments of utterance i in the order of their lines; the meaning of the file for utterance i
CtmSegs(file, i) == LET mine == SelectSeq(file, LAMBDA l : l.u = i) IN [j \in 1..Len(mine) |-> mine[j].x]
CtmMeaning(file, i) == SortByStart(CtmSegs(file, i))
\* (segments of one utterance that start at the same time keep the order of their lines: no meaning beyond that)
DistinctStarts(tr) == \A i, j \in 1..Len(tr) : i # j => tr[i].s # tr[j].s
\* some utterance's lines are not next to each other
CtmScattered(file) == \E a, b, e \in 1..Len(file) : a < b /\ b < e /\ file[a].u = file[e].u /\ file[b].u # file[a].u
CtmPermMax == 4       \* files of up to that many lines are checked under EVERY permutation of their lines
CtmCases ==
  IF "ctm" \notin Fams THEN {}
  ELSE UNION {{[nm |-> nm, data |-> d, shift |-> sh, kind |-> kd, file |-> CtmFile(d, o)] :
                 d \in UNION {[1..m -> CtmSet] : m \in 1..CtmUtts} \cup [1..BigUtts -> CtmTiny],
                 sh \in CtmShifts, kd \in {k \in CtmKinds : nm = NonDefaultNaming \/ k = "default"}, o \in CtmLineOrders} : nm \in Namings}
       \cup {[nm |-> nm, data |-> d, shift |-> sh, kind |-> "default", file |-> CtmFile(d, o)] :
               nm \in GlobNamings, d \in [1..BigUtts -> CtmTiny], sh \in CtmShifts, o \in {"grouped", "interleaved"}}
\* TextGrid tiers: an interval tier whose entries all have positive length (method 1 of the writer
\* command) or a point tier (method 2)
TgKind(tr) == IF \A k \in 1..Len(tr) : tr[k].d = 0 THEN "point" ELSE "interval"
TgCases ==
  IF "tg" \notin Fams THEN {}
  ELSE {[nm |-> nm, data |-> <<d>>, shift |-> sh] : nm \in Namings, d \in TgSet, sh \in TgShifts}
       \cup UNION {{[nm |-> nm, data |-> d, shift |-> sh] :
                      d \in UNION {[1..m -> TgSet] : m \in 2..TgUtts} \cup [1..BigUtts -> TgTiny],
                      sh \in {z \in TgShifts : (z = MinOf(TgShifts)) = (nm.pre = <<>>)}} : nm \in Namings}
       \cup {[nm |-> nm, data |-> d, shift |-> IF nm.pre = <<>> THEN MinOf(TgShifts) ELSE MaxOf(TgShifts)] :
               nm \in GlobNamings, d \in [1..BigUtts -> TgTiny]}
\* what the token directory -> TextGrid command writes for rows r (methods 1 and 2)
TgMethod(rows) == IF \A k \in 1..Len(rows) : rows[k][3] > rows[k][2] THEN 1 ELSE 2
TgBackRows(rows) ==
  IF TgMethod(rows) = 1 THEN rows
  ELSE [k \in 1..Len(rows) |-> <<rows[k][1], IF rows[k][3] > rows[k][2] THEN rows[k][3] ELSE rows[k][2],
                                 IF rows[k][3] > rows[k][2] THEN rows[k][3] ELSE rows[k][2]>>]

(***************************************************************************)
(* error rates                                                             *)
(***************************************************************************)
ApplyRI(s, rep, ign) ==      \* --replace then --ignore
  LET r == [i \in 1..Len(s) |-> IF rep # <<>> /\ s[i] = rep[1] THEN rep[2] ELSE s[i]]
  IN SelectSeq(r, LAMBDA x : x \notin ign)
ErOptsAll == {[costs |-> co, bs |-> b, rep |-> rp, ign |-> ig, dist |-> di, perutt |-> pu] :
                co \in ErCostsAll, b \in ErBatches, rp \in {<<>>, <<2, 1>>}, ig \in {{}, {2}},
                di \in BOOLEAN, pu \in BOOLEAN}
ErOptsFew == {o \in ErOptsAll : o.rep = <<>> /\ o.ign = {} /\ ~o.dist /\ ~o.perutt}
\* Which utterances a directory lacks.  The command is given --warn-missing ("warn and exclude any utterances that
\* are missing either a reference or hypothesis transcript") exactly in the cases that carry warn = TRUE.
ErNoMiss == [ref |-> {}, hyp |-> {}]
ErMissPatterns(m) ==
  {ErNoMiss, [ref |-> {1}, hyp |-> {m}]}
  \cup {[ref |-> {k}, hyp |-> {}] : k \in 1..m} \cup {[ref |-> {}, hyp |-> {k}] : k \in 1..m}
ErOptsMiss == {o \in ErOptsAll : o.rep = <<>> /\ o.ign = {} /\ ~o.dist /\ o.costs[1] = o.costs[2] /\ o.costs[2] = o.costs[3]}
\* The integer ids under which the abstract tokens 1, 2 are stored in the two directories (and written into the
\* --replace / --ignore lists; with --id2token the lists and the comparison are in terms of the tokens' spellings).
\* The figures do not depend on them (ErIdFree): in particular an id may be negative.
ErIdTables == {<<4, 7>>, <<-1, -2>>, <<-3, -1>>, <<-2, -3>>}
ErIdsDefault == <<4, 7>>
ErStored(s, t) == [k \in 1..Len(s) |-> t[s[k]]]
ErOptsUniform == {o \in ErOptsAll : o.costs[1] = o.costs[2] /\ o.costs[2] = o.costs[3]}
ErCasesIds ==    \* tiny corpora x every option (equal costs) x every id table x with / without --id2token
  IF "er" \notin Fams THEN {}
  ELSE {[nm |-> NonDefaultNaming, data |-> d, opt |-> o, miss |-> ErNoMiss, warn |-> FALSE, ids |-> t, i2t |-> b] :
          d \in [1..2 -> ErPairsTiny], o \in ErOptsUniform, t \in ErIdTables, b \in BOOLEAN}
ErCasesBase ==     \* every pair alone; small corpora x every naming; tiny corpora x every option; incomplete directories
  IF "er" \notin Fams THEN {}
  ELSE {[nm |-> NonDefaultNaming, data |-> <<d>>, opt |-> o, miss |-> ErNoMiss, warn |-> FALSE, ids |-> ErIdsDefault, i2t |-> FALSE] : d \in ErPairs, o \in ErOptsFew}
       \cup {[nm |-> nm, data |-> d, opt |-> o, miss |-> ErNoMiss, warn |-> FALSE, ids |-> ErIdsDefault, i2t |-> FALSE] :
               nm \in Namings, d \in [1..2 -> ErPairsSmall], o \in ErOptsFew}
       \cup {[nm |-> NonDefaultNaming, data |-> d, opt |-> o, miss |-> ErNoMiss, warn |-> FALSE, ids |-> ErIdsDefault, i2t |-> FALSE] :
               d \in [1..2 -> ErPairsTiny], o \in ErOptsAll}
       \cup {[nm |-> nm, data |-> d, opt |-> o, miss |-> ms, warn |-> TRUE, ids |-> ErIdsDefault, i2t |-> FALSE] :
               nm \in IdNamings, d \in {x \in [1..ErMissUtts -> ErPairsTiny] : \A i, j \in 1..ErMissUtts : i # j => x[i] # x[j]},
               o \in ErOptsMiss, ms \in ErMissPatterns(ErMissUtts)}
ErCases == ErCasesBase \cup ErCasesIds
ErRef(cs0, i) == ApplyRI(cs0.data[i][1], cs0.opt.rep, cs0.opt.ign)
ErHyp(cs0, i) == ApplyRI(cs0.data[i][2], cs0.opt.rep, cs0.opt.ign)
ErRange(cs0, i) == ED!EditRange(ErRef(cs0, i), ErHyp(cs0, i), cs0.opt.costs)     \* <<fewest, most>> edits
RECURSIVE SumSeq(_)
SumSeq(s) == IF s = <<>> THEN 0 ELSE Head(s) + SumSeq(Tail(s))
\* declarative: the utterances that count are those present in both directories
ErBoth(cs0) == (1..Len(cs0.data)) \ (cs0.miss.ref \cup cs0.miss.hyp)
\* code-shaped: each directory is listed (ascending by ListKey: the id); the two lists are walked in step and, where
\* the ids at the current position differ, the entry with the SMALLER ID is taken to be in one directory only
\* and dropped (warning); a list that ends early loses the rest of the other one
DropAt(l, k) == SubSeq(l, 1, k - 1) \o SubSeq(l, k + 1, Len(l))
RECURSIVE ErMerge(_, _, _, _)
ErMerge(nm, r, h, k) ==
  IF k > Len(r) /\ k > Len(h) THEN <<r, h>>
  ELSE IF k > Len(r) THEN ErMerge(nm, r, DropAt(h, k), k)
  ELSE IF k > Len(h) THEN ErMerge(nm, DropAt(r, k), h, k)
  ELSE IF StrLess(nm.utts[r[k]], nm.utts[h[k]]) THEN ErMerge(nm, DropAt(r, k), h, k)
  ELSE IF StrLess(nm.utts[h[k]], nm.utts[r[k]]) THEN ErMerge(nm, r, DropAt(h, k), k)
  ELSE ErMerge(nm, r, h, k + 1)
ErListed(cs0, sub) == Restrict(ListOrderT[cs0.nm], (1..Len(cs0.data)) \ cs0.miss[sub])
ErKept(cs0) == ErMerge(cs0.nm, ErListed(cs0, "ref"), ErListed(cs0, "hyp"), 1)[1]      \* sequence of utterance indices
\* per utterance: <<fewest edits, most edits, reference length>>
ErFigures(cs0) == Strict([i \in 1..Len(cs0.data) |-> <<ErRange(cs0, i)[1], ErRange(cs0, i)[2], Len(ErRef(cs0, i))>>], Len(cs0.data))
\* totals <<errs lo, errs hi, ref tokens>> over a sequence K of utterance indices, F = ErFigures
ErTotals(K, F) == [col \in 1..3 |-> SumSeq([k \in 1..Len(K) |-> F[K[k]][col]])]
\* declarative: the three sums over the SET of utterances in both directories
ErDeclTotals(cs0, F) == ErTotals(Restrict(IdOrderT[cs0.nm], ErBoth(cs0)), F)
\* code-shaped: batches of bs utterances of the kept list K, running totals
RECURSIVE ErBatched(_, _, _, _, _)
ErBatched(bs, K, F, from, tot) ==
  IF from > Len(K) THEN tot
  ELSE LET to == IF from + bs - 1 > Len(K) THEN Len(K) ELSE from + bs - 1
           add == ErTotals(SubSeq(K, from, to), F)
       IN ErBatched(bs, K, F, to + 1, <<tot[1] + add[1], tot[2] + add[2], tot[3] + add[3]>>)
\* the figure is defined only if its denominator is not zero
ErDefined(cs0, F) ==
  IF cs0.opt.perutt THEN cs0.opt.dist \/ \A i \in ErBoth(cs0) : F[i][3] > 0
  ELSE (cs0.opt.dist /\ ErBoth(cs0) # {}) \/ ErDeclTotals(cs0, F)[3] > 0

(***************************************************************************)
(* subsets                                                                 *)
(***************************************************************************)
SubCrits ==
  {[kind |-> k, num |-> x, den |-> 1] : k \in {"first-n", "last-n", "shortest-n", "longest-n"}, x \in 0..(SubUtts + 1)}
  \cup {[kind |-> k, num |-> x[1], den |-> x[2]] :
          k \in {"first-ratio", "last-ratio", "shortest-ratio", "longest-ratio"}, x \in {<<0, 1>>, <<1, 2>>, <<3, 4>>, <<1, 1>>}}
  \cup {[kind |-> "utt-list", num |-> x, den |-> 1] : x \in 0..3}
\* explicit lists (indices into the naming's utts; SubUtts + 1 is an id that is not in the directory)
UttList(x, m) == CASE x = 0 -> <<1>> [] x = 1 -> (IF m >= 2 THEN <<m, 1>> ELSE <<1>>) [] x = 2 -> <<m + 1, m>>
                   [] OTHER -> [i \in 1..m |-> i]
Mod3(x) == x - 3 * (x \div 3)
SubAux == <<"ali+ref", "none", "ref-partial">>
SubCases ==     \* (which of ali/ and ref/ exist varies together with the naming)
  IF "sub" \notin Fams THEN {}
  ELSE {[nm |-> nm, data |-> d, crit |-> cr, aux |-> SubAux[1 + Mod3(Len(nm.pre) + Len(nm.suf))]] :
          nm \in Namings, d \in UNION {[1..m -> SubLens] : m \in 1..SubUtts}, cr \in SubCrits}
       \cup {[nm |-> nm, data |-> d, crit |-> cr, aux |-> SubAux[1 + Mod3(Len(nm.pre) + Len(nm.suf))]] :
               nm \in IdNamings, d \in [1..SubUtts -> SubLens], cr \in SubCrits}
\* order in which utterances are listed: by id / by (length, id) / by (-length, id), "by id" being the position in
\* the directory's listing
SubOrder(cs0) ==
  LET m == Len(cs0.data)
      k == cs0.crit.kind
      rk(i) == ListRank(cs0.nm, m, i)
      key(i) == CASE k \in {"first-n", "first-ratio"} -> <<rk(i)>>
                  [] k \in {"last-n", "last-ratio"} -> <<0 - rk(i)>>
                  [] k \in {"shortest-n", "shortest-ratio"} -> <<cs0.data[i], rk(i)>>
                  [] OTHER -> <<0 - cs0.data[i], rk(i)>>
  IN Values(StableSort([i \in 1..m |-> <<key(i), i>>]))
SubCount(cs0) ==
  LET m == Len(cs0.data)
      want == IF cs0.crit.den = 1 /\ cs0.crit.kind \notin {"first-ratio", "last-ratio", "shortest-ratio", "longest-ratio"}
              THEN cs0.crit.num ELSE (cs0.crit.num * m) \div cs0.crit.den
  IN IF want > m THEN m ELSE want
SubChosen(cs0) ==      \* set of utterance indices
  IF cs0.crit.kind = "utt-list"
  THEN {i \in 1..Len(cs0.data) : \E j \in 1..Len(UttList(cs0.crit.num, Len(cs0.data))) : UttList(cs0.crit.num, Len(cs0.data))[j] = i}
  ELSE {SubOrder(cs0)[j] : j \in 1..SubCount(cs0)}
\* what a listing by FILE NAME would select (exported only to name that mistake when it is observed)
SubChosenByFile(cs0) ==
  IF cs0.crit.kind \notin {"first-n", "first-ratio"} THEN SubChosen(cs0)
  ELSE {Restrict(FileOrderT[cs0.nm], 1..Len(cs0.data))[j] : j \in 1..SubCount(cs0)}
\* which utterances have ali / ref files in the source
SubHas(cs0, sub, i) ==
  CASE sub = "feat" -> TRUE
    [] cs0.aux = "none" -> FALSE
    [] cs0.aux = "ali+ref" -> TRUE
    [] OTHER -> sub = "ref" /\ i = 1

(***************************************************************************)
(* subsets, run repeatedly into the same destination ("subrun")            *)
(* Two source directories hold the same utterances; between two runs a     *)
(* source may be re-generated: "inplace" (its files are overwritten: same  *)
(* inode, new contents) or "replace" (removed and written anew: new        *)
(* inode).  A file's contents are <<source, version>>.  The destination is *)
(* a map  <<subdirectory, name>> -> entry:                                 *)
(*   copy     its own contents, those of the source file when it was made  *)
(*   symlink  names the source file: reads as whatever that file holds now *)
(*   link     a second name of the source's inode of that time             *)
(* A run handles its utterances in any order, one at a time: --copy writes *)
(* over what is there; os.symlink / os.link refuse an existing name        *)
(* (FileExistsError: the run ends, outcome "raises").  After every run     *)
(* that did not raise, the files of the utterances it requested read the   *)
(* same as the source files do NOW, and the destination holds nothing that *)
(* no run requested.                                                       *)
(***************************************************************************)
SubRunSteps == {<<1, "none">>, <<1, "inplace">>, <<1, "replace">>, <<2, "none">>}
SubRunFirst == {[src |-> 1, regen |-> "none", crit |-> cr] : cr \in SubRunCrits}
SubRunLater == {[src |-> st[1], regen |-> st[2], crit |-> cr] : st \in SubRunSteps, cr \in SubRunCrits}
SubRunHists == UNION {{<<r1>> \o rest : r1 \in SubRunFirst, rest \in [1..(m - 1) -> SubRunLater]} : m \in 2..SubRunMax}
SubRunCases ==
  IF "subrun" \notin Fams THEN {}
  ELSE {[nm |-> nm, data |-> SubRunData, aux |-> SubAux[1 + Mod3(Len(nm.pre) + Len(nm.suf))], style |-> st, runs |-> h] :
          nm \in Namings, st \in SubRunStyles, h \in SubRunHists}
RunCase(cs0, k) == [nm |-> cs0.nm, data |-> cs0.data, aux |-> cs0.aux, crit |-> cs0.runs[k].crit]
RunKeys(cs0, k, i) == {<<sub, Name(cs0.nm, i)>> : sub \in {s \in {"feat", "ali", "ref"} : SubHas(RunCase(cs0, k), s, i)}}
RunAllKeys(cs0, k) == UNION {RunKeys(cs0, k, i) : i \in SubChosen(RunCase(cs0, k))}
Dst0 == [files |-> <<>>, gen |-> <<0, 0>>, ver |-> (<<1, 0>> :> 1) @@ (<<2, 0>> :> 2), clock |-> 2,
         run |-> 0, busy |-> FALSE, todo |-> {}, log |-> <<>>]
CurSrc(d, s) == <<s, d.ver[<<s, d.gen[s]>>]>>
NewEntry(d, style, s) ==
  CASE style = "copy" -> [kind |-> "copy", val |-> CurSrc(d, s), src |-> s, ino |-> <<s, d.gen[s]>>]
    [] style = "symlink" -> [kind |-> "symlink", val |-> <<0, 0>>, src |-> s, ino |-> <<s, d.gen[s]>>]
    [] OTHER -> [kind |-> "link", val |-> <<0, 0>>, src |-> s, ino |-> <<s, d.gen[s]>>]
ReadEntry(d, e) ==
  CASE e.kind = "copy" -> e.val
    [] e.kind = "symlink" -> CurSrc(d, e.src)
    [] OTHER -> <<e.ino[1], d.ver[e.ino]>>

(***************************************************************************)
(* length moments                                                          *)
(***************************************************************************)
MomOpts == {[excl |-> e, bessel |-> b, std |-> s] : e \in {{}, {2}}, b \in BOOLEAN, s \in BOOLEAN}
MomOptsFew == {o \in MomOpts : ~o.bessel /\ ~o.std}
MomCases ==       \* print-torch-ali-data-dir-length-moments
  IF "mom" \notin Fams THEN {}
  ELSE {[nm |-> NonDefaultNaming, kind |-> "ali", data |-> d, opt |-> o] :
          d \in AliCorpora(MomAli), o \in MomOptsFew}
       \cup {[nm |-> nm, kind |-> "ali", data |-> <<d>>, opt |-> o] : nm \in Namings, d \in MomAli, o \in MomOpts}
MomRCases ==      \* print-torch-ref-data-dir-length-moments
  IF "momr" \notin Fams THEN {}
  ELSE {[nm |-> NonDefaultNaming, kind |-> "ref", data |-> d, opt |-> o] :
          d \in UNION {[1..m -> MomRef] : m \in 1..MomUtts} \cup [1..BigUtts -> MomRefTiny], o \in MomOptsFew}
       \cup {[nm |-> nm, kind |-> "ref", data |-> <<d>>, opt |-> o] : nm \in Namings, d \in MomRef, o \in MomOpts}
\* lengths that count, per file
MomLens(cs0, i) ==
  IF cs0.kind = "ali"
  THEN LET r == AliToRef(cs0.data[i])
       IN [k \in 1..Len(SelectSeq(r, LAMBDA x : x[1] \notin cs0.opt.excl)) |->
             LET x == SelectSeq(r, LAMBDA y : y[1] \notin cs0.opt.excl)[k] IN x[3] - x[2]]
  ELSE LET ok == SelectSeq(cs0.data[i], LAMBDA x : x[1] \notin cs0.opt.excl /\ 0 <= x[2] /\ x[2] <= x[3])
       IN [k \in 1..Len(ok) |-> ok[k][3] - ok[k][2]]
Triple(ls) == <<SumSeq(ls), SumSeq([k \in 1..Len(ls) |-> ls[k] * ls[k]]), Len(ls)>>
\* declarative: pooled over all files at once
RECURSIVE ConcatAll(_, _)
ConcatAll(cs0, i) == IF i > Len(cs0.data) THEN <<>> ELSE MomLens(cs0, i) \o ConcatAll(cs0, i + 1)
MomPooled(cs0) == Triple(ConcatAll(cs0, 1))

(***************************************************************************)
(* Work items of the (first) command of every family                       *)
(*   [files |-> set of <<dir, name, content>>, ret |-> <<s, ss, c>>]       *)
(***************************************************************************)
Item(files, ret) == [files |-> files, ret |-> ret]
Zero3 == <<0, 0, 0>>
Work(f, cs0) ==
  CASE f = "ali" -> [i \in 1..Len(cs0.data) |-> Item({<<"ref", Name(cs0.nm, i), AliToRef(cs0.data[i])>>}, Zero3)]
    [] f = "trn" -> [i \in 1..Len(cs0.data) |->
                       Item({<<"dir", Name(cs0.nm, i), Content(TrnToks(cs0.data[i]), cs0.sizing)>>}, Zero3)]
    [] f = "ctm" -> [i \in 1..Len(cs0.data) |->
                       Item({<<"dir", Name(cs0.nm, i), Rows(CtmMeaning(cs0.file, i), cs0.shift)>>}, Zero3)]
    [] f = "tg" -> [i \in 1..Len(cs0.data) |-> Item({<<"dir", Name(cs0.nm, i), Rows(cs0.data[i], cs0.shift)>>}, Zero3)]
    [] f = "sub" -> LET sel == SelectSeq([i \in 1..Len(cs0.data) |-> i], LAMBDA i : i \in SubChosen(cs0))
                    IN [j \in 1..Len(sel) |->
                          Item({<<sub, Name(cs0.nm, sel[j]), <<sub, sel[j]>>>> : sub \in {s \in {"feat", "ali", "ref"} : SubHas(cs0, s, sel[j])}},
                               Zero3)]
    [] f \in {"mom", "momr"} -> [i \in 1..Len(cs0.data) |-> Item({}, Triple(MomLens(cs0, i)))]
    [] OTHER -> <<>>
\* declarative result: all files of all items, the pooled triple
ExpectedFiles(f, cs0) == UNION {Work(f, cs0)[i].files : i \in 1..Len(Work(f, cs0))}
ExpectedAcc(f, cs0) == IF f \in {"mom", "momr"} THEN MomPooled(cs0) ELSE Zero3

(***************************************************************************)
(* Product with the worker pool                                            *)
(***************************************************************************)
Init ==
  /\ fam \in Fams
  /\ cs \in (CASE fam = "ali" -> AliCases [] fam = "trn" -> TrnCases [] fam = "ctm" -> CtmCases
               [] fam = "tg" -> TgCases [] fam = "er" -> ErCases [] fam = "sub" -> SubCases
               [] fam = "subrun" -> SubRunCases
               [] fam = "mom" -> MomCases [] fam = "momr" -> MomRCases)
  /\ work = Work(fam, cs)
  /\ n = Len(work)
  /\ c \in (IF fam = "subrun" THEN {MinOf(Cs)} ELSE Cs) /\ W \in (IF fam = "subrun" THEN {MinOf(Ws)} ELSE Ws)
  /\ mode \in (IF fam = "subrun" THEN {CHOOSE m \in PModes : TRUE} ELSE PModes)
  /\ dst = Dst0
  /\ queue = [k \in 1..WP!NChunks(n, c) |-> k]
  /\ busy = [w \in 1..W |-> 0]
  /\ done = {} /\ deliv = <<>> /\ hist = <<>>
  /\ fs = {} /\ acc = Zero3 /\ clobber = FALSE

ItemsOf(k) == WP!ChunkItems(k)         \* item numbers of chunk k
Take == WP!TakeAny /\ UNCHANGED <<fam, cs, work, fs, acc, clobber, dst>>
Finish ==       \* a worker runs the per-item function on its chunk: files appear
  \E w \in 1..W :
     /\ WP!Finish(w)
     /\ LET new == UNION {work[ItemsOf(busy[w])[j]].files : j \in 1..Len(ItemsOf(busy[w]))}
        IN /\ fs' = fs \cup new
           /\ clobber' = (clobber \/ \E x \in new : \E y \in fs : x[1] = y[1] /\ x[2] = y[2])
     /\ UNCHANGED <<fam, cs, work, acc, dst>>
Deliver ==      \* the parent receives the chunk's return values and adds them up
  /\ (WP!DeliverOrdered \/ WP!DeliverUnordered)
  /\ LET k == deliv'[Len(deliv')]
         RECURSIVE Add(_, _)
         Add(j, a) == IF j > Len(ItemsOf(k)) THEN a
                      ELSE LET r == work[ItemsOf(k)[j]].ret
                           IN Add(j + 1, <<a[1] + r[1], a[2] + r[2], a[3] + r[3]>>)
     IN acc' = Add(1, acc)
  /\ UNCHANGED <<fam, cs, work, fs, clobber, dst>>

\* "subrun": the runs, one after the other (the pool variables stay at rest)
PoolVars == <<fam, cs, work, n, c, W, mode, queue, busy, done, deliv, hist, fs, acc, clobber>>
SubRaised == dst.log # <<>> /\ dst.log[Len(dst.log)].outcome = "raises"
SubLog(d, k, outcome) ==
  [run |-> k, outcome |-> outcome, src |-> cs.runs[k].src, regen |-> cs.runs[k].regen, crit |-> cs.runs[k].crit,
   cur |-> CurSrc(d, cs.runs[k].src),
   chosen |-> RunAllKeys(cs, k),
   requested |-> UNION {RunAllKeys(cs, j) : j \in 1..k},
   dest |-> IF outcome = "ok" THEN {<<key, ReadEntry(d, d.files[key])>> : key \in DOMAIN d.files} ELSE {}]
BeginRun ==     \* (the source named by the run is re-generated first, if the history says so)
  /\ fam = "subrun" /\ ~dst.busy /\ ~SubRaised /\ dst.run < Len(cs.runs)
  /\ LET k == dst.run + 1
         s == cs.runs[k].src
         g == dst.gen[s]
         d1 == CASE cs.runs[k].regen = "inplace" ->
                      [dst EXCEPT !.clock = dst.clock + 1, !.ver = [dst.ver EXCEPT ![<<s, g>>] = dst.clock + 1]]
                 [] cs.runs[k].regen = "replace" ->
                      [dst EXCEPT !.clock = dst.clock + 1, !.gen = [dst.gen EXCEPT ![s] = g + 1],
                                  !.ver = (<<s, g + 1>> :> (dst.clock + 1)) @@ dst.ver]
                 [] OTHER -> dst
     IN dst' = [d1 EXCEPT !.run = k, !.busy = TRUE, !.todo = SubChosen(RunCase(cs, k))]
  /\ UNCHANGED PoolVars
DoItem ==       \* one utterance of the current run: its feat / ali / ref files
  /\ fam = "subrun" /\ dst.busy /\ dst.todo # {}
  /\ \E i \in dst.todo :
       LET k == dst.run
           keys == RunKeys(cs, k, i)
           there == {key \in keys : key \in DOMAIN dst.files}
           put(ks) == [key \in ks |-> NewEntry(dst, cs.style, cs.runs[k].src)]
       IN IF SubRunFault
          THEN dst' = [dst EXCEPT !.todo = dst.todo \ {i}, !.files = put(keys \ there) @@ dst.files]
          ELSE IF there # {} /\ cs.style # "copy"
          THEN dst' = [dst EXCEPT !.busy = FALSE, !.todo = {}, !.log = Append(dst.log, SubLog(dst, k, "raises"))]
          ELSE dst' = [dst EXCEPT !.todo = dst.todo \ {i}, !.files = put(keys) @@ dst.files]
  /\ UNCHANGED PoolVars
EndRun ==
  /\ fam = "subrun" /\ dst.busy /\ dst.todo = {}
  /\ dst' = [dst EXCEPT !.busy = FALSE, !.log = Append(dst.log, SubLog(dst, dst.run, "ok"))]
  /\ UNCHANGED PoolVars
SubRunDone == fam = "subrun" /\ ~dst.busy /\ (SubRaised \/ dst.run = Len(cs.runs))

Next == Take \/ Finish \/ Deliver \/ BeginRun \/ DoItem \/ EndRun
Spec == Init /\ [][Next]_vars
Terminated == WP!Terminated

(***************************************************************************)
(* Design invariants                                                       *)
(***************************************************************************)
First == deliv = <<>> /\ done = {} /\ \A w \in 1..W : busy[w] = 0 /\ Len(queue) = WP!NChunks(n, c)
\* every schedule ends with the same directory and the same totals
ScheduleFree == Terminated => (fs = ExpectedFiles(fam, cs) /\ acc = ExpectedAcc(fam, cs) /\ ~clobber)
NoClobber == ~clobber
Naming == First => NamesOK(cs.nm, Len(cs.data))
\* ali: run-length encoding is THE partition into maximal runs, and expansion inverts it
AliInverse == (fam = "ali" /\ First) =>
  \A i \in 1..Len(cs.data) : IsRunLength(AliToRef(cs.data[i]), cs.data[i]) /\ RefToAli(AliToRef(cs.data[i])) = cs.data[i]
\* trn: the directory -> trn direction reads the first column back: tokens of the first alternates
TrnInverse == (fam = "trn" /\ First) =>
  \A i \in 1..Len(cs.data) : \A k \in 1..Len(TrnToks(cs.data[i])) :
     LET row == Content(TrnToks(cs.data[i]), cs.sizing)[k]
     IN (IF cs.sizing = "skip" THEN row ELSE row[1]) = TrnToks(cs.data[i])[k]
\* ctm / TextGrid: frames times shift are within one frame of what was written
CtmInverse == (fam = "ctm" /\ First) =>
  \A i \in 1..Len(cs.data) :
     LET tr == SortByStart(cs.data[i]) IN WithinOneFrame(tr, BackTimes(Rows(tr, cs.shift), cs.shift), cs.shift)
\* the meaning of a ctm file does not depend on the order of its lines: it is the declarative  utterance -> segments
\* sorted by start  of the corpus the lines were taken from -- for the file of the case and, for small files, for
\* every permutation of its lines
CtmOrderFree == (fam = "ctm" /\ First) =>
  LET nl == Len(cs.file)
      perms == IF nl > CtmPermMax THEN {} ELSE {p \in [1..nl -> 1..nl] : \A a, b \in 1..nl : a # b => p[a] # p[b]}
  IN /\ nl = SumSeq([i \in 1..Len(cs.data) |-> Len(cs.data[i])])
     /\ \A i \in 1..Len(cs.data) : DistinctStarts(cs.data[i]) =>
          /\ CtmMeaning(cs.file, i) = SortByStart(cs.data[i])
          /\ \A p \in perms : CtmMeaning([j \in 1..nl |-> cs.file[p[j]]], i) = SortByStart(cs.data[i])
TgInverse == (fam = "tg" /\ First) =>
  \A i \in 1..Len(cs.data) :
     LET tr == cs.data[i]
         rows == Rows(tr, cs.shift)
     IN /\ WithinOneFrame(tr, BackTimes(TgBackRows(rows), cs.shift), cs.shift)
        /\ (TgKind(tr) = "interval" /\ \A k \in 1..Len(tr) : tr[k].d > 0) => TgMethod(rows) = 1
        /\ TgKind(tr) = "point" => TgMethod(rows) = 2
\* error rate: walking the two listings in step keeps exactly the utterances that are in both directories, in id order
ErMergeOK == (fam = "er" /\ First) =>
  LET mg == ErMerge(cs.nm, ErListed(cs, "ref"), ErListed(cs, "hyp"), 1)
  IN mg[1] = mg[2] /\ mg[1] = Restrict(IdOrderT[cs.nm], ErBoth(cs))
\* ... and batching changes nothing: the totals are those over that set
ErBatchFree == (fam = "er" /\ First) =>
  \E K \in {ErKept(cs)}, F \in {ErFigures(cs)} :
     /\ ErBatched(cs.opt.bs, K, F, 1, Zero3) = ErTotals(K, F)
     /\ ErBatched(cs.opt.bs, K, F, 1, Zero3) = ErDeclTotals(cs, F)
\* the figures are those of the stored integer ids, whatever ids (negative ones too) stand for the tokens
ErIdFree == (fam = "er" /\ First) =>
  /\ cs.ids[1] # cs.ids[2]
  /\ \A t \in ErIdTables \cup {cs.ids} : \A i \in 1..Len(cs.data) :
       /\ ED!EditRange(ErStored(ErRef(cs, i), t), ErStored(ErHyp(cs, i), t), cs.opt.costs) = ErRange(cs, i)
       \* (replacing and ignoring commute with the renaming)
       /\ ErStored(ErRef(cs, i), t) =
            LET st == ErStored(cs.data[i][1], t)
                r == [k \in 1..Len(st) |-> IF cs.opt.rep # <<>> /\ st[k] = t[cs.opt.rep[1]] THEN t[cs.opt.rep[2]] ELSE st[k]]
            IN SelectSeq(r, LAMBDA x : x \notin {t[y] : y \in cs.opt.ign})
ErUniformExact == (fam = "er" /\ First /\ cs.opt.costs[1] = cs.opt.costs[2] /\ cs.opt.costs[2] = cs.opt.costs[3]) =>
  \E F \in {ErFigures(cs)} : \A i \in 1..Len(cs.data) : F[i][1] = F[i][2]
\* subsets: the right number of distinct utterances, all from the source
\* ("first / last by id": every chosen id is smaller / greater AS A STRING than every id left behind; among equal
\* lengths the smaller id goes first)
SubOK == (fam = "sub" /\ First) =>
  LET rest == (1..Len(cs.data)) \ SubChosen(cs)
      id(i) == cs.nm.utts[i]
  IN /\ SubChosen(cs) \subseteq 1..Len(cs.data)
     /\ cs.crit.kind # "utt-list" => Cardinality(SubChosen(cs)) = SubCount(cs)
     /\ cs.crit.kind \in {"first-n", "first-ratio"} => \A i \in SubChosen(cs) : \A j \in rest : StrLess(id(i), id(j))
     /\ cs.crit.kind \in {"last-n", "last-ratio"} => \A i \in SubChosen(cs) : \A j \in rest : StrLess(id(j), id(i))
     /\ cs.crit.kind \in {"shortest-n", "shortest-ratio"} =>
          \A i \in SubChosen(cs) : \A j \in rest : cs.data[i] < cs.data[j] \/ (cs.data[i] = cs.data[j] /\ StrLess(id(i), id(j)))
     /\ cs.crit.kind \in {"longest-n", "longest-ratio"} =>
          \A i \in SubChosen(cs) : \A j \in rest : cs.data[i] > cs.data[j] \/ (cs.data[i] = cs.data[j] /\ StrLess(id(i), id(j)))
\* the universes in which the two orders part are met (and the basic namings are not among them)
IdUniverse == First => ((cs.nm \in IdNamings) <=> OrdersDiffer(cs.nm))
\* subrun: after every run that did not raise, whatever the order of its utterances: the requested files are
\* there and read as the source does now; nothing is there that no run requested
SubRunAtRest == fam = "subrun" /\ ~dst.busy /\ dst.run > 0 /\ ~SubRaised
SubRunIdentical == SubRunAtRest =>
  \A key \in RunAllKeys(cs, dst.run) :
     key \in DOMAIN dst.files /\ ReadEntry(dst, dst.files[key]) = CurSrc(dst, cs.runs[dst.run].src)
SubRunExact == SubRunAtRest =>
  /\ DOMAIN dst.files = UNION {RunAllKeys(cs, j) : j \in 1..dst.run}
  /\ (\A j \in 1..dst.run : RunAllKeys(cs, j) \subseteq RunAllKeys(cs, dst.run)) => DOMAIN dst.files = RunAllKeys(cs, dst.run)
\* a run raises only under a link style and only when it requests a file an earlier run has made; --copy never does
SubRunRaises == (fam = "subrun" /\ SubRaised) =>
  /\ cs.style # "copy"
  /\ RunAllKeys(cs, dst.run) \cap UNION {RunAllKeys(cs, j) : j \in 1..(dst.run - 1)} # {}
SubRunMustRaise == (SubRunAtRest /\ cs.style # "copy") =>
  RunAllKeys(cs, dst.run) \cap UNION {RunAllKeys(cs, j) : j \in 1..(dst.run - 1)} = {}
\* the log of a finished history does not depend on the order in which the utterances were handled
SubRunLogFree == SubRunDone =>
  \A j \in 1..Len(dst.log) :
     /\ dst.log[j].run = j /\ dst.log[j].chosen = RunAllKeys(cs, j)
     /\ dst.log[j].outcome = "ok" => \A p \in dst.log[j].dest : p[1] \in dst.log[j].requested
TypeOK == fam \in Fams /\ clobber \in BOOLEAN

(***************************************************************************)
(* Export (once per case: at the first state)                              *)
(***************************************************************************)
Emit(rec) == PrintT(<<"VFJ", ToJson(rec)>>)
SetToSeq(S) == LET RECURSIVE F(_) F(T) == IF T = {} THEN <<>> ELSE LET x == CHOOSE y \in T : TRUE IN <<x>> \o F(T \ {x}) IN F(S)
Names(m) == [i \in 1..m |-> Name(cs.nm, i)]
Common == [fam |-> fam, pre |-> cs.nm.pre, suf |-> cs.nm.suf, dir |-> cs.nm.dir,
           utts |-> [i \in 1..Len(cs.data) |-> cs.nm.utts[i]],
           names |-> Names(Len(cs.data)), distractors |-> SetToSeq(Distractors(cs.nm)), data |-> cs.data,
           idorder |-> Restrict(IdOrderT[cs.nm], 1..Len(cs.data)), fileorder |-> Restrict(FileOrderT[cs.nm], 1..Len(cs.data))]
Export ==
  (First /\ c = MinOf(Cs) /\ W = MinOf(Ws) /\ mode = CHOOSE m \in PModes : TRUE) =>
    CASE fam = "ali" ->
           Emit(Common @@ [ref |-> [i \in 1..Len(cs.data) |-> AliToRef(cs.data[i])], distractor |-> AliDistractor,
                           distractor_ref |-> AliToRef(AliDistractor)])
      [] fam = "trn" ->
           Emit(Common @@ [sizing |-> cs.sizing, unk |-> TrnNeedsUnk(cs), first |-> TrnNeedsFirst(cs),
                           lex |-> [i \in 1..Len(cs.data) |-> Lex(cs.data[i])],
                           toks |-> [i \in 1..Len(cs.data) |-> TrnToks(cs.data[i])],
                           content |-> [i \in 1..Len(cs.data) |-> Content(TrnToks(cs.data[i]), cs.sizing)]])
      [] fam = "ctm" ->
           Emit(Common @@ [shift |-> cs.shift, kind |-> cs.kind, file |-> cs.file, scattered |-> CtmScattered(cs.file),
                           sorted |-> [i \in 1..Len(cs.data) |-> SortByStart(cs.data[i])],
                           ordered |-> [i \in 1..Len(cs.data) |-> DistinctStartFrames(cs.data[i], cs.shift)],
                           rows |-> [i \in 1..Len(cs.data) |-> Rows(SortByStart(cs.data[i]), cs.shift)],
                           back |-> [i \in 1..Len(cs.data) |-> BackTimes(Rows(SortByStart(cs.data[i]), cs.shift), cs.shift)]])
      [] fam = "tg" ->
           Emit(Common @@ [shift |-> cs.shift,
                           tier |-> [i \in 1..Len(cs.data) |-> TgKind(cs.data[i])],
                           rows |-> [i \in 1..Len(cs.data) |-> Rows(cs.data[i], cs.shift)],
                           method |-> [i \in 1..Len(cs.data) |-> TgMethod(Rows(cs.data[i], cs.shift))],
                           back |-> [i \in 1..Len(cs.data) |-> BackTimes(TgBackRows(Rows(cs.data[i], cs.shift)), cs.shift)]])
      [] fam = "er" ->
           \E K \in {ErKept(cs)}, F \in {ErFigures(cs)} :
             Emit(Common @@ [costs |-> cs.opt.costs, bs |-> cs.opt.bs, rep |-> cs.opt.rep, ign |-> SetToSeq(cs.opt.ign),
                             ids |-> cs.ids, i2t |-> cs.i2t,
                             dist |-> cs.opt.dist, perutt |-> cs.opt.perutt, defined |-> ErDefined(cs, F),
                             warn |-> cs.warn, inref |-> [i \in 1..Len(cs.data) |-> i \notin cs.miss.ref],
                             inhyp |-> [i \in 1..Len(cs.data) |-> i \notin cs.miss.hyp], kept |-> K,
                             lo |-> [i \in 1..Len(cs.data) |-> F[i][1]],
                             hi |-> [i \in 1..Len(cs.data) |-> F[i][2]],
                             reflen |-> [i \in 1..Len(cs.data) |-> F[i][3]],
                             totlo |-> ErTotals(K, F)[1], tothi |-> ErTotals(K, F)[2], totlen |-> ErTotals(K, F)[3]])
      [] fam = "sub" ->
           Emit(Common @@ [crit |-> cs.crit, aux |-> cs.aux, list |-> UttList(cs.crit.num, Len(cs.data)),
                           listnames |-> [j \in 1..Len(UttList(cs.crit.num, Len(cs.data))) |-> cs.nm.utts[UttList(cs.crit.num, Len(cs.data))[j]]],
                           chosen |-> SetToSeq(SubChosen(cs)),
                           byfile |-> SetToSeq(SubChosenByFile(cs)),
                           files |-> SetToSeq({<<x[1], x[2]>> : x \in ExpectedFiles(fam, cs)}),
                           has |-> [i \in 1..Len(cs.data) |-> [s \in {"feat", "ali", "ref"} |-> SubHas(cs, s, i)]]])
      [] fam = "subrun" ->
           (SubRunDone =>
              Emit(Common @@ [style |-> cs.style, aux |-> cs.aux,
                              has |-> [i \in 1..Len(cs.data) |-> [s \in {"feat", "ali", "ref"} |-> SubHas(RunCase(cs, 1), s, i)]],
                              runs |-> [j \in 1..Len(dst.log) |->
                                          [outcome |-> dst.log[j].outcome, src |-> dst.log[j].src, regen |-> dst.log[j].regen,
                                           crit |-> dst.log[j].crit, cur |-> dst.log[j].cur,
                                           chosen |-> SetToSeq(dst.log[j].chosen),
                                           requested |-> SetToSeq(dst.log[j].requested),
                                           dest |-> SetToSeq(dst.log[j].dest)]],
                              nruns |-> Len(cs.runs)]))
      [] fam \in {"mom", "momr"} ->
           Emit(Common @@ [kind |-> cs.kind, excl |-> SetToSeq(cs.opt.excl), bessel |-> cs.opt.bessel, std |-> cs.opt.std,
                           triple |-> MomPooled(cs)])
=============================================================================
