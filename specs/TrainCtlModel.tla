---------------------------- MODULE TrainCtlModel ----------------------------
(***************************************************************************)
(* The model handed to TrainingStateController, as state_dict() and         *)
(* load_state_dict() see it (C16: "can load model and optimizer states ...  *)
(* gets exactly the parameters that were saved").                           *)
(*                                                                         *)
(* A model may be a WRAPPER that keeps the network in an attribute called   *)
(* `module`: torch.nn.DataParallel (no parameters of its own; its state     *)
(* dict names every entry of the network with the prefix "module."), or a   *)
(* user-defined module with parameters of its own next to the wrapped       *)
(* network.  The network of the harness is a 1x1 Linear (weight, bias).     *)
(* A process started after a crash constructs the same kind of model and    *)
(* loads into it: what was saved must be the PARAMETER SET of the live      *)
(* model, the wrapper's own parameters included.  Parameters are identified *)
(* by what they are, not by the name a state dict gives them: under which   *)
(* names they are stored is the library's business, as long as its own load *)
(* calls find them (which the fault enumeration tries on the real files).   *)
(***************************************************************************)
ModelKinds == {"plain", "data_parallel", "wrapper"}
\* the parameters of the live model
LiveKeys(kind) == CASE kind = "plain" -> {"weight", "bias"}
                    [] kind = "data_parallel" -> {"weight", "bias"}
                    [] kind = "wrapper" -> {"weight", "bias", "scale"}
=============================================================================
