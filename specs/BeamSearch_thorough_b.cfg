\* thorough, part b: V = 3 up to 4 steps (3^5 paths per case made the joint run exceed 50 min on a loaded machine)
INIT Init
NEXT Next
CONSTANTS
  Vs = {3}
  TVs = {0, 1, 2}
  Widths = {1, 2, 3, 4, 7, 100}
  MaxItersS = {0, 1, 2, 3, 4}
  NoEos = NoEos
INVARIANT ScoreIsChain
INVARIANT StopsAtFirstEos
INVARIANT Shape
INVARIANT FullSetWhenWide
INVARIANT Export
INVARIANT ExportStep
CHECK_DEADLOCK FALSE
