------------------------------ MODULE Attention ------------------------------
(***************************************************************************)
(* Global soft attention of pydrobert.torch (_attn.py: GlobalSoftAttention *)
(* .forward, DotProductSoftAttention, GeneralizedDotProductSoftAttention,  *)
(* ConcatSoftAttention (degenerate parameters only), MultiHeadedAttention).*)
(*                                                                         *)
(* Softmax is real-valued; the model works on inputs for which the         *)
(* attention WEIGHTS are rational: key coordinates are logarithms of small *)
(* positive integers ("bases"), queries and projection matrices are        *)
(* integers, so a score is  sum_j e_j * log(base_j) + offset  and the      *)
(* unnormalised weight is  prod_j base_j^(e_j)  times exp(offset), where   *)
(* offset (biases on the key side) does not depend on the position t and   *)
(* cancels in the softmax (ScaleInvariant).  Everything below is exact     *)
(* rational arithmetic.                                                    *)
(*                                                                         *)
(* Three views live here (variable `mode`):                                *)
(*  "core"   - code-shaped machine Score -> Mask -> Softmax -> Sum against *)
(*             the declarative masked convex combination; Convex,          *)
(*             MaskBlind, PermutationInvariant, ScaleInvariant;            *)
(*  "layout" - the shape/broadcast algebra: declarative Legal/OutShape     *)
(*             against the constructive enumeration of layouts, and        *)
(*             BroadcastIsExpand on the index maps;                        *)
(*  "table"  - the oracle: Out for every flavour/parameter set x query     *)
(*             content x key content of the model universe (exported).     *)
(***************************************************************************)
EXTENDS Integers, Sequences, FiniteSets, TLC, Json, RatArith

CONSTANTS CoreT,      \* core: sequence lengths 1..CoreT
          EmbedT,     \* core: the long-sequence lemmas are checked on up to EmbedT positions
          CoreW,      \* core: set of integer weights
          CoreV,      \* core: set of integer values
          MaxRank,    \* layout: number of leading (non-sequence) dimensions 0..MaxRank
          LayoutT,    \* layout: set of sequence lengths
          ParamSeq,   \* table: sequence of flavour/parameter records           (AttentionMC)
          QuerySeq,   \* table: sequence of integer query vectors
          KeySeq,     \* table: sequence of key contents [T, kb, keep, val]
          TableIdx    \* table: set of index triples <<p, q, k>> into the three sequences
                      \* (the state holds the small triple, not the contents)

(***************************************************************************)
(* Declarative semantics: the masked convex combination                    *)
(*   w    : 1..T -> positive rationals (unnormalised attention weights)    *)
(*   keep : non-empty subset of 1..T   (mask = TRUE)                       *)
(*   val  : 1..T -> (1..Dv -> Int)                                         *)
(***************************************************************************)
SetToSeq(S) == LET RECURSIVE F(_)
                   F(X) == IF X = {} THEN <<>>
                           ELSE LET m == CHOOSE x \in X : \A y \in X : x <= y IN <<m>> \o F(X \ {m})
               IN F(S)
SumOver(S, f) == QSumSeq([j \in 1..Cardinality(S) |-> f[SetToSeq(S)[j]]])

Attend(w, keep, val, Dv) ==
  LET z == SumOver(keep, w)
  IN [d \in 1..Dv |-> QDiv(SumOver(keep, [t \in keep |-> QScale(val[t][d], w[t])]), z)]

(***************************************************************************)
(* Scores in the log domain.  kb[t][j] is the base of key coordinate j at  *)
(* position t (key[t][j] = log kb[t][j]); e[j] is the integer exponent the *)
(* flavour's score function puts on it.                                    *)
(***************************************************************************)
WeightOf(e, base) == QProdSeq([j \in 1..Len(e) |-> QPow(QInt(base[j]), e[j])])
Weights(e, kb, n) == [t \in 1..n |-> WeightOf(e, kb[t])]

Dot(a, b) == LET RECURSIVE S(_)
                 S(j) == IF j = 0 THEN 0 ELSE a[j] * b[j] + S(j - 1)
             IN S(Len(a))
\* y = M x (+ b): M a sequence of rows
MatVec(M, x) == [i \in 1..Len(M) |-> Dot(M[i], x)]
VecAdd(x, y) == [i \in 1..Len(x) |-> x[i] + y[i]]
Transpose(M) == [j \in 1..Len(M[1]) |-> [i \in 1..Len(M) |-> M[i][j]]]

\* exponents of the single-head flavours for query q (integers)
\*   dot:     e = scale * sum_i q_i key_i                     -> e_j = scale * q_j
\*   general: e = sum_i q_i (sum_j W_ij key_j + b_i)          -> e_j = sum_i q_i W_ij  (+ offset q.b)
\*   concat with a zero weight matrix: the score is the same constant at every position -> e = 0
Exponents(p, q, J) ==
  CASE p.fl = "dot" -> [j \in 1..J |-> p.s * q[j]]
    [] p.fl = "gen" -> MatVec(Transpose(p.W), q)
    [] p.fl = "concat0" -> [j \in 1..J |-> 0]

SingleOut(p, q, kc) ==
  Attend(Weights(Exponents(p, q, Len(kc.kb[1])), kc.kb, kc.T), kc.keep, kc.val, Len(kc.val[1]))

(***************************************************************************)
(* Multi-headed attention: project (bias exactly where requested), attend  *)
(* per head with the wrapped dot-product attention, concatenate, project.  *)
(* p.WQ, p.WK, p.WV: one matrix per head (sequence of rows); p.WC: rows of *)
(* the output projection over the concatenated heads; p.bQ ... p.bC the    *)
(* biases and p.use = subset of {"Q","K","V","C"} for which one was        *)
(* requested; p.s the wrapped attention's scale factor.                    *)
(***************************************************************************)
Heads(p) == 1..Len(p.WQ)
HeadQuery(p, h, q) == IF "Q" \in p.use THEN VecAdd(MatVec(p.WQ[h], q), p.bQ[h]) ELSE MatVec(p.WQ[h], q)
\* key side in the log domain: key_h[t][i] = sum_j WK_h[i][j] log kb[t][j] (+ bK_h[i], an offset
\* that is the same for every t), so the exponent on base j is  s * sum_i qh_i WK_h[i][j]
HeadExponents(p, h, q) ==
  LET qh == HeadQuery(p, h, q)
  IN [j \in 1..Len(p.WK[h][1]) |-> p.s * Dot(qh, [i \in 1..Len(qh) |-> p.WK[h][i][j]])]
HeadValue(p, h, v) == IF "V" \in p.use THEN VecAdd(MatVec(p.WV[h], v), p.bV[h]) ELSE MatVec(p.WV[h], v)
HeadOut(p, h, q, kc) ==
  LET dv == Len(p.WV[h])
  IN Attend(Weights(HeadExponents(p, h, q), kc.kb, kc.T), kc.keep,
            [t \in 1..kc.T |-> HeadValue(p, h, kc.val[t])], dv)
\* concatenation: head 1's coordinates first
Concat(p, q, kc) ==
  LET dv == Len(p.WV[1])
  IN [c \in 1..(dv * Len(p.WQ)) |-> HeadOut(p, ((c - 1) \div dv) + 1, q, kc)[((c - 1) % dv) + 1]]
MultiHeadOut(p, q, kc) ==
  LET cat == SubSeq(Concat(p, q, kc), 1, Len(p.WV[1]) * Len(p.WQ))
  IN [o \in 1..Len(p.WC) |->
        QAdd(QSumSeq([c \in 1..Len(cat) |-> QScale(p.WC[o][c], cat[c])]),
             IF "C" \in p.use THEN QInt(p.bC[o]) ELSE QZero)]

Out(p, q, kc) == IF p.fl = "mha" THEN MultiHeadOut(p, q, kc) ELSE SingleOut(p, q, kc)

(***************************************************************************)
(* Shape algebra.  Shapes are sequences of positive integers.  A layout:   *)
(*   lead : the broadcast leading shape E* (result without the value dim)  *)
(*   d    : 0-based position of the sequence dimension T in the key        *)
(*   T    : sequence length,  neg : whether `dim` is given as a negative   *)
(*   qs   : the query's leading shape A* (entries lead[i] or 1)            *)
(*   ks   : the key's/value's/mask's leading dims (entries lead[i] or 1)   *)
(* key = ks[1..d] o <<T>> o ks[d+1..] o <<k>>, value likewise, mask        *)
(* without the last entry, query = qs o <<q>>.                             *)
(***************************************************************************)
BDim(a, b) == IF a = b THEN a ELSE IF a = 1 THEN b ELSE IF b = 1 THEN a ELSE 0   \* 0: not broadcastable
BShape(s1, s2) == [i \in 1..Len(s1) |-> BDim(s1[i], s2[i])]                      \* equal ranks
Insert(s, pos, x) == SubSeq(s, 1, pos) \o <<x>> \o SubSeq(s, pos + 1, Len(s))   \* before 0-based pos
Remove(s, pos) == SubSeq(s, 1, pos) \o SubSeq(s, pos + 2, Len(s))               \* 0-based pos
KeyRank(ks) == Len(ks)

\* the library's contract (documentation of GlobalSoftAttention + check_input), on full shapes
\* (feature sizes included as last entries); dim as passed by the caller
DimLegal(K, dim) == (dim >= 0 /\ dim <= K - 2) \/ (dim <= -2 /\ dim >= -(K - 1))
NormDim(K, dim) == IF dim >= 0 THEN dim ELSE K + dim
Legal(qsh, ksh, vsh, msh, dim) ==
  LET K == Len(ksh)
  IN /\ K >= 2 /\ Len(qsh) = K - 1 /\ Len(vsh) = K /\ Len(msh) = K - 1
     /\ DimLegal(K, dim)
     /\ LET dn == NormDim(K, dim)
            qe == Insert(SubSeq(qsh, 1, K - 2), dn, 1)       \* query.unsqueeze(dim), features dropped
            ke == SubSeq(ksh, 1, K - 1)
            es == BShape(qe, ke)
        IN /\ \A i \in 1..(K - 1) : es[i] # 0
           /\ msh = ke /\ SubSeq(vsh, 1, K - 1) = ke          \* documented: same (B*, T, C*)
OutShape(qsh, ksh, vsh, dim) ==
  LET K == Len(ksh)
      dn == NormDim(K, dim)
      es == BShape(Insert(SubSeq(qsh, 1, K - 2), dn, 1), SubSeq(ksh, 1, K - 1))
  IN Remove(es, dn) \o <<vsh[K]>>

Sizes == {1, 2}
Shapes(r) == [1..r -> Sizes]
Narrowings(lead) == {s \in Shapes(Len(lead)) : \A i \in 1..Len(lead) : s[i] = lead[i] \/ s[i] = 1}
\* constructive enumeration: choose the result shape, narrow it independently for query and key
\* (every result dimension must be supplied by at least one of them), place T, choose the sign of dim
\* (a negative dim cannot name key dimension 0: documented range)
LayoutsOf(lead) ==
  {[lead |-> lead, d |-> d, T |-> tt, neg |-> neg, qs |-> qs, ks |-> ks] :
     d \in 0..Len(lead), tt \in LayoutT, neg \in BOOLEAN, qs \in Narrowings(lead), ks \in Narrowings(lead)}
WellLayout(l) ==
  /\ \A i \in 1..Len(l.lead) : BDim(l.qs[i], l.ks[i]) = l.lead[i]
  /\ (l.neg => l.d >= 1)
Layouts == {l \in UNION {LayoutsOf(lead) : lead \in UNION {Shapes(r) : r \in 0..MaxRank}} : WellLayout(l)}
FeatQ == 2
FeatK == 2
FeatV == 2
QShape(l) == l.qs \o <<FeatQ>>
KShape(l) == Insert(l.ks, l.d, l.T) \o <<FeatK>>
VShape(l) == Insert(l.ks, l.d, l.T) \o <<FeatV>>
MShape(l) == Insert(l.ks, l.d, l.T)
DimArg(l) == IF l.neg THEN l.d - (Len(l.lead) + 2) ELSE l.d

\* index maps: output multi-index i (over lead) -> index into the query / key leading dims
Indices(sh) == {i \in [1..Len(sh) -> 0..1] : \A j \in 1..Len(sh) : i[j] < sh[j]}
Project(i, sh) == [j \in 1..Len(sh) |-> IF sh[j] = 1 THEN 0 ELSE i[j]]

(***************************************************************************)
(* State                                                                   *)
(***************************************************************************)
VARIABLES mode,
          \* core machine
          T, w, keep, val, phase, sc, a, res,
          \* layout / table: the chosen element
          item
vars == <<mode, T, w, keep, val, phase, sc, a, res, item>>

NonEmptySubsets(S) == SUBSET S \ {{}}

\* table mode: the item is a triple of indices into the constant sequences
ItP == ParamSeq[item[1]]
ItQ == QuerySeq[item[2]]
ItK == KeySeq[item[3]]

InitCore ==
  /\ mode = "core"
  /\ T \in 1..CoreT
  /\ w \in [1..T -> CoreW]
  /\ keep \in NonEmptySubsets(1..T)
  /\ val \in [1..T -> CoreV]
  /\ phase = "score" /\ sc = <<>> /\ a = <<>> /\ res = QZero /\ item = 0
InitLayout ==
  /\ mode = "layout"
  /\ item \in Layouts
  /\ T = 0 /\ w = <<>> /\ keep = {} /\ val = <<>> /\ phase = "new" /\ sc = <<>> /\ a = <<>> /\ res = QZero
InitTable ==
  /\ mode = "table"
  /\ item \in TableIdx
  /\ T = 0 /\ w = <<>> /\ keep = {} /\ val = <<>> /\ phase = "new" /\ sc = <<>> /\ a = <<>> /\ res = QZero
Init == InitCore \/ InitLayout \/ InitTable

\* code: e = score(query, key)             (here: the rational weights exp(e) themselves)
Score == /\ mode = "core" /\ phase = "score"
         /\ sc' = [t \in 1..T |-> QInt(w[t])]
         /\ phase' = "scored"
         /\ UNCHANGED <<mode, T, w, keep, val, a, res, item>>
\* code: e = e.masked_fill(~mask, -inf)    (exp(-inf) = 0)
Mask == /\ mode = "core" /\ phase = "scored"
        /\ sc' = [t \in 1..T |-> IF t \in keep THEN sc[t] ELSE QZero]
        /\ phase' = "masked"
        /\ UNCHANGED <<mode, T, w, keep, val, a, res, item>>
\* code: a = softmax(e, dim)
Softmax == /\ mode = "core" /\ phase = "masked"
           /\ a' = [t \in 1..T |-> QDiv(sc[t], QSumSeq(sc))]
           /\ phase' = "soft"
           /\ UNCHANGED <<mode, T, w, keep, val, sc, res, item>>
\* code: (a.unsqueeze(-1) * value).sum(dim)
WeightedSum == /\ mode = "core" /\ phase = "soft"
               /\ res' = QSumSeq([t \in 1..T |-> QScale(val[t], a[t])])
               /\ phase' = "done"
               /\ UNCHANGED <<mode, T, w, keep, val, sc, a, item>>
\* layout / table items are evaluated on a successor state (so that TLC's workers share the work)
Evaluate == /\ mode # "core" /\ phase = "new" /\ phase' = "done"
            /\ res' = IF mode = "table"
                      THEN LET o == Out(ItP, ItQ, ItK) IN SubSeq(o, 1, Len(o))
                      ELSE QZero
            /\ UNCHANGED <<mode, T, w, keep, val, sc, a, item>>
Next == Score \/ Mask \/ Softmax \/ WeightedSum \/ Evaluate
Spec == Init /\ [][Next]_vars

(***************************************************************************)
(* Design invariants: core                                                 *)
(***************************************************************************)
CoreDone == mode = "core" /\ phase = "done"
Decl(ww, kk, vv) == Attend([t \in 1..T |-> QInt(ww[t])], kk, [t \in 1..T |-> <<vv[t]>>], 1)[1]
MinOfSet(S) == CHOOSE x \in S : \A y \in S : x <= y
MaxOfSet(S) == CHOOSE x \in S : \A y \in S : x >= y

MachineIsDeclarative == CoreDone => res = Decl(w, keep, val)
WeightsAreDistribution == (mode = "core" /\ phase \in {"soft", "done"}) =>
  /\ QSumSeq(a) = QOne
  /\ \A t \in 1..T : (t \in keep => QLt(QZero, a[t])) /\ (t \notin keep => a[t] = QZero)
Convex == CoreDone =>
  /\ QLe(QInt(MinOfSet({val[t] : t \in keep})), res)
  /\ QLe(res, QInt(MaxOfSet({val[t] : t \in keep})))
\* whatever sits at masked positions (weights and values) does not matter
MaskBlind == CoreDone =>
  LET masked == (1..T) \ keep
  IN \A w2 \in [masked -> CoreW], v2 \in [masked -> CoreV] :
       Decl([t \in 1..T |-> IF t \in keep THEN w[t] ELSE w2[t]], keep,
            [t \in 1..T |-> IF t \in keep THEN val[t] ELSE v2[t]]) = res
Perms == {f \in [1..T -> 1..T] : \A x, y \in 1..T : x # y => f[x] # f[y]}
PermutationInvariant == CoreDone =>
  \A f \in Perms : Decl([t \in 1..T |-> w[f[t]]], {t \in 1..T : f[t] \in keep}, [t \in 1..T |-> val[f[t]]]) = res
\* a factor common to all positions (a score offset that does not depend on t) cancels
ScaleInvariant == CoreDone => \A c \in 1..3 : Decl([t \in 1..T |-> c * w[t]], keep, val) = res

(***************************************************************************)
(* Lemmas that carry the small universe to LONG sequences (the harness     *)
(* builds sequences of 1024..2548 positions from every exported case).     *)
(* g : 1..n -> 0..T tells which position of the case a position of the     *)
(* long sequence repeats (weight, value and mask bit); 0 = an extra        *)
(* position that is masked and holds anything.  Every position of the case *)
(* is repeated the same number of times c >= 1, in any places.             *)
(*  EmbedInvariant   (c = 1): a case over T positions equals the case over *)
(*    n > T positions in which the n - T extra positions are masked,       *)
(*    wherever the T positions are placed (in their order; any other order *)
(*    is PermutationInvariant);                                            *)
(*  ReplicaInvariant (c >= 2): repeating every position c times (and       *)
(*    adding masked positions) does not change the result either: both the *)
(*    numerator and the normaliser are multiplied by c.                    *)
(***************************************************************************)
DeclN(n, ww, kk, vv) == Attend([t \in 1..n |-> QInt(ww[t])], kk, [t \in 1..n |-> <<vv[t]>>], 1)[1]
CountOf(g, n, t) == Cardinality({x \in 1..n : g[x] = t})
ReplicaMaps(tt, n) == {g \in [1..n -> 0..tt] :
                         CountOf(g, n, 1) >= 1 /\ \A t \in 2..tt : CountOf(g, n, t) = CountOf(g, n, 1)}
\* evaluated once (a constant): the maps for every case length and every long length
ReplicaTable == [tt \in 1..CoreT |-> [n \in 1..EmbedT |-> ReplicaMaps(tt, n)]]
LongDecl(n, g, w2, v2) ==
  DeclN(n, [x \in 1..n |-> IF g[x] = 0 THEN w2[x] ELSE w[g[x]]],
        {x \in 1..n : g[x] # 0 /\ g[x] \in keep},
        [x \in 1..n |-> IF g[x] = 0 THEN v2[x] ELSE val[g[x]]])
Increasing(g, n) == \A x, y \in 1..n : (x < y /\ g[x] # 0 /\ g[y] # 0) => g[x] < g[y]
LongAgrees(count1) ==
  \A n \in (T + 1)..EmbedT :
    \A g \in {h \in ReplicaTable[T][n] : (CountOf(h, n, 1) = 1) = count1 /\ (count1 => Increasing(h, n))} :
      LET free == {x \in 1..n : g[x] = 0}
      IN \A w2 \in [free -> CoreW], v2 \in [free -> CoreV] : LongDecl(n, g, w2, v2) = res
EmbedInvariant == CoreDone => LongAgrees(TRUE)
ReplicaInvariant == CoreDone => LongAgrees(FALSE)

(***************************************************************************)
(* Design invariants: layout                                               *)
(***************************************************************************)
IsLayout == mode = "layout" /\ phase = "done"
LayoutIsLegal == IsLayout => Legal(QShape(item), KShape(item), VShape(item), MShape(item), DimArg(item))
LayoutOutShape == IsLayout =>
  OutShape(QShape(item), KShape(item), VShape(item), DimArg(item)) = item.lead \o <<FeatV>>
\* conversely every legal shape combination of the bounded universe is one of the layouts
\* (checked once, from the layout with the smallest shapes)
AllFullShapes(r, last) == {sh \o <<last>> : sh \in Shapes(r)}
LegalIsLayout ==
  (IsLayout /\ item.lead = <<>> /\ item.T = MinOfSet(LayoutT) /\ ~item.neg) =>
    \A r \in 0..MaxRank :
      \A qsh \in AllFullShapes(r, FeatQ), sh \in Shapes(r), dd \in 0..r, tt \in LayoutT :
        \A dim \in {dd, dd - (r + 2)} :
          LET msh == Insert(sh, dd, tt)
          IN Legal(qsh, msh \o <<FeatK>>, msh \o <<FeatV>>, msh, dim) =>
               \E l \in Layouts : QShape(l) = qsh /\ MShape(l) = msh /\ DimArg(l) = dim /\ l.d = dd
\* shapes the contract rejects: wrong ranks, a dim out of range, non-broadcastable sizes
IllegalRejected ==
  (IsLayout /\ item.lead = <<>> /\ item.T = MinOfSet(LayoutT) /\ ~item.neg) =>
    /\ ~Legal(<<2, FeatQ>>, <<2, 2, FeatK>>, <<2, 2, FeatV>>, <<2, 2>>, 2)      \* dim names the features
    /\ ~Legal(<<2, FeatQ>>, <<2, 2, FeatK>>, <<2, 2, FeatV>>, <<2, 2>>, -1)
    /\ ~Legal(<<2, FeatQ>>, <<2, 2, FeatK>>, <<2, 2, FeatV>>, <<2, 2>>, -3)     \* below the documented range
    /\ ~Legal(<<FeatQ>>, <<2, 2, FeatK>>, <<2, 2, FeatV>>, <<2, 2>>, 0)         \* query rank
    /\ ~Legal(<<2, FeatQ>>, <<3, 3, FeatK>>, <<3, 3, FeatV>>, <<3, 3>>, 0)      \* 2 against 3
\* broadcasting = explicit expansion: reading the query through the projected index equals
\* reading the explicitly expanded query (whose index map is the identity), for every output index
BroadcastIsExpand == IsLayout =>
  \A i \in Indices(item.lead) :
     /\ Project(Project(i, item.qs), item.qs) = Project(i, item.qs)
     /\ Project(i, item.lead) = i
     /\ Project(i, item.qs) \in Indices(item.qs) /\ Project(i, item.ks) \in Indices(item.ks)

(***************************************************************************)
(* Design invariants: table                                                *)
(***************************************************************************)
IsTable == mode = "table" /\ phase = "done"
TableConvexSingle == (IsTable /\ ItP.fl # "mha") =>
  \A d \in 1..Len(res) :
     /\ QLe(QInt(MinOfSet({ItK.val[t][d] : t \in ItK.keep})), res[d])
     /\ QLe(res[d], QInt(MaxOfSet({ItK.val[t][d] : t \in ItK.keep})))
\* a bias on the key projection shifts every score of a head by the same amount: the model's
\* output does not contain it (and must therefore not depend on whether "K" is requested)
KeyBiasInvisible == (IsTable /\ ItP.fl = "mha") =>
  (("K" \in ItP.use) =>
     LET o == Out([ItP EXCEPT !.use = ItP.use \ {"K"}], ItQ, ItK) IN res = SubSeq(o, 1, Len(o)))

(***************************************************************************)
(* Export                                                                  *)
(***************************************************************************)
Emit(rec) == PrintT(<<"VFJ", ToJson(rec)>>)
Export ==
  /\ IsLayout => Emit([kind |-> "layout", lead |-> item.lead, d |-> item.d, T |-> item.T,
                       dim |-> DimArg(item), qs |-> item.qs, ks |-> item.ks,
                       qshape |-> QShape(item), kshape |-> KShape(item), vshape |-> VShape(item),
                       mshape |-> MShape(item),
                       out |-> OutShape(QShape(item), KShape(item), VShape(item), DimArg(item))])
  /\ IsTable => Emit([kind |-> "table", p |-> ItP, q |-> ItQ,
                      kc |-> [T |-> ItK.T, kb |-> ItK.kb, keep |-> SetToSeq(ItK.keep),
                              val |-> ItK.val],
                      out |-> res])
=============================================================================
