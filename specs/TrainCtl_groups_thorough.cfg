\* design check, parameter groups (thorough): every optimizer set-up x 512 parameter settings x every metric history
\* of length <= 5 over 3 levels, restarts anywhere
INIT Init
NEXT Next
CONSTANTS
  ParamSpace <- ParamsGroupsThorough
  Levels <- L3
  MaxLen = 5
INVARIANT TypeOK
INVARIANT StopRule
INVARIANT ReduceRule
INVARIANT ReduceOnlyOnFire
INVARIANT OptimizerHasRate
INVARIANT ReductionWritten
INVARIANT RestartTransparent
PROPERTY TouchedOnlyToReduce
CHECK_DEADLOCK FALSE
