\* every complete behaviour (event history kept) for n <= 4 items, chunk size 1 (items = chunks; chunking itself is covered by WorkerPool_design.cfg), 1..4 workers, both disciplines
INIT Init
NEXT Next
CONSTANTS
  Ns = {1, 2, 3, 4}
  Cs = {1}
  Ws = {1, 2, 3, 4}
  Modes = {"ordered", "unordered"}
  KeepHist = TRUE
INVARIANT TypeOK
INVARIANT OrderedOK
INVARIANT OrderedPrefix
INVARIANT UnorderedOK
INVARIANT Progress
INVARIANT Export
VIEW AnonView
CHECK_DEADLOCK FALSE
