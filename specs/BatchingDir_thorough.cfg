\* histories of two length-bucketed loaders over one directory with two renditions of <= 4 utterances (lengths 1..2, dynamic batch sizes): loader, optional regeneration of a rendition, loader (same parameters); every directory, every choice of renditions; all flush orders
INIT DInit
NEXT DNext
CONSTANTS
  MaxN = 4
  MaxB = 2
  MaxSize = 2
  MaxLen = 2
  Sources = {"lengths"}
  Renditions = {"a", "b"}
  MaxLoaders = 2
  DynSet = {TRUE, FALSE}
  SameParams = TRUE
INVARIANT HTypeOK
INVARIANT HConservation
INVARIANT HExactlyOnceOrDropped
INVARIANT HSingleBucketInOrder
INVARIANT HSizesAndTrailing
INVARIANT HPredictedIsActual
INVARIANT HLengthClasses
INVARIANT HDynamicSizes
INVARIANT HBatchesArePure
INVARIANT ClassesOfServedData
INVARIANT BatchesPureOnDisk
CHECK_DEADLOCK FALSE
INVARIANT ExportHist
