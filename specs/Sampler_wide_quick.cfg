\* every (N <= 8, W <= 4, mode, kind): one epoch, ranks in order, no interleaving; all permutations (lazily) for the random kind up to N = 4
INIT Init
NEXT Next
CONSTANTS
  MaxN = 8
  MaxW = 4
  ModeSet <- AllModes
  KindSet <- BothKinds
  RandomMaxN = 4
  Seeds = {1}
  MaxEpoch = 0
  MaxOps = 1000
  Schedule = "ordered"
  Features <- NoFeatures
VIEW View
INVARIANT TypeOK
INVARIANT RefusesExactly
INVARIANT CoordinatesAgree
INVARIANT LenIsYielded
INVARIANT PathIndependent
INVARIANT LivePrefixes
INVARIANT WellFormedLists
INVARIANT Disjoint
INVARIANT Cover
INVARIANT IgnoreGivesAll
INVARIANT SliceOfFull
INVARIANT SequentialIsIdentity
CHECK_DEADLOCK FALSE
INVARIANT ExportCases
