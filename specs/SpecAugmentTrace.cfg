\* batched trace validation (run with -workers 1, TRACE_FILE in the environment)
INIT TInit
NEXT TNext
CONSTANTS
  MaxT = 1
  MaxF = 1
  MaskWs = {0}
  Props4 = {0}
  Nums = {0}
  Warps2 = {0}
  ApplyT = 1
  ApplyF = 1
  ApplyMasks = 0
  HullVals = {0}
  HullOff = 0
  HullDen = 1
INVARIANT Accept
INVARIANT Informational
POSTCONDITION AllAccepted
CHECK_DEADLOCK FALSE
