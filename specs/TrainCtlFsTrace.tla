--------------------------- MODULE TrainCtlFsTrace ---------------------------
(***************************************************************************)
(* code -> spec for C16: file-system events recorded from the REAL          *)
(* TrainingStateController (crash-free runs, FsInterposer) are replayed     *)
(* through the GENERIC file-system primitives (no particular order of calls *)
(* is prescribed) and the crash-consistency invariants of TrainCtlFs are    *)
(* evaluated after EVERY event, i.e. at every point where the process could *)
(* have died.  A re-ordering of the calls that opens a window in which the  *)
(* last or best checkpoint is not loadable is rejected even though no crash *)
(* was injected there; a harmless re-ordering is accepted.                  *)
(*                                                                         *)
(* A checkpoint's content is the epoch whose state it holds and, for the    *)
(* optimizer, the learning rate it carries (number of reductions).  What    *)
(* the optimizer state of epoch e has to carry is the rate TrainCtl         *)
(* (instantiated with the run's parameters T.p) records for e; with         *)
(* T.best_is_train "best" goes by the training metric.                      *)
(* A model file also holds the set of parameters that was written (Ev.keys: *)
(* the state-dict keys without the prefix a wrapper gives them); it is      *)
(* loadable only if that is the parameter set of the live model of the      *)
(* run's kind T.kind (TrainCtlModel: plain / DataParallel / user wrapper).  *)
(***************************************************************************)
EXTENDS Naturals, Integers, Sequences, FiniteSets, TLC, Json, IOUtils, TLCExt, TrainCtlModel

Traces == JsonDeserialize(IOEnv.TRACE_FILE)
INF == 1000

VARIABLES i,      \* which recorded run
          pos,    \* events consumed
          hist,   \* history file: [v |-> validation metric, t |-> training metric] per row
          fs,     \* <<kind, epoch>> -> [e |-> epoch whose state it holds, k |-> rate it carries, keys |-> entries]
          tmps    \* tmp id -> content
vars == <<i, pos, hist, fs, tmps>>

T == Traces[i]
Ev == T.events[pos + 1]
Put(f, n, c) == [x \in DOMAIN f \cup {n} |-> IF x = n THEN c ELSE f[x]]
Drop(f, n) == [x \in DOMAIN f \ {n} |-> f[x]]
ValAt(h, e) == IF e = 0 THEN INF ELSE IF T.best_is_train THEN h[e].t ELSE h[e].v
Best(h) == CHOOSE b \in 0..Len(h) : /\ \A e \in 0..Len(h) : ValAt(h, b) <= ValAt(h, e)
                                    /\ \A e \in 0..Len(h) : ValAt(h, e) = ValAt(h, b) => b <= e
Nm(kind, e) == <<kind, e>>
\* TrainCtl's decisions for this run's parameters: the rate recorded for epoch e of the history h
TC(h) == INSTANCE TrainCtl WITH p <- T.p, ParamSpace <- {}, Levels <- {}, MaxLen <- 0, hist <- h,
                                cache <- <<>>, conts <- <<>>, optlr <- 0, ckpt <- <<>>, decl <- <<>>, fresh <- FALSE
RowsFor(h) == LET f[n \in 0..Len(h)] == IF n = 0 THEN <<>>
                                        ELSE Append(f[n - 1], TC(f[n - 1])!Update(TC(f[n - 1])!FromHist(f[n - 1]), h[n].v))
              IN f[Len(h)]
LrkOf(e) == RowsFor(hist)[e].lrk
Nothing == [e |-> 0, k |-> 0, keys |-> {}]
KeySet(l) == {l[j] : j \in 1..Len(l)}
Loadable(e) == /\ Nm("m", e) \in DOMAIN fs /\ fs[Nm("m", e)].e = e /\ fs[Nm("m", e)].keys = LiveKeys(T.kind)
               /\ Nm("o", e) \in DOMAIN fs /\ fs[Nm("o", e)] = [e |-> e, k |-> LrkOf(e), keys |-> {}]

Init == /\ i \in 1..Len(Traces) /\ pos = 0 /\ hist = <<>> /\ fs = <<>> /\ tmps = <<>>

\* generic primitives
MkTmp  == Ev.op = "mktemp"  /\ tmps' = Put(tmps, Ev.t, Nothing) /\ UNCHANGED <<hist, fs>>
Write  == Ev.op = "write"   /\ Ev.t \in DOMAIN tmps /\ tmps' = Put(tmps, Ev.t, [e |-> Ev.c, k |-> Ev.k, keys |-> KeySet(Ev.keys)]) /\ UNCHANGED <<hist, fs>>
Replace == /\ Ev.op = "replace" /\ Ev.t \in DOMAIN tmps
           /\ fs' = Put(fs, Nm(Ev.kind, Ev.e), tmps[Ev.t]) /\ tmps' = Drop(tmps, Ev.t) /\ UNCHANGED hist
AppendRow == /\ Ev.op = "append" /\ Ev.e = Len(hist) + 1
             /\ hist' = Append(hist, [v |-> Ev.v, t |-> Ev.tv]) /\ UNCHANGED <<fs, tmps>>
Remove == /\ Ev.op = "remove" /\ Nm(Ev.kind, Ev.e) \in DOMAIN fs
          /\ fs' = Drop(fs, Nm(Ev.kind, Ev.e)) /\ UNCHANGED <<hist, tmps>>
Other == Ev.op \in {"makedirs", "begin", "end"} /\ UNCHANGED <<hist, fs, tmps>>

Next == /\ pos < Len(T.events)
        /\ (MkTmp \/ Write \/ Replace \/ AppendRow \/ Remove \/ Other)
        /\ pos' = pos + 1 /\ i' = i

\* invariants of TrainCtlFs, at every event boundary
LastLoadable == Len(hist) > 0 => Loadable(Len(hist))
BestLoadable == Best(hist) > 0 => Loadable(Best(hist))
AllLoadable == ~T.keep_lb => \A e \in 1..Len(hist) : Loadable(e)
\* after a completed update: exactly the files of last and best; the model saw every mutation
AtEnd == pos > 0 /\ T.events[pos].op = "end"
ExactlyTwo == (AtEnd /\ T.keep_lb) =>
                 DOMAIN fs = {Nm("m", Len(hist)), Nm("o", Len(hist)), Nm("m", Best(hist)), Nm("o", Best(hist))}
ModelSawEverything == AtEnd => /\ {<<f[1], f[2]>> : f \in {T.events[pos].files[j] : j \in 1..Len(T.events[pos].files)}} = DOMAIN fs
                               /\ T.events[pos].e = Len(hist)

\* acceptance: every trace consumed to its end
Emit(rec) == PrintT(<<"VFJ", ToJson(rec)>>)
Accept == pos = Len(T.events) => Emit([tid |-> T.tid, accepted |-> TRUE])
\* a trace that gets stuck (no primitive matches the event) is reported by the harness as not accepted
=============================================================================
