--------------------------- MODULE TrainCtlFsTrace ---------------------------
(***************************************************************************)
(* code -> spec for C16: file-system events recorded from the REAL          *)
(* TrainingStateController (crash-free runs, FsInterposer) are replayed     *)
(* through the GENERIC file-system primitives (no particular order of calls *)
(* is prescribed) and the crash-consistency invariants of TrainCtlFs are    *)
(* evaluated after EVERY event, i.e. at every point where the process could *)
(* have died.  A re-ordering of the calls that opens a window in which the  *)
(* last or best checkpoint is not loadable is rejected even though no crash *)
(* was injected there; a harmless re-ordering is accepted.                  *)
(***************************************************************************)
EXTENDS Naturals, Integers, Sequences, FiniteSets, TLC, Json, IOUtils, TLCExt

Traces == JsonDeserialize(IOEnv.TRACE_FILE)
INF == 1000

VARIABLES i,      \* which recorded run
          pos,    \* events consumed
          hist,   \* history file (validation metrics)
          fs,     \* <<kind, epoch>> -> content
          tmps    \* tmp id -> content
vars == <<i, pos, hist, fs, tmps>>

T == Traces[i]
Ev == T.events[pos + 1]
Put(f, n, c) == [x \in DOMAIN f \cup {n} |-> IF x = n THEN c ELSE f[x]]
Drop(f, n) == [x \in DOMAIN f \ {n} |-> f[x]]
ValAt(h, e) == IF e = 0 THEN INF ELSE h[e]
Best(h) == CHOOSE b \in 0..Len(h) : /\ \A e \in 0..Len(h) : ValAt(h, b) <= ValAt(h, e)
                                    /\ \A e \in 0..Len(h) : ValAt(h, e) = ValAt(h, b) => b <= e
Nm(kind, e) == <<kind, e>>
Loadable(e) == /\ Nm("m", e) \in DOMAIN fs /\ fs[Nm("m", e)] = e
               /\ Nm("o", e) \in DOMAIN fs /\ fs[Nm("o", e)] = e

Init == /\ i \in 1..Len(Traces) /\ pos = 0 /\ hist = <<>> /\ fs = <<>> /\ tmps = <<>>

\* generic primitives
MkTmp  == Ev.op = "mktemp"  /\ tmps' = Put(tmps, Ev.t, 0) /\ UNCHANGED <<hist, fs>>
Write  == Ev.op = "write"   /\ Ev.t \in DOMAIN tmps /\ tmps' = Put(tmps, Ev.t, Ev.c) /\ UNCHANGED <<hist, fs>>
Replace == /\ Ev.op = "replace" /\ Ev.t \in DOMAIN tmps
           /\ fs' = Put(fs, Nm(Ev.kind, Ev.e), tmps[Ev.t]) /\ tmps' = Drop(tmps, Ev.t) /\ UNCHANGED hist
AppendRow == /\ Ev.op = "append" /\ Ev.e = Len(hist) + 1
             /\ hist' = Append(hist, Ev.v) /\ UNCHANGED <<fs, tmps>>
Remove == /\ Ev.op = "remove" /\ Nm(Ev.kind, Ev.e) \in DOMAIN fs
          /\ fs' = Drop(fs, Nm(Ev.kind, Ev.e)) /\ UNCHANGED <<hist, tmps>>
Other == Ev.op \in {"makedirs", "begin", "end"} /\ UNCHANGED <<hist, fs, tmps>>

Next == /\ pos < Len(T.events)
        /\ (MkTmp \/ Write \/ Replace \/ AppendRow \/ Remove \/ Other)
        /\ pos' = pos + 1 /\ i' = i

\* invariants of TrainCtlFs, at every event boundary
LastLoadable == Len(hist) > 0 => Loadable(Len(hist))
BestLoadable == Best(hist) > 0 => Loadable(Best(hist))
AllLoadable == ~T.keep_lb => \A e \in 1..Len(hist) : Loadable(e)
\* after a completed update: exactly the files of last and best; the model saw every mutation
AtEnd == pos > 0 /\ T.events[pos].op = "end"
ExactlyTwo == (AtEnd /\ T.keep_lb) =>
                 DOMAIN fs = {Nm("m", Len(hist)), Nm("o", Len(hist)), Nm("m", Best(hist)), Nm("o", Best(hist))}
ModelSawEverything == AtEnd => /\ {<<f[1], f[2]>> : f \in {T.events[pos].files[j] : j \in 1..Len(T.events[pos].files)}} = DOMAIN fs
                               /\ T.events[pos].e = Len(hist)

\* acceptance: every trace consumed to its end
Emit(rec) == PrintT(<<"VFJ", ToJson(rec)>>)
Accept == pos = Len(T.events) => Emit([tid |-> T.tid, accepted |-> TRUE])
\* a trace that gets stuck (no primitive matches the event) is reported by the harness as not accepted
=============================================================================
