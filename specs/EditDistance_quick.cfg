\* exhaustive: every padded ref/hyp row of length 1..3 over {eos,1,2}, 7 cost triples, 3 eos modes
INIT Init
NEXT Next
CONSTANTS
  MaxR = 3
  MaxH = 3
  Tokens = {1, 2}
  CostSet <- CostsQuick
  Modes <- AllModes
  CheckDecl = FALSE
  Given <- NoGiven
  WithRange = TRUE
INVARIANT TypeOK
INVARIANT RowIsLevenshtein
INVARIANT MistakeCostsAgree
INVARIANT MistakesInRange
INVARIANT Frozen
INVARIANT Export
CHECK_DEADLOCK FALSE
