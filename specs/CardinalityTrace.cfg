\* batched trace validation (run with -workers 1, TRACE_FILE in the environment)
INIT TInit
NEXT TNext
CONSTANTS
  MaxTotal = 0
  MaxPad = 0
  BinomN = 0
  VocabMaxLen = 0
  VocabMaxV = 1
INVARIANT CountsOK
INVARIANT Accept
POSTCONDITION AllAccepted
CHECK_DEADLOCK FALSE
