\* exhaustive: reward sequences of length 1..4 over {-1,0,2}, gamma in {0, 1/2, 1, 2, 3, 3/2}
INIT Init
NEXT Next
CONSTANTS
  MaxLen = 4
  RVals <- RValsQ
  Gammas <- GammasQ
INVARIANT ReturnIsRecurrence
INVARIANT ClosedFormIsRecurrence
INVARIANT Export
CHECK_DEADLOCK FALSE
