\* exhaustive: reward sequences of length 1..4 over {-1,0,2}, gamma in {0, 1/2, 1, 2, 3, 3/2}
\* (the long-sequence lemmas are checked in FeatStatsReturn_long.cfg, on the cases that get embedded, and in the thorough cfg)
INIT Init
NEXT Next
CONSTANTS
  MaxLen = 4
  RVals <- RValsQ
  Gammas <- GammasQ
  PadMax = 3
INVARIANT ReturnIsRecurrence
INVARIANT ClosedFormIsRecurrence
INVARIANT Export
CHECK_DEADLOCK FALSE
