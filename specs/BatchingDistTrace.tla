------------------------- MODULE BatchingDistTrace -------------------------
(***************************************************************************)
(* code -> spec for C14 under an initialised process group: recorded JOBS  *)
(* of the real loaders (one object per simulated rank; the recording and   *)
(* the event vocabulary are DistLoaderTrace's, reused unchanged: construct *)
(* / begin / pull / exhaust / yield / finish with the value len(loader)    *)
(* had before the epoch) are consumed through the original actions of      *)
(* DistLoader, and C14's clauses of BatchingDist are required of every     *)
(* finished epoch of every rank, next to the job invariants of DistLoader. *)
(* The never-logged order of a SHUFFLED epoch is inferred (lazily bound    *)
(* permutation), so the length a rank reports can be judged for shuffled   *)
(* loaders too.                                                            *)
(***************************************************************************)
EXTENDS BatchingDist, DistLoaderTrace

C14Inv ==
  /\ LenIsBatchesYielded
  /\ NothingLostPerRank
  /\ BatchesOfOneBucketInOrder
C14Failed ==
  (IF LenIsBatchesYielded THEN {} ELSE {"LenIsBatchesYielded"})
  \cup (IF NothingLostPerRank THEN {} ELSE {"NothingLostPerRank"})
  \cup (IF BatchesOfOneBucketInOrder THEN {} ELSE {"BatchesOfOneBucketInOrder"})

CInit == TInit /\ (Diag \/ C14Inv)
CNext ==
  /\ (Diag => C14Failed = {})
  /\ TNext
  /\ (Diag \/ (done' # done => C14Inv'))

\* C14's own clauses are named first in the diagnosis
CProgress ==
  Diag => Emit([what |-> "progress", tid |-> Traces[ti].tid, pos |-> pos,
                failed |-> IF C14Failed # {} THEN C14Failed ELSE FailedInvs])
=============================================================================
