--------------------------- MODULE EditDistanceMC ---------------------------
(* Model-checking instances of EditDistance: constants that a .cfg cannot hold. *)
EXTENDS EditDistance
\* <<ins, del, sub>>; uniform (shortcut path), mildly and strongly unequal, sub > ins + del
\* <<1,3,3>> and <<3,1,5>>: swapping or dropping ONE of the three costs changes which alignment is optimal
CostsQuick == {<<1, 1, 1>>, <<2, 2, 2>>, <<1, 2, 1>>, <<2, 1, 3>>, <<1, 1, 3>>, <<1, 3, 3>>, <<3, 1, 5>>, <<2, 1, 1>>}
CostsDecl  == {<<1, 1, 1>>, <<1, 2, 1>>, <<2, 1, 3>>, <<1, 1, 3>>}
CostsThorough == CostsQuick \cup {<<1, 2, 3>>, <<3, 1, 1>>, <<1, 3, 2>>, <<2, 3, 1>>, <<3, 3, 1>>}
NoGiven == <<>>
\* a zero cost is a legal cost: free deletions, free insertions, free substitutions, everything free (C01 only: the edit
\* COUNT of an optimal alignment and the completion lemma are not claimed for zero costs)
CostsZero == {<<1, 0, 1>>, <<2, 0, 3>>, <<0, 1, 1>>, <<1, 1, 0>>, <<0, 0, 0>>}
\* long strings: the uniform triple (scaled by non-dyadic factors in the harness: equal costs take the `mult` shortcut, so
\* the result is exact whatever the common cost) and unequal ones whose ties the row machine resolves on integers
CostsLong == {<<1, 1, 1>>, <<1, 2, 1>>, <<2, 1, 3>>, <<2, 1, 1>>}
AllModes == {"none", "excl", "incl"}
=============================================================================
