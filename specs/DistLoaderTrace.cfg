\* batched validation of recorded jobs of the real loaders (run with -workers 1)
INIT TInit
NEXT TNext
CONSTANTS
  MaxN = 64
  MaxW = 8
  ModeSet <- AllModes
  KindSet <- BothKinds
  RandomMaxN = 64
  Seeds = {1}
  MaxEpoch = 2
  MaxOps = 100000
  Schedule = "free"
  Features <- AllFeatures
  MaxSize = 64
  MaxB = 8
  MaxLen = 64
  ClsSet = {"spect", "window"}
  DropSet = {TRUE, FALSE}
  DynSet = {TRUE, FALSE}
INVARIANT Accept
INVARIANT Progress
POSTCONDITION Post
CHECK_DEADLOCK FALSE
