\* exhaustive: batch of 2 walks over every table Hist -> {2 rows}: buffer growth, scatter, lens/eos bookkeeping
INIT Init
NEXT Next
CONSTANTS
  V = 2
  T = 3
  D = 4
  Rows <- Rows2Small
  EosSet <- Eos2
  NB = 2
INVARIANT TypeOK
INVARIANT ChainScores
INVARIANT WalkShape
INVARIANT TerminalInSupport
INVARIANT EosPadding
INVARIANT SupportSumsToOne
CHECK_DEADLOCK FALSE
