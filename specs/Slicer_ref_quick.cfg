\* ref_quick: exhaustive model of the Slicer kinds KRef
INIT Init
NEXT Next
CONSTANTS
  Kinds <- KRef
  WTypes <- AllWTypes
  Lobes = {0,2}
  FixedMaxLen = 0
  AliMaxLen = 0
  Labels = {1,2}
  RefMaxSegs = 2
  RefVals <- RefValsQuick
  RefOthers = {0,2,4}
  TokMaxSegs = 0
  TokSegs <- TokSegsQuick
  TokStarts <- TokStartsQuick
  TokEnds <- TokEndsQuick
  Pool <- ThePool
  Dirs <- DirsQuick
  DirLobes = {0}
  PadModes <- AllPadModes
INVARIANT TypeOK
INVARIANT ScanAgrees
INVARIANT FixedOK
INVARIANT AliOK
INVARIANT RefOK
INVARIANT TokOK
INVARIANT DirOK
INVARIANT TokConcat
INVARIANT FilesOK
INVARIANT Export
CHECK_DEADLOCK FALSE
