\* epoch in file names, keep last and best where best = lowest TRAINING metric (best_is_train); a crash anywhere (two crashes: TrainCtlFs_epoch_lb_trn2.cfg, thorough tier)
INIT Init
NEXT Next
CONSTANTS
  EpochFmt = TRUE
  KeepLB = TRUE
  BestTrain = TRUE
  ModelKind = "data_parallel"
  Params <- FsP0
  MaxE = 4
  MaxCrash = 1
  Levels = {1, 2, 3}
INVARIANT TypeOK
INVARIANT HistoryIsPrefix
INVARIANT LastLoadable
INVARIANT BestLoadable
INVARIANT ExactlyTwo
INVARIANT AllLoadable
INVARIANT Convergent
INVARIANT LiveRate
INVARIANT Export
CHECK_DEADLOCK FALSE
