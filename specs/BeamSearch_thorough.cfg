\* every case: V in {2,3} x 4 table variants x eos unset/each token x finish_all x max_iters 0..3 x widths
INIT Init
NEXT Next
CONSTANTS
  Vs = {2, 3}
  TVs = {0, 1, 2}
  Widths = {1, 2, 3, 4, 7, 100}
  MaxItersS = {0, 1, 2, 3, 4, 5}
  NoEos = NoEos
INVARIANT ScoreIsChain
INVARIANT StopsAtFirstEos
INVARIANT Shape
INVARIANT FullSetWhenWide
INVARIANT Export
INVARIANT ExportStep
CHECK_DEADLOCK FALSE
