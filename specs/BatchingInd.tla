---------------------------- MODULE BatchingInd ----------------------------
(***************************************************************************)
(* C14, unbounded number of utterances: one bucket of the bucketing        *)
(* sampler as a counter machine.  Feeding the k-th index of the bucket     *)
(* appends it to the partial batch and yields the batch when it reaches    *)
(* the bucket's size S.  Inductive invariant (Apalache, symbolic k, i.e.   *)
(* for EVERY number of utterances): the partial batch holds k mod S        *)
(* indices (fewer than S) and k div S full batches have been yielded, so   *)
(* nothing fed is lost: S * yielded + partial = k; with the final flush    *)
(* the number of batches is the length the loaders predict                 *)
(* (_get_batch_sampler_len): k div S when incomplete batches are dropped,  *)
(* its ceiling otherwise.                                                  *)
(***************************************************************************)
EXTENDS Integers

CONSTANT
  \* @type: Int;
  S

VARIABLES
  \* @type: Int;
  k,
  \* @type: Int;
  partial,
  \* @type: Int;
  yielded

Init == k = 0 /\ partial = 0 /\ yielded = 0

Feed ==
  /\ k' = k + 1
  /\ IF partial + 1 = S
     THEN partial' = 0 /\ yielded' = yielded + 1
     ELSE partial' = partial + 1 /\ yielded' = yielded

Next == Feed

IndInv ==
  /\ k >= 0
  /\ partial = k % S /\ partial >= 0 /\ partial < S
  /\ yielded = k \div S

IndInit == k \in Int /\ partial \in Int /\ yielded \in Int /\ IndInv

Conservation == S * yielded + partial = k
\* batches after the final flush
Batches(drop) == yielded + (IF partial > 0 /\ ~drop THEN 1 ELSE 0)
PredictedLen(drop) == IF drop THEN k \div S ELSE (k + S - 1) \div S
LenIsPredicted == Batches(TRUE) = PredictedLen(TRUE) /\ Batches(FALSE) = PredictedLen(FALSE)
LostOnlyWhenDropping == k - S * Batches(TRUE) = partial /\ k - (S * yielded + partial) = 0
Consequences == Conservation /\ LenIsPredicted /\ LostOnlyWhenDropping
=============================================================================
