---------------------------- MODULE WorkerPoolFs ----------------------------
(***************************************************************************)
(* What the workers of a pool do to the FILE SYSTEM while they run the     *)
(* per-item work of a pydrobert.torch command concurrently.                *)
(*                                                                         *)
(* WorkerPool.tla treats the per-item work as one atomic `Finish`; that is *)
(* only sound when the work of different items cannot interfere.  This     *)
(* module opens the work up: an item's work is the SEQUENCE of file-system *)
(* operations the real per-item function performed (recorded by            *)
(* vf/doubles/fsrecorder.py while FakePool ran the function, paths         *)
(* abstracted to numbers), W workers take items off the queue and execute  *)
(* their operations ONE AT A TIME, interleaved in every possible way.      *)
(*                                                                         *)
(*   ["w", p, 0]   create / overwrite p with this item's data              *)
(*   ["a", p, 0]   append this item's data to p                            *)
(*   ["r", p, 0]   read p (the item observes whose data p holds)           *)
(*   ["mv", p, q]  os.replace(p, q)                                        *)
(*   ["rm", p, 0]  os.remove(p)                                            *)
(*   ["ln", p, q]  link / symlink q -> p                                   *)
(*                                                                         *)
(* A file's content is the sequence of item numbers whose data it holds    *)
(* (<<>> = absent or as it was before the command).                        *)
(* Checked for every interleaving:                                         *)
(*   Deterministic   at the end the directory and everything any item read *)
(*                   are what the serial run (items in order, one after    *)
(*                   the other) produces                                   *)
(* The driver also runs the two built-in programs below: one where two     *)
(* items go through a shared scratch file must VIOLATE Deterministic       *)
(* (non-vacuity), its repaired form must satisfy it.                       *)
(***************************************************************************)
EXTENDS Naturals, Sequences, FiniteSets, TLC, Json, IOUtils, TLCExt

CONSTANTS W,          \* number of workers
          Source      \* "file": programs from IOEnv.TRACE_FILE; "shared" / "private": built-in examples

Op(o, p, q) == <<o, p, q>>
\* built-in examples: two items written through ONE scratch file (1) / through their own (1, 2)
SharedTmp  == [tid |-> 1, items |-> << <<Op("w", 1, 0), Op("mv", 1, 2)>>, <<Op("w", 1, 0), Op("mv", 1, 3)>> >>]
PrivateTmp == [tid |-> 1, items |-> << <<Op("w", 1, 0), Op("mv", 1, 3)>>, <<Op("w", 2, 0), Op("mv", 2, 4)>> >>]

Programs == IF Source = "file" THEN JsonDeserialize(IOEnv.TRACE_FILE)
            ELSE IF Source = "shared" THEN <<SharedTmp>> ELSE <<PrivateTmp>>

VARIABLES t,        \* index of the program being explored
          queue,    \* items not yet taken, in task order
          cur,      \* worker -> item it is working on (0 = idle)
          pc,       \* worker -> number of operations of cur[w] already executed
          fs,       \* path -> content
          obs       \* item -> sequence of contents it read
vars == <<t, queue, cur, pc, fs, obs>>

Items(i) == Programs[i].items
NItems(i) == Len(Items(i))
PathsOf(i) == UNION {UNION {{Items(i)[k][j][2], Items(i)[k][j][3]} : j \in 1..Len(Items(i)[k])} : k \in 1..NItems(i)} \ {0}

\* effect of one operation of item k on (fs, obs)
Eff(f, ob, k, op) ==
  LET o == op[1]  p == op[2]  q == op[3]
  IN CASE o = "w"  -> [fs |-> [f EXCEPT ![p] = <<k>>], obs |-> ob]
       [] o = "a"  -> [fs |-> [f EXCEPT ![p] = Append(@, k)], obs |-> ob]
       [] o = "r"  -> [fs |-> f, obs |-> [ob EXCEPT ![k] = Append(@, f[p])]]
       [] o = "mv" -> [fs |-> [f EXCEPT ![q] = f[p], ![p] = <<>>], obs |-> ob]
       [] o = "rm" -> [fs |-> [f EXCEPT ![p] = <<>>], obs |-> ob]
       [] o = "ln" -> [fs |-> [f EXCEPT ![q] = f[p]], obs |-> ob]

\* the serial run: items in order, each to completion
RECURSIVE RunOps(_, _, _, _)
RunOps(st, k, ops, j) == IF j > Len(ops) THEN st ELSE RunOps(Eff(st.fs, st.obs, k, ops[j]), k, ops, j + 1)
RECURSIVE RunItems(_, _, _)
RunItems(st, i, k) == IF k > NItems(i) THEN st ELSE RunItems(RunOps(st, k, Items(i)[k], 1), i, k + 1)
Fresh(i) == [fs |-> [p \in PathsOf(i) |-> <<>>], obs |-> [k \in 1..NItems(i) |-> <<>>]]
Serial(i) == RunItems(Fresh(i), i, 1)

Init ==
  /\ t \in 1..Len(Programs)
  /\ queue = [k \in 1..NItems(t) |-> k]
  /\ cur = [w \in 1..W |-> 0]
  /\ pc = [w \in 1..W |-> 0]
  /\ fs = Fresh(t).fs
  /\ obs = Fresh(t).obs

Take(w) ==
  /\ cur[w] = 0 /\ queue # <<>>
  /\ cur' = [cur EXCEPT ![w] = Head(queue)]
  /\ pc' = [pc EXCEPT ![w] = 0]
  /\ queue' = Tail(queue)
  /\ UNCHANGED <<t, fs, obs>>

Step(w) ==
  /\ cur[w] # 0 /\ pc[w] < Len(Items(t)[cur[w]])
  /\ \E st \in {Eff(fs, obs, cur[w], Items(t)[cur[w]][pc[w] + 1])} :
        /\ fs' = st.fs
        /\ obs' = st.obs
  /\ pc' = [pc EXCEPT ![w] = @ + 1]
  /\ UNCHANGED <<t, queue, cur>>

Finish(w) ==
  /\ cur[w] # 0 /\ pc[w] = Len(Items(t)[cur[w]])
  /\ cur' = [cur EXCEPT ![w] = 0]
  /\ UNCHANGED <<t, queue, pc, fs, obs>>

Next == \E w \in 1..W : Take(w) \/ Step(w) \/ Finish(w)
Spec == Init /\ [][Next]_vars

Done == queue = <<>> /\ \A w \in 1..W : cur[w] = 0
\* workers are interchangeable
Symmetric == TRUE

Deterministic == Done => (fs = Serial(t).fs /\ obs = Serial(t).obs)

\* one record per program that is NOT schedule independent (the driver turns these into violations; the
\* built-in examples are run with INVARIANT Deterministic instead)
Emit(rec) == PrintT(<<"VFJ", ToJson(rec)>>)
Report == (Done /\ ~(fs = Serial(t).fs /\ obs = Serial(t).obs)) =>
             Emit([tid |-> Programs[t].tid, fs |-> [p \in DOMAIN fs |-> fs[p]], serial |-> Serial(t).fs,
                   obs |-> obs, serialobs |-> Serial(t).obs])
\* ... and one per program explored to the end (so that the driver can tell "fine" from "not explored")
Explored == Done => Emit([tid |-> Programs[t].tid, done |-> TRUE])
=============================================================================
