----------------------------- MODULE Transcripts -----------------------------
(***************************************************************************)
(* Transcript file formats of pydrobert.torch (_parsing.py, _textgrid.py): *)
(*   trn   read_trn / write_trn            tokens and nested alternates    *)
(*   ctm   read_ctm / write_ctm            timed tokens, wave/channel map, *)
(*         times so small / large that they print in scientific notation   *)
(*   tg    read_textgrid / write_textgrid  one tier, print precision, fill *)
(*   tgu   the same for tiers whose entries are listed in ANY order and    *)
(*         may overlap / nest: sorted read-back, tier start / end, fill    *)
(*   trnid trn lines at character level: the utterance id between the last *)
(*         pair of parentheses is read back verbatim (padding included)    *)
(*   tok   transcript_to_token / token_to_transcript   seconds <-> frames   *)
(*                                                                         *)
(* Everything is abstract: tokens, utterances, waveforms and channels are  *)
(* small naturals (the harness maps them to strings through tables whose   *)
(* string order equals the numeric order wherever order matters), times    *)
(* are integers in a base unit of 10^-Base seconds.                        *)
(*                                                                         *)
(* For each format the module holds a DECLARATIVE statement of what a      *)
(* write followed by a read must return (identity / a sorted permutation / *)
(* nearest multiple of 10^-precision / the documented frame formulas and   *)
(* their one-frame bound) and a CODE-SHAPED description of what the file   *)
(* looks like and how it is read (lexeme stream + stack machine, sorted    *)
(* line list + grouping, rounding + fill loop).  TLC checks that they      *)
(* agree over the whole universe; the harness then writes every case with  *)
(* the real writer, reads it with the real reader and compares with the    *)
(* values exported here.                                                   *)
(***************************************************************************)
EXTENDS TranscriptsOps, TLC, Json

CONSTANTS
  Fams,          \* subset of {"trn", "trnid", "ctm", "tg", "tgu", "tok"}
  NTok,          \* tokens are 1..NTok
  \* trn
  TrnLeaves,     \* max number of tokens (leaves) of a transcript in single-utterance collections
  TrnLeavesColl, \* same, for the transcripts of multi-utterance collections
  TrnDepth,      \* max nesting of alternates
  TrnBranch,     \* max number of branches of one alternate
  TrnUtts,       \* max utterances in a collection
  \* ctm
  CtmStarts, CtmDurs,   \* time grids (base units)
  CtmStarts2, CtmDurs2, \* smaller grids for two-utterance collections
  CtmItems,      \* max tokens of the first utterance
  CtmItems2,     \* max tokens of a second utterance (0: single-utterance collections only)
  Waves, Chans,  \* numbers of waveform names / channel names for explicit maps
  CtmFineUnits,  \* set of [s |-> <<b, k>>, d |-> <<b, k>>]: start times count units of b^k seconds, durations units
                 \* of b^k seconds (sample-level alignments, zero-length "ticks" whose ends differ in the last bits,
                 \* absurdly late times): the cases whose fields print in scientific notation
  CtmFineItems,  \* max tokens of a fine-grained utterance
  \* tg
  TgFirst, TgGaps, TgDurs,  \* first start / gap before an item / duration (base units)
  TgItems,       \* max intervals
  Precisions,    \* print precisions
  Base,          \* times are multiples of 10^-Base s
  \* tgu
  TgUTimes,      \* set of <<start, dur>> (base units) an entry may have; entries are listed in any order
  TgUItems,      \* max entries
  TgUPrecisions, \* print precisions
  \* trnid
  TrnIdCores,    \* set of id bodies: sequences over 0 (space) and positive "letters", no space at either end
  TrnIdPad,      \* max padding (spaces / tabs) on either side of the id of a single-line file
  TrnIdPadColl,  \* same, in multi-line files
  TrnIdUtts,     \* max lines
  \* tok
  TokTimes,      \* set of <<start, dur>> (base units; <<-1, 0>> = no times)
  TokItems,      \* max items
  Shifts         \* frame shifts in base units; 0 = none (times are frame numbers already)

ASSUME Base \in 0..4 /\ \A p \in Precisions \cup TgUPrecisions : p \in 0..(Base + 2)

(***************************************************************************)
(* trn: abstract syntax                                                    *)
(*   item = [tok |-> t]  or  [alt |-> <<branch, ..., branch>>]             *)
(*   branch, transcript = sequence of items                                *)
(* The reader rejects an alternate whose LAST branch is empty ("{ a / }"), *)
(* so expressible alternates have a non-empty last branch; other branches  *)
(* may be empty ("{ / a }").                                               *)
(*                                                                         *)
(* What a TOKEN is.  A token is any non-empty string free of the format's  *)
(* delimiters: the blank (U+0020, the one character that separates the     *)
(* lexemes of a line), the braces and the slash as lexemes of their own,   *)
(* the line break, and a parenthesis pair at the end of the line (the id). *)
(* Nothing else delimits: a no-break space ("10<U+00A0>000"), a tab, an    *)
(* ideographic or thin space INSIDE a token is part of that token, with or *)
(* without alternates on the line (write_trn puts one blank after every    *)
(* lexeme; the reader cuts lexemes at blanks only).  The harness therefore *)
(* maps the abstract tokens 1..NTok also to strings with such interior     *)
(* white space; they must come back as ONE token each.                     *)
(***************************************************************************)
RECURSIVE SeqsExact(_, _), ItemsExact(_, _), Branches(_, _, _)
\* item sequences with exactly k leaves, nesting <= d
SeqsExact(d, k) ==
  IF k = 0 THEN {<<>>}
  ELSE UNION {{<<it>> \o rest : it \in ItemsExact(d, j), rest \in SeqsExact(d, k - j)} : j \in 1..k}
ItemsExact(d, j) ==
  (IF j = 1 THEN {Tok(t) : t \in 1..NTok} ELSE {})
  \cup (IF d > 0 THEN {Alt(bs) : bs \in Branches(d - 1, j, TrnBranch)} ELSE {})
\* 1..m branches with j >= 1 leaves in total, the last one non-empty
Branches(d, j, m) ==
  {<<b>> : b \in SeqsExact(d, j)}
  \cup (IF m > 1
        THEN UNION {{<<b>> \o rest : b \in SeqsExact(d, i), rest \in Branches(d, j - i, m - 1)} : i \in 0..(j - 1)}
        ELSE {})
TrnU(k) == UNION {SeqsExact(TrnDepth, j) : j \in 0..k}
\* Transcripts beyond the generic bounds above (wider / deeper alternates than TrnBranch / TrnDepth / TrnLeaves allow
\* at a cost TLC can bear), given explicitly.  Empty here; a cfg substitutes a set of transcripts for it
\* (`TrnExtra <- TrnExtraNested`, TranscriptsMC).  They are cases like all the others: same machine, same invariants,
\* same export; each is met as a file of its own and as the second line of a two-line file.
TrnExtra == {}
TrnCollections ==      \* (guards: TLC evaluates constant definitions eagerly, one family per run)
  IF "trn" \notin Fams THEN {}
  ELSE {<<t>> : t \in TrnU(TrnLeaves)}
       \cup UNION {[1..m -> TrnU(TrnLeavesColl)] : m \in 2..TrnUtts}
       \cup {<<t>> : t \in TrnExtra} \cup {<<<<Tok(1)>>, t>> : t \in TrnExtra}

(***************************************************************************)
(* trn at character level: the utterance id                                *)
(* A line is the lexemes, each followed by one space, then "(", the id,    *)
(* ")" and a newline (write_trn).  The reader strips the LINE, takes the   *)
(* id verbatim from between the last "(" and the last ")" (sclite: spaces  *)
(* are part of the utterance id) and splits the rest on spaces.  Characters*)
(* are integers: 0 space, -1 tab, -2 "(", -3 ")", -4 newline, 1..99 the    *)
(* letters of ids, 100 + t token t, 201..203 the delimiters { / }.         *)
(***************************************************************************)
ChSP == 0
ChTAB == -1
ChLP == -2
ChRP == -3
ChNL == -4
White == {ChSP, ChTAB, ChNL}
LexChar(x) == IF x > 0 THEN 100 + x ELSE 200 - x
PadsUpTo(k) == UNION {[1..m -> {ChSP, ChTAB}] : m \in 0..k}
TrnIdsPadded(k) == {l \o b \o t : l \in PadsUpTo(k), b \in TrnIdCores, t \in PadsUpTo(k)}
TrnIdTr(j) ==     \* the transcript of line j (fixed: this family is about the ids)
  CASE j = 1 -> <<Tok(1)>>
    [] j = 2 -> <<Alt(<<<<Tok(1)>>, <<Tok(NTok)>>>>), Tok(NTok)>>
    [] OTHER -> <<>>
TrnIdCases ==
  IF "trnid" \notin Fams THEN {}
  ELSE {[ids |-> <<i>>] : i \in TrnIdsPadded(TrnIdPad)}
       \cup UNION {{[ids |-> f] : f \in [1..m -> TrnIdsPadded(TrnIdPadColl)]} : m \in 2..TrnIdUtts}
\* code-shaped writer
RECURSIVE LexChars(_)
LexChars(lex) == IF lex = <<>> THEN <<>> ELSE <<LexChar(Head(lex)), ChSP>> \o LexChars(Tail(lex))
LineChars(lex, id) == LexChars(lex) \o <<ChLP>> \o id \o <<ChRP, ChNL>>
\* code-shaped reader
RECURSIVE StripL(_), StripR(_), SplitSP(_, _)
StripL(s) == IF s # <<>> /\ Head(s) \in White THEN StripL(Tail(s)) ELSE s
StripR(s) == IF s # <<>> /\ s[Len(s)] \in White THEN StripR(SubSeq(s, 1, Len(s) - 1)) ELSE s
StripW(s) == StripR(StripL(s))
RIndex(s, ch) == MaxOf({i \in 1..Len(s) : s[i] = ch})
ReadId(line) ==
  LET t == StripW(line) IN SubSeq(t, RIndex(t, ChLP) + 1, RIndex(t, ChRP) - 1)
SplitSP(s, word) ==      \* words of s separated by spaces (empty words dropped)
  IF s = <<>> THEN (IF word = <<>> THEN <<>> ELSE <<word>>)
  ELSE IF Head(s) = ChSP THEN (IF word = <<>> THEN <<>> ELSE <<word>>) \o SplitSP(Tail(s), <<>>)
  ELSE SplitSP(Tail(s), Append(word, Head(s)))
ReadWords(line) ==
  LET t == StripW(line) IN SplitSP(StripW(SubSeq(t, 1, RIndex(t, ChLP) - 1)), <<>>)
\* what a reader that ALSO strips the id would return (the ids of the universe must tell the two apart)
IdIsPadded(id) == StripW(id) # id

(***************************************************************************)
(* ctm                                                                     *)
(*  utterance = [uid, items], item = [tok, s, d]; wc[i] = <<wave, chan>>   *)
(***************************************************************************)
CtmItemSet == {TItem(t, s, d) : t \in 1..NTok, s \in CtmStarts, d \in CtmDurs}
CtmItemSet2 == {TItem(t, s, d) : t \in 1..NTok, s \in CtmStarts2, d \in CtmDurs2}
CtmMaps(m) ==     \* [kind, wc]: default channel / one explicit channel / explicit injective map
  {[kind |-> "default", wc |-> [i \in 1..m |-> <<i, 1>>]],
   [kind |-> "chan", wc |-> [i \in 1..m |-> <<i, 2>>]]}
  \cup {[kind |-> "dict", wc |-> f] :
          f \in {g \in [1..m -> (1..Waves) \X (1..Chans)] : \A i, j \in 1..m : i # j => g[i] # g[j]}}
\* Units.  An item's start counts units of  b^k  seconds and its duration units of  b'^k'  seconds; the case
\* carries the pair.  Starts are only ever compared with starts and durations with durations (sorting of lines,
\* sorting by start, equality of what was written and what is read), so the two units never meet.  The
\* ordinary unit is the millisecond (the harness also renders it as 1/8 s or 1/10 s: every positive time
\* is then >= 10^-4 s all the same).
CtmOrdinary == [s |-> <<10, -3>>, d |-> <<10, -3>>]
CtmMapsFew(m) ==     \* default channel / one explicit channel / one explicit map that reverses the waveforms
  {mp \in CtmMaps(m) : mp.kind # "dict" \/ \A i \in 1..m : mp.wc[i] = <<m + 1 - i, 2>>}
CtmCases ==
  IF "ctm" \notin Fams THEN {}
  ELSE {[utts |-> <<tr>>, map |-> mp, unit |-> CtmOrdinary] :
          tr \in (SeqsUpTo(CtmItemSet, CtmItems) \ {<<>>}), mp \in CtmMaps(1)}
       \cup (IF CtmItems2 = 0 THEN {}
             ELSE {[utts |-> <<t1, t2>>, map |-> mp, unit |-> CtmOrdinary] :
                     t1 \in (SeqsUpTo(CtmItemSet2, 2) \ {<<>>}),
                     t2 \in (SeqsUpTo(CtmItemSet2, CtmItems2) \ {<<>>}), mp \in CtmMaps(2)})
       \* the same grids of counts in the fine (and the absurdly coarse) units
       \cup {[utts |-> <<tr>>, map |-> mp, unit |-> u] :
               tr \in (SeqsUpTo(CtmItemSet, CtmFineItems) \ {<<>>}), mp \in CtmMapsFew(1), u \in CtmFineUnits}
       \cup (IF CtmItems2 = 0 THEN {}
             ELSE {[utts |-> <<<<x1>>, <<x2>>>>, map |-> mp, unit |-> u] :
                     x1 \in CtmItemSet2, x2 \in CtmItemSet2, mp \in CtmMapsFew(2), u \in CtmFineUnits})

\* How a time is PRINTED.  write_ctm prints start and duration with '{}'.format, i.e. Python's repr of a float:
\* positional notation ("0.0003125") for x = 0 and for 10^-4 <= x < 10^16, scientific notation ("6.25e-05",
\* "1e+16") otherwise.  Both are ways of writing the same number; which one a field uses depends on nothing but
\* its magnitude.  (cnt units of b^k seconds; all integers stay far below 2^31)
RECURSIVE BelowPow(_, _, _)
BelowPow(x, b, k) == IF k = 0 THEN x < 1 ELSE BelowPow(x \div b, b, k - 1)        \* x < b^k, for x >= 0
ASSUME \A u \in CtmFineUnits \cup {CtmOrdinary} : \A w \in {u.s, u.d} : w[1] \in {2, 10} /\ (w[2] > 0 => w[1] = 10)
Notation(cnt, w) ==
  IF cnt = 0 THEN "plain"
  ELSE IF w[2] <= 0 THEN (IF BelowPow(cnt * 10000, w[1], 0 - w[2]) THEN "sci" ELSE "plain")     \* cnt b^k < 10^-4
  ELSE IF w[2] >= 16 \/ ~BelowPow(cnt, 10, 16 - w[2]) THEN "sci" ELSE "plain"                  \* cnt 10^k >= 10^16
\* The reader converts the two time fields of a line with float(), which understands both notations; a field
\* it could not convert would end the read with "Could not parse line ..." (ValueError)
CtmFieldOK(note) == note \in {"plain", "sci"}

\* code-shaped writer: one line per token, the list of lines sorted as tuples
CtmLinesUnsorted(cs) ==
  LET RECURSIVE U(_)
      U(i) == IF i > Len(cs.utts) THEN <<>>
              ELSE [k \in 1..Len(cs.utts[i]) |->
                      LET it == cs.utts[i][k]
                      IN <<cs.map.wc[i][1], cs.map.wc[i][2], it.s, it.d, it.tok>>] \o U(i + 1)
  IN U(1)
CtmLines(cs) == LET u == CtmLinesUnsorted(cs) IN Values(StableSort([i \in 1..Len(u) |-> <<u[i], u[i]>>]))
\* code-shaped reader: group by utterance in order of first appearance, then a stable sort by start
UttOfWC(cs, w, c) == CHOOSE i \in 1..Len(cs.utts) : cs.map.wc[i] = <<w, c>>
CtmRead(cs) ==
  LET lines == CtmLines(cs)
      uttof(k) == UttOfWC(cs, lines[k][1], lines[k][2])
      RECURSIVE Order(_, _)
      Order(k, seen) == IF k > Len(lines) THEN seen
                        ELSE IF \E j \in 1..Len(seen) : seen[j] = uttof(k) THEN Order(k + 1, seen)
                        ELSE Order(k + 1, Append(seen, uttof(k)))
      order == Order(1, <<>>)
      group(u) == SelectSeq([k \in 1..Len(lines) |-> <<uttof(k), TItem(lines[k][5], lines[k][3], lines[k][4])>>],
                            LAMBDA p : p[1] = u)
  IN [j \in 1..Len(order) |->
        LET g == group(order[j])
        IN [uid |-> order[j], items |-> Values(StableSort([k \in 1..Len(g) |-> <<<<g[k][2].s>>, g[k][2]>>]))]]
\* ... which presupposes that every line could be read at all: <<notation of the start, of the duration>> per line
CtmLineNotes(cs) == [k \in 1..Len(CtmLines(cs)) |-> <<Notation(CtmLines(cs)[k][3], cs.unit.s), Notation(CtmLines(cs)[k][4], cs.unit.d)>>]
CtmReadable(cs) == \A k \in 1..Len(CtmLines(cs)) : CtmFieldOK(CtmLineNotes(cs)[k][1]) /\ CtmFieldOK(CtmLineNotes(cs)[k][2])
CtmHasSci(cs) == \E k \in 1..Len(CtmLines(cs)) : \E j \in 1..2 : CtmLineNotes(cs)[k][j] = "sci"
\* declarative: what "equal up to the mandated ordering" means
CtmCanonOK(cs, res) ==
  /\ {res[j].uid : j \in 1..Len(res)} = 1..Len(cs.utts)
  /\ Len(res) = Len(cs.utts)
  /\ \A j \in 1..Len(res) :
       /\ Bag(res[j].items) = Bag(cs.utts[res[j].uid])                       \* same tokens and times
       /\ \A k \in 1..(Len(res[j].items) - 1) : res[j].items[k].s <= res[j].items[k + 1].s   \* by start
\* ... and the code-shaped result is moreover sorted by (dur, token) among equal starts and lists the
\* utterances by (wave, channel); the harness uses the first to normalise ties, the second is informational
CtmTieSorted(cs, res) ==
  /\ \A j \in 1..Len(res) : \A k \in 1..(Len(res[j].items) - 1) :
        LET a == res[j].items[k]  b == res[j].items[k + 1]
        IN ~LexLess(<<b.s, b.d, b.tok>>, <<a.s, a.d, a.tok>>)
  /\ \A j \in 1..(Len(res) - 1) : LexLess(cs.map.wc[res[j].uid], cs.map.wc[res[j + 1].uid])

(***************************************************************************)
(* TextGrid: one tier, times printed with `prec` decimals                  *)
(***************************************************************************)
\* nearest multiple of 10^-p (in units of 10^-p); the universe avoids exact ties so that the
\* nearest value is unique and float formatting cannot differ from it
Scale(p) == IF p >= Base THEN Pow10(p - Base) ELSE 1
Quant(p) == IF p >= Base THEN 1 ELSE Pow10(Base - p)
RoundTo(t, p) == IF p >= Base THEN t * Scale(p) ELSE (2 * t + Quant(p)) \div (2 * Quant(p))
IsNearest(r, t, p) ==      \* declarative
  IF p >= Base THEN r = t * Scale(p)
  ELSE 2 * Abs(r * Quant(p) - t) < Quant(p)
HasTie(t, p) == p < Base /\ (2 * t + Quant(p)) % (2 * Quant(p)) = 0

RECURSIVE TgBuild(_, _)
\* chronological, non-overlapping by construction: spec = <<gap, dur, tok>> per item after `start`
TgBuild(start, specs) ==
  IF specs = <<>> THEN <<>>
  ELSE LET h == Head(specs)
           s == start + h[1]
       IN <<TItem(h[3], s, h[2])>> \o TgBuild(s + h[2], Tail(specs))
TgItemSpecs == TgGaps \X TgDurs \X (1..NTok)
TgU ==
  UNION {{TgBuild(f, <<<<0, h[2], h[3]>>>> \o rest) : f \in TgFirst, h \in TgItemSpecs, rest \in [1..(m - 1) -> TgItemSpecs]}
          : m \in 1..TgItems}
TgTimes(tr) == UNION {{tr[i].s, tr[i].s + tr[i].d} : i \in 1..Len(tr)}
TgCases == IF "tg" \notin Fams THEN {} ELSE {[tr |-> tr, prec |-> p] : tr \in TgU, p \in Precisions}

TgRounded(tr, p) == [i \in 1..Len(tr) |-> [tok |-> tr[i].tok, s |-> RoundTo(tr[i].s, p), e |-> RoundTo(tr[i].s + tr[i].d, p)]]
AllPoints(r) == \A i \in 1..Len(r) : r[i].s = r[i].e
\* point_tier option: "none" (inferred), "true", "false"
PtOpts == <<"none", "true", "false">>
TgIsPoint(tr, p, opt) == opt = "true" \/ (opt = "none" /\ AllPoints(TgRounded(tr, p)))
TgReadBack(tr, p, opt) ==
  LET r == TgRounded(tr, p)
  IN IF TgIsPoint(tr, p, opt) THEN [i \in 1..Len(r) |-> [r[i] EXCEPT !.e = r[i].s]] ELSE r
\* an option is inside the quantifier only if the tier type can express the transcript
TgLegal(tr, opt) == opt = "true" => \A i \in 1..Len(tr) : tr[i].d = 0
\* the order of entries that print identically is not fixed by anything
TgJudgeable(tr, p) ==
  LET r == TgRounded(tr, p)
  IN /\ \A i \in 1..(Len(r) - 1) : LexLess(<<r[i].s, r[i].e>>, <<r[i + 1].s, r[i + 1].e>>)
     /\ \A t \in TgTimes(tr) : ~HasTie(t, p)

\* declarative gap filling: the labelled entries plus one `fill` entry per maximal unlabelled stretch
FillTok == 0
TgGapSet(r) == {[tok |-> FillTok, s |-> r[i].e, e |-> r[i + 1].s] : i \in {j \in 1..(Len(r) - 1) : r[j].e < r[j + 1].s}}
TgFilledDecl(r) ==
  LET all == {r[i] : i \in 1..Len(r)} \cup TgGapSet(r)
      RECURSIVE Ord(_)
      Ord(S) == IF S = {} THEN <<>>
                ELSE LET x == CHOOSE y \in S : \A z \in S : ~LexLess(<<z.s, z.e>>, <<y.s, y.e>>)
                     IN <<x>> \o Ord(S \ {x})
  IN Ord(all)
\* code-shaped: the reader's loop (insert before position i when the running end lies before the next start)
RECURSIVE TgFillLoop(_, _, _)
TgFillLoop(r, i, start) ==
  IF i > Len(r) THEN <<>>
  ELSE (IF start < r[i].s THEN <<[tok |-> FillTok, s |-> start, e |-> r[i].s]>> ELSE <<>>)
       \o <<r[i]>> \o TgFillLoop(r, i + 1, r[i].e)
TgFilled(tr, p) == LET r == TgRounded(tr, p) IN TgFillLoop(r, 1, r[1].s)

(***************************************************************************)
(* TextGrid tiers listed in any order, entries possibly overlapping (tgu)  *)
(* write_textgrid prints the entries in the order given, after a tier      *)
(* header holding the tier's start = the EARLIEST start and end = the      *)
(* LATEST end of all entries (not those of the first / last one listed);   *)
(* read_textgrid sorts the entries by (start, end, label), returns the     *)
(* header's start and end with them and fills from / up to those.  The     *)
(* i-th entry listed carries token i.                                      *)
(***************************************************************************)
TgUListings ==
  UNION {{[i \in 1..m |-> TItem(i, f[i][1], f[i][2])] : f \in [1..m -> TgUTimes]} : m \in 1..TgUItems}
TgUCases == IF "tgu" \notin Fams THEN {} ELSE {[tr |-> tr, prec |-> p] : tr \in TgUListings, p \in TgUPrecisions}
TguChrono(tr) == \A i \in 1..(Len(tr) - 1) : tr[i].s + tr[i].d <= tr[i + 1].s     \* what family "tg" covers
\* code-shaped: header bounds, sorted read-back, fill loop from the header's start up to the header's end
TguLo(tr, p) == RoundTo(MinOf({tr[i].s : i \in 1..Len(tr)}), p)
TguHi(tr, p) == RoundTo(MaxOf({tr[i].s + tr[i].d : i \in 1..Len(tr)}), p)
TguSorted(r) == Values(StableSort([i \in 1..Len(r) |-> <<<<r[i].s, r[i].e>>, r[i]>>]))
TguBack(tr, p, opt) == TguSorted(TgReadBack(tr, p, opt))
TguFilled(b, lo, hi) ==
  TgFillLoop(b, 1, lo) \o (IF b[Len(b)].e < hi THEN <<[tok |-> FillTok, s |-> b[Len(b)].e, e |-> hi]>> ELSE <<>>)
\* declarative: same entries; inside the tier; the tier is no wider than its entries
TguReadOK(tr, p, opt, res, lo, hi) ==
  /\ Bag(res) = Bag(TgReadBack(tr, p, opt))
  /\ \A k \in 1..Len(res) : lo <= res[k].s /\ res[k].s <= res[k].e /\ res[k].e <= hi
  /\ \E k \in 1..Len(res) : res[k].s = lo
  /\ \E k \in 1..Len(res) : res[k].e = hi
  /\ \A k \in 1..(Len(res) - 1) : res[k].s <= res[k + 1].s
\* the order of the list is determined by the times alone / the entries do not overlap
TguDistinct(b) == \A i \in 1..(Len(b) - 1) : LexLess(<<b[i].s, b[i].e>>, <<b[i + 1].s, b[i + 1].e>>)
TguDisjoint(b) == \A i \in 1..(Len(b) - 1) : b[i].e <= b[i + 1].s
\* declarative filling: between two neighbouring boundaries inside [lo, hi] there is a fill entry iff no
\* entry covers that stretch
TguFilledDecl(b, lo, hi) ==
  LET cuts == {lo, hi} \cup UNION {{b[i].s, b[i].e} : i \in 1..Len(b)}
      gaps == {[tok |-> FillTok, s |-> x, e |-> y] : x \in cuts, y \in cuts}
      ok(g) == /\ g.s < g.e /\ lo <= g.s /\ g.e <= hi
               /\ ~\E z \in cuts : g.s < z /\ z < g.e
               /\ ~\E i \in 1..Len(b) : b[i].s <= g.s /\ g.e <= b[i].e
      all == {b[i] : i \in 1..Len(b)} \cup {g \in gaps : ok(g)}
      RECURSIVE Ord(_)
      Ord(S) == IF S = {} THEN <<>>
                ELSE LET x == CHOOSE y \in S : \A z \in S : ~LexLess(<<z.s, z.e>>, <<y.s, y.e>>)
                     IN <<x>> \o Ord(S \ {x})
  IN Ord(all)
TguNoTie(tr, p) == \A t \in TgTimes(tr) : ~HasTie(t, p)
\* filling is judged on interval tiers whose entries are pairwise disjoint (what "unlabelled gap" means
\* under nested entries is not fixed by anything: the reader's loop then fills stretches that an
\* enclosing entry labels)
TguFillable(tr, p) ==
  LET b == TguBack(tr, p, "false") IN TguDistinct(b) /\ TguDisjoint(b) /\ TguNoTie(tr, p)

(***************************************************************************)
(* seconds <-> frames (transcript_to_token / token_to_transcript)          *)
(*   s_f = floor(1000 s / D)                                               *)
(*   e_f = max(s_f + 1, floor(1000 e / D + 1/2))   if s < e                *)
(*   e_f = s_f                                      if s = e               *)
(* in base units: 1000 s / D = t / shift                                   *)
(***************************************************************************)
Unk == 0
\* token map settings: "none" (tokens are ids), "full", "partial" (token NTok is out of vocabulary
\* and goes to the unknown symbol "sym" or to a bare id "id")
TokSettings ==
  {[map |-> "none", unk |-> "none"], [map |-> "full", unk |-> "none"], [map |-> "full", unk |-> "sym"],
   [map |-> "partial", unk |-> "sym"], [map |-> "partial", unk |-> "id"]}
TokItemSet == {TItem(t, x[1], x[2]) : t \in 1..NTok, x \in TokTimes}
TokCases ==
  IF "tok" \notin Fams THEN {}
  ELSE {[tr |-> tr, set |-> st, shift |-> sh, skip |-> sk] :
          tr \in SeqsUpTo(TokItemSet, TokItems), st \in TokSettings, sh \in Shifts, sk \in BOOLEAN}
Timed(it) == it.s >= 0
MapTok(t, st) == IF st.map = "partial" /\ t = NTok THEN Unk ELSE t
\* rows of the token tensor: <<id, start frame, end frame>>  (-1 -1 when there are no times)
TokRows(cs) ==
  [i \in 1..Len(cs.tr) |->
     LET it == cs.tr[i]
         sh == cs.shift
     IN IF ~Timed(it) THEN <<MapTok(it.tok, cs.set), -1, -1>>
        ELSE IF sh = 0 THEN <<MapTok(it.tok, cs.set), it.s, it.s + it.d>>
        ELSE <<MapTok(it.tok, cs.set), StartFrame(it.s, sh), EndFrame(it.s, it.s + it.d, sh)>>]
\* and back: <<tok, start, end>> in base units (-1 -1: a bare token)
TokBack(cs) ==
  [i \in 1..Len(cs.tr) |->
     LET r == TokRows(cs)[i]
         m == IF cs.shift = 0 THEN 1 ELSE cs.shift
     IN IF cs.skip \/ r[2] = -1 THEN <<r[1], -1, -1>> ELSE <<r[1], r[2] * m, r[3] * m>>]
\* declarative: same tokens, times within one frame shift
TokBoundOK(cs) ==
  \A i \in 1..Len(cs.tr) :
     LET it == cs.tr[i]
         b == TokBack(cs)[i]
     IN /\ b[1] = MapTok(it.tok, cs.set)
        /\ (Timed(it) /\ ~cs.skip) =>
             /\ Abs(b[2] - it.s) <= cs.shift
             /\ Abs(b[3] - (it.s + it.d)) <= cs.shift
             /\ b[2] <= b[3]
             /\ (it.d > 0 /\ cs.shift > 0) => b[2] < b[3]     \* a real segment keeps at least one frame
        /\ (~Timed(it) \/ cs.skip) => (b[2] = -1 /\ b[3] = -1)

(***************************************************************************)
(* State: the case, plus the trn reader (a stack machine over lexemes)     *)
(***************************************************************************)
VARIABLES fam, cs,       \* family and case (fixed by Init)
          lines,         \* trn: the lexeme stream of every line of the file; ctm: the read-back (computed once)
          ln, pos,       \* trn: current line / next lexeme
          stack,         \* trn: open alternates; a frame is the sequence of branches read so far
          cur,           \* trn: items of the current line read at top level
          parsed,        \* trn: finished lines
          err            \* trn: the reader raised
vars == <<fam, cs, lines, ln, pos, stack, cur, parsed, err>>

Init ==
  /\ fam \in Fams
  /\ cs \in (CASE fam = "trn" -> TrnCollections
               [] fam = "ctm" -> CtmCases
               [] fam = "tg" -> TgCases
               [] fam = "tgu" -> TgUCases
               [] fam = "trnid" -> TrnIdCases
               [] fam = "tok" -> TokCases)
  /\ lines = <<>>
  /\ ln = 0 /\ pos = 1 /\ stack = <<>> /\ cur = <<>> /\ parsed = <<>> /\ err = FALSE

\* TLC computes initial states (and evaluates invariants on them) on one thread; everything expensive is
\* therefore done by this first step, which the workers take in parallel
Ready == ln > 0
Prepare ==
  /\ ln = 0
  /\ ln' = 1
  /\ lines' = (CASE fam = "trn" -> [i \in 1..Len(cs) |-> Lex(cs[i])]
                  [] fam = "ctm" -> CtmRead(cs)
                  [] OTHER -> <<>>)
  /\ UNCHANGED <<fam, cs, pos, stack, cur, parsed, err>>

Line == lines[ln]
Reading == fam = "trn" /\ Ready /\ ~err /\ ln <= Len(cs)
AtLexeme == Reading /\ pos <= Len(Line)
Put(it) ==      \* append an item to the innermost open branch, or to the line
  IF stack = <<>> THEN /\ cur' = Append(cur, it) /\ UNCHANGED stack
  ELSE LET top == stack[Len(stack)]
           nb == [top EXCEPT ![Len(top)] = Append(top[Len(top)], it)]
       IN /\ stack' = [stack EXCEPT ![Len(stack)] = nb] /\ UNCHANGED cur

ReadToken ==
  /\ AtLexeme /\ Line[pos] > 0
  /\ Put(Tok(Line[pos]))
  /\ pos' = pos + 1 /\ UNCHANGED <<fam, cs, lines, ln, parsed, err>>
OpenAlt ==
  /\ AtLexeme /\ Line[pos] = LBrace
  /\ stack' = Append(stack, <<<<>>>>)
  /\ pos' = pos + 1 /\ UNCHANGED <<fam, cs, lines, ln, cur, parsed, err>>
NewBranch ==
  /\ AtLexeme /\ Line[pos] = Slash /\ stack # <<>>
  /\ stack' = [stack EXCEPT ![Len(stack)] = Append(stack[Len(stack)], <<>>)]
  /\ pos' = pos + 1 /\ UNCHANGED <<fam, cs, lines, ln, cur, parsed, err>>
CloseAlt ==
  /\ AtLexeme /\ Line[pos] = RBrace /\ stack # <<>>
  /\ LET top == stack[Len(stack)]
         rest == SubSeq(stack, 1, Len(stack) - 1)
     IN IF top[Len(top)] = <<>>
        THEN /\ err' = TRUE /\ UNCHANGED <<stack, cur>>       \* IOError: empty alternate
        ELSE /\ err' = FALSE
             /\ IF rest = <<>> THEN /\ cur' = Append(cur, Alt(top)) /\ stack' = rest
                ELSE LET up == rest[Len(rest)]
                         nb == [up EXCEPT ![Len(up)] = Append(up[Len(up)], Alt(top))]
                     IN /\ stack' = [rest EXCEPT ![Len(rest)] = nb] /\ UNCHANGED cur
  /\ pos' = pos + 1 /\ UNCHANGED <<fam, cs, lines, ln, parsed>>
EndLine ==      \* "(utt)" reached; an alternate still open would be dropped with its contents
  /\ Reading /\ pos = Len(Line) + 1
  /\ parsed' = Append(parsed, cur)
  /\ ln' = ln + 1 /\ pos' = 1 /\ cur' = <<>> /\ stack' = <<>>
  /\ UNCHANGED <<fam, cs, lines, err>>

Next == Prepare \/ ReadToken \/ OpenAlt \/ NewBranch \/ CloseAlt \/ EndLine
Spec == Init /\ [][Next]_vars

TrnDone == fam = "trn" /\ (err \/ ln > Len(cs))

(***************************************************************************)
(* Design invariants                                                       *)
(***************************************************************************)
\* trn: reading what was written gives back the collection, whatever the nesting
TrnRoundTrip == TrnDone => (~err /\ parsed = cs)
TrnNoDanglingAlt == (Reading /\ pos = Len(Line) + 1) => stack = <<>>
\* (never more alternates open than the line nests; TrnDepth bounds the enumerated transcripts, those of TrnExtra
\* carry their own depth)
TrnStackBounded == fam = "trn" => Len(stack) <= (IF ln \in 1..Len(cs) THEN Depth(cs[ln]) ELSE 0)
TrnDepthBounded == (fam = "trn" /\ \A i \in 1..Len(cs) : cs[i] \notin TrnExtra) => \A i \in 1..Len(cs) : Depth(cs[i]) <= TrnDepth
\* the lexeme stream carries the tokens in reading order and is bracketed to the nesting depth
TrnLexShape ==
  (fam = "trn" /\ Ready /\ ln <= Len(cs) /\ pos = 1) =>
     LET L == lines[ln]
         bal(k) == Cardinality({i \in 1..k : L[i] = LBrace}) - Cardinality({i \in 1..k : L[i] = RBrace})
     IN /\ SelectSeq(L, LAMBDA x : x > 0) = Leaves(cs[ln])
        /\ bal(Len(L)) = 0
        /\ \A k \in 1..Len(L) : bal(k) >= 0
        /\ (L # <<>> => MaxOf({bal(k) : k \in 1..Len(L)}) = Depth(cs[ln]))
        /\ (L = <<>> => Depth(cs[ln]) = 0)
\* first-alternate flattening leaves plain tokens only, a subsequence of the leaves
TrnFirstFlat == (fam = "trn" /\ Ready /\ ln <= Len(cs) /\ pos = 1) => \A i \in 1..Len(FirstBranch(cs[ln])) : IsTok(FirstBranch(cs[ln])[i])

\* trn ids: whatever the padding, the id comes back verbatim and the words are the lexemes
TrnIdLine(j) == LineChars(Lex(TrnIdTr(j)), cs.ids[j])
TrnIdRoundTrip == (fam = "trnid" /\ Ready) =>
  \A j \in 1..Len(cs.ids) :
     /\ ReadId(TrnIdLine(j)) = cs.ids[j]
     /\ ReadWords(TrnIdLine(j)) = [k \in 1..Len(Lex(TrnIdTr(j))) |-> <<LexChar(Lex(TrnIdTr(j))[k])>>]
\* ... hence lines written with different ids are read with different ids
TrnIdInjective == (fam = "trnid" /\ Ready) =>
  \A i, j \in 1..Len(cs.ids) : cs.ids[i] # cs.ids[j] => ReadId(TrnIdLine(i)) # ReadId(TrnIdLine(j))

\* ctm: the sorted-lines writer + grouping reader returns the collection up to the mandated ordering
\* (whatever the magnitude of the times: every field the writer prints is one the reader can convert)
CtmRoundTrip == (fam = "ctm" /\ Ready) => (CtmReadable(cs) /\ CtmCanonOK(cs, lines) /\ CtmTieSorted(cs, lines))
\* the ordinary unit never leaves positional notation: the scientific one is met only through CtmFineUnits
CtmOrdinaryPlain == (fam = "ctm" /\ Ready /\ cs.unit = CtmOrdinary) => ~CtmHasSci(cs)
CtmLinesSorted == (fam = "ctm" /\ Ready) =>
  LET L == CtmLines(cs) IN \A k \in 1..(Len(L) - 1) : ~LexLess(L[k + 1], L[k])

\* TextGrid: the printed value is the nearest multiple; rounding keeps the chronological order; the
\* fill loop yields exactly the labelled entries plus the unlabelled stretches
TgNearest == (fam = "tg" /\ Ready) => \A t \in TgTimes(cs.tr) : (~HasTie(t, cs.prec) => IsNearest(RoundTo(t, cs.prec), t, cs.prec))
TgMonotone == (fam = "tg" /\ Ready) =>
  LET r == TgRounded(cs.tr, cs.prec)
  IN \A i \in 1..Len(r) : r[i].s <= r[i].e /\ (i < Len(r) => r[i].e <= r[i + 1].s)
TgFillAgree == (fam = "tg" /\ Ready /\ TgJudgeable(cs.tr, cs.prec)) => TgFilled(cs.tr, cs.prec) = TgFilledDecl(TgRounded(cs.tr, cs.prec))
TgFillPartition == (fam = "tg" /\ Ready) =>       \* after filling nothing between first start and last end is unlabelled
  LET f == TgFilled(cs.tr, cs.prec) IN \A i \in 1..(Len(f) - 1) : f[i].e = f[i + 1].s

\* tgu: whatever the order of listing and the nesting, the sorted read-back holds the written entries
\* (nearest printable times), all inside a tier that is exactly as wide as they are; on disjoint entries
\* the fill loop run from / up to the tier's bounds yields the entries plus the unlabelled stretches
TguRoundTrip == (fam = "tgu" /\ Ready) =>
  \A k \in 1..3 : TgLegal(cs.tr, PtOpts[k]) =>
     TguReadOK(cs.tr, cs.prec, PtOpts[k], TguBack(cs.tr, cs.prec, PtOpts[k]), TguLo(cs.tr, cs.prec), TguHi(cs.tr, cs.prec))
TguBoundsNearest == (fam = "tgu" /\ Ready /\ TguNoTie(cs.tr, cs.prec)) =>
  /\ IsNearest(TguLo(cs.tr, cs.prec), MinOf({cs.tr[i].s : i \in 1..Len(cs.tr)}), cs.prec)
  /\ IsNearest(TguHi(cs.tr, cs.prec), MaxOf({cs.tr[i].s + cs.tr[i].d : i \in 1..Len(cs.tr)}), cs.prec)
TguFillAgree == (fam = "tgu" /\ Ready /\ TguFillable(cs.tr, cs.prec)) =>
  LET b == TguBack(cs.tr, cs.prec, "false")
      f == TguFilled(b, TguLo(cs.tr, cs.prec), TguHi(cs.tr, cs.prec))
  IN /\ f = TguFilledDecl(b, TguLo(cs.tr, cs.prec), TguHi(cs.tr, cs.prec))
     /\ f[1].s = TguLo(cs.tr, cs.prec) /\ f[Len(f)].e = TguHi(cs.tr, cs.prec)
     /\ \A i \in 1..(Len(f) - 1) : f[i].e = f[i + 1].s
\* on chronological listings this family says what family "tg" says
TguExtendsTg == (fam = "tgu" /\ Ready /\ TguChrono(cs.tr)) =>
  /\ \A k \in 1..3 : TguBack(cs.tr, cs.prec, PtOpts[k]) = TgReadBack(cs.tr, cs.prec, PtOpts[k])
  /\ TguFillable(cs.tr, cs.prec) =>
       TguFilled(TguBack(cs.tr, cs.prec, "false"), TguLo(cs.tr, cs.prec), TguHi(cs.tr, cs.prec)) = TgFilled(cs.tr, cs.prec)

\* frames: the documented formulas recover every time to within one frame shift
TokBound == (fam = "tok" /\ Ready) => TokBoundOK(cs)

TypeOK == fam \in Fams /\ err \in BOOLEAN

(***************************************************************************)
(* Export                                                                  *)
(***************************************************************************)
Emit(rec) == PrintT(<<"VFJ", ToJson(rec)>>)
Export ==
  /\ TrnDone =>
       Emit([fam |-> "trn", coll |-> cs, lex |-> lines,
             first |-> [i \in 1..Len(cs) |-> Leaves(FirstBranch(cs[i]))],
             depth |-> [i \in 1..Len(cs) |-> Depth(cs[i])]])
  /\ (fam = "ctm" /\ Ready) =>
       Emit([fam |-> "ctm", utts |-> cs.utts, kind |-> cs.map.kind, wc |-> cs.map.wc,
             lines |-> CtmLines(cs), canon |-> lines,
             unit |-> cs.unit, ordinary |-> cs.unit = CtmOrdinary, notes |-> CtmLineNotes(cs), sci |-> CtmHasSci(cs)])
  /\ (fam = "tg" /\ Ready) =>
       Emit([fam |-> "tg", tr |-> cs.tr, prec |-> cs.prec, judge |-> TgJudgeable(cs.tr, cs.prec),
             tie |-> \E t \in TgTimes(cs.tr) : HasTie(t, cs.prec),
             opts |-> [k \in 1..3 |->
                         [opt |-> PtOpts[k], legal |-> TgLegal(cs.tr, PtOpts[k]),
                          point |-> TgIsPoint(cs.tr, cs.prec, PtOpts[k]),
                          back |-> TgReadBack(cs.tr, cs.prec, PtOpts[k])]],
             filled |-> TgFilled(cs.tr, cs.prec),
             xmin |-> RoundTo(MinOf(TgTimes(cs.tr)), cs.prec), xmax |-> RoundTo(MaxOf(TgTimes(cs.tr)), cs.prec)])
  /\ (fam = "trnid" /\ Ready) =>
       Emit([fam |-> "trnid", ids |-> cs.ids,
             coll |-> [j \in 1..Len(cs.ids) |-> TrnIdTr(j)],
             lex |-> [j \in 1..Len(cs.ids) |-> Lex(TrnIdTr(j))],
             depth |-> [j \in 1..Len(cs.ids) |-> Depth(TrnIdTr(j))],
             chars |-> [j \in 1..Len(cs.ids) |-> TrnIdLine(j)],
             padded |-> [j \in 1..Len(cs.ids) |-> IdIsPadded(cs.ids[j])],
             twins |-> \E i, j \in 1..Len(cs.ids) : cs.ids[i] # cs.ids[j] /\ StripW(cs.ids[i]) = StripW(cs.ids[j])])
  /\ (fam = "tgu" /\ Ready) =>
       Emit([fam |-> "tgu", tr |-> cs.tr, prec |-> cs.prec, chrono |-> TguChrono(cs.tr),
             tie |-> ~TguNoTie(cs.tr, cs.prec),
             judge |-> TguDistinct(TguBack(cs.tr, cs.prec, "false")) /\ TguNoTie(cs.tr, cs.prec),
             fillable |-> TguFillable(cs.tr, cs.prec),
             opts |-> [k \in 1..3 |->
                         [opt |-> PtOpts[k], legal |-> TgLegal(cs.tr, PtOpts[k]),
                          point |-> TgIsPoint(cs.tr, cs.prec, PtOpts[k]),
                          back |-> TguBack(cs.tr, cs.prec, PtOpts[k])]],
             filled |-> IF TguFillable(cs.tr, cs.prec)
                        THEN TguFilled(TguBack(cs.tr, cs.prec, "false"), TguLo(cs.tr, cs.prec), TguHi(cs.tr, cs.prec))
                        ELSE <<>>,
             xmin |-> TguLo(cs.tr, cs.prec), xmax |-> TguHi(cs.tr, cs.prec)])
  /\ (fam = "tok" /\ Ready) =>
       Emit([fam |-> "tok", tr |-> cs.tr, map |-> cs.set.map, unk |-> cs.set.unk, shift |-> cs.shift,
             skip |-> cs.skip, rows |-> TokRows(cs), back |-> TokBack(cs),
             \* accepted recovered times <<start lo, start hi, end lo, end hi>> (the one-frame bound)
             bounds |-> [i \in 1..Len(cs.tr) |->
                           IF Timed(cs.tr[i]) /\ ~cs.skip
                           THEN <<cs.tr[i].s - cs.shift, cs.tr[i].s + cs.shift,
                                  cs.tr[i].s + cs.tr[i].d - cs.shift, cs.tr[i].s + cs.tr[i].d + cs.shift>>
                           ELSE <<-1, -1, -1, -1>>],
             timed |-> [i \in 1..Len(cs.tr) |-> Timed(cs.tr[i]) /\ ~cs.skip],
             toks |-> [i \in 1..Len(cs.tr) |-> MapTok(cs.tr[i].tok, cs.set)], ntok |-> NTok])
=============================================================================
