---------------------------- MODULE EstimatorsMC ----------------------------
(* Model-checking instances of Estimators: the case universes (a .cfg cannot hold records). *)
EXTENDS Estimators

\* all cases carry the same fields
Case(est, dist, n, D, k, kq, f, c, M, burn, given) ==
  [est |-> est, dist |-> dist, n |-> n, D |-> D, k |-> k, kq |-> kq, f |-> f, c |-> c, M |-> M,
   burn |-> burn, given |-> given]
Zeros(len) == [j \in 1..len |-> 0]

\* integer tables over the outcomes (1, 2 or 3 binary variables -> 2, 4, 8 outcomes; 3 classes)
F1 == {<<0, 1>>, <<2, -1>>, <<3, 1>>, <<1, 1>>}
F2 == {<<0, 1, 1, 2>>, <<1, 0, 0, 3>>, <<2, 1, 3, 5>>, <<-1, 2, 0, 1>>}
F3 == {<<0, 1, 1, 2, 1, 2, 2, 3>>, <<1, 0, 0, 2, 0, 3, 1, 4>>}
FT(n) == IF n = 1 THEN F1 ELSE IF n = 2 THEN F2 ELSE F3
C1 == {<<1, 2>>, <<-1, 3>>}
C2 == {<<1, 2, 2, 3>>, <<2, 0, 1, 4>>}
C3 == {<<1, 1, 2, 2, 1, 3, 2, 4>>}
CT(n) == IF n = 1 THEN C1 ELSE IF n = 2 THEN C2 ELSE C3
FCat == {<<0, 1, 3>>, <<2, 1, 1>>, <<1, 4, 2>>}
CCat == {<<1, 2, 2>>, <<3, 1, 2>>}

\* probabilities k/4 (quick) and k/8 (thorough)
K4(n) == IF n = 3 THEN {<<1, 2, 3>>, <<3, 1, 1>>}
         ELSE IF n = 2 THEN {<<1, 2>>, <<2, 2>>, <<3, 1>>, <<2, 3>>} ELSE [1..n -> 1..3]
K8(n) == IF n = 1 THEN [1..1 -> {1, 3, 4, 7}]
         ELSE IF n = 2 THEN {<<1, 5>>, <<3, 3>>, <<7, 2>>, <<4, 6>>}
         ELSE {<<1, 4, 7>>, <<5, 3, 2>>}
\* importance-sampling proposals (dominating: every probability positive)
KQ(D, n) == {[j \in 1..n |-> D \div 2], [j \in 1..n |-> IF j = 1 THEN D - 1 ELSE 1]}
KCat4 == {<<1, 1, 2>>, <<2, 1, 1>>, <<1, 2, 1>>}
KCat8 == {<<1, 2, 5>>, <<3, 4, 1>>, <<6, 1, 1>>}

WellFormed(c) == /\ Len(c.k) = c.n /\ Len(c.kq) = c.n
                 /\ Len(c.f) = (IF c.dist = "bern" THEN Pow(2, c.n) ELSE c.n)
                 /\ Len(c.c) = Len(c.f)

BernCases(D, KS(_), NS, MS) ==
  UNION {
    {Case("direct", "bern", n, D, k, k, f, Zeros(Pow(2, n)), m, 0, FALSE) :
        k \in KS(n), f \in FT(n), m \in MS}
    \cup {Case("directcv", "bern", n, D, k, k, f, c, m, 0, FALSE) :
        k \in KS(n), f \in FT(n), c \in CT(n), m \in MS}
    \cup {Case("is", "bern", n, D, k, kq, f, Zeros(Pow(2, n)), m, 0, FALSE) :
        k \in KS(n), kq \in KQ(D, n), f \in FT(n), m \in MS}
    \cup {Case("enum", "bern", n, D, k, k, f, Zeros(Pow(2, n)), 1, 0, FALSE) :
        k \in KS(n), f \in FT(n)}
    : n \in NS}

CatCases(D, KS, MS) ==
  {Case("direct", "cat", 3, D, k, k, f, Zeros(3), m, 0, FALSE) : k \in KS, f \in FCat, m \in MS}
  \cup {Case("directcv", "cat", 3, D, k, k, f, c, m, 0, FALSE) : k \in KS, f \in FCat, c \in CCat, m \in MS}
  \cup {Case("is", "cat", 3, D, k, kq, f, Zeros(3), m, 0, FALSE) :
          k \in KS, kq \in {<<D - 2, 1, 1>>, <<1, D - 3, 2>>}, f \in FCat, m \in MS}
  \cup {Case("enum", "cat", 3, D, k, k, f, Zeros(3), 1, 0, FALSE) : k \in KS, f \in FCat}

\* independent Metropolis-Hastings, proposal = target; chain length M, every burn-in, both ways of
\* obtaining the initial sample
MHCases(D, MS) ==
  {Case("mh", "bern", n, D, k, k, f, Zeros(Pow(2, n)), m, burn, given) :
     n \in {1, 2}, k \in {<<1, 3>>, <<3>>, <<1>>}, f \in {<<2, -1>>, <<0, 1>>, <<1, 0, 0, 3>>, <<-1, 2, 0, 1>>},
     m \in MS, burn \in 0..2, given \in BOOLEAN}
MHWell(c) == WellFormed(c) /\ c.burn < c.M

=============================================================================
