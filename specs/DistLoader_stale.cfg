\* EXPECTED TO FAIL: LenNeverStale is NOT an invariant.  A shuffled loader with more than one length bucket in a job with a
\* real split (W = 2) caches len(loader) at the first call; the shard of a later epoch fills the buckets differently and
\* the cached value no longer is the number of batches.  TLC must find the counterexample (the driver requires it): the
\* documentation promises nothing here, and the guard (fresh \/ LenStablePromised) of LenAgrees is not vacuous.
\* LenAgrees itself is checked on every state explored on the way.
INIT DInit
NEXT DNext
CONSTANTS
  MaxN = 3
  MaxW = 2
  ModeSet <- AllModes
  KindSet = {"random"}
  RandomMaxN = 3
  Seeds = {1}
  MaxEpoch = 1
  MaxOps = 100000
  Schedule = "ordered"
  Features <- NoFeatures
  MaxSize = 2
  MaxB = 2
  MaxLen = 2
  ClsSet = {"spect"}
  DropSet = {FALSE}
  DynSet = {FALSE}
VIEW DView
INVARIANT DTypeOK
INVARIANT LenAgrees
INVARIANT LenNeverStale
CHECK_DEADLOCK FALSE
