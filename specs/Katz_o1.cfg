\* order 1 (unigram), V=3
INIT Init
NEXT Next
CONSTANTS
  V = 3
  N = 1
  SosIn = FALSE
  T = 2
  Tables <- AllPresence
INVARIANT WellFormed
INVARIANT IterIsRecursion
INVARIANT Export
CHECK_DEADLOCK FALSE
