\* no epoch in file names, keep everything
INIT Init
NEXT Next
CONSTANTS
  EpochFmt = FALSE
  KeepLB = FALSE
  BestTrain = FALSE
  ModelKind = "plain"
  Params <- FsP0
  MaxE = 4
  MaxCrash = 1
  Levels = {1, 2, 3}
INVARIANT TypeOK
INVARIANT HistoryIsPrefix
INVARIANT LastLoadable
INVARIANT BestLoadable
INVARIANT ExactlyTwo
INVARIANT AllLoadable
INVARIANT Convergent
CHECK_DEADLOCK FALSE
