----------------------------- MODULE TrainLoopMC -----------------------------
(* Model-checking instances of TrainLoop: parameter spaces (a .cfg cannot hold record sets). *)
EXTENDS TrainLoop
PS(Ps, THs, NEs) == [P : Ps, B : {0}, TH : THs, RP : {1}, RB : {0}, RC : {0}, RTH : {1}, ne : NEs, EK : {9}]
\* budget only / early stopping with patience 1 (budget 3) / patience 2 / a budget of 2 that cuts early stopping short;
\* the learning rate is reduced whenever an epoch does not improve (RP = 1, RTH = 1), so checkpoints carry a rate
ParamsQuick == PS({1}, {0, 1}, {3})
ParamsThorough == PS({1}, {0, 1}, {3}) \cup PS({2}, {1}, {2, 3}) \cup PS({1}, {0}, {2})
ParamsSmall == PS({1}, {1}, {2})
Both == {TRUE, FALSE}
L2 == {1, 2}
L3 == {1, 2, 3}
=============================================================================
