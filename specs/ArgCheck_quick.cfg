\* quick universe; faults "none" (judged) and "aswritten" (exported for classification only)
INIT Init
NEXT Next
CONSTANTS
  Vals <- ValsQuick
  Others <- OthersQuick
  Bounds <- BoundsQuick
  Colls <- CollsQuick
  Faults <- FaultsMain
  JudgeFaulty = FALSE
INVARIANT ShapeOK
INVARIANT ComposedIsTable
INVARIANT AllowNoneOnlyAddsNone
INVARIANT IntervalDuality
INVARIANT ClosedIsNotOpenAtEnds
INVARIANT Idempotent
INVARIANT Aliases
INVARIANT AsIsCastThenCheck
INVARIANT Export
CHECK_DEADLOCK FALSE
