\* exhaustive: lengths 0..4, pads 0..6 per side, slices [-3..6) x [-3..8), all masks over <= 4 positions
INIT Init
NEXT Next
CONSTANTS
  Ops <- AllOps
  Modes <- AllModes
  MaxLen = 4
  MaxPad = 6
  SMin <- Neg3
  SMax = 6
  EMin <- Neg3
  EMax = 8
  MaxMaskT = 4
  Props <- PropsQuick
  MaxShiftLen = 4
INVARIANT TypeOK
INVARIANT PadAgree
INVARIANT SliceAgree
INVARIANT MaskAgree
INVARIANT ShiftOK
INVARIANT Export
CHECK_DEADLOCK FALSE
