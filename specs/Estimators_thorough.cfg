\* exhaustive over CasesThorough (see EstimatorsMC.tla): every tuple of M samples of every case
INIT Init
NEXT Next
CONSTANTS
  CaseSet <- CasesThorough
INVARIANT TypeOK
INVARIANT Normalised
INVARIANT ScoreMeanZero
INVARIANT ScoreFunctionIdentity
INVARIANT UnbiasedValue
INVARIANT UnbiasedGrad
INVARIANT TotalMass
INVARIANT PathWeight
INVARIANT MHAcceptsAll
INVARIANT MHIsPlainMean
INVARIANT Export
CHECK_DEADLOCK FALSE
