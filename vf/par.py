"""Fork-based parallel map for replay loops (the real code is driven in worker processes)."""
import multiprocessing as mp
import os


def _init():
    try:
        import torch

        torch.set_num_threads(1)
    except Exception:
        pass


def pmap(fn, items, nproc=None, chunksize=None):
    """fn(item) -> result, evaluated in forked workers; order preserved.
    fn must be a module-level function; results must be picklable."""
    items = list(items)
    if nproc is None:
        nproc = min(16, os.cpu_count() or 1)
    if nproc <= 1 or len(items) <= 1:
        return [fn(x) for x in items]
    if chunksize is None:
        chunksize = max(1, len(items) // (nproc * 8))
    ctx = mp.get_context("fork")
    with ctx.Pool(nproc, initializer=_init) as pool:
        return pool.map(fn, items, chunksize)


def chunks(seq, n):
    seq = list(seq)
    k = max(1, (len(seq) + n - 1) // n)
    return [seq[i : i + k] for i in range(0, len(seq), k)]
