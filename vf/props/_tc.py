"""Shared by C15/C16: drive a real TrainingStateController along a TrainCtl.tla behaviour."""
import csv
import math
import os
import warnings

import torch

UNIT = 0.25  # one grid unit of the metric / threshold (exact in the CSV's 5 significant digits)
FACTOR = 0.5


def make_params(p, keep_last_and_best=True, model_fmt="model_{epoch:03d}.pt", optim_fmt="optim_{epoch:03d}.pt"):
    from pydrobert.torch.training import TrainingStateParams

    ek = p["EK"]
    # old_lr - new_lr = 2^-(k+1) must exceed epsilon exactly for k < EK
    log10_eps = -8.0 if ek >= 9 else math.log10(1.5 * 2.0 ** -(ek + 1))
    return TrainingStateParams(
        num_epochs=(p["ne"] or None),
        log10_learning_rate=0.0,
        early_stopping_threshold=p["TH"] * UNIT,
        early_stopping_patience=p["P"],
        early_stopping_burnin=p["B"],
        reduce_lr_threshold=p["RTH"] * UNIT,
        reduce_lr_factor=FACTOR,
        reduce_lr_patience=p["RP"],
        reduce_lr_cooldown=p["RC"],
        reduce_lr_log10_epsilon=log10_eps,
        reduce_lr_burnin=p["RB"],
        keep_last_and_best_only=keep_last_and_best,
        saved_model_fmt=model_fmt,
        saved_optimizer_fmt=optim_fmt,
    )


class Sim:
    """One training run on real files.  The model is a 1x1 Linear whose weight is set to the epoch
    number before each update, so a checkpoint's content identifies the epoch it was saved for."""

    ENTRIES = (("user", int, "{}"), ("uf", float, "{:.3f}"), ("us", str, "{}"))
    # entries="note": a str entry whose values come from the specification (TrainCtl!UserStrOf: separators, quote
    # characters, blanks, the empty string) is declared BEFORE the numeric ones; rows then carry "ustr"
    ENTRIES_NOTE = (("note", str, "{}"),) + ENTRIES

    def __init__(self, workdir, p, keep_lb=True, model_fmt="model_{epoch:03d}.pt", optim_fmt="optim_{epoch:03d}.pt",
                 entries=True):
        self.dir = workdir
        self.csv = os.path.join(workdir, "hist.csv")
        self.state_dir = os.path.join(workdir, "states")
        self.params = make_params(p, keep_lb, model_fmt, optim_fmt)
        self.entries = entries
        self.entry_list = self.ENTRIES_NOTE if entries == "note" else (self.ENTRIES if entries else ())
        self.start()

    def start(self):
        """(re)construct every Python object from the files, as a new process would"""
        from pydrobert.torch.training import TrainingStateController

        self.model = torch.nn.Linear(1, 1)
        with torch.no_grad():
            self.model.weight.fill_(-1.0)
            self.model.bias.fill_(-1.0)
        # a deliberately wrong lr: loading the optimizer state must restore the recorded one
        self.opt = torch.optim.SGD(self.model.parameters(), lr=123.0, momentum=0.5)
        with warnings.catch_warnings():
            warnings.simplefilter("ignore")
            self.ctl = TrainingStateController(self.params, self.csv, self.state_dir, warn=False)
            for name, typ, fmt in self.entry_list:
                self.ctl.add_entry(name, typ, fmt)
            self.ctl.load_model_and_optimizer_for_epoch(self.model, self.opt)
        return self.ctl

    def load_epoch(self, epoch):
        """roll back: put the states saved for `epoch` (0 = the initial ones) into model and optimizer"""
        with warnings.catch_warnings():
            warnings.simplefilter("ignore")
            self.ctl.load_model_and_optimizer_for_epoch(self.model, self.opt, epoch)

    def user_kwargs(self, row):
        if not self.entries:
            return {}
        u = row["user"]
        d = dict(user=u, uf=u * 0.5, us="u%d" % u)
        if self.entries == "note":
            d["note"] = row["ustr"]
        return d

    def update(self, row, epoch=None, best_is_train=False):
        """epoch=None: the controller infers the epoch; otherwise the documented explicit `epoch` argument"""
        with torch.no_grad():
            self.model.weight.fill_(float(row["epoch"]))
            self.model.bias.fill_(float(row["epoch"]) + 0.5)
        self.opt.param_groups[0]["vf_epoch"] = row["epoch"]  # tags the optimizer checkpoint with its epoch
        with warnings.catch_warnings():
            warnings.simplefilter("ignore")
            kw = self.user_kwargs(row)
            if epoch is not None:
                kw["epoch"] = epoch
            if best_is_train:
                kw["best_is_train"] = True
            return self.ctl.update_for_epoch(self.model, self.opt, row["trn"] * UNIT, row["val"] * UNIT, **kw)

    def opt_lrs(self):
        return [g["lr"] for g in self.opt.param_groups]

    def read_csv(self):
        if not os.path.exists(self.csv):
            return []
        with open(self.csv, newline="") as f:  # as the csv module requires: line breaks inside quoted fields stay as written
            return list(csv.DictReader(f))

    def state_files(self):
        if not os.path.isdir(self.state_dir):
            return []
        return sorted(os.listdir(self.state_dir))


def row_as_csv(row, entries=True):
    """the abstract projection of a spec row that is comparable with a parsed CSV line"""
    d = dict(epoch=row["epoch"], es_resume_cd=row["esres"], es_patience_cd=row["espat"], rlr_resume_cd=row["rres"],
             rlr_patience_cd=row["rpat"], lr=FACTOR ** row["lrk"], train_met=row["trn"] * UNIT, val_met=row["val"] * UNIT)
    if entries:
        d.update(user=row["user"], uf=row["user"] * 0.5, us="u%d" % row["user"])
    if entries == "note":
        d["note"] = row["ustr"]
    return d


def parse_csv_line(line, entries=True):
    d = dict(epoch=int(line["epoch"]), es_resume_cd=int(line["es_resume_cd"]), es_patience_cd=int(line["es_patience_cd"]),
             rlr_resume_cd=int(line["rlr_resume_cd"]), rlr_patience_cd=int(line["rlr_patience_cd"]), lr=float(line["lr"]),
             train_met=float(line["train_met"]), val_met=float(line["val_met"]))
    if entries:
        d.update(user=int(line["user"]), uf=float(line["uf"]), us=line["us"])
    if entries == "note":
        d["note"] = line["note"]
    return d
