"""Shared by C15/C16: drive a real TrainingStateController along a TrainCtl.tla behaviour."""
import csv
import math
import os
import warnings

import torch

UNIT = 0.25  # one grid unit of the metric / threshold (exact in the CSV's 5 significant digits)
FACTOR = 0.5


# the optimizer's parameter groups (TrainCtl.tla: NG = 2 groups, set-up fields LG / OG / SD of the parameter record).
# Rates an optimizer OBJECT is constructed with: when the initial rate is configured (LG = 1) deliberately wrong ones,
# which the initial load must overwrite; otherwise the default 1 = lr0 (the history records it) and, for a group
# with a rate of its own (OG = 1), 3.  None of the own rates, halved any number of times, is a recorded rate 2^-k.
CTOR_LG = (123.0, 77.0)
CTOR_DEFAULT = 1.0
CTOR_OWN2 = 3.0
OFF_GRID = 99  # abstract value of a rate that is neither a recorded rate nor the group's constructor rate


def setup_of(p):
    """(LG, OG, SD) of a TrainCtl parameter record (records of older specifications: the standard set-up)"""
    return p.get("LG", 1), p.get("OG", 0), p.get("SD", 1)


def ctor_rates(p, groups):
    lg, og, _ = setup_of(p)
    if lg:
        return list(CTOR_LG[:groups])
    return [CTOR_DEFAULT] + [CTOR_OWN2 if og else CTOR_DEFAULT] * (groups - 1)


def abstract_rates(lrs, p):
    """project the optimizer's group rates onto TrainCtl!optlr: k for the recorded rate 2^-k, -g for "the rate group g
    was constructed with (no recorded rate)", OFF_GRID otherwise"""
    out = []
    ctor = ctor_rates(p, len(lrs))
    for g, lr in enumerate(lrs, 1):
        k = None
        if lr > 0:
            x = math.log(lr) / math.log(FACTOR)
            if abs(x - round(x)) < 1e-9 and 0 <= round(x) < OFF_GRID:
                k = int(round(x))
        if k is None:
            k = -g if abs(lr - ctor[g - 1]) <= 1e-12 * abs(ctor[g - 1]) else OFF_GRID
        out.append(k)
    return out


def make_params(p, keep_last_and_best=True, model_fmt="model_{epoch:03d}.pt", optim_fmt="optim_{epoch:03d}.pt"):
    from pydrobert.torch.training import TrainingStateParams

    ek = p["EK"]
    # old_lr - new_lr = 2^-(k+1) must exceed epsilon exactly for k < EK
    log10_eps = -8.0 if ek >= 9 else math.log10(1.5 * 2.0 ** -(ek + 1))
    return TrainingStateParams(
        num_epochs=(p["ne"] or None),
        log10_learning_rate=(0.0 if setup_of(p)[0] else None),  # LG = 0: the optimizer's default is the initial rate
        early_stopping_threshold=p["TH"] * UNIT,
        early_stopping_patience=p["P"],
        early_stopping_burnin=p["B"],
        reduce_lr_threshold=p["RTH"] * UNIT,
        reduce_lr_factor=FACTOR,
        reduce_lr_patience=p["RP"],
        reduce_lr_cooldown=p["RC"],
        reduce_lr_log10_epsilon=log10_eps,
        reduce_lr_burnin=p["RB"],
        keep_last_and_best_only=keep_last_and_best,
        saved_model_fmt=model_fmt,
        saved_optimizer_fmt=optim_fmt,
    )


# ---- what is handed to the controller as the model (specs/TrainCtlModel.tla)
MODEL_KINDS = ("plain", "data_parallel", "wrapper")


class Scaled(torch.nn.Module):
    """a user-defined wrapper: the network sits in the attribute `module`, next to a parameter of the wrapper's own"""

    def __init__(self, module):
        super().__init__()
        self.module = module
        self.scale = torch.nn.Parameter(torch.ones(1))

    def forward(self, x):
        return self.module(x) * self.scale


def make_model(kind="plain"):
    """a 1x1 Linear (every parameter -1), plain or wrapped"""
    if kind not in MODEL_KINDS:
        raise ValueError(kind)
    net = torch.nn.Linear(1, 1)
    model = net if kind == "plain" else torch.nn.DataParallel(net) if kind == "data_parallel" else Scaled(net)
    with torch.no_grad():
        for prm in model.parameters():
            prm.fill_(-1.0)
    return model


def network_of(model):
    return model if isinstance(model, torch.nn.Linear) else model.module


def set_epoch(model, epoch):
    """make the parameters identify the epoch: weight = epoch, bias = epoch + 1/2, a wrapper's own scale = epoch + 1/4"""
    with torch.no_grad():
        net = network_of(model)
        net.weight.fill_(float(epoch))
        net.bias.fill_(float(epoch) + 0.5)
        if isinstance(model, Scaled):
            model.scale.fill_(float(epoch) + 0.25)


def epoch_of(model):
    """the epoch whose parameters the model holds; None if its parameters are not those set_epoch gave one epoch"""
    net = network_of(model)
    w = float(net.weight.detach().flatten()[0])
    ok = float(net.bias.detach().flatten()[0]) == w + 0.5 and w == round(w)
    if isinstance(model, Scaled):
        ok = ok and float(model.scale.detach().flatten()[0]) == w + 0.25
    return int(w) if ok else None


def live_keys(model):
    return sorted(model.state_dict().keys())


class Sim:
    """One training run on real files.  The model is a 1x1 Linear whose weight is set to the epoch
    number before each update, so a checkpoint's content identifies the epoch it was saved for."""

    ENTRIES = (("user", int, "{}"), ("uf", float, "{:.3f}"), ("us", str, "{}"))
    # entries="note": a str entry whose values come from the specification (TrainCtl!UserStrOf: separators, quote
    # characters, blanks, the empty string) is declared BEFORE the numeric ones; rows then carry "ustr"
    ENTRIES_NOTE = (("note", str, "{}"),) + ENTRIES

    def __init__(self, workdir, p, keep_lb=True, model_fmt="model_{epoch:03d}.pt", optim_fmt="optim_{epoch:03d}.pt",
                 entries=True, groups=1, model_kind="plain"):
        """groups: parameter groups of the optimizer (2: weight and bias apart).  The set-up fields of p (setup_of)
        choose the configured / default initial rate, group 2's own rate and whether there is a state directory."""
        self.dir = workdir
        self.p = p
        self.groups = groups
        self.model_kind = model_kind
        self.csv = os.path.join(workdir, "hist.csv")
        self.state_dir = os.path.join(workdir, "states") if setup_of(p)[2] else None
        self.params = make_params(p, keep_lb, model_fmt, optim_fmt)
        self.entries = entries
        self.entry_list = self.ENTRIES_NOTE if entries == "note" else (self.ENTRIES if entries else ())
        self.start()

    def start(self):
        """(re)construct every Python object from the files, as a new process would"""
        from pydrobert.torch.training import TrainingStateController

        self.model = make_model(self.model_kind)
        self.net = network_of(self.model)
        # (LG = 1) a deliberately wrong lr: loading the optimizer state must restore the recorded one
        ctor = ctor_rates(self.p, self.groups)
        if self.groups == 1:
            self.opt = torch.optim.SGD(self.model.parameters(), lr=ctor[0], momentum=0.5)
        else:
            gs = [dict(params=[self.net.weight]), dict(params=[self.net.bias] + [
                q for n, q in self.model.named_parameters() if not n.endswith(("weight", "bias"))])]
            if ctor[1] != ctor[0]:
                gs[1]["lr"] = ctor[1]  # a group constructed with a rate of its own
            self.opt = torch.optim.SGD(gs, lr=ctor[0], momentum=0.5)
        with warnings.catch_warnings():
            warnings.simplefilter("ignore")
            self.ctl = TrainingStateController(self.params, self.csv, self.state_dir, warn=False)
            for name, typ, fmt in self.entry_list:
                self.ctl.add_entry(name, typ, fmt)
            self.ctl.load_model_and_optimizer_for_epoch(self.model, self.opt)
        return self.ctl

    def load_epoch(self, epoch):
        """roll back: put the states saved for `epoch` (0 = the initial ones) into model and optimizer"""
        with warnings.catch_warnings():
            warnings.simplefilter("ignore")
            self.ctl.load_model_and_optimizer_for_epoch(self.model, self.opt, epoch)

    def user_kwargs(self, row):
        if not self.entries:
            return {}
        u = row["user"]
        d = dict(user=u, uf=u * 0.5, us="u%d" % u)
        if self.entries == "note":
            d["note"] = row["ustr"]
        return d

    def update(self, row, epoch=None, best_is_train=False):
        """epoch=None: the controller infers the epoch; otherwise the documented explicit `epoch` argument"""
        set_epoch(self.model, row["epoch"])
        self.opt.param_groups[0]["vf_epoch"] = row["epoch"]  # tags the optimizer checkpoint with its epoch
        with warnings.catch_warnings():
            warnings.simplefilter("ignore")
            kw = self.user_kwargs(row)
            if epoch is not None:
                kw["epoch"] = epoch
            if best_is_train:
                kw["best_is_train"] = True
            return self.ctl.update_for_epoch(self.model, self.opt, row["trn"] * UNIT, row["val"] * UNIT, **kw)

    def opt_lrs(self):
        return [g["lr"] for g in self.opt.param_groups]

    def opt_abs(self):
        """the optimizer's groups in the specification's terms (TrainCtl!optlr)"""
        return abstract_rates(self.opt_lrs(), self.p)

    def read_csv(self):
        if not os.path.exists(self.csv):
            return []
        with open(self.csv, newline="") as f:  # as the csv module requires: line breaks inside quoted fields stay as written
            return list(csv.DictReader(f))

    def state_files(self):
        if self.state_dir is None or not os.path.isdir(self.state_dir):
            return []
        return sorted(os.listdir(self.state_dir))


def row_as_csv(row, entries=True):
    """the abstract projection of a spec row that is comparable with a parsed CSV line"""
    d = dict(epoch=row["epoch"], es_resume_cd=row["esres"], es_patience_cd=row["espat"], rlr_resume_cd=row["rres"],
             rlr_patience_cd=row["rpat"], lr=FACTOR ** row["lrk"], train_met=row["trn"] * UNIT, val_met=row["val"] * UNIT)
    if entries:
        d.update(user=row["user"], uf=row["user"] * 0.5, us="u%d" % row["user"])
    if entries == "note":
        d["note"] = row["ustr"]
    return d


def parse_csv_line(line, entries=True):
    d = dict(epoch=int(line["epoch"]), es_resume_cd=int(line["es_resume_cd"]), es_patience_cd=int(line["es_patience_cd"]),
             rlr_resume_cd=int(line["rlr_resume_cd"]), rlr_patience_cd=int(line["rlr_patience_cd"]), lr=float(line["lr"]),
             train_met=float(line["train_met"]), val_met=float(line["val_met"]))
    if entries:
        d.update(user=int(line["user"]), uf=float(line["uf"]), us=line["us"])
    if entries == "note":
        d["note"] = line["note"]
    return d
