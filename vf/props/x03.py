"""X03 (extra, beyond the listed properties) -- data loaders across the ranks of a distributed job.

DistLoader.tla: W processes of one torch.distributed job each construct the same SpectDataLoader / LangDataLoader
(class "spect") or ContextWindowDataLoader (class "window") over the same directory with the same parameters and seed.
One bucket machine per rank on top of Sampler.tla's epoch sampler (uninterpreted, lazily bound epoch order shared by all
ranks) and Batching.tla's bucket assignment, plus the loader-level rules (drop_last forces "drop", the window class always
passes "ignore", len(loader) cached at the first call).  TLC checks the clauses about the JOB AS A WHOLE (JobCover,
SharesAsDocumented, RankDisjoint, LenAgrees, SameStepsWhenPromised, SameSamplesWhenPromised, UnevenByOne,
EpochPermutationShared, FedIsSharedOrder, IgnoreSameBatches, BatchesWellFormed, LenIsBatchingLen) under free
interleaving of the ranks, and that the NON-promise LenNeverStale really fails (shuffled + length buckets + real split).

spec -> code: every exported job of a sequential loader (every N <= 5, W <= 3, class, mode, drop_last, batch size <= 3,
1..2 length buckets with every length vector) is replayed on REAL loaders, one object per rank under FakeDist, on a real
directory built from the case: constructor raises exactly when the specification refuses; per rank and epoch the pulled
utterances, the batches (one of the sequences the specification accepts: the order of the trailing incomplete batches
is free) and len(loader) asked before the epoch.
code -> spec: the same runs and seeded SHUFFLED jobs (N up to 14 (quick: 10), W up to 4, 2..3 epochs, ranks interleaved, a
twin loader constructed with init_epoch) are recorded event by event (recording proxy around every rank's utterance
sampler) and DistLoaderTrace.tla (TLC) must accept every recorded job, inferring the never-logged epoch permutations."""
import copy
import json
import shutil
import sys
import tempfile
import time

from .. import par
from ..harness import MachineryError, main
from . import _distloader as DL
from . import _tracecheck

PROP = "X03"


def _shm():
    """scratch for the data directories: memory-backed when possible, always removed"""
    for base in ("/dev/shm", None):
        try:
            return tempfile.mkdtemp(prefix="vf_x03_", dir=base)
        except Exception:
            continue
    raise MachineryError("no scratch directory")


def describe(job):
    return ("%s N=%d W=%d %s on_uneven_distributed=%s drop_last=%s batch_size=%d num_length_buckets=%d "
            "size_batch_by_length=%s lens=%r seed=%r" % (
                DL.SITE[job["loader"]], job["N"], job["W"], "shuffled" if job["kind"] == "random" else "sequential",
                job["lmode"], job["dropLast"], job["bsz"], job["nbreq"], job["dyn"], job["lens"], job["seed"]))


def strip(job):
    return dict((k, v) for k, v in job.items() if k not in ("dir", "root"))


def eff_mode(job):
    """labelling only (the verdicts use the specification's EffModeOf)"""
    return "ignore" if job["cls"] == "window" else ("drop" if job["dropLast"] else job["lmode"])


# ----------------------------------------------------------------------------- spec -> code
def group_cases(jobs):
    """exported job records -> {case key: dict(c, refuses, accepted[rank][epoch] = dict(fed, len, batches: [lists]))}"""
    out = {}
    for r in jobs:
        c = r["c"]
        k = json.dumps(c, sort_keys=True)
        g = out.get(k)
        if g is None:
            g = out[k] = dict(c=c, refuses=r["refuses"], acc=None, nrec=0)
        g["nrec"] += 1
        if r["refuses"] != g["refuses"]:
            raise MachineryError("exported jobs of one case disagree on refusal: %r" % (c,))
        if r["refuses"]:
            continue
        if g["acc"] is None:
            g["acc"] = [[dict(fed=e["fed"], len=e["len"], batches=[]) for e in rk] for rk in r["ranks"]]
        for rk, grk in zip(r["ranks"], g["acc"]):
            for e, ge in zip(rk, grk):
                if e["fed"] != ge["fed"] or e["len"] != ge["len"]:
                    raise MachineryError("a sequential job's shard / length is not determined: %r" % (c,))
                if e["batches"] not in ge["batches"]:
                    ge["batches"].append(e["batches"])
    return out


def job_of_case(c, loader, root):
    return dict(N=c["N"], W=c["W"], kind=c["kind"], cls=c["cls"], loader=loader, lmode=c["lmode"],
                dropLast=c["dropLast"], bsz=c["bsz"], nbreq=c["nbreq"], dyn=c["dyn"], lens=list(c["lens"]),
                seed=0, root=root, epochs=2, twin=False, sched="ranks", sched_seed=0)


def compare_job(ctx, g, job, out):
    """one sequential case against the real run.  Everything compared is the specification's exported value."""
    c = g["c"]
    site = DL.SITE[job["loader"]]
    case = dict(type="seq", job=strip(job), spec=dict(c=c, refuses=g["refuses"], acc=g["acc"]))
    mode = c["mode"]

    def viol(kind, detail):
        ctx.violation(dict(site=site, kind=kind, mode=mode), "%s: %s" % (describe(job), detail), case)

    if out["failed"]:
        viol("exception", out["failed"])
        return False
    W = c["W"]
    raised = sorted(int(r) for r in out["raised"])
    if g["refuses"]:
        if raised != list(range(W)):
            viol("raise-not-refused", "the specification refuses (mode %s, %d utterances, %d ranks); constructor raised on "
                 "ranks %r only" % (mode, c["N"], W, raised))
            return False
        return True
    if raised:
        kind = "raise-unexpected"
        if c["cls"] == "spect" and c["dropLast"]:
            kind = "drop-last-does-not-force-drop"
        viol(kind, "constructor raised on ranks %r (%s); the specification's effective mode is %s: no refusal" % (
            raised, list(out["raised"].values())[0], mode))
        return False
    same_maps = out["maps"] is not None and list(out["maps"][0]) == c["i2b"] and list(out["maps"][1]) == c["size"]
    if not same_maps:
        # C14's clause (Boundaries); the batches of the specification's case are not comparable then
        ctx.count("informational_bucket_assignment_differs_from_Boundaries")
    by = dict(((r["rank"], r["epoch"]), r) for r in out["recs"])
    if len(by) != len(out["recs"]):
        viol("epoch-counter", "an epoch number was reported twice: %r" % [(r["rank"], r["epoch"]) for r in out["recs"]])
        return False
    ok = True
    for r in range(W):
        for e in range(2):
            want = g["acc"][r][e]
            got = by.get((r, e))
            if got is None:
                viol("epoch-counter", "rank %d: no epoch %d was iterated (epochs reported: %r)" % (
                    r, e, sorted(k[1] for k in by if k[0] == r)))
                ok = False
                continue
            if got["fed"] != want["fed"]:
                if len(got["fed"]) != len(want["fed"]):
                    kind = "share-size"
                elif sorted(got["fed"]) == sorted(want["fed"]):
                    kind = "order"
                else:
                    kind = "share"
                viol(kind, "rank %d epoch %d pulled utterances %r; the specification's share is %r" % (
                    r, e, got["fed"], want["fed"]))
                ok = False
                continue
            if same_maps and got["batches"] not in want["batches"]:
                viol("batches", "rank %d epoch %d delivered batches %r; the specification accepts %r" % (
                    r, e, got["batches"], want["batches"][:4]))
                ok = False
            if got["len"] != want["len"]:
                if same_maps:
                    viol("len", "rank %d: len(loader)=%d before epoch %d; the specification says %d (%d batches delivered)"
                         % (r, got["len"], e, want["len"], len(got["batches"])))
                    ok = False
    return ok


# ----------------------------------------------------------------------------- code -> spec
INV_KIND = {
    "JobCover": "job-cover", "Cover": "job-cover", "SharesAsDocumented": "share-size", "LenIsYielded": "share-size",
    "RankDisjoint": "rank-overlap", "Disjoint": "rank-overlap", "LenAgrees": "len", "LenIsBatchingLen": "len",
    "SameStepsWhenPromised": "steps-differ", "SameSamplesWhenPromised": "samples-differ",
    "UnevenByOne": "uneven-share", "EpochPermutationShared": "epoch-order-not-shared",
    "FedIsSharedOrder": "epoch-order-not-shared", "PathIndependent": "epoch-order-not-shared",
    "IgnoreSameBatches": "ignore-batches-differ", "IgnoreGivesAll": "ignore-not-everything",
    "BatchesWellFormed": "batch-malformed", "RefusesExactly": "raise", "CoordinatesAgree": "coordinates",
}


def classify(tr, v, job):
    """label a rejected job (labelling only; the verdict is TLC's)"""
    why = v["why"]
    if why.startswith("invariant"):
        name = why.split()[1]
        return INV_KIND.get(name, "invariant-" + name)
    ev = v.get("event") or {}
    op = ev.get("op")
    if op == "construct":
        if ev.get("raised"):
            return "drop-last-does-not-force-drop" if (job["cls"] == "spect" and job["dropLast"]) else "raise-unexpected"
        return "raise-not-refused"
    if op == "begin":
        return "epoch-counter"
    if op == "pull":
        return "share-or-order"       # beyond the rank's share, or contradicting the ONE order of the epoch
    if op == "exhaust":
        return "share-size"           # the rank stops before its share is complete
    if op == "yield":
        return "batches"
    if op == "finish":
        k = v["matched"]
        nb = 0
        for e in reversed(tr["events"][:k]):
            if e["rank"] != ev["rank"]:
                continue
            if e["op"] == "begin":
                break
            if e["op"] == "yield":
                nb += 1
        return "len" if ev.get("a") != nb else "incomplete-batch-withheld"
    return "rejected"


class _Capture:
    """ctx proxy for _tracecheck.validate that also keeps the records TLC exported"""

    def __init__(self, ctx):
        object.__setattr__(self, "_ctx", ctx)
        object.__setattr__(self, "records", [])

    def __getattr__(self, name):
        return getattr(self._ctx, name)

    def __setattr__(self, name, value):
        setattr(self._ctx, name, value)

    def add_tlc(self, name, res, count_states=True):
        self.records.extend(res.records)
        self._ctx.add_tlc(name, res, count_states)


def validate(ctx, traces, meta, name):
    """TLC accepts or rejects every recorded job; meta: tid -> (job, number of finished epochs recorded, case, maps?)"""
    cap = _Capture(ctx)
    chunk = min(4000, max(400, (len(traces) + 3) // 4))  # (_tracecheck runs up to 4 JVMs at a time)
    verdicts = _tracecheck.validate(cap, name, DL.TRACE_MOD, DL.TRACE_CFG, traces, chunk=chunk, timeout=3000)
    acc = dict((r["tid"], r) for r in cap.records if r.get("what") == "accepted")
    nbad = 0
    for tr in traces:
        job, nrec, case, has_maps = meta[tr["tid"]]
        v = verdicts[tr["tid"]]
        if v is None:
            a = acc[tr["tid"]]
            if a["ndone"] != nrec:  # binding guard: TLC must have logged every finished epoch the harness saw
                raise MachineryError("%s: TLC logged %d finished epochs, the harness %d" % (tr["tid"], a["ndone"], nrec))
            if a["stale"]:
                ctx.count("informational_jobs_with_a_stale_cached_len")
            if not a["stepsEqual"]:
                ctx.count("informational_jobs_with_ranks_taking_different_numbers_of_steps")
                if eff_mode(job) in ("raise", "drop"):
                    # equal numbers of SAMPLES per rank are promised here, equal numbers of batches are not once there
                    # is more than one length bucket (a hazard for collective operations per step)
                    ctx.count("informational_jobs_with_equal_samples_but_different_numbers_of_steps")
            if has_maps and not a["specAssign"]:
                ctx.count("informational_bucket_assignment_differs_from_Boundaries")
            continue
        nbad += 1
        ctx.violation(dict(site=DL.SITE[job["loader"]], kind=classify(tr, v, job), mode=eff_mode(job)),
                      "%s: TLC rejects the recorded job at event %d %r (%s); preceding events %r" % (
                          describe(job), v["matched"], v.get("event"), v["why"],
                          [(e["op"], e["rank"], e["a"], e["items"]) for e in tr["events"][max(0, v["matched"] - 8):v["matched"]]]),
                      dict(case, rejected_at=v["matched"]))
    ctx.traces += len(traces)
    return nbad


def random_job(rng, root, i, quick):
    maxN = 10 if quick else 14
    N = rng.choice([0, 1, 2, 3, 4, 5, 6, 7, 8, 9, maxN, maxN, rng.randint(0, maxN)])
    W = rng.choice([1, 2, 2, 3, 3, 4])
    which = rng.choice(["spect", "spect", "lang", "lang", "window"])
    nbreq = rng.choice([1, 2, 2, 3, 3])
    job = dict(N=N, W=W, kind="random", cls="spect", loader=which, lmode=rng.choice(DL.MODES),
               dropLast=rng.random() < 0.4, bsz=rng.randint(1, 4), nbreq=nbreq,
               dyn=nbreq > 1 and rng.random() < 0.4, lens=[rng.randint(1, 4) for _ in range(N)],
               seed=rng.choice([0, 1, 12345, 2 ** 31 - 1, rng.randrange(1, 100000)]),
               epochs=2 if (quick or rng.random() < 0.7) else 3, twin=rng.random() < 0.5,
               sched=rng.choice(["ranks", "mix", "mix"]), sched_seed=rng.randrange(1 << 20))
    if which == "window":
        job.update(cls="window", lmode="ignore", nbreq=1, dyn=False)
    if i % 10 == 0:
        job["kind"] = "seq"  # a few sequential jobs with the parameters the exhaustive universe does not reach
    job["root"] = root
    return job


def case_key(job):
    return (job["loader"], job["N"], job["W"], job["kind"], job["lmode"], job["dropLast"], job["bsz"], job["nbreq"],
            job["dyn"], job["lens"], job["seed"], job["epochs"], job["twin"], job["sched"], job["sched_seed"])


def nontrivial(job):
    """a real split: more than one rank, every rank gets something, the distributed context is not ignored"""
    return job["W"] > 1 and job["N"] >= job["W"] and eff_mode(job) != "ignore"


def collect(ctx, tid, job, out, traces, meta, case):
    """a finished real run -> trace for TLC (or an exception violation)"""
    if out["failed"]:
        ctx.violation(dict(site=DL.SITE[job["loader"]], kind="exception", mode=eff_mode(job)),
                      "%s: %s" % (describe(job), out["failed"]), case)
        return
    if nontrivial(job):  # binding guard, over the whole run (see run): the double must have been consulted
        ctx.count("fakedist_queries_in_jobs_with_a_real_split", out["fd_calls"])
    tr = DL.header(tid, job, out["maps"], out["events"])
    traces.append(tr)
    meta[tid] = (job, len(out["recs"]), case, out["maps"] is not None)


# ----------------------------------------------------------------------------- self-test
def selftest(ctx, traces, meta, root):
    """Binding self-test: corrupted copies of accepted jobs, and a REAL job run the wrong way (every rank its own seed),
    must be rejected by TLC."""
    def pick(pred):
        for t in traces:
            if pred(t, meta[t["tid"]][0]):
                return copy.deepcopy(t)
        raise MachineryError("self-test: no suitable recorded job")

    def ys(t, rank=None, op="yield"):
        return [e for e in t["events"] if e["op"] == op and (rank is None or e["rank"] == rank)]

    bad = []
    split = lambda t, j: (j["kind"] == "random" and j["W"] >= 2 and j["N"] >= 6 and eff_mode(j) in ("uneven", "drop", "raise")
                          and not j["dropLast"] and all(len(ys(t, r)) >= 1 for r in range(j["W"])))
    a = pick(split)  # one utterance moves from a batch of rank 0 to a batch of rank 1
    y0, y1 = ys(a, 0)[0], ys(a, 1)[0]
    y1["items"].append(y0["items"].pop())
    a["tid"] = "self-utterance-moved-to-another-rank"
    bad.append(a)
    b = pick(split)  # a reported length off by one
    ys(b, op="finish")[0]["a"] += 1
    b["tid"] = "self-len-off-by-one"
    bad.append(b)
    c = pick(split)  # rank 1 pulls (and delivers) an utterance rank 0 already pulled in that epoch
    p0 = ys(c, 0, "pull")[0]
    p1 = ys(c, 1, "pull")[0]
    for e in ys(c, 1):
        if p1["a"] in e["items"]:
            e["items"][e["items"].index(p1["a"])] = p0["a"]
            break
    p1["a"] = p0["a"]
    c["tid"] = "self-utterance-on-two-ranks"
    bad.append(c)
    d = pick(lambda t, j: j["W"] >= 2 and j["N"] % j["W"] == 0 and j["N"] > 0 and ys(t, op="construct"))
    ys(d, op="construct")[0]["raised"] = True  # a constructor that raises although W divides N
    d["events"] = [e for e in d["events"] if e["rank"] != ys(d, op="construct")[0]["rank"] or e["op"] == "construct"]
    d["tid"] = "self-refusal-without-cause"
    bad.append(d)
    e = pick(lambda t, j: split(t, j) and len(ys(t, 0)) >= 2 and j["nbreq"] == 1)  # two batches of a rank swapped
    q = ys(e, 0)
    q[0]["items"], q[1]["items"] = q[1]["items"], q[0]["items"]
    e["tid"] = "self-batches-swapped"
    bad.append(e)
    # the real loaders, wrong usage: the ranks do not share the seed -> no single order of the epoch explains the job
    N, W = 8, 2
    job = None
    for s in range(1, 50):
        cand = dict(N=N, W=W, kind="random", cls="spect", loader="spect", lmode="raise", dropLast=False, bsz=2, nbreq=1,
                    dyn=False, lens=[1] * N, seed=7, seeds=[7, 7 + s], epochs=1, twin=False, sched="ranks", sched_seed=0,
                    root=root)
        out = DL.run_job(cand)
        feds = [set(r["fed"]) for r in out["recs"]]
        if not out["failed"] and len(feds) == 2 and feds[0] & feds[1]:
            job = cand
            bad.append(DL.header("self-real-job-ranks-with-different-seeds", cand, out["maps"], out["events"]))
            break
    if job is None:
        raise MachineryError("self-test: ranks with different seeds never overlapped")
    sub = type(ctx)(ctx.prop, ctx.tier, ctx.seed, ctx.level)
    try:
        v = _tracecheck.validate(sub, "DistLoaderTrace/selftest", DL.TRACE_MOD, DL.TRACE_CFG, bad)
    finally:
        shutil.rmtree(sub.workdir, ignore_errors=True)
    missed = [t for t, x in v.items() if x is None]
    if missed:
        raise MachineryError("self-test: jobs that must be rejected were accepted: %r" % missed)
    ctx.extra["selftest"] = dict((t, "%s @%d" % (x["why"], x["matched"])) for t, x in v.items())


# ----------------------------------------------------------------------------- entry points
def run(ctx):
    ctx.rule = ("spec->code: every exported sequential case (N<=5, W<=3, class, mode, drop_last, batch size<=3, 1..2 length "
                "buckets x every length vector over {1,2}) on real SpectDataLoader AND LangDataLoader (class spect) / "
                "ContextWindowDataLoader (class window) objects, one per rank, two epochs (quick: every case with N<=4, a "
                "seeded half of N=5); code->spec: those runs and seeded shuffled jobs (N<=14, W<=4, 2..3 epochs, ranks "
                "interleaved, twin loader with init_epoch) validated by DistLoaderTrace; non-trivial = W>1, N>=W and the "
                "effective mode is not ignore (a real split), distinct by the full job configuration")
    ctx.assumptions += [
        "one process simulates all ranks: torch.distributed.is_available/is_initialized/get_rank/get_world_size are replaced "
        "by the FakeDist double while a rank's loader is constructed (what AbstractEpochSampler.__init__ reads)",
        "every rank is given the same directory, parameters and seed (the documented usage); num_workers=0, sort_batch=False, "
        "suppress_uttids=False (batches are read back through their utterance ids)",
        "the harness asks len(loader) once before every epoch (the first call on an object computes and caches the value)",
        "on_uneven_distributed='drop' is passed to Spect/LangDataLoader although their docstrings list raise/uneven/ignore only "
        "(the argument is handed to the sampler, whose documentation defines 'drop')",
        "a cached len(loader) that went stale (shuffled + length buckets + real split) is documented as NOT promised "
        "(DistLoader_stale.cfg: TLC must find the counterexample); a loader recomputing instead of caching is accepted too",
        "this check is not tied to a listed property (extra coverage)"]
    root = _shm()
    try:
        rng = ctx.rng
        traces, meta = [], {}
        phases = ctx.extra.setdefault("phase_wall_s", {})
        t0 = time.time()

        def lap(name):
            nonlocal t0
            phases[name] = round(time.time() - t0, 1)
            t0 = time.time()

        # --- code -> spec: seeded shuffled jobs on the real loaders (before any thread exists: par.pmap forks)
        nrand = 700 if ctx.quick else 6000
        rjobs = [random_job(rng, root, i, ctx.quick) for i in range(nrand)]
        routs = par.pmap(DL.run_job, rjobs)
        lap("shuffled jobs on the real loaders")
        design = DL.start_design(ctx)  # TLC on the design configurations runs while the recorded jobs are validated
        try:
            for n, (job, out) in enumerate(zip(rjobs, routs)):
                tid = "rnd-%d" % n
                ctx.case(key=("rnd",) + case_key(job), nontrivial=nontrivial(job),
                         sample=dict(job=describe(job), epochs=[dict(rank=r["rank"], epoch=r["epoch"], pulled=r["fed"],
                                                                     batches=r["batches"], len=r["len"], fresh=r["fresh"])
                                                                for r in out["recs"]])
                         if n == 3 else None)
                collect(ctx, tid, job, out, traces, meta, dict(type="job", job=strip(job)))
            ctx.count("shuffled_jobs_run", sum(1 for j in rjobs if j["kind"] == "random"))
            validate(ctx, traces, meta, "DistLoaderTrace/shuffled")
            lap("TLC validation of the shuffled jobs (design checks running alongside)")
        finally:
            jobs, infos = DL.finish_design(ctx, design)
        lap("waiting for the design checks")
        ctx.extra["spec_terminal_behaviours"] = len(infos)
        ctx.extra["spec_behaviours_with_unequal_steps_where_not_promised"] = sum(
            1 for r in infos if not r["stepsEqual"] and not r["stepsPromised"])
        ctx.extra["spec_behaviours_with_stale_len"] = sum(1 for r in infos if r["stale"])
        if any((not r["stepsEqual"]) and r["stepsPromised"] for r in infos):
            raise MachineryError("an exported behaviour has unequal steps where they are promised")
        cases = group_cases(jobs)
        ctx.extra["sequential_cases_exported"] = len(cases)
        ctx.extra["sequential_job_records_exported"] = len(jobs)
        # --- spec -> code (and the same runs code -> spec)
        items = []
        for k in sorted(cases):
            g = cases[k]
            c = g["c"]
            if ctx.quick and c["N"] >= 5 and rng.random() < 0.5:
                continue
            for loader in (("spect", "lang") if c["cls"] == "spect" else ("window",)):
                items.append((g, job_of_case(c, loader, root)))
        ctx.exhaustive = not ctx.quick
        results = par.pmap(DL.run_job, [it[1] for it in items])
        lap("sequential jobs on the real loaders")
        straces = []
        nref = 0
        for n, ((g, job), out) in enumerate(zip(items, results)):
            tid = "seq-%d" % n
            compare_job(ctx, g, job, out)
            nref += bool(g["refuses"])
            ctx.case(key=("seq",) + case_key(job), nontrivial=nontrivial(job),
                     sample=dict(job=describe(job), refuses=g["refuses"],
                                 ranks=[[dict(pulled=e["fed"], batches=e["batches"][0], len=e["len"]) for e in rk]
                                        for rk in (g["acc"] or [])])
                     if (job["lens"], job["W"], job["lmode"], job["nbreq"], job["bsz"], job["dropLast"]) == (
                         [1, 2, 1, 2], 3, "uneven", 2, 2, False) else None)
            ctx.traces += 1
            if not out["failed"]:
                collect(ctx, tid, job, out, straces, meta, dict(type="seq", job=strip(job),
                                                              spec=dict(c=g["c"], refuses=g["refuses"], acc=g["acc"])))
        ctx.count("sequential_jobs_replayed", len(items))
        ctx.count("sequential_jobs_refused", nref)
        validate(ctx, straces, meta, "DistLoaderTrace/sequential")
        lap("comparison + TLC validation of the sequential jobs")
        traces += straces
        ctx.count("events_validated", sum(len(t["events"]) for t in traces))
        ctx.count("rank_epochs_validated", sum(meta[t["tid"]][1] for t in traces))
        if not ctx.counters.get("fakedist_queries_in_jobs_with_a_real_split"):
            raise MachineryError("FakeDist was never queried in any job with a real split: the double is not bound")
        selftest(ctx, traces, meta, root)
        lap("self-test")
    finally:
        shutil.rmtree(root, ignore_errors=True)


def replay(ctx, case):
    root = _shm()
    try:
        job = dict(case["job"], root=root)
        out = DL.run_job(job)
        print("replayed %s: %d events, failed=%r, constructor raised on ranks %r" % (
            describe(job), len(out["events"]), out["failed"], sorted(out["raised"])))
        if case.get("type") == "seq":
            compare_job(ctx, case["spec"], job, out)
        traces, meta = [], {}
        collect(ctx, "replay", job, out, traces, meta, dict(case))
        if traces:
            validate(ctx, traces, meta, "DistLoaderTrace/replay")
    finally:
        shutil.rmtree(root, ignore_errors=True)


if __name__ == "__main__":
    sys.exit(main(PROP, "model_checking", run, replay))
