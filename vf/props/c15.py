"""C15 -- training control decisions follow the stated rules and survive restarts.

TrainCtl.tla: the code-shaped countdown arithmetic is checked by TLC against a declarative tracker
written from the property text, for every parameter setting x every metric history (exhaustive), with
a Restart action anywhere.  spec -> code: every exported behaviour is replayed on a real
TrainingStateController on real files (several restart patterns each): returned decision, learning
rate in history and optimizer, best/last epoch, user entries (types and values; the str entry takes the
specification's awkward strings) are compared with the spec after every update; the history recorded
with restarts is compared with the uninterrupted one.

Parameter groups (TrainCtl!optlr is a vector; TrainCtlOpt.tla follows the life of each optimizer object): the
optimizer of every replay has two groups; the set-ups "optimizer's own default rate", "group 2 constructed with its
own rate" and "history file alone, no state directory" are checked by TLC (a reduction writes the recorded rate into
EVERY group whatever it held; otherwise groups are left alone) and the exported behaviours - restarts included -
are replayed, the optimizer's groups projected onto the specification's values after every load and update.

TrainCtlRb.tla: roll-back.  A run is resumed from an earlier epoch (same or rebuilt controller) and the
following epochs are reported again through the documented `epoch` argument; the declarative tracker is
recomputed over the chain of epochs leading to the reported one; TLC checks the same rules; replay."""
import itertools
import os
import shutil
import sys
import tempfile

from .. import SPECS, par, tlc
from ..harness import MachineryError, main
from . import _tc

PROP = "C15"
MOD = os.path.join(SPECS, "TrainCtlMC.tla")
ACTIONS = ["Init", "UpdateForEpoch", "Restart"]
MOD_OPT = os.path.join(SPECS, "TrainCtlOpt.tla")
ACTIONS_OPT = ["OInit", "OUpdate", "ORestart"]
GROUPS = 2  # parameter groups of the replayed optimizer (TrainCtl!NG)
MOD_RB = os.path.join(SPECS, "TrainCtlRb.tla")
ACTIONS_RB = ["RbInit", "Report", "Rollback"]
ENT = "note"  # entry set of _tc.Sim: the spec's str entry first, then int / float / str


def _close(a, b):
    return abs(a - b) <= 1e-12 * max(1.0, abs(b))


def restarts_of(rec):
    """the epochs after which a behaviour of TrainCtlOpt discards every object (its "start" events but the first)"""
    return frozenset(ev["e"] for ev in rec["olog"][1:] if ev["op"] == "start")


def expected_rates(rec, rs):
    """the specification's optimizer: -> (epoch -> group rates after a (re)start there, epoch -> group rates after its
    update).  TrainCtlOpt behaviours carry them (olog); in the standard set-up (configured initial rate, state
    directory) every group holds the recorded rate whatever the restarts (TrainCtl!OptimizerHasRate)."""
    if "olog" in rec:
        return (dict((ev["e"], ev["lrs"]) for ev in rec["olog"] if ev["op"] == "start"),
                dict((ev["e"], ev["lrs"]) for ev in rec["olog"] if ev["op"] == "update"))
    up = dict((r["epoch"], [r["lrk"]] * GROUPS) for r in rec["rows"])
    up[0] = [0] * GROUPS
    return dict((e, up[e]) for e in set(rs) | {0}), up


def replay_one(job):
    """job = (rec, restart_set, keep_lb, base_dir) -> list of (sig, detail, case)"""
    rec, rs, keep_lb, base = job
    out = []
    d = tempfile.mkdtemp(dir=base)
    case = dict(p=rec["p"], rows=rec["rows"], conts=rec["conts"], best=rec["best"], besttrn=rec.get("besttrn"),
                ustr=rec["ustr"], restarts=sorted(rs), keep_lb=keep_lb)
    if "olog" in rec:
        case["olog"] = rec["olog"]
    at_start, at_update = expected_rates(rec, rs)
    rows = [dict(r, ustr=u) for r, u in zip(rec["rows"], rec["ustr"])]

    def bad(site, kind, detail):
        out.append((dict(site=site, kind=kind), detail, case))

    try:
        sim = _tc.Sim(d, rec["p"], keep_lb=keep_lb, entries=ENT, groups=GROUPS)
        std = _tc.setup_of(rec["p"]) == (1, 0, 1)
        legend = "(k = recorded rate 2^-k, -g = the rate group g was constructed with, %d = neither)" % _tc.OFF_GRID
        if sim.opt_abs() != at_start[0]:
            # which rates the optimizer starts with is the documentation's, not the property's (in the standard set-up
            # the comparison after the first update judges it)
            out.append((None, "optimizer_set_up", None))
        nrows = len(rows)
        held = sim.opt_abs()
        for i, row in enumerate(rows):
            e = row["epoch"]
            if (e - 1) in rs:
                try:
                    sim.start()  # discard everything, rebuild from files
                except Exception as ex:
                    bad("restart", "exception", "constructing a controller on the files after epoch %d raised %r" % (e - 1, ex))
                    return out
                if e > 1 and _tc.setup_of(rec["p"])[2] and sim.opt_abs() != held:
                    # history file AND state directory: "reproduces ... the same ... learning rates" - the groups hold what
                    # they held when the states of the last epoch were saved (TrainCtl!Restart: optlr' = ckpt[last])
                    bad("restart", "optimizer_lr", "after restart at epoch %d the optimizer's groups hold %r = %r; after the update of that epoch "
                        "they held %r (specification: %r) %s" % (e - 1, sim.opt_lrs(), sim.opt_abs(), held, at_start[e - 1], legend))
                elif sim.opt_abs() != at_start[e - 1]:
                    # from the history file alone nothing is loaded: what the new optimizer holds is not the property's
                    out.append((None, "optimizer_set_up", None))
                if e > 1:
                    if sim.ctl.get_last_epoch() != e - 1:
                        bad("restart", "last_epoch", "get_last_epoch()=%r after restart, expected %d" % (sim.ctl.get_last_epoch(), e - 1))
            lrs_before = sim.opt_lrs()
            try:
                cont = sim.update(row)
            except Exception as ex:
                bad("update_for_epoch", "exception", "epoch %d raised %r" % (e, ex))
                return out
            if bool(cont) != rec["conts"][i]:
                bad("update_for_epoch", "stop_decision", "epoch %d returned %r, rule says %r" % (e, cont, rec["conts"][i]))
            info = sim.ctl.get_info(e, None)
            if info is None:
                bad("get_info", "missing", "no info for epoch %d" % e)
                return out
            want = _tc.row_as_csv(row, ENT)
            if not _close(info["lr"], want["lr"]):
                bad("update_for_epoch", "lr_reduction", "epoch %d recorded lr %r, rule says %r" % (e, info["lr"], want["lr"]))
            held = sim.opt_abs()
            prevk = rows[i - 1]["lrk"] if i else 0
            if row["lrk"] != prevk or std:
                # the rate was reduced: "writes the new rate into the optimizer", every group (standard set-up: the
                # optimizer carries the recorded rate throughout)
                if sim.opt_abs() != at_update[e]:
                    bad("update_for_epoch", "optimizer_lr", "epoch %d (recorded rate 2^-%d, previous 2^-%d): the optimizer's groups hold %r = %r, "
                        "specification: %r %s" % (e, row["lrk"], prevk, sim.opt_lrs(), sim.opt_abs(), at_update[e], legend))
            elif sim.opt_lrs() != lrs_before:
                # "never otherwise": no reduction, so no group may move - except onto the recorded rate itself (the
                # specification leaves the groups alone, as the code does; re-writing the unchanged recorded rate into a
                # group that held another one multiplies nothing and is not ruled out by the property: informational)
                after = sim.opt_abs()
                if any(x != y and a != row["lrk"] for x, y, a in zip(lrs_before, sim.opt_lrs(), after)):
                    bad("update_for_epoch", "optimizer_lr", "epoch %d did not reduce the rate (recorded 2^-%d) but the optimizer's groups went "
                        "from %r to %r" % (e, row["lrk"], lrs_before, sim.opt_lrs()))
                else:
                    out.append((None, "optimizer_set_up", None))
            elif sim.opt_abs() != at_update[e]:
                out.append((None, "optimizer_set_up", None))
            for name, typ, _ in _tc.Sim.ENTRIES_NOTE:
                if name not in info or type(info[name]) is not typ or info[name] != want[name]:
                    bad("get_info", "user_entry", "epoch %d entry %s = %r (%s), expected %r (%s)" % (
                        e, name, info.get(name), type(info.get(name)).__name__, want[name], typ.__name__))
            if sim.ctl[e] is not info and sim.ctl[e] != info:
                bad("__getitem__", "info", "controller[e] differs from get_info(e)")
            if sim.ctl.get_best_epoch() != rec["best"][i]:
                bad("get_best_epoch", "value", "epoch %d best %r expected %r" % (e, sim.ctl.get_best_epoch(), rec["best"][i]))
            if "besttrn" in rec and sim.ctl.get_best_epoch(True) != rec["besttrn"][i]:
                bad("get_best_epoch", "value_train_met", "epoch %d best by training metric %r expected %r" % (
                    e, sim.ctl.get_best_epoch(True), rec["besttrn"][i]))
            if sim.ctl.get_last_epoch() != e:
                bad("get_last_epoch", "value", "epoch %d last %r" % (e, sim.ctl.get_last_epoch()))
            if bool(sim.ctl.continue_training()) != rec["conts"][i]:
                bad("continue_training", "stop_decision", "epoch %d continue_training()=%r, rule says %r" % (
                    e, sim.ctl.continue_training(), rec["conts"][i]))
            # informational: countdown representation (not a clause of the property)
            cd = [info["es_resume_cd"], info["es_patience_cd"], info["rlr_resume_cd"], info["rlr_patience_cd"]]
            if cd != [row["esres"], row["espat"], row["rres"], row["rpat"]]:
                out.append((None, "countdown", None))
        # recorded history (after a final restart, read back with types)
        lines = sim.read_csv()
        try:
            got = [_tc.parse_csv_line(x, ENT) for x in lines]
        except Exception as ex:
            bad("state_csv", "unparsable", "history file cannot be parsed: %r" % ex)
            return out
        wantrows = [_tc.row_as_csv(r, ENT) for r in rows]
        if len(got) != nrows:
            bad("state_csv", "length", "history has %d rows, expected %d" % (len(got), nrows))
        else:
            for g, w in zip(got, wantrows):
                for k in ("epoch", "lr", "train_met", "val_met", "note", "user", "uf", "us"):
                    if (isinstance(w[k], float) and not _close(g[k], w[k])) or (not isinstance(w[k], float) and g[k] != w[k]):
                        bad("state_csv", "field_" + k, "epoch %d: recorded %s=%r expected %r" % (w["epoch"], k, g[k], w[k]))
                        break
        # the uninterrupted run's file must be reproduced byte for byte by a run with restarts
        with open(sim.csv, newline="") as f:
            text = f.read()
        out.append(("csv", text, None))
        # reload through a fresh controller: entries come back with their declared types
        try:
            ctl = sim.start()
        except Exception as ex:
            bad("restart", "exception", "constructing a controller on the final files raised %r" % ex)
            return out
        for row in rows:
            info = ctl.get_info(row["epoch"], None)
            w = _tc.row_as_csv(row, ENT)
            if info is None:
                bad("get_info", "missing_after_reload", "epoch %d" % row["epoch"])
                continue
            for name, typ, _ in _tc.Sim.ENTRIES_NOTE:
                if type(info.get(name)) is not typ or info[name] != w[name]:
                    bad("get_info", "user_entry_reloaded", "epoch %d entry %s = %r expected %r (%s)" % (
                        row["epoch"], name, info.get(name), w[name], typ.__name__))
        return out
    finally:
        shutil.rmtree(d, ignore_errors=True)


RB_VARIANTS = ("same", "rebuilt", "rebuilt_each")


def replay_rb(job):
    """roll-back behaviour of TrainCtlRb: job = (rec, variant, base_dir) -> list of (sig, detail, case).
    variant: "same" = one controller throughout (epochs of the first run inferred); "rebuilt" = a new controller
    from the files at the roll-back; "rebuilt_each" = also after every re-reported epoch.  All checkpoints are
    kept (the states of the epoch rolled back to must exist)."""
    rec, variant, base = job
    out = []
    d = tempfile.mkdtemp(dir=base)
    case = dict(p=rec["p"], log=rec["log"], conts=rec["conts"], ustr=rec["ustr"], variant=variant, rollback=True)
    log = [dict(r, ustr=u) for r, u in zip(rec["log"], rec["ustr"])]

    def bad(site, kind, detail):
        out.append((dict(site=site, kind=kind, rollback=True), detail, case))

    def rebuild(where):
        try:
            sim.start()
            return True
        except Exception as ex:
            bad("restart", "exception", "constructing a controller on the files %s raised %r" % (where, ex))
            return False

    try:
        sim = _tc.Sim(d, rec["p"], keep_lb=False, entries=ENT)
        cur, eff, cont_of, rolled = 0, {}, {}, False
        for i, row in enumerate(log):
            e = row["epoch"]
            if e != cur + 1:
                # ---- Rollback(j): resume from the states of epoch j
                j = e - 1
                rolled = True
                if variant != "same" and not rebuild("at the roll-back to epoch %d" % j):
                    return out
                try:
                    sim.load_epoch(j)
                except Exception as ex:
                    bad("load_model_and_optimizer_for_epoch", "exception", "loading epoch %d to roll back raised %r" % (j, ex))
                    return out
                want = _tc.FACTOR ** (eff[j]["lrk"] if j else 0)
                if not all(_close(x, want) for x in sim.opt_lrs()):
                    bad("rollback", "optimizer_lr", "optimizer loaded for epoch %d has lr %r, recorded %r" % (j, sim.opt_lrs(), want))
                if j and bool(sim.ctl.continue_training(j)) != cont_of[j]:
                    bad("continue_training", "stop_decision", "continue_training(%d)=%r after the roll-back, rule says %r" % (
                        j, sim.ctl.continue_training(j), cont_of[j]))
            elif rolled and variant == "rebuilt_each":
                if not rebuild("after re-reported epoch %d" % cur):
                    return out
                try:
                    sim.load_epoch(cur)
                except Exception as ex:  # the library's call, not the driver's: a rebuilt controller must know epoch `cur`
                    bad("load_model_and_optimizer_for_epoch", "exception", "a rebuilt controller loading epoch %d raised %r" % (cur, ex))
                    return out
            try:
                cont = sim.update(row, epoch=e if (rolled or variant != "same") else None)
            except Exception as ex:
                bad("update_for_epoch", "exception", "report %d (epoch %d) raised %r" % (i + 1, e, ex))
                return out
            cur = e
            eff[e], cont_of[e] = row, rec["conts"][i]
            if bool(cont) != rec["conts"][i]:
                bad("update_for_epoch", "stop_decision", "report %d: epoch %d returned %r, the rule over the chain of epochs 1..%d says %r" % (
                    i + 1, e, cont, e, rec["conts"][i]))
            if bool(sim.ctl.continue_training(e)) != rec["conts"][i]:
                bad("continue_training", "stop_decision", "report %d: continue_training(%d)=%r, rule says %r" % (
                    i + 1, e, sim.ctl.continue_training(e), rec["conts"][i]))
            info = sim.ctl.get_info(e, None)
            if info is None:
                bad("get_info", "missing", "no info for epoch %d" % e)
                return out
            want = _tc.row_as_csv(row, ENT)
            if not _close(info["lr"], want["lr"]):
                bad("update_for_epoch", "lr_reduction", "report %d: epoch %d recorded lr %r, rule says %r" % (i + 1, e, info["lr"], want["lr"]))
            if not all(_close(x, want["lr"]) for x in sim.opt_lrs()):
                bad("update_for_epoch", "optimizer_lr", "report %d: epoch %d optimizer lr %r, expected %r" % (i + 1, e, sim.opt_lrs(), want["lr"]))
            if not _close(info["val_met"], want["val_met"]) or info["epoch"] != e:
                bad("get_info", "info", "report %d: epoch %d info holds epoch %r val_met %r" % (i + 1, e, info["epoch"], info["val_met"]))
            for name, typ, _ in _tc.Sim.ENTRIES_NOTE:
                if name not in info or type(info[name]) is not typ or info[name] != want[name]:
                    bad("get_info", "user_entry", "report %d: epoch %d entry %s = %r, expected %r (%s)" % (
                        i + 1, e, name, info.get(name), want[name], typ.__name__))
        with open(sim.csv, newline="") as f:
            out.append(("csv", f.read(), None))
        # a reader of the file sees, per epoch, the row written last
        if not rebuild("at the end"):
            return out
        for e, row in sorted(eff.items()):
            info = sim.ctl.get_info(e, None)
            w = _tc.row_as_csv(row, ENT)
            if info is None:
                bad("get_info", "missing_after_reload", "epoch %d" % e)
                continue
            if not _close(info["lr"], w["lr"]) or not _close(info["val_met"], w["val_met"]):
                bad("get_info", "info_reloaded", "epoch %d reloaded lr %r val_met %r, expected %r %r" % (
                    e, info["lr"], info["val_met"], w["lr"], w["val_met"]))
            for name, typ, _ in _tc.Sim.ENTRIES_NOTE:
                if type(info.get(name)) is not typ or info[name] != w[name]:
                    bad("get_info", "user_entry_reloaded", "epoch %d entry %s = %r expected %r (%s)" % (
                        e, name, info.get(name), w[name], typ.__name__))
        return out
    finally:
        shutil.rmtree(d, ignore_errors=True)


def restart_patterns(rng, n, exhaustive, quick=False):
    """sets of epochs AFTER which the controller is discarded (0 = before the first update)"""
    if exhaustive:
        return [frozenset(s) for k in range(n + 1) for s in itertools.combinations(range(n), k)]
    pats = [frozenset(), frozenset(e for e in range(n) if rng.random() < 0.5)]
    if quick:
        return list(dict.fromkeys(pats))
    pats.append(frozenset(range(1, n)))
    return list(dict.fromkeys(pats))


def run(ctx):
    ctx.rule = ("[parameter groups: every replay uses a two-group optimizer; TrainCtl_groups + TrainCtlOpt: optimizer's default rate / "
                "group 2 with its own rate / history file alone, restarts after every subset of epochs; a seeded sample of the "
                "exported behaviours (each with its uninterrupted companion) replayed, the groups' rates compared after every load "
                "and update] [roll-back: TrainCtlRb, every run of <= 4 epochs rolled back once to any earlier epoch and carried on; a seeded "
                "sample of the exported behaviours replayed on one controller and on rebuilt ones] "
                "TLC: every parameter setting x every metric history (see tlc_runs) with restarts anywhere; replay: every "
                "behaviour of the replay config on a real controller under restart patterns {none, seeded subset; thorough adds after-every-epoch"
                "} (thorough: every subset for histories <= 4); non-trivial = behaviour in which early stopping fired, "
                "the rate was reduced, or a cool-down/burn-in was active; distinct by (parameters, metric history, restarts)")
    ctx.assumptions += ["metrics/thresholds on a 0.25 grid, lr0 = 1, factor = 1/2 (exact in the history file's 5 digits)",
                        "countdown fields of the history are compared with the spec only informationally (the property "
                        "speaks of decisions, rates and recorded history)"]
    tag = "quick" if ctx.quick else "thorough"
    design = ["design_" + tag, "budget"]
    import threading

    got, errs = {}, []

    def job(name, workers, mod=MOD, stem="TrainCtl"):
        try:
            got[name] = tlc.run(mod, os.path.join(SPECS, "%s_%s.cfg" % (stem, name)), workers=workers, timeout=5000)
        except Exception as ex:
            errs.append(ex)

    ths = [threading.Thread(target=job, args=(design[0], 7)), threading.Thread(target=job, args=(design[1], 2)),
           threading.Thread(target=job, args=("replay_" + tag, 2)),
           threading.Thread(target=job, args=("rb_design_" + tag, 3 if ctx.quick else 8, MOD_RB, "TrainCtlRb")),
           threading.Thread(target=job, args=("rb_replay_" + tag, 2, MOD_RB, "TrainCtlRb")),
           threading.Thread(target=job, args=("groups_" + tag, 2 if ctx.quick else 4)),
           threading.Thread(target=job, args=("opt_replay_" + tag, 2, MOD_OPT, "TrainCtlOpt"))]
    for th in ths:
        th.start()
    for th in ths:
        th.join()
    if errs:
        raise errs[0]
    for name in design:
        res = got[name]
        tlc.require_ok(res, "TrainCtl/" + name)
        tlc.require_covered(res, ACTIONS, "TrainCtl/" + name)
        ctx.add_tlc("TrainCtl/" + name, res)
    res = got["groups_" + tag]
    tlc.require_ok(res, "TrainCtl/groups")
    tlc.require_covered(res, ACTIONS, "TrainCtl/groups")
    ctx.add_tlc("TrainCtl/groups_" + tag, res)
    res = got["opt_replay_" + tag]
    tlc.require_ok(res, "TrainCtlOpt/replay")
    tlc.require_covered(res, ACTIONS_OPT, "TrainCtlOpt/replay")
    ctx.add_tlc("TrainCtlOpt/replay_" + tag, res)
    optrecs = res.records
    if not optrecs:
        raise MachineryError("no optimizer-life behaviours exported")
    res = got["rb_design_" + tag]
    tlc.require_ok(res, "TrainCtlRb/design")
    tlc.require_covered(res, ACTIONS_RB, "TrainCtlRb/design")
    ctx.add_tlc("TrainCtlRb/design_" + tag, res)
    res = got["rb_replay_" + tag]
    tlc.require_ok(res, "TrainCtlRb/replay")
    ctx.add_tlc("TrainCtlRb/replay_" + tag, res, count_states=False)
    rbrecs = res.records
    if not rbrecs:
        raise MachineryError("no roll-back behaviours exported")
    res = got["replay_" + tag]
    tlc.require_ok(res, "TrainCtl/replay")
    ctx.add_tlc("TrainCtl/replay_" + tag, res, count_states=False)
    recs = res.records
    if not recs:
        raise MachineryError("no behaviours exported")
    ctx.exhaustive = True
    if ctx.quick:
        # the design checks above are exhaustive; the quick tier replays a seeded half of the exported behaviours
        recs.sort(key=lambda r: (sorted(r["p"].items()), [x["val"] for x in r["rows"]]))
        recs = ctx.rng.sample(recs, len(recs) // 2)
        ctx.extra["replayed_fraction_of_exported_behaviours"] = 0.5
    base = ctx.subdir("runs")
    jobs = []
    for rec in recs:
        n = len(rec["rows"])
        exh = (not ctx.quick) and n <= 4 and ctx.rng.random() < 0.05  # every subset of restarts for a seeded 5 %
        for rs in restart_patterns(ctx.rng, n, exh, ctx.quick):
            jobs.append((rec, rs, ctx.rng.random() < 0.7, base))
    # the optimizer's life (TrainCtlOpt): a seeded sample of (parameters, metric history), each with the uninterrupted
    # behaviour and some of those with restarts (the specification chose where)
    groups = {}
    for rec in optrecs:
        groups.setdefault((tuple(sorted(rec["p"].items())), tuple(r["val"] for r in rec["rows"])), []).append(rec)
    for g in groups.values():
        g.sort(key=lambda r: sorted(restarts_of(r)))

    def foreign(rec):
        """a reduction hits a group that does not hold the recorded rate (own rate / new object nothing was loaded into)"""
        evs = rec["olog"]
        return any(b["op"] == "update" and b["lrs"] != a["lrs"] and any(x != b["lrs"][0] - 1 for x in a["lrs"])
                   for a, b in zip(evs, evs[1:]))

    if not any(foreign(r) and r["p"]["SD"] == 0 and restarts_of(r) for r in optrecs) or \
            not any(foreign(r) and r["p"]["OG"] == 1 for r in optrecs):
        raise MachineryError("TrainCtlOpt universe is vacuous: no reduction ever meets a group holding another rate than the recorded one")
    keys = sorted(groups)
    n_opt = min(len(keys), 700 if ctx.quick else 3000)
    ctx.extra["optimizer_life_behaviours_exported"] = len(optrecs)
    n_optjobs = 0
    for key in ctx.rng.sample(keys, n_opt):
        g = groups[key]
        if restarts_of(g[0]):
            raise MachineryError("TrainCtlOpt exported no uninterrupted behaviour for %r" % (key,))
        others = g[1:]
        picked = [g[0]] + (ctx.rng.sample(others, min(len(others), 2)) if ctx.quick else others)
        for rec in picked:
            jobs.append((rec, restarts_of(rec), ctx.rng.random() < 0.7, base))
            n_optjobs += 1
    ctx.extra["optimizer_life_behaviours_replayed"] = n_optjobs
    # roll-back behaviours: a seeded sample of the exported ones, each on one controller and on rebuilt ones
    rbrecs.sort(key=lambda r: (sorted(r["p"].items()), [(x["epoch"], x["val"]) for x in r["log"]]))
    n_rb = min(len(rbrecs), 700 if ctx.quick else 6000)
    ctx.extra["rollback_behaviours_exported"] = len(rbrecs)
    ctx.extra["rollback_behaviours_replayed"] = n_rb
    rbjobs = []
    for rec in ctx.rng.sample(rbrecs, n_rb):
        for variant in ("same", ctx.rng.choice(RB_VARIANTS[1:])) if ctx.quick else RB_VARIANTS:
            rbjobs.append((rec, variant, base))
    results = par.pmap(replay_one, jobs)
    rbresults = par.pmap(replay_rb, rbjobs)
    rb_beh = {}
    for (rec, variant, _), out in zip(rbjobs, rbresults):
        key = (tuple(sorted(rec["p"].items())), tuple((r["epoch"], r["val"]) for r in rec["log"]))
        ctx.case(key=(key, variant), nontrivial=any(not c for c in rec["conts"]) or any(r["lrk"] > 0 for r in rec["log"]),
                 n=len(rec["log"]),
                 sample=dict(params=rec["p"], reports=[(r["epoch"], r["val"]) for r in rec["log"]], controller=variant,
                             decisions=rec["conts"]) if ctx.rng.random() < 0.001 else None)
        ctx.traces += 1
        for sig, detail, case in out:
            if sig == "csv":
                rb_beh.setdefault(key, {})[variant] = detail
            else:
                ctx.violation(sig, detail, case)
    for key, d in rb_beh.items():
        for variant, text in d.items():
            if "same" in d and text != d["same"]:
                ctx.violation(dict(site="restart", kind="history_differs", rollback=True),
                              "history recorded with a roll-back on %s controller(s) differs from the one recorded on one controller" % variant,
                              dict(p=dict(key[0]), reports=list(key[1]), variant=variant, uninterrupted=d["same"], restarted=text))
    # group by behaviour to compare histories of restarted runs with the uninterrupted one
    by_beh = {}
    for (rec, rs, keep_lb, _), out in zip(jobs, results):
        key = (tuple(sorted(rec["p"].items())), tuple(r["val"] for r in rec["rows"]))
        if "olog" in rec:
            key = key + ("opt",)
        nontrivial = any(not c for c in rec["conts"]) or any(r["lrk"] > 0 or r["esres"] > 0 or r["rres"] > 0 for r in rec["rows"])
        ctx.case(key=(key, sorted(rs)), nontrivial=nontrivial, n=len(rec["rows"]),
                 sample=dict(params=rec["p"], val_metrics=[r["val"] for r in rec["rows"]], restarts_after=sorted(rs),
                             decisions=rec["conts"], lr_reductions=[r["lrk"] for r in rec["rows"]]) if ctx.rng.random() < 0.0003 else None)
        ctx.traces += 1
        for sig, detail, case in out:
            if sig is None:
                ctx.count("informational_countdown_divergence" if detail == "countdown" else "informational_optimizer_set_up_divergence")
            elif sig == "csv":
                by_beh.setdefault(key, {})[frozenset(rs)] = detail
            else:
                ctx.violation(sig, detail, case)
    for key, d in by_beh.items():
        base_text = d.get(frozenset())
        if base_text is None:
            continue
        for rs, text in d.items():
            if text != base_text:
                ctx.violation(dict(site="restart", kind="history_differs"),
                              "history recorded with restarts after %s differs from the uninterrupted run" % sorted(rs),
                              dict(p=dict(key[0]), vals=list(key[1]), restarts=sorted(rs), uninterrupted=base_text, restarted=text))
    ctx.assumptions += ["a group's rate is projected to: k (= lr0 * factor^k, the recorded rates), 'the rate this group was "
                        "constructed with' (123 / 77 when the initial rate is configured, else 1 = lr0 and 3), or 'neither'",
                        "from the history file alone (no state directory) the optimizer's rates right after a restart are "
                        "not judged (nothing is loaded: they are the constructor's, as the specification says); what is judged "
                        "is that the next reduction writes the recorded rate into every group"]
    if not ctx.samples:
        rec = recs[len(recs) // 2]
        ctx.samples.append(dict(params=rec["p"], val_metrics=[r["val"] for r in rec["rows"]], decisions=rec["conts"]))


def replay(ctx, case):
    if "rows" not in case and not case.get("rollback"):
        print("history comparison case; re-run the check to reproduce")
        return
    if case.get("rollback"):
        if "log" not in case:
            print("history comparison case; re-run the check to reproduce")
            return
        rec = dict(p=case["p"], log=case["log"], conts=case["conts"], ustr=case["ustr"])
        for sig, detail, c in replay_rb((rec, case["variant"], ctx.workdir)):
            if isinstance(sig, dict):
                print("  ", sig, detail)
                ctx.violation(sig, detail, c)
        return
    rec = dict(p=case["p"], rows=case["rows"], conts=case["conts"], best=case["best"], ustr=case["ustr"])
    if case.get("olog"):
        rec["olog"] = case["olog"]
    if case.get("besttrn"):
        rec["besttrn"] = case["besttrn"]
    out = replay_one((rec, frozenset(case["restarts"]), case["keep_lb"], ctx.workdir))
    for sig, detail, c in out:
        if isinstance(sig, dict):
            print("  ", sig, detail)
            ctx.violation(sig, detail, c)


if __name__ == "__main__":
    sys.exit(main(PROP, "model_checking", run, replay))
