"""C15 -- training control decisions follow the stated rules and survive restarts.

TrainCtl.tla: the code-shaped countdown arithmetic is checked by TLC against a declarative tracker
written from the property text, for every parameter setting x every metric history (exhaustive), with
a Restart action anywhere.  spec -> code: every exported behaviour is replayed on a real
TrainingStateController on real files (several restart patterns each): returned decision, learning
rate in history and optimizer, best/last epoch, user entries and their types are compared with the
spec after every update; the history recorded with restarts is compared with the uninterrupted one."""
import itertools
import os
import shutil
import sys
import tempfile

from .. import SPECS, par, tlc
from ..harness import MachineryError, main
from . import _tc

PROP = "C15"
MOD = os.path.join(SPECS, "TrainCtlMC.tla")
ACTIONS = ["Init", "UpdateForEpoch", "Restart"]


def _close(a, b):
    return abs(a - b) <= 1e-12 * max(1.0, abs(b))


def replay_one(job):
    """job = (rec, restart_set, keep_lb, base_dir) -> list of (sig, detail, case)"""
    rec, rs, keep_lb, base = job
    out = []
    d = tempfile.mkdtemp(dir=base)
    case = dict(p=rec["p"], rows=rec["rows"], conts=rec["conts"], best=rec["best"], besttrn=rec.get("besttrn"),
                restarts=sorted(rs), keep_lb=keep_lb)

    def bad(site, kind, detail):
        out.append((dict(site=site, kind=kind), detail, case))

    try:
        sim = _tc.Sim(d, rec["p"], keep_lb=keep_lb)
        nrows = len(rec["rows"])
        for i, row in enumerate(rec["rows"]):
            e = row["epoch"]
            if (e - 1) in rs:
                sim.start()  # discard everything, rebuild from files
                if e > 1:
                    lrs = sim.opt_lrs()
                    want = _tc.FACTOR ** rec["rows"][i - 1]["lrk"]
                    if not all(_close(x, want) for x in lrs):
                        bad("restart", "optimizer_lr", "after restart at epoch %d optimizer lr %r, recorded %r" % (e - 1, lrs, want))
                    if sim.ctl.get_last_epoch() != e - 1:
                        bad("restart", "last_epoch", "get_last_epoch()=%r after restart, expected %d" % (sim.ctl.get_last_epoch(), e - 1))
            try:
                cont = sim.update(row)
            except Exception as ex:
                bad("update_for_epoch", "exception", "epoch %d raised %r" % (e, ex))
                return out
            if bool(cont) != rec["conts"][i]:
                bad("update_for_epoch", "stop_decision", "epoch %d returned %r, rule says %r" % (e, cont, rec["conts"][i]))
            info = sim.ctl.get_info(e, None)
            if info is None:
                bad("get_info", "missing", "no info for epoch %d" % e)
                return out
            want = _tc.row_as_csv(row)
            if not _close(info["lr"], want["lr"]):
                bad("update_for_epoch", "lr_reduction", "epoch %d recorded lr %r, rule says %r" % (e, info["lr"], want["lr"]))
            lrs = sim.opt_lrs()
            if not all(_close(x, want["lr"]) for x in lrs):
                bad("update_for_epoch", "optimizer_lr", "epoch %d optimizer lr %r, expected %r" % (e, lrs, want["lr"]))
            for name, typ, _ in _tc.Sim.ENTRIES:
                if name not in info or type(info[name]) is not typ or info[name] != want[name]:
                    bad("get_info", "user_entry", "epoch %d entry %s = %r (%s), expected %r (%s)" % (
                        e, name, info.get(name), type(info.get(name)).__name__, want[name], typ.__name__))
            if sim.ctl[e] is not info and sim.ctl[e] != info:
                bad("__getitem__", "info", "controller[e] differs from get_info(e)")
            if sim.ctl.get_best_epoch() != rec["best"][i]:
                bad("get_best_epoch", "value", "epoch %d best %r expected %r" % (e, sim.ctl.get_best_epoch(), rec["best"][i]))
            if "besttrn" in rec and sim.ctl.get_best_epoch(True) != rec["besttrn"][i]:
                bad("get_best_epoch", "value_train_met", "epoch %d best by training metric %r expected %r" % (
                    e, sim.ctl.get_best_epoch(True), rec["besttrn"][i]))
            if sim.ctl.get_last_epoch() != e:
                bad("get_last_epoch", "value", "epoch %d last %r" % (e, sim.ctl.get_last_epoch()))
            if bool(sim.ctl.continue_training()) != rec["conts"][i]:
                bad("continue_training", "stop_decision", "epoch %d continue_training()=%r, rule says %r" % (
                    e, sim.ctl.continue_training(), rec["conts"][i]))
            # informational: countdown representation (not a clause of the property)
            cd = [info["es_resume_cd"], info["es_patience_cd"], info["rlr_resume_cd"], info["rlr_patience_cd"]]
            if cd != [row["esres"], row["espat"], row["rres"], row["rpat"]]:
                out.append((None, "countdown", None))
        # recorded history (after a final restart, read back with types)
        lines = sim.read_csv()
        try:
            got = [_tc.parse_csv_line(x) for x in lines]
        except Exception as ex:
            bad("state_csv", "unparsable", "history file cannot be parsed: %r" % ex)
            return out
        wantrows = [_tc.row_as_csv(r) for r in rec["rows"]]
        if len(got) != nrows:
            bad("state_csv", "length", "history has %d rows, expected %d" % (len(got), nrows))
        else:
            for g, w in zip(got, wantrows):
                for k in ("epoch", "lr", "train_met", "val_met", "user", "uf", "us"):
                    if (isinstance(w[k], float) and not _close(g[k], w[k])) or (not isinstance(w[k], float) and g[k] != w[k]):
                        bad("state_csv", "field_" + k, "epoch %d: recorded %s=%r expected %r" % (w["epoch"], k, g[k], w[k]))
                        break
        # the uninterrupted run's file must be reproduced byte for byte by a run with restarts
        with open(sim.csv) as f:
            text = f.read()
        out.append(("csv", text, None))
        # reload through a fresh controller: entries come back with their declared types
        ctl = sim.start()
        for row in rec["rows"]:
            info = ctl.get_info(row["epoch"], None)
            w = _tc.row_as_csv(row)
            if info is None:
                bad("get_info", "missing_after_reload", "epoch %d" % row["epoch"])
                continue
            for name, typ, _ in _tc.Sim.ENTRIES:
                if type(info.get(name)) is not typ or info[name] != w[name]:
                    bad("get_info", "user_entry_reloaded", "epoch %d entry %s = %r expected %r (%s)" % (
                        row["epoch"], name, info.get(name), w[name], typ.__name__))
        return out
    finally:
        shutil.rmtree(d, ignore_errors=True)


def restart_patterns(rng, n, exhaustive, quick=False):
    """sets of epochs AFTER which the controller is discarded (0 = before the first update)"""
    if exhaustive:
        return [frozenset(s) for k in range(n + 1) for s in itertools.combinations(range(n), k)]
    pats = [frozenset(), frozenset(e for e in range(n) if rng.random() < 0.5)]
    if quick:
        return list(dict.fromkeys(pats))
    pats.append(frozenset(range(1, n)))
    return list(dict.fromkeys(pats))


def run(ctx):
    ctx.rule = ("TLC: every parameter setting x every metric history (see tlc_runs) with restarts anywhere; replay: every "
                "behaviour of the replay config on a real controller under restart patterns {none, seeded subset; thorough adds after-every-epoch"
                "} (thorough: every subset for histories <= 4); non-trivial = behaviour in which early stopping fired, "
                "the rate was reduced, or a cool-down/burn-in was active; distinct by (parameters, metric history, restarts)")
    ctx.assumptions += ["metrics/thresholds on a 0.25 grid, lr0 = 1, factor = 1/2 (exact in the history file's 5 digits)",
                        "countdown fields of the history are compared with the spec only informationally (the property "
                        "speaks of decisions, rates and recorded history)"]
    tag = "quick" if ctx.quick else "thorough"
    design = ["design_" + tag, "budget"]
    import threading

    got, errs = {}, []

    def job(name, workers):
        try:
            got[name] = tlc.run(MOD, os.path.join(SPECS, "TrainCtl_%s.cfg" % name), workers=workers, timeout=5000)
        except Exception as ex:
            errs.append(ex)

    ths = [threading.Thread(target=job, args=(design[0], 10)), threading.Thread(target=job, args=(design[1], 4)),
           threading.Thread(target=job, args=("replay_" + tag, 4))]
    for th in ths:
        th.start()
    for th in ths:
        th.join()
    if errs:
        raise errs[0]
    for name in design:
        res = got[name]
        tlc.require_ok(res, "TrainCtl/" + name)
        tlc.require_covered(res, ACTIONS, "TrainCtl/" + name)
        ctx.add_tlc("TrainCtl/" + name, res)
    res = got["replay_" + tag]
    tlc.require_ok(res, "TrainCtl/replay")
    ctx.add_tlc("TrainCtl/replay_" + tag, res, count_states=False)
    recs = res.records
    if not recs:
        raise MachineryError("no behaviours exported")
    ctx.exhaustive = True
    if ctx.quick:
        # the design checks above are exhaustive; the quick tier replays a seeded half of the exported behaviours
        recs.sort(key=lambda r: (sorted(r["p"].items()), [x["val"] for x in r["rows"]]))
        recs = ctx.rng.sample(recs, len(recs) // 2)
        ctx.extra["replayed_fraction_of_exported_behaviours"] = 0.5
    base = ctx.subdir("runs")
    jobs = []
    for rec in recs:
        n = len(rec["rows"])
        exh = (not ctx.quick) and n <= 4 and ctx.rng.random() < 0.05  # every subset of restarts for a seeded 5 %
        for rs in restart_patterns(ctx.rng, n, exh, ctx.quick):
            jobs.append((rec, rs, ctx.rng.random() < 0.7, base))
    results = par.pmap(replay_one, jobs)
    # group by behaviour to compare histories of restarted runs with the uninterrupted one
    by_beh = {}
    for (rec, rs, keep_lb, _), out in zip(jobs, results):
        key = (tuple(sorted(rec["p"].items())), tuple(r["val"] for r in rec["rows"]))
        nontrivial = any(not c for c in rec["conts"]) or any(r["lrk"] > 0 or r["esres"] > 0 or r["rres"] > 0 for r in rec["rows"])
        ctx.case(key=(key, sorted(rs)), nontrivial=nontrivial, n=len(rec["rows"]),
                 sample=dict(params=rec["p"], val_metrics=[r["val"] for r in rec["rows"]], restarts_after=sorted(rs),
                             decisions=rec["conts"], lr_reductions=[r["lrk"] for r in rec["rows"]]) if ctx.rng.random() < 0.0003 else None)
        ctx.traces += 1
        for sig, detail, case in out:
            if sig is None:
                ctx.count("informational_countdown_divergence")
            elif sig == "csv":
                by_beh.setdefault(key, {})[frozenset(rs)] = detail
            else:
                ctx.violation(sig, detail, case)
    for key, d in by_beh.items():
        base_text = d.get(frozenset())
        if base_text is None:
            continue
        for rs, text in d.items():
            if text != base_text:
                ctx.violation(dict(site="restart", kind="history_differs"),
                              "history recorded with restarts after %s differs from the uninterrupted run" % sorted(rs),
                              dict(p=dict(key[0]), vals=list(key[1]), restarts=sorted(rs), uninterrupted=base_text, restarted=text))
    if not ctx.samples:
        rec = recs[len(recs) // 2]
        ctx.samples.append(dict(params=rec["p"], val_metrics=[r["val"] for r in rec["rows"]], decisions=rec["conts"]))


def replay(ctx, case):
    if "rows" not in case:
        print("history comparison case; re-run the check to reproduce")
        return
    rec = dict(p=case["p"], rows=case["rows"], conts=case["conts"], best=case["best"])
    if case.get("besttrn"):
        rec["besttrn"] = case["besttrn"]
    out = replay_one((rec, frozenset(case["restarts"]), case["keep_lb"], ctx.workdir))
    for sig, detail, c in out:
        if isinstance(sig, dict):
            print("  ", sig, detail)
            ctx.violation(sig, detail, c)


if __name__ == "__main__":
    sys.exit(main(PROP, "model_checking", run, replay))
