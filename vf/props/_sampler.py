"""Shared machinery for C13: Sampler.tla design runs, driver skeletons, execution of skeletons on
real EpochRandomSampler / EpochSequentialSampler objects under FakeDist, event recording."""
import os
import threading

from .. import SPECS, tlc
from ..doubles.fakedist import FakeDist
from ..harness import MachineryError

MOD = os.path.join(SPECS, "SamplerMC.tla")
TRACE_MOD = os.path.join(SPECS, "SamplerTrace.tla")
TRACE_CFG = os.path.join(SPECS, "SamplerTrace.cfg")
MODES = ("raise", "drop", "uneven", "ignore")
# abstract seed id (spec) -> base_seed handed to the implementation
SEEDS = {1: 0, 2: 12345, 3: 2 ** 31 - 1}
MAX_TRACE_EPOCH = 4  # SamplerTrace.cfg: MaxEpoch
MAX_LIVE = 3  # SamplerTrace.cfg / Sampler_sim.cfg: Features "live3" = iterator slots 0..2 per sampler object

# (name, cfg, actions that must be covered) - or, for the REJECTED shared-buffer design with two live
# iterators, (name, cfg, None): TLC must refute it (one of REFUTED_BY violated)
REFUTED_BY = ("LivePrefixes", "PathIndependent", "WellFormedLists", "SliceOfFull")
SHARED = [("sharedbuf-serial", "Sampler_sharedbuf_serial.cfg", ["DoConstruct", "DoBeginIter", "DoBeginGet", "DoYield",
                                                                 "DoEnd", "DoAbandon"]),
          ("sharedbuf", "Sampler_sharedbuf.cfg", None)]
DESIGN = {
    "quick": [("wide", "Sampler_wide_quick.cfg", ["DoConstruct", "DoBeginIter", "DoYield", "DoEnd"]),
              ("free", "Sampler_free_quick.cfg", ["DoConstruct", "DoBeginIter", "DoYield", "DoEnd"]),
              ("full", "Sampler_full_quick.cfg", ["DoConstruct", "DoBeginIter", "DoBeginFull", "DoYield", "DoEnd"]),
              ("paths", "Sampler_paths_quick.cfg", ["DoConstruct", "DoBeginIter", "DoBeginGet", "DoYield", "DoEnd"]),
              ("live", "Sampler_live_quick.cfg", ["DoConstruct", "DoBeginIter", "DoBeginGet", "DoYield", "DoEnd",
                                                  "DoAbandon"])] + SHARED,
    "thorough": [("wide", "Sampler_wide_thorough.cfg", ["DoConstruct", "DoBeginIter", "DoYield", "DoEnd"]),
                 ("free", "Sampler_free_thorough.cfg", ["DoConstruct", "DoBeginIter", "DoYield", "DoEnd"]),
                 ("full", "Sampler_full_thorough.cfg", ["DoConstruct", "DoBeginIter", "DoBeginFull", "DoYield", "DoEnd"]),
                 ("paths", "Sampler_paths_thorough.cfg", ["DoConstruct", "DoBeginIter", "DoBeginGet", "DoYield", "DoEnd"]),
                 ("live", "Sampler_live_thorough.cfg", ["DoConstruct", "DoBeginIter", "DoBeginGet", "DoYield", "DoEnd"])]
    + SHARED,
}


def run_design(ctx):
    """Exhaustive design checks (in parallel); returns the exported case table of the wide run."""
    results, errs = {}, []

    def job(name, cfg):
        try:
            results[name] = tlc.run(MOD, os.path.join(SPECS, cfg), workers=2 if name.startswith("sharedbuf") else 8,
                                    timeout=3000)
        except Exception as ex:
            errs.append(ex)

    threads = [threading.Thread(target=job, args=(n, c)) for n, c, _ in DESIGN[ctx.tier]]
    for t in threads:
        t.start()
    for t in threads:
        t.join()
    if errs:
        raise errs[0]
    for name, cfg, actions in DESIGN[ctx.tier]:
        res = results[name]
        if actions is None:
            # several live iterators over ONE refilled buffer: the order of an epoch would depend on the
            # interleaving - TLC must find that (otherwise the live universe is too small to tell)
            if res.ok:
                raise MachineryError("Sampler/%s: TLC did not refute the shared-buffer design (%d states)" % (
                    name, res.distinct))
            if not any(inv in (res.error or "") for inv in REFUTED_BY):
                raise tlc.TLCFailure("Sampler/%s: expected a violation of one of %r, got %s\n%s" % (
                    name, REFUTED_BY, res.error, res.stdout[-2000:]))
            ctx.add_tlc("Sampler/%s (%s: expected violation, found: %s)" % (
                name, cfg, (res.error or "").strip().splitlines()[0]), res, count_states=False)
            continue
        tlc.require_ok(res, "Sampler/" + name)
        tlc.require_covered(res, actions, "Sampler/" + name)
        ctx.add_tlc("Sampler/" + name, res)
    cases = [r for r in results["wide"].records if r.get("what") == "case"]
    if not cases:
        raise MachineryError("Sampler wide run exported no cases")
    return cases


def simulate_skeletons(ctx, num, seed):
    """Random behaviours of the full machine (free interleaving, re-construction, get/full, up to
    MAX_LIVE iterators of one sampler object alive at once) as driver skeletons.  TLC prints one record per candidate last step; keep one per behaviour."""
    res = tlc.run(MOD, os.path.join(SPECS, "Sampler_sim.cfg"), simulate="num=%d" % num, depth=41,
                  seed=seed, workers=4, timeout=600)
    tlc.require_ok(res, "Sampler/simulate")
    ctx.add_tlc("Sampler/simulate", res, count_states=False)
    seen, out = set(), []
    for r in res.records:
        if r.get("what") != "ops":
            continue
        key = repr((r["N"], r["W"], r["mode"], r["kind"], r["ops"][:-1]))
        if key in seen:
            continue
        seen.add(key)
        out.append(r)
    out.sort(key=lambda r: repr(r))
    return out


class ImplError(Exception):
    """the implementation raised something undocumented on a legal call"""


class World:
    """One simulated process group: real sampler objects, one per rank, under FakeDist."""

    last = None  # the most recently created world (for drivers interrupted by ImplError)

    def __init__(self, N, W, mode, kind, dist="on", fake_world=None):
        World.last = self
        self.N, self.W, self.mode, self.kind = N, W, mode, kind
        # dist: "on" (rank r of W), "uninit" / "unavail" / "norank": the library must act as rank 0 of 1
        self.dist = dist
        self.fake_world = fake_world if fake_world is not None else W
        self.smp = {}
        self.its = {}  # rank -> {slot: live iterator}; a new iterator takes the lowest free slot
        self.events = []
        self.diverged = None
        self.failed = None
        self.calls = 0

    def _fd(self):
        return FakeDist(world_size=self.fake_world, available=self.dist != "unavail",
                        initialized=self.dist not in ("uninit", "unavail"))

    def _ev(self, op, rank, a=0, b=0, raised=False, h=0):
        self.events.append(dict(op=op, rank=rank, h=h, a=a, b=b, raised=raised))

    def live(self, rank):
        """slots of the live iterators of the rank's sampler object"""
        return sorted(self.its.get(rank, ()))

    def free_slot(self, rank):
        used = self.its.get(rank, {})
        return next((h for h in range(MAX_LIVE) if h not in used), None)

    def construct(self, rank, seed_id, e0):
        from pydrobert.torch.data import EpochRandomSampler, EpochSequentialSampler

        src = range(self.N)
        raised = False
        with self._fd() as fd:
            try:
                with fd.as_rank(-1 if self.dist == "norank" else rank if self.dist == "on" else 1 % self.fake_world):
                    try:
                        if self.kind == "random":
                            s = EpochRandomSampler(src, init_epoch=e0, base_seed=SEEDS[seed_id],
                                                   on_uneven_distributed=self.mode)
                        else:
                            s = EpochSequentialSampler(src, init_epoch=e0, on_uneven_distributed=self.mode)
                        self.smp[rank] = s
                    except ValueError:
                        raised = True
                        self.smp.pop(rank, None)
                    except Exception as ex:
                        self.failed = "construct(rank=%d, init_epoch=%d): %r" % (rank, e0, ex)
                        raise ImplError(self.failed)
            finally:
                self.calls += sum(fd.calls.values())
        self.its.pop(rank, None)
        self._ev("construct", rank, seed_id, e0, raised)
        return not raised

    def begin(self, op, rank, epoch=0):
        """a new iterator of the rank's sampler object (earlier ones may still be alive); returns its slot"""
        s = self.smp[rank]
        h = self.free_slot(rank)
        if h is None:
            raise MachineryError("driver bug: more than %d live iterators on rank %d" % (MAX_LIVE, rank))
        try:
            if op == "iter":
                before = s.epoch
                new = iter(s)
                self._ev("iter", rank, before, h=h)
            elif op == "get":
                new = iter(s.get_samples_for_epoch(epoch))
                self._ev("get", rank, epoch, h=h)
            else:
                new = iter(s.get_samples_for_epoch_ignoring_distributed(epoch))
                self._ev("full", rank, epoch, h=h)
        except Exception as ex:
            self.failed = "%s(rank=%d, epoch=%d): %r" % (op, rank, epoch, ex)
            raise ImplError(self.failed)
        self.its.setdefault(rank, {})[h] = new
        return h

    def step(self, rank, h=0):
        """next() on the live iterator in slot h of `rank`: records a yield or an end event; returns the op"""
        if h not in self.its.get(rank, ()):
            raise MachineryError("driver bug: no live iterator in slot %d of rank %d" % (h, rank))
        try:
            x = next(self.its[rank][h])
        except StopIteration:
            self.its[rank].pop(h)
            try:
                n = len(self.smp[rank])
            except Exception as ex:
                self.failed = "len(rank=%d): %r" % (rank, ex)
                raise ImplError(self.failed)
            self._ev("end", rank, n, h=h)
            return "end"
        except Exception as ex:
            self.failed = "next(rank=%d, slot=%d): %r" % (rank, h, ex)
            raise ImplError(self.failed)
        self._ev("yield", rank, int(x), h=h)
        return "yield"

    def drain(self, rank, h=0):
        while self.step(rank, h) == "yield":
            pass

    def abandon(self, rank, h=0):
        """the consumer drops a live iterator without exhausting it"""
        if h not in self.its.get(rank, ()):
            raise MachineryError("driver bug: no live iterator in slot %d of rank %d" % (h, rank))
        self.its[rank].pop(h)
        self._ev("abandon", rank, h=h)

    def run_skeleton(self, ops):
        """Execute a TLC behaviour's operations.  If the implementation does something else than
        the skeleton's step (yields where the spec ends, refuses where the spec constructs, ...),
        the event that really happened is recorded and execution stops: TLC will reject it."""
        try:
            self._run_skeleton(ops)
        except ImplError:
            pass

    def _run_skeleton(self, ops):
        for o in ops:
            op, r, h = o["op"], o["rank"], o.get("h", 0)
            if op == "construct":
                self.construct(r, o["a"], o["b"])
            elif op in ("iter", "get", "full"):
                if r not in self.smp:
                    self.diverged = "no sampler object for %s" % op
                    return
                if self.free_slot(r) != h:
                    self.diverged = "slot %r is not the lowest free slot" % h
                    return
                self.begin(op, r, o["a"])
            elif op == "abandon":
                if h not in self.its.get(r, ()):
                    self.diverged = "no live iterator to abandon"
                    return
                self.abandon(r, h)
            else:
                if h not in self.its.get(r, ()):
                    self.diverged = "no live iterator for %s" % op
                    return
                did = self.step(r, h)
                if did != op:
                    self.diverged = "implementation did %s where the behaviour has %s" % (did, op)
                    return

    def header(self, tid):
        return dict(tid=tid, N=self.N, W=self.W, mode=self.mode, kind=self.kind, events=self.events,
                    dist=self.dist, fake_world=self.fake_world, failed=self.failed)
