"""C19 (partial) -- estimators are unbiased where promised; fixed-cardinality sampling is consistent.

spec -> code (Estimators.tla): TLC has checked, as exact rational identities, that the design of the
direct (+- control variate), importance-sampling and enumeration estimators is unbiased in value and
in the gradient w.r.t. the logits.  Every tuple of M samples TLC enumerates is then fed to the real
estimator through a stubbed `proposal.sample`; the returned value and its autograd gradient are
weighted by the spec's exact tuple probability and summed over ALL tuples; the totals must equal the
spec's exact expectation and gradient.  Independent Metropolis-Hastings with proposal = target is
replayed draw sequence by draw sequence against the spec's post-burn-in mean.

code -> spec (Cardinality.tla / CardinalityTrace.tla): every output of
simple_random_sampling_without_replacement reachable through ANY outcome of its Bernoulli draws
(torch.bernoulli stubbed, choice tree explored exhaustively) plus seeded batched draws of the
function and of SimpleRandomSamplingWithoutReplacement.sample are validated as traces by TLC.
binomial_coefficient, enumerate_* and log_prob over enumerate_support are compared with the spec's
tables (normalisation decided on integers).

code -> spec (Relaxed.tla / RelaxedTrace.tla): the DISCRETE face of LogisticBernoulli / GumbelOneHotCategorical.
Every rsample / csample / threshold / log_prob / tlog_prob / clog_prob call of seeded runs and of a grid of
relaxed values (ties included) becomes an event carrying the abstract image of the relaxed value (signs / dense
ranks), the implementation's threshold, and the three log-densities quantised to 1e-6; TLC validates every
trace: threshold = H(z), threshold(csample(b)) = b, clog_prob(z, b) finite iff H(z) = b, and
log_prob(z) = tlog_prob(H(z)) + clog_prob(z, H(z)) on the quantised integers.

NOT decided here (no reals / exp / log / continuous randomness in TLA+): the exact value-mean of the
relaxation-based estimators (RelaxEstimator / REBAR); that the relaxed densities are the RIGHT densities
(Logistic / Gumbel) - only their factorisation over the threshold is decided."""
import json
import os
import sys

import torch

from .. import tlc
from ..harness import MachineryError, main
from . import _est

PROP = "C19"
TOL = 1e-9
MAX_PER_SIG = 12  # identical signatures beyond this are counted, not stored
INFO = {}  # informational divergences (not clauses of the property)


def _viol(ctx, sig, detail, case):
    key = json.dumps(sig, sort_keys=True)
    n = ctx.counters.get("viol:" + key, 0)
    ctx.count("viol:" + key)
    if n < MAX_PER_SIG:
        ctx.violation(sig, detail, case)


def _close(a, b, tol=TOL):
    return a == a and abs(a - b) <= tol * max(1.0, abs(b))


# ---------------------------------------------------------------------------------------------
# estimators: weighted sum over all tuples
# ---------------------------------------------------------------------------------------------
SITE = {"direct": "DirectEstimator", "directcv": "DirectEstimator", "is": "ImportanceSamplingEstimator",
        "isalias": "ImportanceSamplingEstimator",
        "enum": "EnumerateEstimator", "mh": "IndependentMetropolisHastingsEstimator"}


def reps_for(cs):
    if cs["est"] == "enum":
        if cs["dist"] == "bern":
            return ["bern0"] if cs["n"] == 1 else ["joint"]
        return ["index", "onehot"]
    if cs["dist"] == "bern":
        return ["indep"]
    return ["onehot", "index"]


def positive(cs):
    return all(x > 0 for x in cs["f"]) and (cs["est"] != "directcv" or all(x > 0 for x in cs["c"]))


def build_estimator(cs, rep, theta, theta_q, batch, is_log, samples):
    """-> (estimator, stubs).  samples: tensor (M, B, *event) or (M, *event) returned by the stub"""
    from pydrobert.torch import estimators as E

    est = cs["est"]
    func = _est.table_func(cs, rep, cs["f"], log=is_log)
    target = _est.make_dist(cs, rep, theta, batch)
    stub = None
    if est in ("direct", "directcv"):
        stub = _est.SampleStub([samples])
        target.sample = stub
        if est == "directcv":
            mu = _est.analytic_mean(cs, theta, cs["c"])
            if is_log:
                mu = mu.log()
            if batch is not None:
                mu = mu.expand(batch)
            e = E.DirectEstimator(target, func, cs["M"], _est.table_func(cs, rep, cs["c"], log=is_log), mu,
                                  is_log=is_log)
        else:
            e = E.DirectEstimator(target, func, cs["M"], is_log=is_log)
    elif est == "isalias":
        # importance sampling whose proposal IS the density (one object): the weights are one, the estimate is the direct
        # one and its gradient w.r.t. the distribution's parameters is the score-function gradient (the specification's
        # direct case: same expectation, same gradient)
        stub = _est.SampleStub([samples])
        target.sample = stub
        e = E.ImportanceSamplingEstimator(target, func, cs["M"], target, is_log=is_log)
    elif est == "is":
        prop = _est.make_dist(cs, rep, theta_q, batch)
        stub = _est.SampleStub([samples])
        prop.sample = stub
        e = E.ImportanceSamplingEstimator(prop, func, cs["M"], target, is_log=is_log)
    else:
        e = E.EnumerateEstimator(target, func, is_log=is_log)
    return e, stub


def eval_case(cs, rep, tuples, weights, is_log, batched):
    """Run the real estimator on every tuple; -> (total value, total grad list, grad wrt proposal
    logits or None, per-tuple values).  Weighting by the spec's tuple probabilities."""
    theta = _est.logits_of(cs, cs["k"]).requires_grad_(True)
    theta_q = _est.logits_of(cs, cs["kq"]).requires_grad_(True) if cs["est"] == "is" else None
    w = torch.tensor(weights, dtype=_est.DT)
    if cs["est"] == "enum":
        e, _ = build_estimator(cs, rep, theta, theta_q, None, is_log, None)
        v = _est.quiet(e)
        vals = (v.exp() if is_log else v).reshape(1)
    elif batched:
        samples = _est.sample_tensor(cs, rep, tuples)  # (M, B, *event)
        e, stub = build_estimator(cs, rep, theta, theta_q, len(tuples), is_log, samples)
        v = _est.quiet(e)
        if stub.calls != [(cs["M"],)]:
            raise MachineryError("estimator asked sample%r, expected one call with [M]" % (stub.calls,))
        if v.numel() != len(tuples):
            return None, None, None, ("shape", tuple(v.shape))
        if tuple(v.shape) != (len(tuples),):
            # documented shape is batch_shape; the property does not state it -> informational only
            INFO["shape:%s:is_log=%s" % (cs["est"], is_log)] = tuple(v.shape)
            v = v.reshape(len(tuples))
        vals = v.exp() if is_log else v
    else:
        vs = []
        for t in tuples:
            samples = _est.sample_tensor(cs, rep, [t])[:, 0]  # (M, *event)
            e, stub = build_estimator(cs, rep, theta, theta_q, None, is_log, samples)
            v = _est.quiet(e)
            if v.numel() != 1:
                return None, None, None, ("shape", tuple(v.shape))
            if tuple(v.shape) != ():
                INFO["shape:%s:is_log=%s" % (cs["est"], is_log)] = tuple(v.shape)
                v = v.reshape(())
            vs.append(v.exp() if is_log else v)
        vals = torch.stack(vs)
    total = (w * vals).sum()
    params = [theta] + ([theta_q] if theta_q is not None else [])
    # an estimate without any gradient path has gradient zero (judged as such, not as an exception)
    grads = torch.autograd.grad(total, params, allow_unused=True) if total.requires_grad else [None] * len(params)
    g = grads[0]
    gq = grads[1] if theta_q is not None else None
    return (float(total.detach()), [0.0] * cs["n"] if g is None else g.tolist(),
            None if theta_q is None else ([0.0] * cs["n"] if gq is None else gq.tolist()),
            vals.detach().tolist())


def judge_case(ctx, d, rep, is_log, batched, replaying=False):
    cs = d["cs"]
    site = SITE[cs["est"]]
    tuples = [t["t"] for t in d["tuples"]]
    weights = [_est.q2f(t["w"]) for t in d["tuples"]]
    E = _est.q2f(d["E"])
    G = [_est.q2f(g) for g in d["G"]]
    variant = dict(rep=rep, is_log=is_log, batched=batched)
    case = dict(type="estimator", d=d, variant=variant)
    sigbase = dict(site=site, est=cs["est"], cv=cs["est"] == "directcv")
    try:
        total, grad, gq, vals = eval_case(cs, rep, tuples, weights, is_log, batched)
    except MachineryError:
        raise
    except Exception as ex:
        _viol(ctx, dict(sigbase, kind="exception", exc=type(ex).__name__), "raised %r" % ex, case)
        return False
    if total is None:
        _viol(ctx, dict(sigbase, kind="shape"), "estimate has shape %r" % (vals[1],), case)
        return False
    ok = True
    if not _close(total, E):
        ok = False
        _viol(ctx, dict(sigbase, kind="biased_value", is_log=is_log),
              "sum over all %d tuples of P(tuple)*estimate = %.12g, exact expectation %.12g" % (len(tuples), total, E),
              case)
    bad = [i for i in range(cs["n"]) if not _close(grad[i], G[i])]
    if bad:
        ok = False
        _viol(ctx, dict(sigbase, kind="biased_gradient", is_log=is_log),
              "sum over all tuples of P(tuple)*d estimate/d logits = %r, exact gradient %r" % (grad, G), case)
    if gq is not None and any(abs(x) > 1e-12 for x in gq):
        ok = False
        _viol(ctx, dict(sigbase, kind="proposal_gradient"),
              "gradient flows to the proposal's logits: %r" % (gq,), case)
    # per-tuple agreement with the spec's own surrogate is NOT promised by the property: informational
    if not is_log:
        for t, v in zip(d["tuples"], vals):
            if not _close(v, _est.q2f(t["v"]), 1e-8):
                ctx.count("informational_per_tuple_value_differs")
                break
    return ok


def run_estimators(ctx, cases):
    keys = sorted(k for k, d in cases.items() if d["cs"]["est"] != "mh")
    for k in keys:
        d = cases[k]
        cs = d["cs"]
        nontriv = len(set(cs["f"])) > 1
        reps = reps_for(cs)
        rep = reps[ctx.rng.randrange(len(reps))] if ctx.quick else None
        for r in (reps if rep is None else [rep]):
            variants = [(False, True)]
            if cs["est"] != "enum":
                variants.append((False, False))
            if positive(cs) and all(t["v"][0] > 0 for t in d["tuples"]):  # log of a non-positive estimate is undefined
                variants.append((True, True))
                if not ctx.quick and cs["est"] != "enum":
                    variants.append((True, False))
            for is_log, batched in variants:
                judge_case(ctx, d, r, is_log, batched)
                if cs["est"] == "direct":
                    alias = dict(d, cs=dict(cs, est="isalias"))
                    judge_case(ctx, alias, r, is_log, batched)
                    ctx.count("importance_sampling_with_proposal_as_density", 1)
                ctx.case(key=("est", k, r, is_log, batched), nontrivial=nontriv, n=max(1, len(d["tuples"])),
                         sample=dict(case=cs, rep=r, is_log=is_log, E=d["E"], G=d["G"], tuples=len(d["tuples"]),
                                     first_tuple=d["tuples"][0]) if ctx.rng.random() < 0.004 else None)
                ctx.traces += len(d["tuples"])
                ctx.count("estimator_tuples_replayed", len(d["tuples"]))


# ---------------------------------------------------------------------------------------------
# independent Metropolis-Hastings, proposal = target
# ---------------------------------------------------------------------------------------------
def eval_mh(cs, draws, is_log, same_object, umode, seed):
    """-> value returned by the real estimator for the spec's draw sequence"""
    from pydrobert.torch import estimators as E

    rep = "indep"
    theta = _est.logits_of(cs, cs["k"])
    prop = _est.make_dist(cs, rep, theta, None)
    dens = prop if same_object else _est.make_dist(cs, rep, theta.clone(), None)
    func = _est.table_func(cs, rep, cs["f"], log=is_log)
    seq = [_est.sample_tensor(cs, rep, [[w]])[:, 0] for w in draws]  # each (1, n)
    if cs["given"]:
        init = seq[0][0] if seed % 2 else seq[0]  # shapes (n,) and (1, n) are both documented
        stub = _est.SampleStub(seq[1:])
        prop.sample = stub
        e = E.IndependentMetropolisHastingsEstimator(prop, func, cs["M"], dens, cs["burn"], init, is_log=is_log)
    else:
        stub = _est.SampleStub(seq)
        prop.sample = stub
        e = E.IndependentMetropolisHastingsEstimator(prop, func, cs["M"], dens, cs["burn"], is_log=is_log)
    torch.manual_seed(seed)
    if umode == "seed":
        v = _est.quiet(e)
    else:
        # the uniform draws may be any float32 in [0, 1): hand the estimator the largest / smallest
        val = 1.0 - 2.0 ** -24 if umode == "max" else 0.0
        real = torch.rand

        def fake_rand(*size, **kw):
            return real(*size, **kw) * 0 + val

        with _est.patched(torch, "rand", fake_rand):
            v = _est.quiet(e)
    if stub.queue:
        raise MachineryError("MH estimator drew %d samples fewer than the chain needs" % len(stub.queue))
    v = v.exp() if is_log else v
    return float(v.reshape(-1)[0]), tuple(v.shape)


def judge_mh(ctx, r, is_log, same_object, umode, seed):
    cs = r["cs"]
    case = dict(type="mh", r=r, variant=dict(is_log=is_log, same_object=same_object, umode=umode, seed=seed))
    sigbase = dict(site=SITE["mh"], initial_sample="given" if cs["given"] else "drawn")
    try:
        got, shape = eval_mh(cs, r["t"], is_log, same_object, umode, seed)
    except MachineryError:
        raise
    except Exception as ex:
        _viol(ctx, dict(sigbase, kind="exception", exc=type(ex).__name__),
              "raised %s: %s" % (type(ex).__name__, ex), case)
        return False
    exp = _est.q2f(r["v"])
    if not _close(got, exp):
        _viol(ctx, dict(sigbase, kind="not_plain_mean"),
              "returned %.12g; plain mean of the post-burn-in draws is %.12g (draws %r, burn-in %d, uniform=%s)" % (
                  got, exp, r["t"], cs["burn"], umode), case)
        return False
    return True


def run_mh(ctx, mh):
    if not all(r["allacc"] for r in mh):
        raise MachineryError("spec exported an MH behaviour that rejects although proposal = target")
    mh = sorted(mh, key=lambda r: (_est.cs_key(r["cs"]), r["t"]))
    for j, r in enumerate(mh):
        cs = r["cs"]
        pos = all(x > 0 for x in cs["f"])
        umode = ("seed", "max", "min")[j % 3]
        is_log = pos and (j % 2 == 0)
        judge_mh(ctx, r, is_log, same_object=(j % 4 < 2), umode=umode, seed=ctx.seed + j)
        nontriv = len({cs["f"][w - 1] for w in r["t"][1 + cs["burn"]:]}) > 1 or cs["burn"] > 0
        ctx.case(key=("mh", _est.cs_key(cs), r["t"]), nontrivial=nontriv,
                 sample=dict(case=cs, draws=r["t"], expected=r["v"]) if ctx.rng.random() < 0.0005 else None)
        ctx.traces += 1
    ctx.count("mh_sequences_replayed", len(mh))


# ---------------------------------------------------------------------------------------------
# cardinality: traces, tables
# ---------------------------------------------------------------------------------------------
def _bits(row):
    """project one output vector to trace events: 0 / 1, or 2 for anything that is not binary"""
    out = []
    for x in row:
        out.append(0 if x == 0 else 1 if x == 1 else 2)
    return out


def collect_traces(ctx, supports):
    """Run the implementation; -> list of traces (dicts) for CardinalityTrace"""
    from pydrobert.torch import functional as F
    from pydrobert.torch.distributions import SimpleRandomSamplingWithoutReplacement as SRS

    traces = []
    max_total = max(s["total"] for s in supports)

    def add(total, given, osz, row, src):
        traces.append(dict(tid=len(traces), total=int(total), given=int(given), osz=int(osz),
                           b=_bits(row), src=src))

    # (1) exhaustive: every outcome of the sequential Bernoulli draws, per (total, given, out_size)
    reached = {}
    for total in range(max_total + 1):
        for given in range(total + 1):
            for osz in sorted({max(total, 1), total + 1}):
                kw = {} if (osz == total and ctx.rng.random() < 0.5) else dict(out_size=osz)

                def call():
                    return _est.quiet(F.simple_random_sampling_without_replacement,
                                      torch.tensor([total]), torch.tensor([given]), **kw)

                try:
                    for out, ps in _est.explore_sampler(call):
                        if tuple(out.shape) != (1, osz):
                            _viol(ctx, dict(site="simple_random_sampling_without_replacement", kind="shape"),
                                  "shape %r, expected (1, %d)" % (tuple(out.shape), osz),
                                  dict(type="srs", total=total, given=given, osz=osz))
                            continue
                        add(total, given, osz, out[0].tolist(), "explore")
                        reached.setdefault((total, given), set()).add(tuple(_bits(out[0].tolist()))[:total])
                except _est.BadProbability as ex:
                    _viol(ctx, dict(site="simple_random_sampling_without_replacement", kind="probability_out_of_range"),
                          str(ex), dict(type="srs", total=total, given=given, osz=osz))
                except MachineryError:
                    raise
                except Exception as ex:
                    _viol(ctx, dict(site="simple_random_sampling_without_replacement", kind="exception",
                                    exc=type(ex).__name__), "raised %r" % ex,
                          dict(type="srs", total=total, given=given, osz=osz))
    # reaching every element of the spec's support is not promised: informational
    for s in supports:
        want = {tuple(x) for x in s["seqs"]}
        if reached.get((s["total"], s["given"]), set()) & want != want:
            ctx.count("informational_support_element_unreachable")
    ctx.count("sampler_outputs_explored", len(traces))
    # (2) seeded, batched: function and distribution
    pairs = [(s["total"], s["given"]) for s in supports]
    nb = 150 if ctx.quick else 1500
    for j in range(nb):
        torch.manual_seed(ctx.seed * 100003 + j)
        shape = ctx.rng.choice([(1,), (3,), (2, 2), (5,)])
        n = 1
        for x in shape:
            n *= x
        sel = [ctx.rng.choice(pairs) for _ in range(n)]
        # counts as integer or floating tensors (both are accepted); the SAME tensors / the SAME distribution object are
        # used for two successive draws: a draw must neither change its arguments nor the distribution
        cdt = ctx.rng.choice([torch.long, torch.float])
        tot = torch.tensor([p[0] for p in sel]).view(shape).to(cdt)
        giv = torch.tensor([p[1] for p in sel]).view(shape).to(cdt)
        tot0, giv0 = tot.clone(), giv.clone()
        osz = max(1, int(tot.max())) + ctx.rng.choice([0, 0, 1])
        use_dist = j % 2 == 1
        case = dict(type="srs_batch", total=tot.tolist(), given=giv.tolist(), osz=osz, dist=use_dist,
                    seed=ctx.seed * 100003 + j, count_dtype=str(cdt))
        dist = None
        for draw in (1, 2):
            try:
                if use_dist:
                    ss = ctx.rng.choice([(), (2,)]) if draw == 1 else ()
                    if dist is None:
                        dist = SRS(giv, tot, osz)
                    out = _est.quiet(dist.sample, ss)
                    want_shape = tuple(ss) + tuple(shape) + (osz,)
                    site = "SimpleRandomSamplingWithoutReplacement.sample"
                else:
                    out = _est.quiet(F.simple_random_sampling_without_replacement, tot, giv, osz)
                    want_shape = tuple(shape) + (osz,)
                    site = "simple_random_sampling_without_replacement"
            except Exception as ex:
                _viol(ctx, dict(site="SimpleRandomSamplingWithoutReplacement.sample" if use_dist
                                else "simple_random_sampling_without_replacement", kind="exception",
                                exc=type(ex).__name__), "draw %d raised %r" % (draw, ex), case)
                break
            if tuple(out.shape) != want_shape:
                _viol(ctx, dict(site=site, kind="shape"), "shape %r expected %r" % (tuple(out.shape), want_shape), case)
                break
            if not (torch.equal(tot, tot0) and torch.equal(giv, giv0)):
                _viol(ctx, dict(site=site, kind="arguments_mutated"),
                      "after draw %d the caller's counts are total=%r given=%r (were %r, %r)" % (
                          draw, tot.tolist(), giv.tolist(), tot0.tolist(), giv0.tolist()), case)
                break
            rows = out.reshape(-1, n, osz) if use_dist else out.reshape(1, n, osz)
            for rep_ in rows:
                for i in range(n):
                    add(sel[i][0], sel[i][1], osz, rep_[i].tolist(), "dist" if use_dist else "func")
    return traces


def validate_traces(ctx, traces):
    path = os.path.join(ctx.workdir, "card_traces.json")
    with open(path, "w") as f:
        json.dump([{k: t[k] for k in ("tid", "total", "given", "osz", "b")} for t in traces], f)
    res = tlc.run(_est.CARD_TRACE_MOD, os.path.join(os.path.dirname(_est.CARD_TRACE_MOD), "CardinalityTrace.cfg"),
                  workers=1, env={"TRACE_FILE": path}, timeout=1800)
    ctx.add_tlc("CardinalityTrace", res)
    accepted = {r["tid"] for r in res.records}
    if not res.ok and "AllAccepted" not in (res.error or ""):
        raise tlc.TLCFailure("trace validation run failed: %s\n%s" % (res.error, res.stdout[-2000:]))
    if res.ok and len(accepted) != len(traces):
        raise MachineryError("trace spec accepted %d of %d traces but reported success" % (len(accepted), len(traces)))
    site = {"explore": "simple_random_sampling_without_replacement", "func": "simple_random_sampling_without_replacement",
            "dist": "SimpleRandomSamplingWithoutReplacement.sample"}
    for t in traces:
        ctx.case(key=("srs", t["total"], t["given"], t["osz"], tuple(t["b"])),
                 nontrivial=0 < t["given"] < t["total"],
                 sample=dict(total=t["total"], given=t["given"], out_size=t["osz"], vector=t["b"])
                 if t["tid"] % 997 == 5 else None)
        if t["tid"] not in accepted:
            kind = "non_binary" if 2 in t["b"] else "outside_support"
            _viol(ctx, dict(site=site[t["src"]], kind=kind),
                  "vector %r rejected by the trace specification for total=%d given=%d out_size=%d" % (
                      t["b"], t["total"], t["given"], t["osz"]),
                  dict(type="trace", trace={k: t[k] for k in ("total", "given", "osz", "b")}))
    ctx.traces += len(traces)
    ctx.count("cardinality_traces_validated", len(traces))


def check_tables(ctx, card_recs):
    from pydrobert.torch import functional as F
    from pydrobert.torch.distributions import SimpleRandomSamplingWithoutReplacement as SRS

    binom = [r for r in card_recs if r["kind"] == "binom"]
    supports = [r for r in card_recs if r["kind"] == "support"]
    vocab = [r for r in card_recs if r["kind"] == "vocab"]
    # binomial_coefficient: the whole table in one call (Pascal path), small part (factorial path),
    # and element-wise
    for name, sub in (("all", binom), ("le20", [r for r in binom if r["n"] <= 20]),
                      ("le12", [r for r in binom if r["n"] <= 12])):
        n = torch.tensor([r["n"] for r in sub])
        k = torch.tensor([r["k"] for r in sub])
        case = dict(type="binom", part=name)
        try:
            got = _est.quiet(F.binomial_coefficient, n, k)
        except Exception as ex:
            _viol(ctx, dict(site="binomial_coefficient", kind="exception", exc=type(ex).__name__), "raised %r" % ex, case)
            continue
        want = torch.tensor([r["binom"] for r in sub])
        ctx.case(n=len(sub))
        if got.shape != want.shape or not bool((got == want).all()):
            i = int((got != want).nonzero()[0]) if got.shape == want.shape else 0
            _viol(ctx, dict(site="binomial_coefficient", kind="value", path="pascal" if name == "all" else "factorial"),
                  "C(%d,%d): got %r, spec %d" % (sub[i]["n"], sub[i]["k"], got.reshape(-1)[i].item() if got.numel() > i else None,
                                                 sub[i]["binom"]), dict(case, n=sub[i]["n"], k=sub[i]["k"]))
    for r in binom:
        if r["n"] % 7 == 3 or r["n"] > 28:
            got = int(_est.quiet(F.binomial_coefficient, torch.tensor(r["n"]), torch.tensor(r["k"])))
            ctx.case(key=("binom", r["n"], r["k"]), nontrivial=0 < r["k"] < r["n"])
            if got != r["binom"]:
                _viol(ctx, dict(site="binomial_coefficient", kind="value", path="scalar"),
                      "C(%d,%d): got %d, spec %d" % (r["n"], r["k"], got, r["binom"]), dict(type="binom1", n=r["n"], k=r["k"], want=r["binom"]))
    # enumerations as sets
    for s in supports:
        total, given = s["total"], s["given"]
        want = sorted(tuple(x) for x in s["seqs"])
        case = dict(type="support", total=total, given=given)
        try:
            got = _est.quiet(F.enumerate_binary_sequences_with_cardinality, total, given)
            rows = sorted(tuple(int(v) for v in row) for row in got.tolist())
        except Exception as ex:
            _viol(ctx, dict(site="enumerate_binary_sequences_with_cardinality", kind="exception", exc=type(ex).__name__),
                  "raised %r" % ex, case)
            rows = None
        ctx.case(key=("support", total, given), nontrivial=0 < given < total,
                 sample=dict(total=total, given=given, support=s["seqs"]) if (total, given) == (4, 2) else None)
        if rows is not None and rows != want:
            _viol(ctx, dict(site="enumerate_binary_sequences_with_cardinality", kind="support_set"),
                  "got %r, spec %r" % (rows, want), case)
        # distribution: support, normalisation on integers
        for pad in (0, 1):
            osz = max(total, 1) + pad
            try:
                d = SRS(given, total, osz)
                sup = _est.quiet(d.enumerate_support)
                lp = _est.quiet(d.log_prob, sup)
            except Exception as ex:
                _viol(ctx, dict(site="SimpleRandomSamplingWithoutReplacement.enumerate_support", kind="exception",
                                exc=type(ex).__name__), "raised %r" % ex, dict(case, osz=osz))
                continue
            rows = sorted(tuple(int(v) for v in row) for row in sup.reshape(-1, osz).tolist())
            wantp = sorted(tuple(list(x) + [0] * (osz - total)) for x in s["seqs"])
            ctx.case(n=1)
            if rows != wantp:
                _viol(ctx, dict(site="SimpleRandomSamplingWithoutReplacement.enumerate_support", kind="support_set"),
                      "got %r, spec %r" % (rows, wantp), dict(case, osz=osz))
                continue
            inv = [float(x) for x in (-lp.reshape(-1).double()).exp().tolist()]
            ints = [round(x) for x in inv]
            if any(abs(x - i) > 1e-3 * max(1, i) for x, i in zip(inv, ints)):
                _viol(ctx, dict(site="SimpleRandomSamplingWithoutReplacement.log_prob", kind="normalisation"),
                      "1/P is not an integer: %r" % (inv,), dict(case, osz=osz))
            elif any(i != s["binom"] for i in ints) or len(ints) != s["binom"]:
                # sum_i 1/N_i = 1 on integers  <=>  every N_i equals the number of support elements
                _viol(ctx, dict(site="SimpleRandomSamplingWithoutReplacement.log_prob", kind="normalisation"),
                      "probabilities over the %d support elements are 1/%r; they do not sum to one (spec: 1/%d each)" % (
                          len(ints), sorted(set(ints)), s["binom"]), dict(case, osz=osz))
    # batched distributions: whenever the distribution CLAIMS an enumerable support (has_enumerate_support), every
    # batch element's enumerated support must be its own (right number of ones) and its probabilities sum to one --
    # in particular for batches whose elements share `total` but not `given`
    by_key = {(s["total"], s["given"]): s for s in supports}
    pairs = [(a, b) for a in supports for b in supports if a["total"] == b["total"] and a["total"] >= 1]
    for a, b in pairs:
        total = a["total"]
        case = dict(type="support_batch", total=total, given=[a["given"], b["given"]])
        try:
            d = SRS(torch.tensor([a["given"], b["given"]]), torch.tensor([total, total]), total)
            if not d.has_enumerate_support:
                ctx.count("batched_srs_without_enumerable_support")
                continue
            sup = _est.quiet(d.enumerate_support)       # (S, 2, total)
            lp = _est.quiet(d.log_prob, sup)            # (S, 2)
        except Exception as ex:
            _viol(ctx, dict(site="SimpleRandomSamplingWithoutReplacement.enumerate_support", kind="exception", exc=type(ex).__name__,
                            batched=True), "raised %r" % ex, case)
            continue
        ctx.case(key=("support_batch", total, a["given"], b["given"]), nontrivial=a["given"] != b["given"], n=1)
        for j, s_ in enumerate((a, b)):
            rows = sorted({tuple(int(v) for v in row) for row in sup[:, j].tolist()})
            want = sorted(tuple(x) for x in s_["seqs"])
            psum = float(lp[:, j].double().exp().sum()) if sorted(tuple(int(v) for v in row) for row in sup[:, j].tolist()) == want else None
            if rows != want:
                _viol(ctx, dict(site="SimpleRandomSamplingWithoutReplacement.enumerate_support", kind="support_set", batched=True),
                      "batch element %d (given %d of %d): enumerated %r, spec %r" % (j, s_["given"], total, rows, want), case)
                break
            if psum is not None and abs(psum - 1.0) > 1e-5:  # float32 log-probabilities
                _viol(ctx, dict(site="SimpleRandomSamplingWithoutReplacement.log_prob", kind="normalisation", batched=True),
                      "batch element %d: probabilities over its enumerated support sum to %r" % (j, psum), case)
                break
    # tensor variant of the enumeration, batched over all (total, given)
    tot = torch.tensor([s["total"] for s in supports])
    giv = torch.tensor([s["given"] for s in supports])
    try:
        sup, bn = _est.quiet(F.enumerate_binary_sequences_with_cardinality, tot, giv)
        for i, s in enumerate(supports):
            rows = sorted(tuple(int(v) for v in row[: s["total"]]) for row in sup[i, : int(bn[i])].tolist())
            ctx.case(n=1)
            if int(bn[i]) != s["binom"] or rows != sorted(tuple(x) for x in s["seqs"]):
                _viol(ctx, dict(site="enumerate_binary_sequences_with_cardinality", kind="support_set", variant="tensor"),
                      "total=%d given=%d: binom %d rows %r; spec %d %r" % (s["total"], s["given"], int(bn[i]), rows,
                                                                          s["binom"], s["seqs"]),
                      dict(type="support_tensor", total=s["total"], given=s["given"]))
    except Exception as ex:
        _viol(ctx, dict(site="enumerate_binary_sequences_with_cardinality", kind="exception", exc=type(ex).__name__,
                        variant="tensor"), "raised %r" % ex, dict(type="support_tensor"))
    for v in vocab:
        case = dict(type="vocab", len=v["len"], v=v["v"])
        try:
            got = _est.quiet(F.enumerate_vocab_sequences, v["len"], v["v"])
            rows = sorted(tuple(int(x) for x in row) for row in got.tolist())
            if v["v"] == 2:
                got2 = _est.quiet(F.enumerate_binary_sequences, v["len"])
                rows2 = sorted(tuple(int(x) for x in row) for row in got2.tolist())
            else:
                rows2 = None
        except Exception as ex:
            _viol(ctx, dict(site="enumerate_vocab_sequences", kind="exception", exc=type(ex).__name__), "raised %r" % ex, case)
            continue
        want = sorted(tuple(x) for x in v["seqs"])
        ctx.case(key=("vocab", v["len"], v["v"]), nontrivial=v["len"] > 1 and v["v"] > 1)
        if rows != want or len(rows) != v["count"]:
            _viol(ctx, dict(site="enumerate_vocab_sequences", kind="support_set"), "got %r spec %r" % (rows, want), case)
        if rows2 is not None and rows2 != want:
            _viol(ctx, dict(site="enumerate_binary_sequences", kind="support_set"), "got %r spec %r" % (rows2, want), case)
    return supports


# ---------------------------------------------------------------------------------------------
def run_relaxed_parameters(ctx, cases):
    """The discrete (rational) face of the relaxed distributions: the probability that a relaxed sample
    thresholds to b -- `tlog_prob`, and the `probs` / `logits` views whichever way the distribution was
    constructed -- must be the spec's proposal probability k/D.  (The continuous clauses stay undecided.)"""
    from pydrobert.torch.distributions import GumbelOneHotCategorical, LogisticBernoulli

    seen = set()
    for cs in cases:
        key = (cs["dist"], tuple(cs["k"]), cs["D"])
        if key in seen:
            continue
        seen.add(key)
        D, kk = cs["D"], cs["k"]
        case = dict(type="relaxed_parameters", dist=cs["dist"], k=list(kk), D=D)
        try:
            if cs["dist"] == "bern":
                p = torch.tensor([k / D for k in kk], dtype=_est.DT)
                lg = _est.logits_of(cs, kk)
                for how, dist in (("logits", LogisticBernoulli(logits=lg)), ("probs", LogisticBernoulli(probs=p))):
                    views = dict(probs=dist.probs, logits_sigmoid=torch.sigmoid(dist.logits),
                                 tlog_prob_one=dist.tlog_prob(torch.ones_like(p)).exp(),
                                 tlog_prob_zero=1 - dist.tlog_prob(torch.zeros_like(p)).exp())
                    for name, got in views.items():
                        if got.shape != p.shape or not bool(((got - p).abs() <= 1e-9).all()):
                            _viol(ctx, dict(site="LogisticBernoulli", kind="threshold_probability", view=name, built_from=how),
                                  "LogisticBernoulli(%s=...).%s gives %r, the parameter is %r" % (how, name, got.tolist(), p.tolist()), case)
            else:
                w = torch.tensor([float(k) for k in kk], dtype=_est.DT)
                p = w / w.sum()
                variants = [("logits", GumbelOneHotCategorical(logits=w.log() + 0.75), p), ("probs", GumbelOneHotCategorical(probs=w), p)]
                if len(kk) >= 3:  # a category ruled out through its logit (-inf): probability zero, the others renormalised
                    w0 = w.clone()
                    w0[1] = 0.0
                    variants.append(("logits with a -inf entry", GumbelOneHotCategorical(logits=w0.log() - 0.5), w0 / w0.sum()))
                for how, dist, p in variants:
                    eye = torch.eye(len(kk), dtype=_est.DT)
                    views = dict(probs=dist.probs, logits_softmax=dist.logits.softmax(-1), tlog_prob=dist.tlog_prob(eye).exp())
                    for name, got in views.items():
                        if got.shape != p.shape or not bool(((got - p).abs() <= 1e-9).all()):
                            _viol(ctx, dict(site="GumbelOneHotCategorical", kind="threshold_probability", view=name, built_from=how),
                                  "GumbelOneHotCategorical(%s=...).%s gives %r, the parameter is %r" % (how, name, got.tolist(), p.tolist()), case)
        except (NameError, AttributeError, TypeError):
            raise  # a bug in this driver, not a finding
        except Exception as ex:
            _viol(ctx, dict(site="relaxed distributions", kind="exception", exc=type(ex).__name__), "raised %r" % ex, case)
        ctx.case(key=("relaxed_parameters",) + key, nontrivial=len(set(kk)) > 1, n=1)
    ctx.count("relaxed_parameter_cases", len(seen))


# ---------------------------------------------------------------------------------------------
# relaxed distributions: the discrete clauses (Relaxed.tla / RelaxedTrace.tla)
# ---------------------------------------------------------------------------------------------
RELAXED_MOD = os.path.join(os.path.dirname(_est.CARD_TRACE_MOD), "Relaxed.tla")
RELAXED_TRACE_MOD = os.path.join(os.path.dirname(_est.CARD_TRACE_MOD), "RelaxedTrace.tla")
QUNIT = 1e6


def _zq(dist, z):
    """abstract image of a relaxed vector: signs (bern) / dense ranks (cat) -- all the threshold may depend on"""
    vals = [float(v) for v in z]
    if dist == "bern":
        return [(-1 if v < 0 else (1 if v > 0 else 0)) for v in vals]
    order = sorted(set(vals))
    return [order.index(v) for v in vals]


def _bits(v, tol=0.0):
    """0 / 1, or 2 for "not a binary value"; tol > 0 only for the straight-through form b + z - z.detach(), whose
    VALUE the documentation calls the same discrete sample but which float addition may move by an ulp of z"""
    out = []
    for x in v:
        x = float(x)
        out.append(0 if abs(x) <= tol else (1 if abs(x - 1.0) <= tol else 2))
    return out


def _q(x):
    return int(round(float(x) * QUNIT))


def _eval_event(lp, tlp, clp, b):
    lp, tlp, clp = float(lp), float(tlp), float(clp)
    import math
    bad = not (math.isfinite(lp) and math.isfinite(tlp)) or math.isnan(clp) or clp == float("inf")
    if not bad and (abs(lp) > 2000 or abs(tlp) > 2000 or (math.isfinite(clp) and abs(clp) > 2000)):
        return None  # beyond what 32-bit quantised integers hold: not judged (a limit of the harness)
    inf = clp == -float("inf")
    if bad:
        return dict(a="eval", b=b, bad=True, inf=False, lp=0, tlp=0, clp=0)
    return dict(a="eval", b=b, bad=False, inf=inf, lp=_q(lp), tlp=_q(tlp), clp=0 if inf else _q(clp))


def _relaxed_objects(ctx):
    """(name, dist kind, n, constructor) over rational parameters k/D, built from probs and from logits"""
    from pydrobert.torch.distributions import GumbelOneHotCategorical, LogisticBernoulli

    DT = torch.float64
    objs = []
    bern = [[2], [1], [7], [4, 1], [1, 6, 4]] if ctx.quick else [[2], [1], [7], [4, 1], [1, 6, 4], [7, 7, 1], [3, 5], [4, 4, 4, 4]]
    for kk in bern:
        p = torch.tensor([k / 8 for k in kk], dtype=DT)
        objs.append(("LogisticBernoulli", "bern", len(kk), kk, 8, "probs", lambda p=p: LogisticBernoulli(probs=p)))
        objs.append(("LogisticBernoulli", "bern", len(kk), kk, 8, "logits", lambda p=p: LogisticBernoulli(logits=(p / (1 - p)).log())))
    # logits of large magnitude (threshold probabilities down to e^-25: the improbable side must factorise too)
    for lg in ([-25.0, 12.0], [25.0, -12.0, 0.5]):
        t = torch.tensor(lg, dtype=DT)
        objs.append(("LogisticBernoulli", "bern", len(lg), [int(x) for x in lg], 0, "extreme logits", lambda t=t: LogisticBernoulli(logits=t)))
    cat = [[1, 1], [1, 3], [1, 2, 5], [4, 3, 1], [2, 2, 2]] if ctx.quick else [[1, 1], [1, 3], [1, 2, 5], [4, 3, 1], [2, 2, 2], [1, 1, 1, 5], [6, 1, 1], [1, 6, 1], [1, 1, 6]]
    for kk in cat:
        w = torch.tensor([float(k) for k in kk], dtype=DT)
        objs.append(("GumbelOneHotCategorical", "cat", len(kk), kk, sum(kk), "probs", lambda w=w: GumbelOneHotCategorical(probs=w / w.sum())))
        objs.append(("GumbelOneHotCategorical", "cat", len(kk), kk, sum(kk), "logits", lambda w=w: GumbelOneHotCategorical(logits=w.log() - 1.25)))
    return objs


def _support(dist, n):
    import itertools
    if dist == "bern":
        return [list(t) for t in itertools.product((0, 1), repeat=n)]
    return [[1 if j == k else 0 for j in range(n)] for k in range(n)]


def collect_relaxed_traces(ctx):
    """one trace per (object, round): the calls made and what came back, abstracted as RelaxedTrace.tla says"""
    import itertools
    DT = torch.float64
    traces, meta = [], {}
    rounds = 6 if ctx.quick else 40
    grid1 = [-4.0, -1.0, -1e-3, 0.0, 1e-3, 1.0, 4.0]

    def add(site, dist, n, kk, D, how, events, note):
        tid = len(traces) + 1
        traces.append(dict(tid=tid, dist=dist, n=n, events=events))
        meta[tid] = dict(site=site, dist=dist, n=n, k=kk, D=D, built_from=how, note=note)

    def evals(site, dist, n, kk, D, how, d, z, tag):
        """eval events of the relaxed value z against every conditioning value"""
        thr = d.threshold(z)
        lp, tlp = d.log_prob(z), d.tlog_prob(thr)
        if dist == "cat":
            ev = [dict(a="set", zq=_zq(dist, z), thr=_bits(thr), finite=bool(torch.isfinite(z).all()))]
            for b in _support(dist, n):
                bt = torch.tensor(b, dtype=DT)
                ev.append(_eval_event(lp, tlp, d.clog_prob(z, bt), b))
            ev = [e for e in ev if e is not None]
            add(site, dist, n, kk, D, how, ev, tag)
        else:  # element-wise densities: one single-coordinate trace per coordinate
            cl = {bb: d.clog_prob(z, torch.full_like(z, float(bb))) for bb in (0, 1)}
            for j in range(n):
                ev = [dict(a="set", zq=_zq(dist, z[j:j + 1]), thr=_bits(thr[j:j + 1]), finite=bool(torch.isfinite(z[j])))]
                for bb in (0, 1):
                    ev.append(_eval_event(lp[j], tlp[j], cl[bb][j], [bb]))
                ev = [e for e in ev if e is not None]
                add(site, dist, 1, [kk[j]], D, how, ev, tag + " coord %d" % j)

    for site, dist, n, kk, D, how, make in _relaxed_objects(ctx):
        for va in (True, False):
            d = make()
            d._validate_args = va
            torch.manual_seed(ctx.seed * 7919 + 17 * len(traces))
            for rnd in range(rounds if va else max(2, rounds // 3)):
                ev = []
                z = d.rsample()
                thr = d.threshold(z)
                ev.append(dict(a="rsample", zq=_zq(dist, z), thr=_bits(thr), finite=bool(torch.isfinite(z).all())))
                thr_st = d.threshold(z, True)
                ev.append(dict(a="set", zq=_zq(dist, z), thr=_bits(thr_st.detach(), 1e-9), finite=bool(torch.isfinite(thr_st).all())))
                for b in [_bits(thr)] + _support(dist, n)[: (8 if ctx.quick else 16)]:
                    if 2 in b:
                        continue
                    bt = torch.tensor([float(x) for x in b], dtype=DT)
                    zc = d.csample(bt)
                    ev.append(dict(a="csample", b=b, zq=_zq(dist, zc), thr=_bits(d.threshold(zc)),
                                   finite=bool(torch.isfinite(zc).all())))
                add(site, dist, n, kk, D, how, ev, "samples validate_args=%s" % va)
                evals(site, dist, n, kk, D, how, d, z, "rsample value")
                # a conditional sample evaluated against every conditioning value
                b0 = _support(dist, n)[rnd % len(_support(dist, n))]
                zc = d.csample(torch.tensor([float(x) for x in b0], dtype=DT))
                evals(site, dist, n, kk, D, how, d, zc, "csample value")
            # batched conditioning values: sample_shape + event layout
            sup = _support(dist, n)
            B = torch.tensor(sup, dtype=DT)
            ZC = d.csample(B)
            TH = d.threshold(ZC)
            ev = [dict(a="csample", b=sup[i], zq=_zq(dist, ZC[i]), thr=_bits(TH[i]), finite=bool(torch.isfinite(ZC[i]).all()))
                  for i in range(len(sup))]
            add(site, dist, n, kk, D, how, ev, "batched csample")
        # grid values (ties included for the categorical: the threshold is the FIRST maximum)
        d = make()
        pts = list(itertools.product(grid1 if n <= 2 else [-1.0, 0.0, 0.5, 4.0], repeat=n)) if dist == "cat" else \
            [tuple(grid1[(i + j) % len(grid1)] for j in range(n)) for i in range(len(grid1))]
        if ctx.quick and len(pts) > 30:
            pts = pts[:: max(1, len(pts) // 30)]
        for pt in pts:
            evals(site, dist, n, kk, D, how, d, torch.tensor(pt, dtype=DT), "grid value")
    return traces, meta


def run_relaxed_traces(ctx):
    from . import _tracecheck

    cfgd = os.path.dirname(RELAXED_MOD)
    res = tlc.run(RELAXED_MOD, os.path.join(cfgd, "Relaxed_quick.cfg"), workers=8, timeout=900)
    tlc.require_ok(res, "Relaxed design check")
    tlc.require_covered(res, ["RSample", "DoCSample", "DoRecondition"], "Relaxed")
    ctx.add_tlc("Relaxed_quick", res)
    try:
        traces, meta = collect_relaxed_traces(ctx)
    except (NameError, AttributeError, TypeError, KeyError, IndexError):
        raise
    except Exception as ex:
        _viol(ctx, dict(site="relaxed distributions", kind="exception", exc=type(ex).__name__),
              "rsample / csample / threshold / *log_prob raised %r" % ex, dict(type="relaxed_trace_exception"))
        return
    verdict = _tracecheck.validate(ctx, "RelaxedTrace", RELAXED_TRACE_MOD, os.path.join(cfgd, "RelaxedTrace.cfg"),
                                   traces, timeout=1500, chunk=4000)
    kinds = {"rsample": "threshold_image", "set": "threshold_image", "csample": "csample_does_not_threshold_back",
             "eval": "density_factorisation"}
    for t in traces:
        m = meta[t["tid"]]
        nt = any(e["a"] == "eval" and not e["inf"] for e in t["events"]) or any(e["a"] == "csample" for e in t["events"])
        ctx.case(key=("relaxed", m["site"], m["built_from"], tuple(m["k"]), json.dumps(t["events"], sort_keys=True)),
                 nontrivial=nt, sample=dict(meta=m, events=t["events"][:4]) if t["tid"] % 499 == 7 else None)
        v = verdict.get(t["tid"])
        if v is None:
            continue
        ev = v.get("event") or {}
        kind = kinds.get(ev.get("a"), "trace_rejected")
        if ev.get("a") == "eval" and ev.get("bad"):
            kind = "density_not_finite"
        elif ev.get("a") in ("rsample", "set", "csample") and not ev.get("finite", True):
            kind = "sample_not_finite"
        elif ev.get("a") == "csample" and ev.get("thr") == ev.get("b"):
            kind = "threshold_image"
        _viol(ctx, dict(site=m["site"], kind=kind),
              "%s (%s, parameters %r/%d from %s): event %r rejected by RelaxedTrace (%s; matched %d events)" % (
                  m["site"], m["note"], m["k"], m["D"], m["built_from"], ev, v.get("why"), v.get("matched", 0)),
              dict(type="relaxed_trace", trace=t, meta=m))
    ctx.traces += len(traces)
    ctx.count("relaxed_traces_validated", len(traces))
    ctx.count("relaxed_events", sum(len(t["events"]) for t in traces))


def relaxed_selftest(ctx):
    """binding self-test: a conditional sample on the wrong side / a density off by 1e-3 / a finite density on the
    wrong branch must each be rejected"""
    from . import _tracecheck

    cfgd = os.path.dirname(RELAXED_MOD)
    good = dict(tid=1, dist="cat", n=3, events=[dict(a="csample", b=[0, 1, 0], zq=[0, 2, 1], thr=[0, 1, 0], finite=True),
                                                dict(a="eval", b=[0, 1, 0], bad=False, inf=False, lp=-3000000, tlp=-1000000, clp=-2000000),
                                                dict(a="eval", b=[1, 0, 0], bad=False, inf=True, lp=-3000000, tlp=-1000000, clp=0)])
    bad1 = dict(tid=2, dist="cat", n=3, events=[dict(a="csample", b=[0, 1, 0], zq=[2, 0, 1], thr=[1, 0, 0], finite=True)])
    bad2 = dict(tid=3, dist="bern", n=1, events=[dict(a="set", zq=[1], thr=[1], finite=True),
                                                 dict(a="eval", b=[1], bad=False, inf=False, lp=-3000000, tlp=-1000000, clp=-2001000)])
    bad3 = dict(tid=4, dist="bern", n=1, events=[dict(a="set", zq=[-1], thr=[0], finite=True),
                                                 dict(a="eval", b=[1], bad=False, inf=False, lp=-3000000, tlp=-1000000, clp=-2000000)])
    bad4 = dict(tid=5, dist="bern", n=2, events=[dict(a="rsample", zq=[0, -1], thr=[0, 0], finite=True)])
    v = _tracecheck.validate(ctx, "RelaxedTrace_selftest", RELAXED_TRACE_MOD, os.path.join(cfgd, "RelaxedTrace.cfg"),
                             [good, bad1, bad2, bad3, bad4])
    if v.get(1) is not None or any(v.get(i) is None for i in (2, 3, 4, 5)):
        raise MachineryError("RelaxedTrace self-test: verdicts %r" % v)
    ctx.count("relaxed_selftest_detected", 4)


def selftest(ctx, cases):
    """binding self-test: a corrupted spec weight / a wrong estimator must be flagged"""
    k = next(k for k in sorted(cases) if cases[k]["cs"]["est"] == "direct" and cases[k]["cs"]["n"] == 2
             and cases[k]["cs"]["M"] == 2 and len(set(cases[k]["cs"]["f"])) > 2)
    d = json.loads(json.dumps(cases[k]))
    d["tuples"][1]["w"] = [d["tuples"][1]["w"][0] + 1, d["tuples"][1]["w"][1]]

    class Probe:
        def __init__(self):
            self.counters, self.hits = {}, 0

        def count(self, name, n=1):
            self.counters[name] = self.counters.get(name, 0) + n

        def violation(self, *a):
            self.hits += 1

    p = Probe()
    judge_case(p, d, "indep", False, True)
    if not p.hits:
        raise MachineryError("self-test: a corrupted tuple weight was not detected")
    ctx.count("selftest_detected")


def run(ctx):
    ctx.rule = ("estimators: every case of Estimators.tla (proposal logits k/D, integer function and control-variate "
                "tables on 1-3 binary variables or a 3-class categorical, M samples) x every tuple of M samples TLC "
                "enumerates, replayed through the real estimator via a stubbed proposal.sample, batched and one by one, "
                "plain and log space; totals weighted by the spec's tuple probabilities compared with the spec's exact "
                "expectation and gradient; MH: every draw sequence. Cardinality: every output reachable through any "
                "outcome of the Bernoulli draws + seeded batched draws, validated as TLC traces; tables compared. "
                "non-trivial = non-constant function (estimators), post-burn-in draws with different values or burn-in "
                "> 0 (MH), 0 < given < total (cardinality); distinct by case/variant, draw sequence, vector")
    ctx.assumptions += [
        "NOT DECIDED (no reals in TLA+): exact value-mean of the relaxation-based estimators (RelaxEstimator / REBAR "
        "control variates, StraightThroughEstimator)",
        "relaxed distributions, decided at the abstraction of Relaxed.tla: threshold(csample(b)) = b and threshold = H on "
        "seeded draws (float64, both validate_args settings, single and batched conditioning values) - a statement about "
        "the draws made, not about every real number the samplers could return; the factorisation log_prob = tlog_prob + "
        "clog_prob and clog_prob = -inf off the branch on those draws and on a grid of relaxed values, logarithms "
        "quantised to 1e-6 (tolerance 3 units), |log-density| <= 2000",
        "NOT DECIDED: that log_prob IS the Logistic / Gumbel density (normalisation over the reals)",
        "NOT DECIDED: self-normalised importance sampling (documented as biased) and "
        "SequentialLanguageModelDistribution (covered under C07)",
        "probabilities are k/4 (quick) or k/4 and k/8 (thorough); functions and control variates are small integer "
        "tables; float64 logits so that the weighted totals are exact to 1e-9",
        "log-space estimators are judged through exp(estimate) (documented as the unbiased quantity); only cases with "
        "positive tables AND a positive per-tuple estimate f - c + mu_c (the log of a non-positive estimate is undefined)",
        "d log P / d logit = b - p (Bernoulli) and delta - p (softmax) are taken as the definition of the logits' "
        "parametrisation in the spec",
        "torch.bernoulli(p) can return 1 iff p > 0 and 0 iff p < 1; torch.rand can return any float32 in [0, 1)",
        "out_size >= 1 (a zero-sized vector dimension is outside the explored universe)",
    ]
    est_res, card_res = _est.run_specs(ctx)
    cases, mh = _est.group_estimator_records(est_res.records)
    if not cases or not mh:
        raise MachineryError("Estimators export is empty")
    selftest(ctx, cases)
    run_estimators(ctx, cases)
    run_relaxed_parameters(ctx, [d["cs"] for d in cases.values()])
    relaxed_selftest(ctx)
    run_relaxed_traces(ctx)
    run_mh(ctx, mh)
    supports = check_tables(ctx, card_res.records)
    traces = collect_traces(ctx, supports)
    validate_traces(ctx, traces)
    ctx.exhaustive = True
    ctx.extra["informational_divergences"] = {k: list(v) for k, v in sorted(INFO.items())}
    ctx.extra["estimator_cases"] = len([1 for d in cases.values() if d["cs"]["est"] != "mh"])
    ctx.extra["spec_sampler_paths"] = len([1 for r in card_res.records if r["kind"] == "path"])
    if len(ctx.samples) < 2:
        k = sorted(cases)[len(cases) // 3]
        ctx.samples.append(dict(case=cases[k]["cs"], E=cases[k]["E"], G=cases[k]["G"]))


def replay(ctx, case):
    if case.get("type") == "relaxed_parameters":
        run_relaxed_parameters(ctx, [dict(dist=case["dist"], k=case["k"], D=case["D"])])
        return
    t = case["type"]
    if t == "estimator":
        v = case["variant"]
        ok = judge_case(ctx, case["d"], v["rep"], v["is_log"], v["batched"])
        print("replay estimator %s: %s" % (case["d"]["cs"]["est"], "ok" if ok else "still differs"))
    elif t == "mh":
        v = case["variant"]
        ok = judge_mh(ctx, case["r"], v["is_log"], v["same_object"], v["umode"], v["seed"])
        print("replay mh: %s" % ("ok" if ok else "still fails"))
    elif t == "trace":
        tr = dict(case["trace"], tid=0, src="func")
        validate_traces(ctx, [tr])
    elif t == "srs_batch":
        from pydrobert.torch import functional as F
        from pydrobert.torch.distributions import SimpleRandomSamplingWithoutReplacement as SRS

        torch.manual_seed(case["seed"])
        cdt = torch.float if "float" in case.get("count_dtype", "int64") else torch.long
        tot, giv = torch.tensor(case["total"]).to(cdt), torch.tensor(case["given"]).to(cdt)
        tot0, giv0 = tot.clone(), giv.clone()
        try:
            dist = SRS(giv, tot, case["osz"]) if case["dist"] else None
            for draw in (1, 2):
                out = (dist.sample() if case["dist"]
                       else F.simple_random_sampling_without_replacement(tot, giv, case["osz"]))
                print("replay: draw", draw, "shape", tuple(out.shape), "ones per row", out.sum(-1).flatten().tolist(),
                      "given", giv.flatten().tolist())
                if not (torch.equal(tot, tot0) and torch.equal(giv, giv0)):
                    ctx.violation(dict(site="simple_random_sampling_without_replacement", kind="arguments_mutated"),
                                  "the caller's counts changed", case)
                    break
        except Exception as ex:
            ctx.violation(dict(site="simple_random_sampling_without_replacement", kind="exception"), repr(ex), case)
    else:
        # table cases: re-run the table comparison (cheap)
        _, card_res = _est.run_specs(ctx)
        check_tables(ctx, card_res.records)


if __name__ == "__main__":
    sys.exit(main(PROP, "model_checking", run, replay))
