"""C05 -- CTC prefix search reports true prefix mass, never more, never NaN.

CTCPrefix.tla: the standard prefix-beam recursion (blank / repeat / extend, extension merged into an
equal beam prefix, pruning by total mass with every tie resolution a behaviour) is checked by TLC
against the sum over ALL alignments (exact when nothing was pruned, never more otherwise), with and
without a fused language model whose weights depend on the whole prefix.
spec -> code: TLC exports every terminal beam of every case; the real CTCPrefixSearch is run on
batches mixing cases of different lengths (garbage in invalid frames); each element's
{prefix -> probability} over slots with positive probability must equal ONE of the spec's terminal
beams of its own case; ordering / distinctness / junk-slot clauses are checked on the raw output."""
import itertools
import math
import os
import sys
import threading

import torch

from .. import SPECS, tlc
from ..harness import MachineryError, main

PROP = "C05"
MOD = os.path.join(SPECS, "CTCPrefixMC.tla")
L = 3  # language-model denominator (CTCPrefix!L)
MODE_ARGS = {  # mode -> (beta, valid_mixture, extra denominator E)
    "none": (0.0, False, 1),
    "fusion": (1.0, False, L),
    "mix_half": (0.5, True, 2 * L),
    "mix_one": (1.0, True, L),
}


def configs(quick):
    """(V, T, widths, D, mode, dists, lmvars)"""
    out = [
        (2, 3, (1, 2, 3, 20), 4, "none", "AllDists", "{0}"),
        (1, 4, (1, 2, 40), 3, "none", "AllDistsZ", "{0}"),
        (2, 2, (1, 2, 40), 4, "none", "AllDistsZ", "{0}"),
        (2, 1, (3,), 4, "none", "AllDistsZ", "{0}"),
        (2, 0, (3,), 4, "none", "AllDistsZ", "{0}"),
    ]
    for mode in ("fusion", "mix_half", "mix_one"):
        out.append((2, 3, (1, 2, 20), 4, mode, "PosDists", "{0, 1}"))
        out.append((2, 2, (3,), 5, mode, "PosDists", "{0, 1}"))
    # long "gap" histories (a prefix pruned, later re-created, must merge with a surviving longer relative): the
    # recursion only -- its agreement with the sum over all alignments is established on the configs above
    out.append((2, 5, (3,) if quick else (2, 3, 4), 20, "none", "PeakyDists", "{0}", "deep"))
    if not quick:
        # T = 4: the all-alignments oracle enumerates 3^4 alignments per prefix and state
        out.append((2, 4, (1, 2, 3, 60), 4, "none", "PosDists", "{0}"))
        out.append((3, 3, (2, 4), 5, "none", "PosDists", "{0}"))
        out.append((1, 5, (2, 60), 3, "none", "AllDistsZ", "{0}"))
        for mode in ("fusion", "mix_half"):
            out.append((2, 4, (2, 60), 4, mode, "PosDists", "{0, 1}"))
    return out


def run_tlc(ctx):
    cfgs = configs(ctx.quick)
    results = [None] * len(cfgs)
    errs = []
    sem = threading.Semaphore(3)

    def job(i, c):
        V, T, Ws, D, mode, dists, lmv = c[:7]
        deep = len(c) > 7
        with sem:
            try:
                path = os.path.join(ctx.workdir, "ctc_%d.cfg" % i)
                tlc.write_cfg(path, constants=dict(V=V, T=T, Ws="{%s}" % ", ".join(map(str, Ws)), D=D, Mode='"%s"' % mode, Dists=("<-", dists), LMVars=lmv),
                              invariants=(["Shape", "Positive", "Export"] if deep else
                                          ["NoPruneIsExact", "NeverMore", "Shape", "Positive", "MassConserved", "Export", "ExportStep"]))
                results[i] = tlc.run(MOD, path, workers=8, timeout=3000, coverage=(T <= 2 and mode == "none"))
            except Exception as ex:
                errs.append(ex)

    ths = [threading.Thread(target=job, args=(i, c)) for i, c in enumerate(cfgs)]
    for th in ths:
        th.start()
    for th in ths:
        th.join()
    if errs:
        raise errs[0]
    cases = {}
    for c, res in zip(cfgs, results):
        name = "CTCPrefix/V%d_T%d_W%s_D%d_%s" % (c[0], c[1], "-".join(map(str, c[2])), c[3], c[4])
        tlc.require_ok(res, name)
        if c[1] > 0 and res.coverage:
            tlc.require_covered(res, ["Frame"], name)
        ctx.add_tlc(name, res)
        V, T, _, D, mode = c[0], c[1], c[2], c[3], c[4]
        for r in res.records:
            if r.get("kind") == "step":
                skey = (V, D, mode, r["W"], r["lmv"], r["t"], tuple(r["p"]), tuple(sorted((tuple(e["y"]), e["nb"], e["b"]) for e in r["prev"])))
                STEPS.setdefault(skey, []).append(r)
                continue
            key = (V, T, r["W"], D, mode, r["lmv"], tuple(tuple(f) for f in r["P"]))
            cases.setdefault(key, []).append(r)
    if not cases:
        raise MachineryError("no CTC cases exported")
    return cases


STEPS = {}


def lmw(V, lmv, y):
    """CTCPrefix!LMW as a list over labels (y over 0..V-1)"""
    from ..doubles.tablelm import code_of

    if V == 1:
        return [L]
    l1 = 1 + ((code_of(y, V) + lmv) % 2)
    return [l1, L - l1]


def replay_steps(ctx):
    """spec -> code for single Frame transitions: functional.ctc_prefix_search_advance applied to the spec's
    previous beam (slots in a seeded order, junk slots appended) must yield one of the spec's successor beams."""
    from pydrobert.torch import functional as F

    keys = sorted(STEPS)
    if ctx.quick and len(keys) > 2500:
        keys = ctx.rng.sample(keys, 2500)
    for skey in keys:
        V, D, mode, W, lmv, t, p, prev = skey
        beta, mix, E = MODE_ARGS[mode]
        prev = list(prev)
        ctx.rng.shuffle(prev)
        njunk = ctx.rng.choice((0, 0, 1, 2)) if t > 1 else 0
        Kp = len(prev) + njunk
        S = t - 1
        y_prev = torch.zeros(S, 1, Kp, dtype=torch.long)
        lens = torch.zeros(1, Kp, dtype=torch.long)
        last = torch.zeros(1, Kp, dtype=torch.long)
        nb = torch.full((1, Kp), -math.inf, dtype=torch.double)
        b = torch.full((1, Kp), -math.inf, dtype=torch.double)
        ext = torch.zeros(1, Kp, V, dtype=torch.double)
        for k, (y, nbk, bk) in enumerate(prev):
            y0 = [v - 1 for v in y]
            for i in range(S):
                y_prev[i, 0, k] = y0[i] if i < len(y0) else ctx.rng.randrange(V)
            lens[0, k] = len(y0)
            last[0, k] = y0[-1] if y0 else ctx.rng.randrange(V)
            den = float(D ** (t - 1) * E ** len(y0))
            nb[0, k], b[0, k] = nbk / den, bk / den
            lw = lmw(V, lmv, y0)
            for v in range(V):
                if mode == "none":
                    ext[0, k, v] = p[v] / D
                elif mode == "fusion":
                    ext[0, k, v] = (p[v] / D) * (lw[v] / L)
                elif mode == "mix_half":
                    ext[0, k, v] = 0.5 * p[v] / D + 0.5 * (lw[v] / L) * (1 - p[V] / D)
                else:
                    ext[0, k, v] = (lw[v] / L) * (1 - p[V] / D)
        for k in range(len(prev), Kp):  # junk slots: -inf mass, arbitrary content, prefix of nothing
            for i in range(S):
                y_prev[i, 0, k] = ctx.rng.randrange(V)
            ext[0, k] = torch.tensor([p[v] / D for v in range(V)], dtype=torch.double)
        paths = [tuple(v - 1 for v in y) for y, _, _ in prev]
        isp = torch.zeros(1, Kp, Kp, dtype=torch.bool)
        for i, a in enumerate(paths):
            for j, c in enumerate(paths):
                isp[0, i, j] = len(a) <= len(c) and c[: len(a)] == a
        nonext = torch.tensor([[p[v] / D for v in range(V)]], dtype=torch.double)
        blank = torch.tensor([p[V] / D], dtype=torch.double)
        case = dict(step=dict(V=V, D=D, mode=mode, W=W, lmv=lmv, t=t, p=list(p), prev=[[list(y), n_, b_] for y, n_, b_ in prev], junk=njunk))
        try:
            y_next, y_last, y_lens, (nb2, b2), isp2, src, is_nonext = F.ctc_prefix_search_advance(
                (ext, nonext, blank), W, (nb, b), y_prev, last, lens, isp)
        except Exception as ex:
            ctx.violation(dict(site="ctc_prefix_search_advance", kind="exception", mode=mode), "raised %r" % ex, case)
            continue
        ctx.case(n=1)
        ctx.count("advance_steps")
        tot = (nb2 + b2)[0].tolist()
        if any(x != x for x in tot) or any(x != x for x in nb2[0].tolist()) or any(x != x for x in b2[0].tolist()):
            ctx.violation(dict(site="ctc_prefix_search_advance", kind="nan", mode=mode), "NaN mass %r" % (tot,), case)
            continue
        got = {}
        dup = False
        for k in range(len(tot)):
            if not tot[k] > 0:
                continue
            n = int(y_lens[0, k])
            pref = tuple(y_next[:n, 0, k].tolist())
            if pref in got:
                dup = True
            den = float(D ** t * E ** n)
            got[pref] = (float(nb2[0, k]) * den, float(b2[0, k]) * den)
        if dup:
            ctx.violation(dict(site="ctc_prefix_search_advance", kind="duplicate", mode=mode), "a prefix with positive mass appears twice", case)
            continue
        for succ in STEPS[skey]:
            want = {tuple(v - 1 for v in e["y"]): (e["nb"], e["b"]) for e in succ["beam"]}
            if set(want) == set(got) and all(abs(got[q][0] - want[q][0]) <= 1e-6 * max(1, want[q][0]) and
                                             abs(got[q][1] - want[q][1]) <= 1e-6 * max(1, want[q][1]) for q in want):
                break
        else:
            ctx.violation(dict(site="ctc_prefix_search_advance", kind="successor", mode=mode),
                          "result %r is none of the %d legal successor beams of the given beam" % (got, len(STEPS[skey])), case)


def make_lm(V, T, lmvs):
    """TableLM with one table per batch element; weights = CTCPrefix!LMW"""
    from ..doubles.tablelm import TableLM, code_of

    tables = []
    for lmv in lmvs:
        tab = {}
        for n in range(T + 1):
            for y in itertools.product(range(V), repeat=n):
                c = code_of(y, V)
                if V == 1:
                    tab[c] = [float(L)]
                else:
                    l1 = 1 + ((c + lmv) % 2)
                    tab[c] = [float(l1), float(L - l1)]
        tables.append(tab)
    return TableLM(V, tables, strict=True)


def judge_element(ctx, key, accepted, y, y_lens, y_probs, n, tag, batch_case):
    """clauses of C05 for batch element n against the accepted terminal beams of its case"""
    V, T, W, D, mode, lmv, P = key
    E = MODE_ARGS[mode][2]
    probs = y_probs[n].tolist()
    lens = y_lens[n].tolist()
    case = dict(key=dict(V=V, T=T, W=W, D=D, mode=mode, lmv=lmv, P=[list(f) for f in P]), batch=batch_case, element=n,
                got=dict(probs=["%r" % p for p in probs], lens=lens, y=y[:, n].t().tolist()))

    def bad(kind, detail):
        return ctx.violation(dict(site="CTCPrefixSearch", kind=kind, mode=mode, wide=W > 10), detail, case)

    if len(probs) != W:
        bad("shape", "returned %d slots for width %d" % (len(probs), W))
        return
    if any(p != p for p in probs):
        bad("nan", "NaN probability in the returned beam: %r" % (probs,))
        return
    real = [k for k in range(W) if probs[k] > 0 and probs[k] != math.inf]
    junk = [k for k in range(W) if k not in real]
    for k in junk:
        if not (probs[k] == 0 or probs[k] == -math.inf):
            bad("junk_value", "slot %d holds %r (neither a positive probability, zero nor -inf)" % (k, probs[k]))
            return
    if real and junk and max(real) > min(junk):
        bad("junk_before_real", "a slot without a real prefix precedes a real one: %r" % (probs,))
    for a, b in zip(real, real[1:]):
        if probs[a] < probs[b] * (1 - 1e-9):
            bad("order", "probabilities not non-increasing: %r" % (probs,))
            break
    got = {}
    for k in real:
        ln = lens[k]
        pref = tuple(y[:ln, n, k].tolist()) if ln <= y.size(0) else None
        if pref is None or ln > T:
            bad("length", "prefix in slot %d has length %d > %d frames" % (k, ln, T))
            return
        if any(tok < 0 or tok >= V for tok in pref):
            bad("blank_in_prefix", "prefix %r contains a non-label" % (pref,))
            return
        if pref in got:
            bad("duplicate", "prefix %r appears twice with positive mass" % (pref,))
            return
        got[pref] = probs[k]
    # membership in the accepted set
    best = None
    for beam in accepted:
        want = {tuple(v - 1 for v in e["y"]): (e["nb"] + e["b"]) / float(D ** T * E ** len(e["y"])) for e in beam["beam"]}
        if set(want) != set(got):
            continue
        if all(abs(got[p] - want[p]) <= 1e-6 * want[p] for p in want):
            return
        best = want
    if best is not None:
        over = any(got[p] > best[p] * (1 + 1e-6) for p in best)
        bad("mass_too_large" if over else "mass", "prefix set matches a legal beam but masses differ: got %r, recursion gives %r" % (got, best))
    else:
        legal = [sorted(tuple(v - 1 for v in e["y"]) for e in beam["beam"]) for beam in accepted]
        missing = all(len(lb) > len(got) for lb in legal)
        bad("prefix_lost" if missing else "prefix_set",
            "returned prefixes %r with masses %r are none of the %d legal beams %r" % (sorted(got), got, len(legal), legal[:4]))


def run_batch(ctx, keys, cases, tag):
    """keys: list of case keys sharing (V, W, D, mode); different T / P / lmv per element"""
    from pydrobert.torch.modules import CTCPrefixSearch

    V, _, W, D, mode, _, _ = keys[0]
    beta, mix, E = MODE_ARGS[mode]
    N = len(keys)
    Tmax = max(k[1] for k in keys)
    rng = ctx.rng
    logits = torch.empty(Tmax, N, V + 1, dtype=torch.double)
    nonfinite = rng.choice((None, None, -math.inf, math.nan, math.inf))
    for n, k in enumerate(keys):
        for t in range(Tmax):
            if t < k[1]:
                w = [k[6][t][v] for v in range(V + 1)]
            else:
                w = [rng.choice((1, 2, 7)) for _ in range(V + 1)]  # garbage beyond the element's length
                if nonfinite is not None:
                    logits[t, n] = nonfinite  # ... which may just as well be non-finite
                    continue
            logits[t, n] = torch.tensor([math.log(x) if x > 0 else -math.inf for x in w], dtype=torch.double)
    lens = torch.tensor([k[1] for k in keys])
    use_lens = not all(k[1] == Tmax for k in keys) or rng.random() < 0.5
    lm = make_lm(V, Tmax, [k[5] for k in keys]) if mode != "none" else None
    if mode == "none" and V <= 2 and rng.random() < 0.3:
        # a language model with beta = 0 must be ignored altogether (whatever valid_mixture says)
        lm = make_lm(V, Tmax, [rng.choice((0, 1)) for _ in keys])
        mix = rng.random() < 0.5
    search = CTCPrefixSearch(W, beta, lm, mix)
    batch_case = dict(logits=[[[("%r" % x) for x in row] for row in fr] for fr in logits.tolist()], lens=lens.tolist() if use_lens else None,
                      width=W, beta=beta, valid_mixture=mix, lm_variants=[k[5] for k in keys] if lm is not None else None, tag=tag)
    try:
        init = {"elem": torch.arange(N)} if lm is not None else None
        y, y_lens, y_probs = search(logits, lens if use_lens else None, init)
    except Exception as ex:
        ctx.violation(dict(site="CTCPrefixSearch", kind="exception", mode=mode, wide=W > 10), "raised %r" % ex, dict(batch=batch_case))
        return
    for n, k in enumerate(keys):
        judge_element(ctx, k, cases[k], y, y_lens, y_probs.double(), n, tag, batch_case)


def run(ctx):
    ctx.rule = ("cases = (frame weight matrix P over D units, width, mode, language-model variant) enumerated exhaustively by TLC "
                "(see tlc_runs); every case is searched alone and inside seeded ragged batches (mixed lengths incl. 0, garbage in "
                "invalid frames) by the real CTCPrefixSearch; verdict = the positive-probability {prefix -> mass} map is one of the "
                "spec's terminal beams for that case + ordering/distinct/junk-slot clauses; non-trivial = case with >= 2 frames whose "
                "accepted beams have >= 2 prefixes; distinct by case key")
    ctx.assumptions += ["frame weights are integers over D (logits = log weight, -inf for weight 0), masses compared at 1e-6 relative",
                        "language-model weights depend on the whole prefix through threaded state (TableLM); beta in {0, 1/2, 1}",
                        "exactly tied masses may be ordered either way (every tie resolution is a spec behaviour)"]
    cases = run_tlc(ctx)
    ctx.exhaustive = True
    # group cases that may share a batch
    groups = {}
    for k in cases:
        groups.setdefault((k[0], k[2], k[3], k[4]), []).append(k)
    for g, keys in sorted(groups.items()):
        keys.sort()
        for k in keys:
            nt = k[1] >= 2 and max(len(b["beam"]) for b in cases[k]) >= 2
            ctx.case(key=k, nontrivial=nt, n=1,
                     sample=dict(V=k[0], T=k[1], width=k[2], D=k[3], mode=k[4], frame_weights=[list(f) for f in k[6]],
                                 legal_terminal_beams=[[(e["y"], e["nb"] + e["b"]) for e in b["beam"]] for b in cases[k]][:3])
                     if ctx.rng.random() < 0.0008 else None)
            ctx.traces += 1
        # alone
        lim = len(keys) if (not ctx.quick or len(keys) <= 400) else 400
        alone = keys if lim == len(keys) else ctx.rng.sample(keys, lim)
        for k in alone:
            run_batch(ctx, [k], cases, "alone")
        # ragged batches of 2-4 elements
        nb = max(20, len(keys) // (6 if ctx.quick else 2))
        for _ in range(nb):
            ks = [ctx.rng.choice(keys) for _ in range(ctx.rng.choice((2, 3, 4)))]
            run_batch(ctx, ks, cases, "batch")
            ctx.case(n=len(ks))
    replay_steps(ctx)
    if not ctx.samples:
        k = sorted(cases)[len(cases) // 2]
        ctx.samples.append(dict(V=k[0], T=k[1], width=k[2], D=k[3], mode=k[4], frame_weights=[list(f) for f in k[6]]))


def replay(ctx, case):
    if "step" in case:
        print("single-step case; re-run the check to reproduce:", case["step"])
        return
    from pydrobert.torch.modules import CTCPrefixSearch

    b = case["batch"]
    logits = torch.tensor([[[float(x) for x in row] for row in fr] for fr in b["logits"]], dtype=torch.double)
    lens = torch.tensor(b["lens"]) if b["lens"] is not None else None
    T, N, Vp1 = logits.shape
    lm = make_lm(Vp1 - 1, T, b["lm_variants"]) if b.get("lm_variants") is not None else None
    y, y_lens, y_probs = CTCPrefixSearch(b["width"], b["beta"], lm, b["valid_mixture"])(
        logits, lens, {"elem": torch.arange(N)} if lm is not None else None)
    print("replay: probs", y_probs.tolist(), "lens", y_lens.tolist())
    if "key" not in case:
        return
    k = case["key"]
    # recompute the accepted set for this one case with TLC
    mcpath = os.path.join(ctx.workdir, "CTCReplay.tla")
    with open(mcpath, "w") as f:
        f.write("---- MODULE CTCReplay ----\nEXTENDS CTCPrefix\nOneP == {%s}\n====\n" % ", ".join(
            "<<" + ", ".join(str(x) for x in fr) + ">>" for fr in {tuple(fr) for fr in k["P"]}))
    cfg = os.path.join(ctx.workdir, "CTCReplay.cfg")
    tlc.write_cfg(cfg, constants=dict(V=k["V"], T=k["T"], Ws="{%d}" % k["W"], D=k["D"], Mode='"%s"' % k["mode"], Dists=("<-", "OneP"), LMVars="{%d}" % k["lmv"]),
                  invariants=["Export"])
    res = tlc.run(mcpath, cfg, workers=2, lib=SPECS, coverage=False)
    tlc.require_ok(res, "CTCReplay")
    P = tuple(tuple(f) for f in k["P"])
    acc = [r for r in res.records if tuple(tuple(f) for f in r["P"]) == P]
    key = (k["V"], k["T"], k["W"], k["D"], k["mode"], k["lmv"], P)
    judge_element(ctx, key, acc, y, y_lens, y_probs.double(), case["element"], "replay", b)


if __name__ == "__main__":
    sys.exit(main(PROP, "model_checking", run, replay))
