"""Batched code->spec trace validation (shared by the C12/C13/C14 drivers).

A trace spec `XTrace.tla` reads `IOEnv.TRACE_FILE` (a JSON list of traces, each with a unique
`tid` and, for multi-step traces, a list `events`), consumes one event per step through the
original actions of `X` conjoined with the logged arguments, and requires the design invariants
of `X` of every state it steps into (they are part of the step relation: a trace whose next state
would violate one is stuck there).  It

  * emits  [what |-> "accepted", tid |-> ...]  when a trace has been consumed completely,
  * has POSTCONDITION  "number accepted = number of traces",
  * in the diagnosis run (IOEnv.PROGRESS = "1", rejected traces only) keeps invariant-violating
    states and emits [what |-> "progress", tid, pos, failed |-> {violated invariants}] at every
    state (and optionally [what |-> "expected", tid, outs] for one-step traces).

`validate` returns {tid: verdict} with verdict None (accepted) or a dict
{matched: <events consumed>, why: "no-successor" | "invariant <Name>", event: <first unmatched or
the one that led into the violating state>}.
"""
import json
import os
import re
import threading

from .. import tlc
from ..harness import MachineryError


_LOCK = threading.Lock()


def _run(ctx, module, cfg, traces, progress, name, timeout):
    with _LOCK:
        n = getattr(ctx, "_tracecheck_files", 0) + 1
        ctx._tracecheck_files = n
    path = os.path.join(ctx.workdir, "traces_%s_%d.json" % (re.sub(r"\W", "_", name), n))
    with open(path, "w") as f:
        json.dump(traces, f)
    return tlc.run(module, cfg, workers=1, coverage=False, timeout=timeout,
                   env={"TRACE_FILE": path, "PROGRESS": "1" if progress else "0"})


def validate(ctx, name, module, cfg, traces, timeout=1500, chunk=None, want_expected=False):
    """traces: list of dicts (each with 'tid' and, for multi-step traces, 'events')."""
    tids = [t["tid"] for t in traces]
    if len(set(tids)) != len(tids):
        raise MachineryError("duplicate trace ids")
    verdict = {}
    if not traces:
        return verdict
    if chunk and len(traces) > chunk:
        # independent batches: one JVM each, a few at a time
        from concurrent.futures import ThreadPoolExecutor

        parts = [traces[i:i + chunk] for i in range(0, len(traces), chunk)]
        with ThreadPoolExecutor(max_workers=4) as pool:
            for v in pool.map(lambda part: validate(ctx, name, module, cfg, part, timeout,
                                                    want_expected=want_expected), parts):
                verdict.update(v)
        return verdict
    res = _run(ctx, module, cfg, traces, False, name, timeout)
    with _LOCK:
        ctx.add_tlc(name, res)
    accepted = set(r["tid"] for r in res.records if r.get("what") == "accepted")
    unknown = accepted - set(tids)
    if unknown:
        raise MachineryError("%s: TLC accepted unknown traces %r" % (name, sorted(unknown)[:3]))
    rejected = [t for t in traces if t["tid"] not in accepted]
    for t in traces:
        if t["tid"] in accepted:
            verdict[t["tid"]] = None
    if res.ok:
        if rejected:
            raise MachineryError("%s: TLC reported success but did not accept %r" % (
                name, [t["tid"] for t in rejected[:3]]))
        return verdict
    if not rejected:
        raise MachineryError("%s: TLC failed although every trace was accepted: %s\n%s" % (
            name, res.error, res.stdout[-3000:]))
    if "Post" not in (res.error or "") and "ostcondition" not in res.stdout:
        raise MachineryError("%s: trace validation failed in an unexpected way: %s\n%s" % (
            name, res.error, res.stdout[-3000:]))
    # diagnosis: longest matched prefix / first violated invariant of each rejected trace
    res2 = _run(ctx, module, cfg, rejected, True, name + "_diag", timeout)
    seen, expected = {}, {}
    for r in res2.records:
        if r.get("what") == "progress":
            seen.setdefault(r["tid"], {})[r["pos"]] = sorted(r.get("failed") or [])
        elif r.get("what") == "expected":
            expected[r["tid"]] = r.get("outs")
    for t in rejected:
        st = seen.get(t["tid"], {})
        evs = t.get("events") or []
        bad = sorted(p for p, f in st.items() if f)
        if bad:
            k = bad[0]
            verdict[t["tid"]] = dict(matched=k, why="invariant " + st[k][0], failed=st[k],
                                     event=evs[k - 1] if 0 < k <= len(evs) else None)
        else:
            k = max(st) if st else 0
            verdict[t["tid"]] = dict(matched=k, why="no-successor", event=evs[k] if k < len(evs) else None)
        if want_expected:
            verdict[t["tid"]]["expected"] = expected.get(t["tid"])
    return verdict
