"""X02 (extra, beyond the listed properties) -- the language-model state protocol.

LMState.tla: N batch slots, two registers (prev / in_next) of per-slot history + model state; one action per protocol
call the decoders make (Step = calc_idx_log_probs, ExtractP/ExtractQ = extract_by_src, Mix = mix_by_mask, Take,
AppendP/AppendQ, Full = forward(idx=None)).  Declarative side: the answer for a slot is Dist(prefix of the slot's own
history), Dist a table over the last K tokens of the start-symbol padded prefix with integer log-weights.  TLC checks
over every interleaving: HistoryDetermined, StepIsDist (state-threaded answer = Dist, fusion = first + beta * second),
ExtractLaws, MixLaws, WindowIsLastK (the n-gram window cut out of the padded matrix), FullIsSteps; and that three
deliberately broken protocols violate them.
spec -> code: every behaviour of d calls (exhaustive universe) and long scripted behaviours (decoder-shaped call
sequences drawn by the harness; legality and answers decided by the specification) are replayed call by call into
real LookupLanguageModel objects (float32, float64, torch.jit.script) and Shallow/Extractable/Mixable fusion models of
LookupLanguageModel and the TableLM double (beta in {0, 0.5, 1, 2}); every returned log-probability row and every
observable state is compared with what the specification exported."""
import json
import os
import sys

from .. import SPECS, par, tlc
from ..harness import MachineryError, main
from . import _lmstate as lms

PROP = "X02"

FREE = dict(name="free", N=2, V=2, L=2, K1=1, K2=2, sos_in=False)
SCRIPTED = [
    dict(name="s333", N=3, V=3, L=4, K1=2, K2=1, sos_in=True),
    dict(name="s324", N=3, V=2, L=4, K1=1, K2=2, sos_in=False),
    dict(name="s233", N=2, V=3, L=3, K1=0, K2=2, sos_in=False),
]
STATELESS = ["lookup1", "lookup2", "lookup1_f64", "lookup2_f64", "lookup1_script", "lookup2_script"]


def variant_names():
    names = list(STATELESS) + ["table1"]
    for b2 in lms.BETA2S:
        names += ["mix_lookup1_table2_b%d" % b2, "mix_lookup1_lookup2_b%d" % b2]
    names += ["mix_table1_lookup2_b1_prefixes", "mix_table1_table2_b4_f64", "mix_lookup1f64_table2_b2",
              "mix_lookup1_table2f32_b1", "mix_lookup1_table2loose_b2", "ext_lookup1_table2_b1", "ext_table1_lookup2_b4",
              "plain_lookup1_table2_b2", "plain_table1_table2_b0"]
    return names


def design(ctx):
    cfgs = ["design_quick"] if ctx.quick else ["design_quick", "design_thorough_a", "design_thorough_b", "design_thorough_c"]
    for c in cfgs:
        res = tlc.run(lms.MOD, os.path.join(SPECS, "LMState_%s.cfg" % c), workers=16, timeout=2400)
        tlc.require_ok(res, "LMState/" + c)
        tlc.require_covered(res, lms.FREE_ACTIONS, "LMState/" + c)
        ctx.add_tlc("LMState/" + c, res)
    for f in ("extract", "mix", "window"):
        res = tlc.run(lms.MOD, os.path.join(SPECS, "LMState_fault_%s.cfg" % f), workers=4, timeout=1200, coverage=False)
        if res.ok:
            raise MachineryError("LMState with the broken protocol %r violates no invariant: the design invariants are vacuous" % f)
        ctx.add_tlc("LMState/fault_%s (expected violation)" % f, res, count_states=False)


def pick_variants(rng, k, names):
    """always the plain lookup model and one fusion with a stateful second model; k more, rotating"""
    base = ["lookup1", "mix_lookup1_table2_b1"]
    rest = [n for n in names if n not in base]
    return base + rng.sample(rest, min(k, len(rest)))


def make_jobs(ctx, u, tables, behs, per_beh):
    names = variant_names()
    jobs = []
    for i, b in enumerate(behs):
        sos = 0 if u["sos_in"] else ctx.rng.choice((-1, u["V"], u["V"] + 3))
        jobs.append(dict(u=u, tables=tables, beh=b, variants=names if per_beh is None else pick_variants(ctx.rng, per_beh, names),
                         seed=ctx.rng.randrange(1 << 30), sos=sos, dup=(i % 5 == 0)))
    return jobs


def replay_chunk(jobs):
    return [lms.replay_behaviour(j) for j in jobs]


def account(ctx, jobs, results):
    for j, r in zip(jobs, results):
        b = j["beh"]
        ops = [o["op"] for o in b["ops"][1:]]
        for o in ops:
            ctx.count("calls_" + o)
        ctx.case(key=(j["u"]["name"], lms.script_of(b)), nontrivial=lms.nontrivial(b), n=max(r["n"], 1),
                 sample=dict(universe=j["u"], sos=j["sos"], variants=j["variants"], behaviour=b) if ctx.rng.random() < 0.0005 else None)
        ctx.traces += r["runs"]
        for sig, detail, case in r["viol"]:
            if sig["site"].startswith("TableLM"):
                raise MachineryError("the TableLM double disagrees with the specification: %s %s" % (sig, detail))
            ctx.violation(sig, detail, case)


def run(ctx):
    ctx.rule = ("(a) every behaviour of d calls (d = 3 quick, 4 thorough) of the 2-slot, 2-token universe, calls that cannot "
                "tell anything (gather / mix of registers whose slots agree) left out; (b) scripted behaviours of 14 calls "
                "(beam-search rounds, CTC-prefix-search rounds, scoring, random soups) in three larger universes; each "
                "behaviour is replayed into lookup1 + one stateful fusion + rotating further model variants (all variants "
                "for scripted behaviours in the thorough tier); non-trivial = some step answers differently for two slots; "
                "distinct by (universe, initial histories, call sequence); evaluations = compared result rows / states")
    ctx.assumptions += ["this check is not tied to a listed property (extra coverage)",
                        "log-weights are negative integers (exact in float32); fused values are compared as (2*first + 2*beta*second)/2",
                        "histories are padded with in-vocabulary garbage beyond each slot's length; hist is always (S, N) as documented "
                        "(a (N1, N2) batch is flattened the way the decoders do, src offset by row)",
                        "torch.jit.script only for LookupLanguageModel (the fusion classes document that they do not support it)",
                        "the second/first model of a fusion with observable state is the TableLM double (strict: it trusts the threaded state)"]
    design(ctx)
    work = ctx.subdir("lmstate")
    import warnings

    with warnings.catch_warnings():  # import once, before the replay workers are forked (torch.jit.script deprecation notices)
        warnings.simplefilter("ignore")
        import pydrobert.torch.modules  # noqa: F401

        from ..doubles import tablelm  # noqa: F401
    # (a) exhaustive
    depth = 3 if ctx.quick else 4
    tables, behs, res = lms.run_free(ctx, FREE, depth, work)
    ctx.add_tlc("LMState/free depth %d" % depth, res)
    jobs = make_jobs(ctx, FREE, tables, behs, 2 if ctx.quick else 3)
    # (b) scripted
    count = 240 if ctx.quick else 2000
    for u in SCRIPTED:
        scripts = lms.gen_scripts(ctx.rng, u, count, 14)
        t, bs, res = lms.run_scripted(ctx, u, scripts, work, "run")
        ctx.add_tlc("LMState/scripted %s" % u["name"], res)
        seen = {o["op"] for b in bs for o in b["ops"]}
        missing = [o for o in lms.OPS if o not in seen]
        if missing:
            raise MachineryError("scripted behaviours of %s never make the calls %s" % (u["name"], missing))
        jobs += make_jobs(ctx, u, t, bs, 5 if ctx.quick else None)
    if not jobs:
        raise MachineryError("no behaviours exported")
    chunks = par.chunks(jobs, 16 * 12)
    results = [r for rs in par.pmap(replay_chunk, chunks, chunksize=1) for r in rs]
    account(ctx, jobs, results)
    ctx.exhaustive = False
    ctx.extra["behaviours_exhaustive"] = len(behs)
    ctx.extra["behaviours_scripted"] = len(jobs) - len(behs)
    ctx.extra["model_variants"] = variant_names()
    if not ctx.samples:
        j = jobs[len(jobs) // 2]
        ctx.samples.append(dict(universe=j["u"], sos=j["sos"], variants=j["variants"], behaviour=j["beh"]))


def replay(ctx, case):
    """TLC recomputes the behaviour of the stored call sequence; the named model variant is driven through it again"""
    u = case["u"]
    tables, behs, _ = lms.run_scripted(ctx, u, [case["script"]], ctx.subdir("lmstate_replay"), "replay", workers=1)
    r = lms.replay_behaviour(dict(u=u, tables=tables, beh=behs[0], variants=[case["variant"]], seed=case["seed"], sos=case["sos"],
                                  dup=case.get("dup", False)))
    print("replayed %d calls into %s: %d comparison(s), %d violation(s)" % (len(behs[0]["ops"]) - 1, case["variant"], r["n"], len(r["viol"])))
    for sig, detail, c in r["viol"]:
        print("  ", json.dumps(sig, sort_keys=True), detail)
        ctx.violation(sig, detail, c)


if __name__ == "__main__":
    sys.exit(main(PROP, "model_checking", run, replay))
